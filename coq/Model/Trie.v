(* C05 / C06 — executable model of algz/trie.go (algorithm level) and the specification side.

   A node is identified with its word: the list of rune VALUES on the path from the root (the root is []).
   A rune value is what decodeRune returns: the code point of a well-formed UTF-8 sequence, or
   invalid_byte_base + b for a byte b that is not part of one (width 1).  The arena is a table
   word -> (children values in ascending order, fail link, byte size, isEnd).  Child c of node w is node w ++ [c].

   Everything Go can panic on is checked: slice expressions, bytes.Buffer.Truncate, a nil fail pointer
   (fail = None: the node was inserted after the last BuildFailureLinks).  Loops that do not consume
   their input are fuelled; exhaustion is reported as NoFuel (never observed; see Proofs/). *)
From Coq Require Import List ZArith Bool Arith.
From V Require Import Lib.Utf8 Gen.Trie.
Import ListNotations.
Local Open Scope Z_scope.

Notation word := (list Z) (only parsing).      (* rune values *)
Notation bytes := (list Z) (only parsing).     (* 0..255 *)

Inductive res (A : Type) : Type := Ok (a : A) | Panic | NoFuel.
Arguments Ok {A} a.
Arguments Panic {A}.
Arguments NoFuel {A}.

(* ------------------------------------------------------------------ runes *)
(* decodeRune(s, i) on s[i:] (non-empty): ASCII fast path, else utf8.DecodeRuneInString; an invalid byte b
   becomes the value invalidByteBase + b, width 1 *)
Definition decode_rune (s : bytes) : Z * nat :=
  match s with
  | [] => (RuneError, 0%nat)
  | b :: _ =>
      if b <? rune_self then (b, 1%nat)
      else let (r, w) := decode s in
           if (r =? RuneError) && Nat.eqb w 1 then (invalid_byte_base + b, 1%nat) else (r, w)
  end.

(* writeRune: values >= invalidByteBase are written back as the byte; others through bytes.Buffer.WriteRune *)
Definition write_rune (r : Z) : bytes :=
  if invalid_byte_base <=? r then [(r - invalid_byte_base) mod 256] else encode_rune r.

(* the loop  for i := 0; i < len(s); { r, size = decodeRune(s, i); i += size; ... }  visits these (value, width) pairs *)
Fixpoint tokens_fuel (fuel : nat) (s : bytes) : list (Z * nat) :=
  match fuel with
  | O => []
  | S f => match s with
           | [] => []
           | _ => let (r, w) := decode_rune s in (r, w) :: tokens_fuel f (skipn w s)
           end
  end.
Definition tokens (s : bytes) : list (Z * nat) := tokens_fuel (length s) s.
Definition runes_of (s : bytes) : word := map fst (tokens s).
Definition wbytes (w : word) : bytes := concat (map write_rune w).

(* checked slice expression s[a:b] *)
Definition slice (s : bytes) (a b : Z) : option bytes :=
  if (0 <=? a) && (a <=? b) && (b <=? Z.of_nat (length s))
  then Some (firstn (Z.to_nat (b - a)) (skipn (Z.to_nat a) s)) else None.

(* ------------------------------------------------------------------ node table *)
Record node := mkNode { kids : list Z; fail : option word; nsize : Z; isEnd : bool }.
Definition trie := list (word * node).

Fixpoint weqb (a b : word) : bool :=
  match a, b with
  | [], [] => true
  | x :: a', y :: b' => (x =? y) && weqb a' b'
  | _, _ => false
  end.
Fixpoint get (T : trie) (w : word) : option node :=
  match T with [] => None | (k, n) :: t => if weqb k w then Some n else get t w end.
Fixpoint upd (T : trie) (w : word) (f : node -> node) : trie :=
  match T with [] => [] | (k, n) :: t => if weqb k w then (k, f n) :: t else (k, n) :: upd t w f end.

Definition kids_of (T : trie) (w : word) : list Z := match get T w with Some n => kids n | None => [] end.
Definition fail_of (T : trie) (w : word) : option word := match get T w with Some n => fail n | None => None end.
Definition size_of (T : trie) (w : word) : Z := match get T w with Some n => nsize n | None => 0 end.
Definition is_end (T : trie) (w : word) : bool := match get T w with Some n => isEnd n | None => false end.
Definition is_root (w : word) : bool := match w with [] => true | _ => false end.

Definition empty_trie : trie := [([], mkNode [] None 0 false)].

(* Trie.index: exact-match bisection with the range pre-check; -1 when absent *)
Fixpoint index_loop (fuel : nat) (c : list Z) (v : Z) (low high : nat) : Z :=
  match fuel with
  | O => -1
  | S f => if (low <? high)%nat then
             let mid := ((low + high) / 2)%nat in
             if nth mid c 0 =? v then Z.of_nat mid
             else if nth mid c 0 <? v then index_loop f c v (mid + 1) high else index_loop f c v low mid
           else -1
  end.
Definition index (c : list Z) (v : Z) : Z :=
  let high := length c in
  if (high =? 0)%nat || (v <? nth 0 c 0) || (nth (high - 1) c 0 <? v) then -1
  else index_loop (S high) c v 0 high.

(* Trie.findChildIndex: lower bound *)
Fixpoint lb_loop (fuel : nat) (c : list Z) (v : Z) (low high : nat) : nat :=
  match fuel with
  | O => low
  | S f => if (low <? high)%nat then
             let mid := ((low + high) / 2)%nat in
             if nth mid c 0 <? v then lb_loop f c v (mid + 1) high else lb_loop f c v low mid
           else low
  end.
Definition find_child_index (c : list Z) (v : Z) : nat := lb_loop (S (length c)) c v 0 (length c).

(* ------------------------------------------------------------------ Insert *)
Definition insert_at (idx : nat) (r : Z) (c : list Z) : list Z := firstn idx c ++ r :: skipn idx c.
Definition set_kids (ks : list Z) (n : node) : node := mkNode ks (fail n) (nsize n) (isEnd n).
Definition set_end (n : node) : node := mkNode (kids n) (fail n) (nsize n) true.
Definition set_fail_n (f : word) (n : node) : node := mkNode (kids n) (Some f) (nsize n) (isEnd n).

Fixpoint insert_go (T : trie) (cur : word) (i : Z) (toks : list (Z * nat)) : trie :=
  match toks with
  | [] => upd T cur set_end
  | (r, w) :: rest =>
      let i' := i + Z.of_nat w in
      let ks := kids_of T cur in
      let idx := find_child_index ks r in
      if (length ks <=? idx)%nat || negb (nth idx ks 0 =? r) then
        let T1 := upd T cur (set_kids (insert_at idx r ks)) in
        insert_go (T1 ++ [(cur ++ [r], mkNode [] None i' false)]) (cur ++ [r]) i' rest
      else insert_go T (cur ++ [r]) i' rest
  end.
Definition insert (T : trie) (p : bytes) : trie :=
  match p with [] => T | _ => insert_go T [] 0 (tokens p) end.

(* ------------------------------------------------------------------ trieNodeQueue: growable ring *)
(* counters stay far below 2^32 (one push per node), so uint32 arithmetic is plain arithmetic *)
Record queue := mkQ { qnodes : list word; qhd : nat; qtl : nat; qcp : nat }.

Fixpoint lupd (l : list word) (i : nat) (x : word) : list word :=
  match l, i with [], _ => [] | _ :: t, O => x :: t | h :: t, S j => h :: lupd t j x end.
(* copy(dst, src) *)
Definition gocopy (dst src : list word) : list word := firstn (length dst) src ++ skipn (length src) dst.

Definition q_init : queue := mkQ (repeat [] (Z.to_nat queue_init_cap)) 0 0 (Z.to_nat queue_init_cap).
Definition q_grow (s : queue) : queue :=
  let tailPos := ((qtl s - 1) mod qcp s)%nat in
  let headPos := (qhd s mod qcp s)%nat in
  let c2 := (qcp s * Z.to_nat queue_grow_factor)%nat in
  let nw := repeat ([] : word) c2 in
  let nw' := if (headPos <? tailPos)%nat then gocopy nw (firstn (S tailPos - headPos) (skipn headPos (qnodes s)))
             else let p1 := skipn headPos (qnodes s) in
                  let n := Nat.min (length nw) (length p1) in
                  let nw1 := gocopy nw p1 in
                  firstn n nw1 ++ gocopy (skipn n nw1) (firstn (S tailPos) (qnodes s)) in
  mkQ nw' 0 (qtl s - qhd s) c2.
Definition q_push (s : queue) (x : word) : queue :=
  let s1 := if (qtl s - qhd s =? qcp s)%nat then q_grow s else s in
  mkQ (lupd (qnodes s1) (qtl s1 mod qcp s1) x) (qhd s1) (S (qtl s1)) (qcp s1).
Definition q_pop (s : queue) : queue * option word :=
  if (qhd s =? qtl s)%nat then (s, None)
  else (mkQ (qnodes s) (S (qhd s)) (qtl s) (qcp s), Some (nth (qhd s mod qcp s) (qnodes s) [])).

(* ------------------------------------------------------------------ BuildFailureLinks *)
Definition set_fail (T : trie) (w f : word) : trie := upd T w (set_fail_n f).

(* failNode := curr.fail; for failNode != nil { idx = index(failNode.children, c); if idx >= 0 {break}; failNode = failNode.fail }
   result: the new fail link (root when failNode == nil); None = out of fuel *)
Fixpoint chain_find (fuel : nat) (T : trie) (f : option word) (c : Z) : option word :=
  match fuel with
  | O => None
  | S k => match f with
           | None => Some []
           | Some u => let idx := index (kids_of T u) c in
                       if 0 <=? idx then Some (u ++ [nth (Z.to_nat idx) (kids_of T u) 0])
                       else chain_find k T (fail_of T u) c
           end
  end.

(* for _, child := range curr.children { ...; child.node.fail = ...; queue.Push(child.node) } *)
Fixpoint process (fuel : nat) (T : trie) (q : queue) (curr : word) (cs : list Z) : option (trie * queue) :=
  match cs with
  | [] => Some (T, q)
  | c :: rest => match chain_find fuel T (fail_of T curr) c with
                 | None => None
                 | Some f => process fuel (set_fail T (curr ++ [c]) f) (q_push q (curr ++ [c])) curr rest
                 end
  end.

(* the fail chain of a node strictly decreases the depth: depth + 1 steps always suffice for the inner loop *)
Fixpoint bfs (fuel : nat) (T : trie) (q : queue) : option trie :=
  match fuel with
  | O => None
  | S k => match q_pop q with
           | (_, None) => Some T
           | (q', Some curr) =>
               match process (S (length curr)) T q' curr (kids_of T curr) with
               | None => None
               | Some (T', q'') => bfs k T' q''
               end
           end
  end.

Definition init_links (T : trie) : trie * queue :=
  fold_left (fun (st : trie * queue) c => (set_fail (fst st) [c] [], q_push (snd st) [c])) (kids_of T []) (T, q_init).
Definition build (T : trie) : option trie :=
  let (T1, q1) := init_links T in bfs (S (length T)) T1 q1.

(* ------------------------------------------------------------------ the automaton step *)
(* idx := index(node.children, v); for node != root && idx < 0 { node = node.fail; idx = index(node.children, v) } *)
Fixpoint goto (fuel : nat) (T : trie) (nd : word) (v : Z) : res (word * Z) :=
  match fuel with
  | O => NoFuel
  | S k => let idx := index (kids_of T nd) v in
           if is_root nd || (0 <=? idx) then Ok (nd, idx)
           else match fail_of T nd with None => Panic | Some f => goto k T f v end
  end.
Definition child_at (T : trie) (nd : word) (idx : Z) : word := nd ++ [nth (Z.to_nat idx) (kids_of T nd) 0].

(* Match's inner loop: for tempNode != root { if tempNode.isEnd {return true}; tempNode = tempNode.fail } *)
Fixpoint any_output (fuel : nat) (T : trie) (tmp : word) : res bool :=
  match fuel with
  | O => NoFuel
  | S k => match tmp with
           | [] => Ok false
           | _ => if is_end T tmp then Ok true
                  else match fail_of T tmp with None => Panic | Some f => any_output k T f end
           end
  end.
(* fuel of the two fail-chain loops: the depth of the node they start from, plus one *)
Fixpoint match_go (T : trie) (nd : word) (toks : list (Z * nat)) : res bool :=
  match toks with
  | [] => Ok false
  | (v, _) :: rest =>
      match goto (S (length nd)) T nd v with
      | Ok (n, idx) =>
          if 0 <=? idx then
            let n' := child_at T n idx in
            match any_output (S (length n')) T n' with
            | Ok true => Ok true
            | Ok false => match_go T n' rest
            | Panic => Panic | NoFuel => NoFuel
            end
          else match_go T n rest
      | Panic => Panic | NoFuel => NoFuel
      end
  end.
Definition match_ (T : trie) (text : bytes) : res bool := match_go T [] (tokens text).

(* find's inner loop: for tempNode != root { if tempNode.isEnd { append scope{i - size, i} }; tempNode = tempNode.fail };
   acc is the scope list reversed *)
Fixpoint outputs (fuel : nat) (T : trie) (tmp : word) (i : Z) (acc : list (Z * Z)) : res (list (Z * Z)) :=
  match fuel with
  | O => NoFuel
  | S k => match tmp with
           | [] => Ok acc
           | _ => let acc' := if is_end T tmp then (i - size_of T tmp, i) :: acc else acc in
                  match fail_of T tmp with None => Panic | Some f => outputs k T f i acc' end
           end
  end.
Fixpoint find_go (T : trie) (nd : word) (i : Z) (toks : list (Z * nat)) (acc : list (Z * Z)) : res (list (Z * Z)) :=
  match toks with
  | [] => Ok (rev acc)
  | (v, w) :: rest =>
      let i' := i + Z.of_nat w in
      match goto (S (length nd)) T nd v with
      | Ok (n, idx) =>
          if 0 <=? idx then
            let n' := child_at T n idx in
            match outputs (S (length n')) T n' i' acc with
            | Ok acc' => find_go T n' i' rest acc'
            | Panic => Panic | NoFuel => NoFuel
            end
          else find_go T n i' rest acc
      | Panic => Panic | NoFuel => NoFuel
      end
  end.
Definition find (T : trie) (text : bytes) : res (list (Z * Z)) := find_go T [] 0 (tokens text) [].

(* FindAll: keywords[i] = text[v.start:v.stop] *)
Fixpoint slices (text : bytes) (sc : list (Z * Z)) : res (list bytes) :=
  match sc with
  | [] => Ok []
  | (a, b) :: t => match slice text a b, slices text t with
                   | Some s, Ok l => Ok (s :: l)
                   | None, _ => Panic
                   | _, Panic => Panic
                   | _, NoFuel => NoFuel
                   end
  end.
Definition find_all (T : trie) (text : bytes) : res (list bytes) :=
  match find T text with Ok sc => slices text sc | Panic => Panic | NoFuel => NoFuel end.

(* ------------------------------------------------------------------ mergeScopes (with the step back after a merge) *)
(* zipper rendering of the index loop: done = scopes[:i] reversed, cur = scopes[i], rest = scopes[i+1:] *)
Notation iv := (Z * Z)%type (only parsing).
Fixpoint merge_go (fuel : nat) (done : list iv) (cur : iv) (rest : list iv) : option (list iv) :=
  match fuel with
  | O => None
  | S f =>
    match rest with
    | [] => Some (rev done ++ [cur])
    | n :: rest' =>
        if snd cur >? fst n
        then let m := (Z.min (fst cur) (fst n), Z.max (snd cur) (snd n)) in
             match done with
             | [] => merge_go f [] m rest'
             | d :: done' => merge_go f done' d (m :: rest')
             end
        else merge_go f (cur :: done) n rest'
    end
  end.
Definition merge_scopes (l : list iv) : option (list iv) :=
  match l with [] => Some [] | c :: r => merge_go (2 * length l + 1) [] c r end.

(* ------------------------------------------------------------------ Replace / ReplaceWithMask *)
Fixpoint replace_go (text repl : bytes) (begin : Z) (m : list iv) (out : bytes) : option bytes :=
  match m with
  | [] => match slice text begin (Z.of_nat (length text)) with Some s => Some (out ++ s) | None => None end
  | (a, b) :: t => match slice text begin a with
                   | Some s => replace_go text repl b t (out ++ s ++ repl)
                   | None => None
                   end
  end.
Fixpoint mask_go (text mask : bytes) (begin : Z) (m : list iv) (out : bytes) : option bytes :=
  match m with
  | [] => match slice text begin (Z.of_nat (length text)) with Some s => Some (out ++ s) | None => None end
  | (a, b) :: t =>
      match slice text begin a, slice text a b with
      | Some s, Some cov => mask_go text mask b t (out ++ s ++ concat (repeat mask (rune_count cov)))
      | _, _ => None
      end
  end.

Definition with_merged (T : trie) (text : bytes) (k : list iv -> option bytes) : res bytes :=
  match find T text with
  | Ok sc => match merge_scopes sc with
             | None => NoFuel
             | Some m => match k m with Some o => Ok o | None => Panic end
             end
  | Panic => Panic
  | NoFuel => NoFuel
  end.
Definition replace (T : trie) (text repl : bytes) : res bytes :=
  with_merged T text (fun m => replace_go text repl 0 m []).
Definition replace_with_mask (T : trie) (text : bytes) (mask : Z) : res bytes :=
  with_merged T text (fun m => mask_go text (encode_rune mask) 0 m []).

(* ------------------------------------------------------------------ PrefixSearch / FuzzySearch *)
Record frame := mkF { fr : Z; fdepth : Z; fnode : word }.

(* for _, ch := range node.children { stack = append(stack, trieFrame{ch.val, int32(buf.Len()), ch.node}) };
   the top of the stack is the head of the list *)
Definition push_kids (T : trie) (nd : word) (depth : Z) (stack : list frame) : list frame :=
  rev (map (fun c => mkF c depth (nd ++ [c])) (kids_of T nd)) ++ stack.

(* for len(stack) > 0 { pop; buf.Truncate(cur.depth); writeRune(&buf, cur.r); if isEnd { ret = append(ret, buf.String()) }; push children }
   ret is accumulated reversed; Truncate panics when depth is outside [0, buf.Len()] *)
Fixpoint dfs (fuel : nat) (T : trie) (stack : list frame) (buf : bytes) (ret : list bytes) : res (bytes * list bytes) :=
  match fuel with
  | O => NoFuel
  | S f =>
      match stack with
      | [] => Ok (buf, ret)
      | cur :: rest =>
          if (0 <=? fdepth cur) && (fdepth cur <=? Z.of_nat (length buf)) then
            let buf' := firstn (Z.to_nat (fdepth cur)) buf ++ write_rune (fr cur) in
            let ret' := if is_end T (fnode cur) then buf' :: ret else ret in
            dfs f T (push_kids T (fnode cur) (Z.of_nat (length buf')) rest) buf' ret'
          else Panic
      end
  end.

(* the walk of PrefixSearch: exact children only *)
Fixpoint descend (T : trie) (nd : word) (toks : list (Z * nat)) : option word :=
  match toks with
  | [] => Some nd
  | (v, _) :: rest => let idx := index (kids_of T nd) v in
                      if 0 <=? idx then descend T (child_at T nd idx) rest else None
  end.

Definition prefix_search (T : trie) (key : bytes) : res (list bytes) :=
  match descend T [] (tokens key) with
  | None => Ok []
  | Some nd =>
      match kids_of T nd with
      | [] => if is_end T nd then Ok [key] else Ok []
      | _ =>
          let ret := if is_end T nd then [key] else [] in
          match dfs (S (length T)) T (push_kids T nd (Z.of_nat (length key)) []) key ret with
          | Ok (_, r) => Ok (rev r)
          | Panic => Panic | NoFuel => NoFuel
          end
      end
  end.

(* the walk of FuzzySearch: automaton transitions, nil when a rune has no transition even from the root *)
Fixpoint fuzzy_walk (T : trie) (nd : word) (toks : list (Z * nat)) : res (option word) :=
  match toks with
  | [] => Ok (Some nd)
  | (v, _) :: rest =>
      match goto (S (length nd)) T nd v with
      | Ok (n, idx) => if 0 <=? idx then fuzzy_walk T (child_at T n idx) rest else Ok None
      | Panic => Panic | NoFuel => NoFuel
      end
  end.

(* for node != root { buf.WriteString(key[len(key)-node.size:]); if isEnd {append}; push children; dfs; buf.Reset(); node = node.fail } *)
Fixpoint fuzzy_loop (fuel : nat) (T : trie) (key : bytes) (nd : word) (ret : list bytes) : res (list bytes) :=
  match fuel with
  | O => NoFuel
  | S f =>
      match nd with
      | [] => Ok (rev ret)
      | _ =>
          match get T nd with
          | None => Panic
          | Some n =>
              match slice key (Z.of_nat (length key) - nsize n) (Z.of_nat (length key)) with
              | None => Panic
              | Some suf =>
                  let ret1 := if isEnd n then suf :: ret else ret in
                  match dfs (S (length T)) T (push_kids T nd (Z.of_nat (length suf)) []) suf ret1 with
                  | Ok (_, ret2) =>
                      match fail n with
                      | None => Panic
                      | Some fl => fuzzy_loop f T key fl ret2
                      end
                  | Panic => Panic | NoFuel => NoFuel
                  end
              end
          end
      end
  end.

Definition fuzzy_search (T : trie) (key : bytes) : res (list bytes) :=
  match key with
  | [] => prefix_search T key
  | _ =>
      match fuzzy_walk T [] (tokens key) with
      | Ok None => Ok []
      | Ok (Some nd) =>
          match get T nd with
          | None => Panic
          | Some n =>
              if (match kids n with [] => true | _ => false end) &&
                 (match fail n with Some [] => true | _ => false end) then
                if isEnd n then
                  match slice key (Z.of_nat (length key) - nsize n) (Z.of_nat (length key)) with
                  | Some s => Ok [s] | None => Panic
                  end
                else Ok []
              else fuzzy_loop (S (length nd)) T key nd []
          end
      | Panic => Panic | NoFuel => NoFuel
      end
  end.

(* ------------------------------------------------------------------ operation sequences *)
Inductive op := OInsert (p : bytes) | OBuild.
Fixpoint run_ops (T : trie) (ops : list op) : option trie :=      (* None: out of fuel in BuildFailureLinks *)
  match ops with
  | [] => Some T
  | OInsert p :: r => run_ops (insert T p) r
  | OBuild :: r => match build T with Some T' => run_ops T' r | None => None end
  end.
Definition inserts (ps : list bytes) : trie := fold_left insert ps empty_trie.

(* ================================================================== specification side ======== *)
(* Byte strings only; no trie.  An occurrence of pattern p in text t is a pair (s, e), t[s:e] = p, p non-empty. *)
Fixpoint beqb (a b : bytes) : bool :=
  match a, b with
  | [], [] => true
  | x :: a', y :: b' => (x =? y) && beqb a' b'
  | _, _ => false
  end.
Fixpoint is_prefix (p t : bytes) : bool :=
  match p, t with
  | [], _ => true
  | x :: p', y :: t' => (x =? y) && is_prefix p' t'
  | _ :: _, [] => false
  end.
Definition memb (x : bytes) (l : list bytes) : bool := existsb (beqb x) l.
Fixpoint dedup (l : list bytes) : list bytes :=
  match l with [] => [] | x :: t => if memb x t then dedup t else x :: dedup t end.
(* the distinct non-empty patterns (Insert ignores the empty string) *)
Definition patterns (ps : list bytes) : list bytes :=
  dedup (filter (fun p => match p with [] => false | _ => true end) ps).

(* rune boundaries of a byte string: the offsets at which decodeRune starts a rune, and the length *)
Fixpoint bounds_from (i : nat) (toks : list (Z * nat)) : list nat :=
  match toks with [] => [i] | (_, w) :: r => i :: bounds_from (i + w) r end.
Definition bounds (t : bytes) : list nat := bounds_from 0 (tokens t).
Definition is_bound (t : bytes) (i : nat) : bool := existsb (Nat.eqb i) (bounds t).

(* [aligned = false]: every byte-for-byte occurrence.  [aligned = true]: only those that start and end on rune
   boundaries of the text (for patterns that are valid UTF-8 the two coincide; Proofs/). *)
Definition occ_at (aligned : bool) (p t : bytes) (s : nat) : bool :=
  is_prefix p (skipn s t) && (negb aligned || (is_bound t s && is_bound t (s + length p))).

(* all occurrences, by end position, longer ones first at the same end: the order in which find emits them *)
Definition occs_ending (aligned : bool) (ps : list bytes) (t : bytes) (e : nat) : list (nat * nat) :=
  flat_map (fun s => if existsb (fun p => Nat.eqb (s + length p) e && occ_at aligned p t s) ps then [(s, e)] else [])
           (seq 0 e).
Definition occs (aligned : bool) (ps : list bytes) (t : bytes) : list (nat * nat) :=
  flat_map (occs_ending aligned (patterns ps) t) (seq 1 (length t)).

Definition sub (t : bytes) (se : nat * nat) : bytes := firstn (snd se - fst se) (skipn (fst se) t).
Definition spec_find_all (aligned : bool) (ps : list bytes) (t : bytes) : list bytes := map (sub t) (occs aligned ps t).
Definition spec_match (aligned : bool) (ps : list bytes) (t : bytes) : bool :=
  match occs aligned ps t with [] => false | _ => true end.
(* the inserted patterns that start with key (aligned: and |key| is a rune boundary of the pattern) *)
Definition spec_prefix (aligned : bool) (ps : list bytes) (key : bytes) : list bytes :=
  filter (fun p => is_prefix key p && (negb aligned || is_bound p (length key))) (patterns ps).

(* multiset equality of lists of byte strings *)
Fixpoint remove1 (x : bytes) (l : list bytes) : option (list bytes) :=
  match l with
  | [] => None
  | y :: t => if beqb x y then Some t else match remove1 x t with Some t' => Some (y :: t') | None => None end
  end.
Fixpoint perm_b (a b : list bytes) : bool :=
  match a with
  | [] => match b with [] => true | _ => false end
  | x :: a' => match remove1 x b with Some b' => perm_b a' b' | None => false end
  end.

(* covered bytes, maximal covered regions *)
Definition covered_b (oc : list (nat * nat)) (i : nat) : bool :=
  existsb (fun se => (fst se <=? i)%nat && (i <? snd se)%nat) oc.
(* maximal runs of covered positions in [i, i + n): (start, stop) *)
Fixpoint regions_go (oc : list (nat * nat)) (n i : nat) (opn : option nat) : list (nat * nat) :=
  match n with
  | O => match opn with Some a => [(a, i)] | None => [] end
  | S k => if covered_b oc i
           then regions_go oc k (S i) (match opn with Some a => Some a | None => Some i end)
           else match opn with Some a => (a, i) :: regions_go oc k (S i) None | None => regions_go oc k (S i) None end
  end.
Definition regions (oc : list (nat * nat)) (len : nat) : list (nat * nat) := regions_go oc len 0 None.
Definition occs_in (oc : list (nat * nat)) (r : nat * nat) : nat :=
  length (filter (fun se => (fst r <=? fst se)%nat && (snd se <=? snd r)%nat) oc).

Fixpoint strip (p s : bytes) : option bytes :=
  match p, s with
  | [], _ => Some s
  | x :: p', y :: s' => if x =? y then strip p' s' else None
  | _ :: _, [] => None
  end.
(* Replace's freedom: out = u0 repl^k1 u1 repl^k2 ... un with 1 <= ki <= (occurrences in region i); segs = [(u_{i-1}, n_i)], tail = un *)
Fixpoint copies_ok (repl : bytes) (n : nat) (out : bytes) (k : bytes -> bool) : bool :=
  match n with
  | O => false
  | S m => match strip repl out with
           | None => false
           | Some o => k o || copies_ok repl m o k
           end
  end.
Fixpoint replace_ok_go (repl : bytes) (segs : list (bytes * nat)) (tail out : bytes) : bool :=
  match segs with
  | [] => beqb out tail
  | (u, n) :: rest => match strip u out with
                      | None => false
                      | Some o => copies_ok repl n o (replace_ok_go repl rest tail)
                      end
  end.
Fixpoint segments (t : bytes) (oc : list (nat * nat)) (from : nat) (rs : list (nat * nat)) : list (bytes * nat) * bytes :=
  match rs with
  | [] => ([], skipn from t)
  | r :: rest => let (sg, tl) := segments t oc (snd r) rest in
                 ((sub t (from, fst r), occs_in oc r) :: sg, tl)
  end.
Definition spec_replace_ok (aligned : bool) (ps : list bytes) (t repl out : bytes) : bool :=
  let oc := occs aligned ps t in
  let (sg, tl) := segments t oc 0 (regions oc (length t)) in
  replace_ok_go repl sg tl out.
(* one copy per maximal region: the canonical member of the allowed set *)
Definition spec_replace_one (aligned : bool) (ps : list bytes) (t repl : bytes) : bytes :=
  let oc := occs aligned ps t in
  let (sg, tl) := segments t oc 0 (regions oc (length t)) in
  concat (map (fun un => fst un ++ repl) sg) ++ tl.

(* ReplaceWithMask: rune by rune (runes as `range` sees them); a rune that lies inside an occurrence becomes the mask *)
Fixpoint mask_runes (oc : list (nat * nat)) (mask : bytes) (i : nat) (t : bytes) (toks : list (Z * nat)) : bytes :=
  match toks with
  | [] => []
  | (_, w) :: r =>
      (if existsb (fun se => (fst se <=? i)%nat && (i + w <=? snd se)%nat) oc then mask else firstn w t)
        ++ mask_runes oc mask (i + w) (skipn w t) r
  end.
Definition spec_mask (aligned : bool) (ps : list bytes) (t : bytes) (mask : Z) : bytes :=
  mask_runes (occs aligned ps t) (encode_rune mask) 0 t (tokens t).

(* which reading applies: patterns that are all valid UTF-8 -> plain byte occurrences (the property as written);
   otherwise the rune-aligned reading (an invalid byte is a rune of its own) *)
Definition mode_of (ps : list bytes) : bool := negb (forallb valid_utf8 ps).
