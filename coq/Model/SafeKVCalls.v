(* C12 — the step machine of Model/SafeKV.v driven by calls: each thread executes SafeKV calls one after the other; the
   control flow of a call (how often a repeated part runs) and the effect of its writes come from the effect table
   (again_, wr), evaluated on what the call's own reads observed in the SHARED map.  A schedule entry only says which
   thread moves and which call an idle thread starts.  Ghost fields: cph, cfin, clog. *)
From Coq Require Import List Arith ZArith Bool.
From V Require Import Lib.Enc Gen.SafeKVSkel Model.SafeKV.
Import ListNotations.

Record cthread := {
  base : thread;                 (* code position, lock state and ghosts of the generic machine *)
  ccall : option call;           (* the call being executed; None = idle *)
  cit : nat;                     (* iterations of the current Star part completed so far *)
  cinb : bool;                   (* inside an iteration of the Star part at the head of rest *)
  cobs : list map_;              (* what the reads of this call observed *)
  cits : nat;                    (* iteration count of the last finished Star part *)
  cph : nat;                     (* ghost: 0 before the critical section, 1 inside, 2 after *)
  cfin : map_;                   (* ghost: the map when the section was left *)
  clog : list (call * map_ * map_ * list Z)   (* ghost: completed calls: call, map found at lock, map left at unlock, result *)
}.
Record cconfig := { clk : lockst; cmp : map_; cths : list cthread }.

Definition skel_index (c : call) : nat :=
  match c with
  | CAll _ => 0 | CClear => 1 | CContains _ => 2 | CDelete _ => 3 | CGet _ => 4 | CGetWithLock _ => 5 | CGetWithMap _ => 6
  | CHas _ => 7 | CKeys => 8 | CLen => 9 | CMap _ _ _ => 10 | CRange _ => 11 | CSet _ _ => 12 | CSetNx _ _ => 13
  | CSetX _ _ => 14 | CValues => 15
  end.

(* the schedule entry the generic machine would need for the same step *)
Definition choice_of (i : nat) (t : cthread) (newcall : call) : choice :=
  match ccall t with
  | None => {| tid := i; meth := skel_index newcall; again := false; eff := fun m => m |}
  | Some cl => {| tid := i; meth := 0; again := again_ cl (cobs t) (cit t);
                  eff := wr cl (match cur (base t) with [] => 0 | _ => cit t end) |}
  end.

Definition is_rd (e : ev) : bool := match e with Rd _ => true | _ => false end.

(* executing event e (generic exec_ev) and the bookkeeping of the call *)
Definition cexec (l : lockst) (m : map_) (t : cthread) (e : ev) (c : list ev) (r : list item) (ch : choice)
  : lockst * map_ * cthread :=
  let '(l', m', b') := exec_ev l m (base t) e c r ch in
  let moved := negb (match e with Acq _ => match hold b' with None => true | Some _ => false end | _ => false end) in
  (l', m',
   {| base := b'; ccall := ccall t; cit := cit t; cinb := cinb t;
      cobs := if is_rd e then cobs t ++ [m] else cobs t; cits := cits t;
      cph := match e with
             | Acq _ => if moved then 1 else cph t
             | Rel _ => 2
             | _ => cph t
             end;
      cfin := match e with Rel _ => m | _ => cfin t end;
      clog := clog t |}).

Definition cstep (c : cconfig) (sc : nat * call) : cconfig :=
  let '(i, newcall) := sc in
  match nth_error (cths c) i with
  | None => c
  | Some t =>
      let ch := choice_of i t newcall in
      let '(l', m', t') :=
        match ccall t with
        | None =>                                                           (* idle: start the call *)
            (clk c, cmp c,
             {| base := with_code (base t) [] (skel_of newcall); ccall := Some newcall; cit := 0; cinb := false; cobs := [];
                cits := 0; cph := 0; cfin := []; clog := clog t |})
        | Some cl =>
            match cur (base t) with
            | e :: cd => cexec (clk c) (cmp c) t e cd (rest (base t)) ch     (* an event of the current iteration *)
            | [] =>
                if cinb t then                                              (* the iteration is over *)
                  (clk c, cmp c, {| base := base t; ccall := ccall t; cit := S (cit t); cinb := false; cobs := cobs t;
                                    cits := cits t; cph := cph t; cfin := cfin t; clog := clog t |})
                else
                  match rest (base t) with
                  | [] =>                                                   (* the call returns *)
                      (clk c, cmp c,
                       {| base := base t; ccall := None; cit := 0; cinb := false; cobs := []; cits := 0; cph := 0; cfin := [];
                          clog := clog t ++ [(cl, snap (base t), cfin t, result cl (cobs t) (cits t))] |})
                  | E e :: r => cexec (clk c) (cmp c) t e [] r ch
                  | Star b :: r =>
                      if again_ cl (cobs t) (cit t)
                      then (clk c, cmp c, {| base := with_code (base t) b (Star b :: r); ccall := ccall t; cit := cit t; cinb := true;
                                             cobs := cobs t; cits := cits t; cph := cph t; cfin := cfin t; clog := clog t |})
                      else (clk c, cmp c, {| base := with_code (base t) [] r; ccall := ccall t; cit := 0; cinb := false;
                                             cobs := cobs t; cits := cit t; cph := cph t; cfin := cfin t; clog := clog t |})
                  end
            end
        end in
      {| clk := l'; cmp := m'; cths := upd (cths c) i t' |}
  end.
Definition crun (c : cconfig) (sched : list (nat * call)) : cconfig := fold_left cstep sched c.

Definition cidle : cthread :=
  {| base := idle; ccall := None; cit := 0; cinb := false; cobs := []; cits := 0; cph := 0; cfin := []; clog := [] |}.
Definition cinit (n : nat) (m0 : map_) : cconfig :=
  {| clk := {| writer := false; readers := 0 |}; cmp := m0; cths := repeat cidle n |}.

(* the configuration of the generic machine underneath *)
Definition proj (c : cconfig) : config := {| lk := clk c; mp := cmp c; ths := map base (cths c) |}.

(* the sequential continuation of a call from a control point: what the rest of the call computes on a private map.
   fs = fuel of the Star part in progress, fr = fuel of the Star parts that follow *)
Definition cont (fs fr : nat) (cl : call) (cu : list ev) (inb : bool) (rs : list item) (it its : nat) (m : map_) (obs : list map_)
  : option (map_ * list map_ * nat) :=
  if inb then
    match rs with
    | Star b :: r =>
        let '(m1, obs1) := run_body cl it cu m obs in
        match run_star fs cl (S it) b m1 obs1 with
        | Some (m2, obs2, n) => run_items fr cl r m2 obs2 n
        | None => None
        end
    | _ => None
    end
  else
    match cu with
    | _ :: _ => None
    | [] =>
        match rs with
        | Star b :: r =>
            match run_star fs cl it b m obs with
            | Some (m2, obs2, n) => run_items fr cl r m2 obs2 n
            | None => None
            end
        | _ => run_items fr cl rs m obs its
        end
    end.
