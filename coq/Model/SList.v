(* C13 — listz.SList (listz/singly_list.go, listz/iter.go): heap-level executable model + sequence specification.
   Nodes are ids >= 2 in allocation order; next / Value are stores indexed by id; head, tail, len as in the struct;
   a nil dereference is a panic.  Index walks keep the predecessor as the code does.
   The specification works on the sequence of node ids.  No proofs in this file. *)
From Coq Require Import List ZArith Bool Arith.
From V Require Import Model.DList.
Import ListNotations.
Local Open Scope Z_scope.

Record sl := { nx : nat -> option nat; sv : nat -> Z; hd : option nat; tl : option nat; ln : Z; fr : nat }.

Definition sl0 : sl := {| nx := fun _ => None; sv := fun _ => 0; hd := None; tl := None; ln := 0; fr := 2 |}.

Definition set_nx s i x := {| nx := fupd (nx s) i x; sv := sv s; hd := hd s; tl := tl s; ln := ln s; fr := fr s |}.
Definition set_sv s i x := {| nx := nx s; sv := fupd (sv s) i x; hd := hd s; tl := tl s; ln := ln s; fr := fr s |}.
Definition set_hd s x := {| nx := nx s; sv := sv s; hd := x; tl := tl s; ln := ln s; fr := fr s |}.
Definition set_tl s x := {| nx := nx s; sv := sv s; hd := hd s; tl := x; ln := ln s; fr := fr s |}.
Definition set_ln s x := {| nx := nx s; sv := sv s; hd := hd s; tl := tl s; ln := x; fr := fr s |}.

(* &SNode{Value: v} *)
Definition salloc1 (s : sl) (v : Z) : sl * nat :=
  let e := fr s in
  ({| nx := fupd (nx s) e None; sv := fupd (sv s) e v; hd := hd s; tl := tl s; ln := ln s; fr := S e |}, e).

Definition within (s : sl) (i : Z) : bool := (0 <=? i) && (i <? ln s).

(* for index := 0; index < k; index++ { before = e; e = e.next }   (e.next on nil panics) *)
Fixpoint walkn (nxf : nat -> option nat) (k : nat) (before e : option nat) : option (option nat * option nat) :=
  match k with
  | O => Some (before, e)
  | S k' => match e with None => None | Some x => walkn nxf k' e (nxf x) end
  end.

Definition oeq (a b : option nat) : bool :=
  match a, b with Some x, Some y => Nat.eqb x y | None, None => true | _, _ => false end.

(* Get (42-52) *)
Definition get (s : sl) (i : Z) : option (option nat) :=
  if within s i then match walkn (nx s) (Z.to_nat i) None (hd s) with Some (_, e) => Some e | None => None end
  else Some None.

(* Remove (56-80) *)
Definition remove_at (s : sl) (i : Z) : option (sl * option nat) :=
  if negb (within s i) then Some (s, None) else
  match walkn (nx s) (Z.to_nat i) None (hd s) with
  | Some (before, Some e) =>
      let s1 := if oeq (Some e) (hd s) then set_hd s (nx s e) else s in
      let s2 := if oeq (Some e) (tl s1) then set_tl s1 before else s1 in
      let s3 := match before with Some b => set_nx s2 b (nx s2 e) | None => s2 end in
      let s4 := set_nx s3 e None in
      Some (set_ln s4 (ln s4 - 1), Some e)
  | _ => None                                   (* e == nil: e.next panics *)
  end.

(* RemoveFront (83-96) *)
Definition remove_front (s : sl) : option (sl * option nat) :=
  if ln s =? 0 then Some (s, None) else
  match hd s with
  | None => None
  | Some e =>
      let s1 := set_hd s (nx s e) in
      let s2 := set_nx s1 e None in
      let s3 := if ln s2 =? 1 then set_tl s2 None else s2 in
      Some (set_ln s3 (ln s3 - 1), Some e)
  end.

(* PushFrontNode (118-126) *)
Definition push_front_node (s : sl) (e : nat) : sl :=
  let s1 := set_nx s e (hd s) in
  let s2 := set_hd s1 (Some e) in
  let s3 := if ln s2 =? 0 then set_tl s2 (Some e) else s2 in
  set_ln s3 (ln s3 + 1).

(* PushBackNode (129-137): e.next is not written *)
Definition push_back_node (s : sl) (e : nat) : option sl :=
  let s1 := if ln s =? 0 then Some (set_hd s (Some e))
            else match tl s with None => None | Some t => Some (set_nx s t (Some e)) end in
  match s1 with
  | None => None
  | Some s1 => let s2 := set_tl s1 (Some e) in Some (set_ln s2 (ln s2 + 1))
  end.

(* InsertNodeAt (141-160) *)
Definition insert_node_at (s : sl) (i : Z) (e : nat) : option sl :=
  if i <=? 0 then Some (push_front_node s e) else
  if ln s <=? i then push_back_node s e else
  match walkn (nx s) (Z.to_nat (i - 1)) None (hd s) with
  | Some (_, Some b) =>
      let s1 := set_nx s e (nx s b) in
      let s2 := set_nx s1 b (Some e) in
      Some (set_ln s2 (ln s2 + 1))
  | _ => None
  end.

(* Swap (163-176): the loop runs until both nodes are found *)
Fixpoint swap_find (fuel : nat) (nxf : nat -> option nat) (index i j : Z) (ce e1 e2 : option nat)
  : option (option (nat * nat)) :=            (* None = out of fuel; Some None = panic *)
  match e1, e2 with
  | Some a, Some b => Some (Some (a, b))
  | _, _ =>
      match fuel with
      | O => None
      | S f =>
          let e1' := if index =? i then ce else e1 in
          let e2' := if index =? i then e2 else if index =? j then ce else e2 in
          (* the post statement ce = ce.next runs before the next condition check *)
          match ce with
          | None => Some None
          | Some c => swap_find f nxf (index + 1) i j (nxf c) e1' e2'
          end
      end
  end.

Inductive sres := SPanic | SNoFuel | SBad | SOk (s : sl) (r : res).

Definition swap (s : sl) (i j : Z) : sres :=
  if within s i && within s j && negb (i =? j) then
    match swap_find (S (S (fr s))) (nx s) 0 i j (hd s) None None with
    | None => SNoFuel
    | Some None => SPanic
    | Some (Some (a, b)) => SOk (set_sv (set_sv s a (sv s b)) b (sv s a)) RUnit
    end
  else SOk s RUnit.

Inductive sop :=
| SLen | SFront | SBack | SGet (i : Z) | SRemove (i : Z) | SRemoveFront
| SPushFront (v : Z) | SPushBack (v : Z) | SInsertAt (i : Z) (v : Z)
| SPushFrontNode (e : nat) | SPushBackNode (e : nat) | SInsertNodeAt (i : Z) (e : nat)
| SSwap (i j : Z) | SNext (e : nat) | SValue (e : nat) | SFwd | SAll (k : nat) | SNewNode (v : Z).

Definition s_is_node (s : sl) (e : nat) : bool := Nat.leb 2 e && Nat.ltb e (fr s).

Fixpoint swalk (fuel : nat) (s : sl) (e : option nat) (acc : list Z) : option (list Z) :=
  match e with
  | None => Some (rev acc)
  | Some x => match fuel with O => None | S f => swalk f s (nx s x) (sv s x :: Z.of_nat x :: acc) end
  end.
Fixpoint swalk_all (fuel : nat) (s : sl) (e : option nat) (k : nat) (acc : list Z) : option (list Z) :=
  match e with
  | None => Some (rev acc)
  | Some x => match fuel with
              | O => None
              | S f => if Nat.eqb k 1 then Some (rev (sv s x :: acc)) else swalk_all f s (nx s x) (Nat.pred k) (sv s x :: acc)
              end
  end.

Definition sok_unit (o : option sl) : sres := match o with None => SPanic | Some s => SOk s RUnit end.

Definition sl_step (s : sl) (o : sop) : sres :=
  match o with
  | SLen => SOk s (RInt (ln s))
  | SFront => SOk s (RHandle (hd s))
  | SBack => SOk s (RHandle (tl s))
  | SGet i => match get s i with None => SPanic | Some e => SOk s (RHandle e) end
  | SRemove i => match remove_at s i with None => SPanic | Some (s', e) => SOk s' (RHandle e) end
  | SRemoveFront => match remove_front s with None => SPanic | Some (s', e) => SOk s' (RHandle e) end
  | SPushFront v => let (s1, e) := salloc1 s v in SOk (push_front_node s1 e) RUnit
  | SPushBack v => let (s1, e) := salloc1 s v in sok_unit (push_back_node s1 e)
  | SInsertAt i v => let (s1, e) := salloc1 s v in sok_unit (insert_node_at s1 i e)
  | SPushFrontNode e => if s_is_node s e then SOk (push_front_node s e) RUnit else SBad
  | SPushBackNode e => if s_is_node s e then sok_unit (push_back_node s e) else SBad
  | SInsertNodeAt i e => if s_is_node s e then sok_unit (insert_node_at s i e) else SBad
  | SSwap i j => swap s i j
  | SNext e => if s_is_node s e then SOk s (RHandle (nx s e)) else SBad
  | SValue e => if s_is_node s e then SOk s (RInt (sv s e)) else SBad
  | SFwd => match swalk (S (fr s)) s (hd s) [] with None => SNoFuel | Some l => SOk s (RList l) end
  | SAll k => match swalk_all (S (fr s)) s (hd s) k [] with None => SNoFuel | Some l => SOk s (RList l) end
  | SNewNode v => let (s1, e) := salloc1 s v in SOk s1 (RHandle (Some e))
  end.

Fixpoint sl_run_acc (s : sl) (ops : list sop) (acc : list res) : result :=
  match ops with
  | [] => ROut (rev acc)
  | o :: t => match sl_step s o with
              | SPanic => RPanic | SNoFuel => RNoFuel | SBad => RBad
              | SOk s' r => sl_run_acc s' t (r :: acc)
              end
  end.
Definition slist_case (ops : list sop) : result := sl_run_acc sl0 ops [].

(* ---------------------------------------------------------------- specification: a sequence of node ids *)
Record sspec := { sq : list nat; qval : nat -> Z; qfresh : nat }.
Definition sspec0 : sspec := {| sq := []; qval := fun _ => 0; qfresh := 2 |}.
Definition qnode (s : sspec) (e : nat) : bool := Nat.leb 2 e && Nat.ltb e (qfresh s).
Definition qalloc (s : sspec) (v : Z) : sspec * nat :=
  ({| sq := sq s; qval := fupd (qval s) (qfresh s) v; qfresh := S (qfresh s) |}, qfresh s).
Definition set_sq (s : sspec) (l : list nat) : sspec := {| sq := l; qval := qval s; qfresh := qfresh s |}.
Definition in_range (s : sspec) (i : Z) : bool := (0 <=? i) && (i <? Z.of_nat (length (sq s))).
(* insertion at index i, clamped: i <= 0 front, i >= len back *)
Definition ins_at (l : list nat) (i : Z) (e : nat) : list nat :=
  if i <=? 0 then e :: l else if Z.of_nat (length l) <=? i then l ++ [e]
  else firstn (Z.to_nat i) l ++ e :: skipn (Z.to_nat i) l.
Definition del_at (l : list nat) (i : nat) : list nat := firstn i l ++ skipn (S i) l.

(* None: outside the specification (unknown handle; node insertion of a node that is still in the list) *)
Definition qstep (s : sspec) (o : sop) : option (sspec * res) :=
  match o with
  | SLen => Some (s, RInt (Z.of_nat (length (sq s))))
  | SFront => Some (s, RHandle (first_opt (sq s)))
  | SBack => Some (s, RHandle (last_opt (sq s)))
  | SGet i => Some (s, RHandle (if in_range s i then nth_error (sq s) (Z.to_nat i) else None))
  | SRemove i =>
      if in_range s i then Some (set_sq s (del_at (sq s) (Z.to_nat i)), RHandle (nth_error (sq s) (Z.to_nat i)))
      else Some (s, RHandle None)
  | SRemoveFront => match sq s with [] => Some (s, RHandle None) | x :: t => Some (set_sq s t, RHandle (Some x)) end
  | SPushFront v => let (s', e) := qalloc s v in Some (set_sq s' (e :: sq s'), RUnit)
  | SPushBack v => let (s', e) := qalloc s v in Some (set_sq s' (sq s' ++ [e]), RUnit)
  | SInsertAt i v => let (s', e) := qalloc s v in Some (set_sq s' (ins_at (sq s') i e), RUnit)
  | SPushFrontNode e => if qnode s e && negb (mem e (sq s)) then Some (set_sq s (e :: sq s), RUnit) else None
  | SPushBackNode e => if qnode s e && negb (mem e (sq s)) then Some (set_sq s (sq s ++ [e]), RUnit) else None
  | SInsertNodeAt i e => if qnode s e && negb (mem e (sq s)) then Some (set_sq s (ins_at (sq s) i e), RUnit) else None
  | SSwap i j =>
      if in_range s i && in_range s j && negb (i =? j) then
        match nth_error (sq s) (Z.to_nat i), nth_error (sq s) (Z.to_nat j) with
        | Some a, Some b =>
            Some ({| sq := sq s; qval := fupd (fupd (qval s) a (qval s b)) b (qval s a); qfresh := qfresh s |}, RUnit)
        | _, _ => None
        end
      else Some (s, RUnit)
  | SNext e => if qnode s e then Some (s, RHandle (succ_of e (sq s))) else None
  | SValue e => if qnode s e then Some (s, RInt (qval s e)) else None
  | SFwd => Some (s, RList (flat_map (fun x => [Z.of_nat x; qval s x]) (sq s)))
  | SAll k => Some (s, RList (take_all k (map (qval s) (sq s))))
  | SNewNode v => let (s', e) := qalloc s v in Some (s', RHandle (Some e))
  end.

Fixpoint qrun_acc (s : sspec) (ops : list sop) (acc : list res) : option (list res) :=
  match ops with
  | [] => Some (rev acc)
  | o :: t => match qstep s o with None => None | Some (s', r) => qrun_acc s' t (r :: acc) end
  end.
Definition sspec_case (ops : list sop) : option (list res) := qrun_acc sspec0 ops [].

(* the states after the operations (for the invariant theorem) *)
Fixpoint sl_exec (s : sl) (ops : list sop) : option sl :=
  match ops with
  | [] => Some s
  | o :: t => match sl_step s o with SOk s' _ => sl_exec s' t | _ => None end
  end.
Fixpoint q_exec (s : sspec) (ops : list sop) : option sspec :=
  match ops with
  | [] => Some s
  | o :: t => match qstep s o with Some (s', _) => q_exec s' t | None => None end
  end.
