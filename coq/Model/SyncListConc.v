From Coq Require Import List ZArith Lia Bool Arith.
Import ListNotations.
Local Open Scope Z_scope.
Arguments Z.add : simpl never.
Arguments Z.sub : simpl never.
Arguments Z.of_nat : simpl never.

(* listz.SyncList with the repaired order (count, then publish the tail). Nodes are numbered in link order. *)
Inductive lin_ev := LPush (v : Z) | LPop (v : Z) | LEmpty.
Fixpoint replay (l : list lin_ev) (q0 : list Z) : option (list Z) :=
  match l with
  | [] => Some q0
  | LPush v :: t => replay t (q0 ++ [v])
  | LPop v :: t => match q0 with x :: q' => if x =? v then replay t q' else None | [] => None end
  | LEmpty :: t => match q0 with [] => replay t [] | _ => None end
  end.

Record shared := { vals : list (option Z); head : nat; tail : nat; len : Z; q : list Z; lin : list lin_ev }.

Inductive pc :=
| Idle
| PushLoadTail (v : Z) | PushLoadNext (v : Z) (t : nat) | PushCas (v : Z) (t : nat) (nx : option nat)
| PushAdd (n : nat) (v : Z) | PushStoreTail (n : nat) (v : Z) | PushYield (v : Z)
| PopLoadHead | PopLoadTail (h : nat) | PopLoadNext (h : nat) | PopCas (h : nat) (nx : option nat)
| PopRead (n : nat) (gv : Z) | PopClear (n : nat) (gv : Z) (val : option Z) | PopDec (n : nat) (gv : Z) (val : option Z)
| LenLoad.

Inductive op := OpPush (v : Z) | OpPop | OpLen.
Inductive res := RPush | RPop (o : option Z) (claimed : Z) | RPopEmpty
  | RPopBusy                       (* Pop lost its CAS on head to another Pop: returns false *)
  | RLen (z : Z) (poppable : Z).    (* Len() = z; ghost: number of poppable values at the instant of the load *)

Definition next_of (s : shared) (i : nat) : option nat := if (S i <? length (vals s))%nat then Some (S i) else None.
Fixpoint upd {A} (l : list A) (i : nat) (x : A) : list A :=
  match l, i with [], _ => [] | _ :: t, O => x :: t | h :: t, S j => h :: upd t j x end.

Definition tstep (s : shared) (p : pc) (o : op) : shared * pc * option res :=
  match p with
  | Idle => match o with OpPush v => (s, PushLoadTail v, None) | OpPop => (s, PopLoadHead, None) | OpLen => (s, LenLoad, None) end
  | LenLoad => (s, Idle, Some (RLen (len s) (Z.of_nat (length (q s)))))
  | PushLoadTail v => (s, PushLoadNext v (tail s), None)
  | PushLoadNext v t => (s, PushCas v t (next_of s t), None)
  | PushCas v t nx =>
      match nx with
      | Some _ => (s, PushYield v, None)
      | None => match next_of s t with
                | None => ({| vals := vals s ++ [Some v]; head := head s; tail := tail s; len := len s; q := q s; lin := lin s |},
                           PushAdd (length (vals s)) v, None)
                | Some _ => (s, PushYield v, None)
                end
      end
  | PushAdd n v => ({| vals := vals s; head := head s; tail := tail s; len := len s + 1; q := q s; lin := lin s |}, PushStoreTail n v, None)
  | PushStoreTail n v =>                                  (* linearisation point of Push *)
      ({| vals := vals s; head := head s; tail := n; len := len s; q := q s ++ [v]; lin := lin s ++ [LPush v] |}, Idle, Some RPush)
  | PushYield v => (s, PushLoadTail v, None)
  | PopLoadHead => (s, PopLoadTail (head s), None)
  | PopLoadTail h =>
      if Nat.eqb h (tail s)                               (* linearisation point of an empty Pop *)
      then ({| vals := vals s; head := head s; tail := tail s; len := len s; q := q s; lin := lin s ++ [LEmpty] |}, Idle, Some RPopEmpty)
      else (s, PopLoadNext h, None)
  | PopLoadNext h => (s, PopCas h (next_of s h), None)
  | PopCas h nx =>
      if Nat.eqb (head s) h
      then match nx with
           | Some n => ({| vals := vals s; head := n; tail := tail s; len := len s; q := List.tl (q s);
                           lin := lin s ++ [LPop (nth 0 (q s) 0)] |}, PopRead n (nth 0 (q s) 0), None)   (* LP of Pop *)
           | None => (s, Idle, None)
           end
      else (s, Idle, Some RPopBusy)                       (* CAS failed: returns false; another Pop overlapped *)
  | PopRead n gv => (s, PopClear n gv (nth n (vals s) None), None)
  | PopClear n gv val => ({| vals := upd (vals s) n None; head := head s; tail := tail s; len := len s; q := q s; lin := lin s |},
                          PopDec n gv val, None)
  | PopDec n gv val => ({| vals := vals s; head := head s; tail := tail s; len := len s - 1; q := q s; lin := lin s |},
                        Idle, Some (RPop val gv))
  end.

Record config := { sh : shared; ths : list pc; hist : list (nat * res) }.
Definition step (c : config) (e : nat * op) : config :=
  let '(i, o) := e in
  match nth_error (ths c) i with
  | None => c
  | Some p => let '(s', p', r) := tstep (sh c) p o in
              {| sh := s'; ths := upd (ths c) i p'; hist := match r with Some x => hist c ++ [(i, x)] | None => hist c end |}
  end.
Definition run (c : config) (sched : list (nat * op)) : config := fold_left step sched c.
Definition init (n : nat) : config :=
  {| sh := {| vals := [None]; head := 0; tail := 0; len := 0; q := []; lin := [] |}; ths := repeat Idle n; hist := [] |}.

(* ---- invariant ---- *)
Definition wlen (p : pc) : Z := match p with PushStoreTail _ _ | PopRead _ _ | PopClear _ _ _ | PopDec _ _ _ => 1 | _ => 0 end.
Fixpoint sumw (l : list pc) : Z := match l with [] => 0 | p :: t => wlen p + sumw t end.
Definition linked (p : pc) : bool := match p with PushAdd _ _ | PushStoreTail _ _ => true | _ => false end.
Fixpoint nlinked (l : list pc) : Z := match l with [] => 0 | p :: t => (if linked p then 1 else 0) + nlinked t end.
Definition owns (p : pc) : option nat := match p with PopRead n _ | PopClear n _ _ => Some n | _ => None end.

Definition tassert (s : shared) (p : pc) : Prop :=
  match p with
  | PushLoadNext _ t | PushCas _ t _ => (t <= tail s)%nat
  | PushAdd n v | PushStoreTail n v => n = S (tail s) /\ S n = length (vals s) /\ nth n (vals s) None = Some v
  | PopLoadTail h => (h <= head s)%nat
  | PopLoadNext h => (h <= head s)%nat /\ (h = head s -> (h < tail s)%nat)
  | PopCas h nx => (h <= head s)%nat /\ (h = head s -> (h < tail s)%nat /\ nx = Some (S h))
  | PopRead n gv => (n <= head s)%nat /\ nth n (vals s) None = Some gv
  | PopClear n gv val => (n <= head s)%nat /\ val = Some gv
  | PopDec n gv val => val = Some gv
  | _ => True
  end.

Definition res_ok (r : nat * res) : Prop :=
  match snd r with RPop v g => v = Some g | RLen z g => 0 <= g <= z | _ => True end.

Record Inv (c : config) : Prop := {
  i_ht : (head (sh c) <= tail (sh c))%nat;
  i_len : (S (tail (sh c)) + Z.to_nat (nlinked (ths c)) = length (vals (sh c)))%nat;
  i_one : 0 <= nlinked (ths c) <= 1;
  i_q : length (q (sh c)) = (tail (sh c) - head (sh c))%nat;
  i_vals : forall j, (j < length (q (sh c)))%nat -> nth (S (head (sh c)) + j) (vals (sh c)) None = Some (nth j (q (sh c)) 0);
  i_cnt : len (sh c) = Z.of_nat (tail (sh c)) - Z.of_nat (head (sh c)) + sumw (ths c);
  i_lin : replay (lin (sh c)) [] = Some (q (sh c));
  i_uniq : forall a b p1 p2 n, a <> b -> nth_error (ths c) a = Some p1 -> nth_error (ths c) b = Some p2 ->
             owns p1 = Some n -> owns p2 <> Some n;
  i_t : Forall (tassert (sh c)) (ths c);
  i_h : Forall res_ok (hist c)
}.

Definition push_hist (h : list (nat * res)) (i : nat) (r : option res) : list (nat * res) :=
  match r with Some x => h ++ [(i, x)] | None => h end.

(* uniqueness of pop owners survives when the moved thread owns nothing new *)
Definition Uniq (l : list pc) : Prop :=
  forall a b p1 p2 n, a <> b -> nth_error l a = Some p1 -> nth_error l b = Some p2 -> owns p1 = Some n -> owns p2 <> Some n.

(* ---- the sequential states the correspondence run starts from ---- *)
Definition pre_val (j : nat) : Z := 9001 + Z.of_nat j.
(* the sequential state after npre pushes: nodes 1..npre hold the values, tail = npre *)
Definition seq_state (npre n : nat) : config :=
  let vs := map pre_val (seq 0 npre) in
  {| sh := {| vals := None :: map Some vs; head := 0; tail := npre; len := Z.of_nat npre; q := vs; lin := map LPush vs |};
     ths := repeat Idle n; hist := [] |}.

