(* C05 / C06 — case decoding, output encoding and the relational judges used by Run/C05.v and Run/C06.v.
   case   = nops :: ops ++ query
   op     = kind :: put_list bytes          (kind 0 = Insert(bytes), 1 = BuildFailureLinks (bytes empty))
   C05 query = put_list text                 (text is also used as the key of PrefixSearch / FuzzySearch)
   C06 query = put_list text ++ put_list repl ++ [mask]
   The property speaks about tries whose last operation is BuildFailureLinks ("canonical" cases); on other
   cases (a pattern inserted after the last build: nil fail links) the judges accept everything and only
   model = implementation is compared. *)
From Coq Require Import List ZArith Bool Arith.
From V Require Import Lib.Enc Lib.Utf8 Model.Trie.
Import ListNotations.
Local Open Scope Z_scope.

Fixpoint get_ops (n : nat) (l : list Z) : option (list op * list Z) :=
  match n with
  | O => Some ([], l)
  | S k => match l with
           | kind :: r =>
               let (b, r') := get_list r in
               match get_ops k r' with
               | Some (os, r'') => Some ((if kind =? 0 then OInsert b else OBuild) :: os, r'')
               | None => None
               end
           | [] => None
           end
  end.

Fixpoint inserted (ops : list op) : list bytes :=
  match ops with [] => [] | OInsert p :: r => p :: inserted r | OBuild :: r => inserted r end.
Definition canonical (ops : list op) : bool :=
  match rev ops with OBuild :: _ => true | _ => false end.

(* ---- encoders ---- *)
Definition enc_list_res (r : res (list bytes)) : option (list Z) :=
  match r with
  | Ok l => Some (Z.of_nat (length l) :: put_lists l)
  | Panic => Some [PANIC]
  | NoFuel => None
  end.
Definition enc_bool_res (r : res bool) : option (list Z) :=
  match r with Ok b => Some [zb b] | Panic => Some [PANIC] | NoFuel => None end.
Definition enc_bytes_res (r : res bytes) : option (list Z) :=
  match r with Ok b => Some (put_list b) | Panic => Some [PANIC] | NoFuel => None end.
Fixpoint cat_opts (l : list (option (list Z))) : option (list Z) :=
  match l with
  | [] => Some []
  | None :: _ => None
  | Some x :: t => match cat_opts t with Some r => Some (x ++ r) | None => None end
  end.
Definition out_of (o : option (list Z)) : list Z := match o with Some l => l | None => [NOFUEL] end.

(* ---- section parsers for the implementation's output ---- *)
Definition get_strings (l : list Z) : option (list bytes) * list Z :=
  match l with
  | [] => (None, [])
  | x :: r => if x <? 0 then (None, r) else let (ls, r') := get_lists (Z.to_nat x) r in (Some ls, r')
  end.
Definition get_bytes (l : list Z) : option bytes * list Z :=
  match l with
  | [] => (None, [])
  | x :: r => if x <? 0 then (None, r) else (Some (firstn (Z.to_nat x) r), skipn (Z.to_nat x) r)
  end.

(* ---- C05 ---- *)
Definition c05_model (ops : list op) (text : bytes) : list Z :=
  match run_ops empty_trie ops with
  | None => [NOFUEL]
  | Some T => out_of (cat_opts [enc_bool_res (match_ T text); enc_list_res (find_all T text);
                        enc_list_res (prefix_search T text); enc_list_res (fuzzy_search T text)])
  end.
(* the canonical answers of the specification (FindAll in emission order, PrefixSearch in insertion order of the
   distinct patterns; FuzzySearch is only constrained to return inserted patterns: WILD) *)
Definition WILD : Z := -1000006.
Definition c05_spec (ops : list op) (text : bytes) : list Z :=
  let ps := inserted ops in
  let fa := spec_find_all (mode_of ps) ps text in
  let pf := spec_prefix (negb (valid_utf8 text)) ps text in
  [zb (spec_match (mode_of ps) ps text)] ++ (Z.of_nat (length fa) :: put_lists fa)
   ++ (Z.of_nat (length pf) :: put_lists pf) ++ [WILD].
Definition c05_ok (ops : list op) (text : bytes) (out : list Z) : bool :=
  if negb (canonical ops) then true else
  let ps := inserted ops in
  match out with
  | m :: r1 =>
      let (fa, r2) := get_strings r1 in
      let (pf, r3) := get_strings r2 in
      let (fz, r4) := get_strings r3 in
      (m =? zb (spec_match (mode_of ps) ps text))
      && match fa with Some l => perm_b l (spec_find_all (mode_of ps) ps text) | None => false end
      && match pf with Some l => perm_b l (spec_prefix (negb (valid_utf8 text)) ps text) | None => false end
      && match fz with Some l => forallb (fun x => memb x (patterns ps)) l | None => false end
      && match r4 with [] => true | _ => false end
  | [] => false
  end.

(* ---- C06 ---- *)
Definition c06_model (ops : list op) (text repl : bytes) (mask : Z) : list Z :=
  match run_ops empty_trie ops with
  | None => [NOFUEL]
  | Some T => out_of (cat_opts [enc_bytes_res (replace T text repl); enc_bytes_res (replace_with_mask T text mask)])
  end.
Definition c06_spec (ops : list op) (text repl : bytes) (mask : Z) : list Z :=
  let ps := inserted ops in
  put_list (spec_replace_one (mode_of ps) ps text repl) ++ put_list (spec_mask (mode_of ps) ps text mask).
Definition c06_ok (ops : list op) (text repl : bytes) (mask : Z) (out : list Z) : bool :=
  if negb (canonical ops) then true else
  let ps := inserted ops in
  let (rp, r1) := get_bytes out in
  let (mk, r2) := get_bytes r1 in
  match rp with Some o => spec_replace_ok (mode_of ps) ps text repl o | None => false end
  && match mk with Some o => beqb o (spec_mask (mode_of ps) ps text mask) | None => false end
  && match r2 with [] => true | _ => false end.
