(* C14 — slicez/slices.go.  Executable model on a small heap of arrays.

   A Go slice is a window (array id, offset, len, cap) on one of the arrays of [mem]; array 0 is the empty
   array that stands for nil.  Every function of slices.go is written with the same cursors, branch order and
   index/slice expressions as the Go code; an index or slice expression is checked ([sread], [reslice], [nth_error])
   and gives [None] where Go would panic.  [append] writes into the array while len < cap and otherwise moves the
   slice to a freshly allocated array (new id = length of the heap), so that every aliasing layout of dst, s1, s2
   (dst = nil, own buffer, s1[:0], s2[:0], overlapping windows) is one and the same model.

   The second half holds the definitional side (plain list functions: [filter], first occurrences, [firstn]/[skipn])
   and the relational judge [judge] used by the failing-input search.  No proofs in this file. *)
From Coq Require Import List ZArith Bool Arith.
Import ListNotations.

(* ------------------------------------------------------------------ arrays and slices *)
Definition mem := list (list Z).
Record slice := mkS { arr : nat; off : nat; len : nat; cap : nat }.
Definition nil_slice : slice := mkS 0 0 0 0.
Definition is_nil (s : slice) : bool := (arr s =? 0)%nat.

Fixpoint upd {A : Type} (l : list A) (i : nat) (x : A) : list A :=
  match l, i with [] , _ => [] | _ :: t, O => x :: t | h :: t, S j => h :: upd t j x end.

Definition arr_of (m : mem) (a : nat) : list Z := nth a m [].
Definition set_arr (m : mem) (a : nat) (l : list Z) : mem := upd m a l.
(* overwrite l[o .. o+|vals|) *)
Definition splice (l : list Z) (o : nat) (vals : list Z) : list Z :=
  firstn o l ++ vals ++ skipn (o + length vals) l.

(* the elements a slice shows; checked: the window must lie inside its array *)
Definition window (l : list Z) (o n : nat) : list Z := firstn n (skipn o l).
Definition slice_vals (m : mem) (s : slice) : list Z := window (arr_of m (arr s)) (off s) (len s).
Definition slice_vals_chk (m : mem) (s : slice) : option (list Z) :=
  if (off s + len s <=? length (arr_of m (arr s)))%nat then Some (slice_vals m s) else None.

(* s[i] read / write with Go's bounds check against len *)
Definition sread (m : mem) (s : slice) (i : nat) : option Z :=
  if (i <? len s)%nat then nth_error (arr_of m (arr s)) (off s + i) else None.
Definition swrite (m : mem) (s : slice) (i : nat) (v : Z) : option mem :=
  if (i <? len s)%nat then Some (set_arr m (arr s) (upd (arr_of m (arr s)) (off s + i) v)) else None.

(* s[a:b]: 0 <= a <= b <= cap(s) *)
Definition reslice (s : slice) (a b : Z) : option slice :=
  if (0 <=? a)%Z && (a <=? b)%Z && (b <=? Z.of_nat (cap s))%Z
  then Some (mkS (arr s) (off s + Z.to_nat a) (Z.to_nat (b - a)) (cap s - Z.to_nat a))
  else None.
Definition reslice0 (s : slice) : slice := mkS (arr s) (off s) 0 (cap s).          (* dst[:0] *)

(* append(s, v): in place while there is capacity, otherwise a fresh array (its capacity is not observed) *)
Definition append1 (m : mem) (s : slice) (v : Z) : mem * slice :=
  if (len s <? cap s)%nat
  then (set_arr m (arr s) (upd (arr_of m (arr s)) (off s + len s) v), mkS (arr s) (off s) (S (len s)) (cap s))
  else (m ++ [slice_vals m s ++ [v]], mkS (length m) 0 (S (len s)) (S (len s))).
(* append(s, vals...): vals were read before anything is written (memmove) *)
Definition append_all (m : mem) (s : slice) (vals : list Z) : mem * slice :=
  match vals with
  | [] => (m, s)
  | _ =>
    if (len s + length vals <=? cap s)%nat
    then (set_arr m (arr s) (splice (arr_of m (arr s)) (off s + len s) vals),
          mkS (arr s) (off s) (len s + length vals) (cap s))
    else (m ++ [slice_vals m s ++ vals], mkS (length m) 0 (len s + length vals) (len s + length vals))
  end.
(* copy(d, src): min(len d, len src) elements, memmove *)
Definition builtin_copy (m : mem) (d src : slice) : option mem :=
  match slice_vals_chk m src with
  | None => None
  | Some vs => let n := Nat.min (len d) (len src) in
               Some (set_arr m (arr d) (splice (arr_of m (arr d)) (off d) (firstn n vs)))
  end.

Definition memz (k : Z) (l : list Z) : bool := existsb (Z.eqb k) l.

(* ------------------------------------------------------------------ selection loops *)
Section Sel.
Variable St : Type.
Variable step : St -> Z -> St * bool.        (* the loop body's decision, with the state it carries (seen map, count) *)

(* what a plain left-to-right pass keeps / rejects *)
Fixpoint kept (st : St) (l : list Z) : list Z :=
  match l with [] => [] | x :: t => let '(st', b) := step st x in if b then x :: kept st' t else kept st' t end.
Fixpoint rejected (st : St) (l : list Z) : list Z :=
  match l with [] => [] | x :: t => let '(st', b) := step st x in if b then rejected st' t else x :: rejected st' t end.

(* for _, v := range s1 { <step>; if keep { dst = append(dst, v) } }   -- s1[i] is read from the heap at iteration i *)
Fixpoint sel_loop (n : nat) (st : St) (m : mem) (s1 dst : slice) (i : nat) : option (mem * slice) :=
  match n with
  | O => Some (m, dst)
  | S n' =>
    match sread m s1 i with
    | None => None
    | Some v =>
      let '(st', b) := step st v in
      if b then let '(m', dst') := append1 m dst v in sel_loop n' st' m' s1 dst' (S i)
      else sel_loop n' st' m s1 dst (S i)
    end
  end.

(* for i := range s { <step s[i]>; if keep { s[remain], s[i] = s[i], s[remain]; remain++ } }  on the window of s *)
Fixpoint ip_loop (n : nat) (st : St) (w : list Z) (i remain : nat) : option (list Z * nat) :=
  match n with
  | O => Some (w, remain)
  | S n' =>
    match nth_error w i with
    | None => None
    | Some v =>
      let '(st', b) := step st v in
      if b then
        match nth_error w remain with
        | None => None
        | Some u => ip_loop n' st' (upd (upd w remain v) i u) (S i) (S remain)
        end
      else ip_loop n' st' w (S i) remain
    end
  end.

(* an InPlace function: run the partition on s's window, store it back, return s[:remain] *)
Definition in_place (st0 : St) (m : mem) (s : slice) : option (mem * slice) :=
  match slice_vals_chk m s with
  | None => None
  | Some w =>
    match ip_loop (len s) st0 w 0 0 with
    | None => None
    | Some (w', r) => Some (set_arr m (arr s) (splice (arr_of m (arr s)) (off s) w'), mkS (arr s) (off s) r (cap s))
    end
  end.
End Sel.

(* the three decision functions *)
Definition pstep (p : Z -> bool) (_ : unit) (v : Z) : unit * bool := (tt, p v).
Definition ustate := (list Z * nat)%type.                         (* the map's key set, uniqueCount *)
(* seen[key(v)] = struct{}{}; if uniqueCount < len(seen) { keep; uniqueCount = len(seen) } *)
Definition ustep (key : Z -> Z) (st : ustate) (v : Z) : ustate * bool :=
  let '(seen, cnt) := st in
  let seen' := if memz (key v) seen then seen else key v :: seen in
  if (cnt <? length seen')%nat then ((seen', length seen'), true) else ((seen', cnt), false).

(* ------------------------------------------------------------------ slices.go, function by function *)
Definition go_filter (p : Z -> bool) (m : mem) (dst s : slice) : option (mem * slice) :=
  sel_loop unit (pstep p) (len s) tt m s (reslice0 dst) 0.
Definition go_filter_in_place (p : Z -> bool) (m : mem) (s : slice) : option (mem * slice) :=
  in_place unit (pstep p) tt m s.

Definition go_diff (m : mem) (dst s1 s2 : slice) : option (mem * slice) :=
  let dst := reslice0 dst in
  if (len s1 =? 0)%nat then Some (m, dst) else
  if (len s2 =? 0)%nat then
    match slice_vals_chk m s1 with None => None | Some vs => Some (append_all m dst vs) end
  else
    match slice_vals_chk m s2 with          (* the map is complete before the first write *)
    | None => None
    | Some keys => sel_loop unit (pstep (fun v => negb (memz v keys))) (len s1) tt m s1 dst 0
    end.
Definition go_diff_in_place (m : mem) (s1 s2 : slice) : option (mem * slice) :=
  if (len s1 =? 0)%nat || (len s2 =? 0)%nat then Some (m, s1) else
  match slice_vals_chk m s2 with
  | None => None
  | Some keys => in_place unit (pstep (fun v => negb (memz v keys))) tt m s1
  end.
Definition go_intersect (m : mem) (dst s1 s2 : slice) : option (mem * slice) :=
  let dst := reslice0 dst in
  if (len s1 =? 0)%nat || (len s2 =? 0)%nat then Some (m, dst) else
  match slice_vals_chk m s2 with
  | None => None
  | Some keys => sel_loop unit (pstep (fun v => memz v keys)) (len s1) tt m s1 dst 0
  end.
Definition go_intersect_in_place (m : mem) (s1 s2 : slice) : option (mem * slice) :=
  if (len s1 =? 0)%nat || (len s2 =? 0)%nat then Some (m, reslice0 s1) else
  match slice_vals_chk m s2 with
  | None => None
  | Some keys => in_place unit (pstep (fun v => memz v keys)) tt m s1
  end.
(* Unique is UniqueByKey with the identity key (two copies of the same code in Go) *)
Definition go_unique_by_key (key : Z -> Z) (m : mem) (dst s : slice) : option (mem * slice) :=
  let dst := reslice0 dst in
  if (len s =? 0)%nat then Some (m, dst) else
  sel_loop ustate (ustep key) (len s) ([], 0%nat) m s dst 0.
Definition go_unique_by_key_in_place (key : Z -> Z) (m : mem) (s : slice) : option (mem * slice) :=
  if (len s =? 0)%nat then Some (m, s) else in_place ustate (ustep key) ([], 0%nat) m s.

Local Open Scope Z_scope.

(* Equal: length test, s2 = s2[:len(s1)], element loop *)
Fixpoint eq_loop (n : nat) (m : mem) (s1 s2 : slice) (i : nat) : option bool :=
  match n with
  | O => Some true
  | S n' =>
    match sread m s1 i, sread m s2 i with
    | Some a, Some b => if a =? b then eq_loop n' m s1 s2 (S i) else Some false
    | _, _ => None
    end
  end.
Definition go_equal (m : mem) (s1 s2 : slice) : option bool :=
  if negb (len s1 =? len s2)%nat then Some false else
  match reslice s2 0 (Z.of_nat (len s1)) with
  | None => None
  | Some s2' => eq_loop (len s1) m s1 s2' 0
  end.

(* Index / IndexFunc: first i with f(s[i]) *)
Fixpoint idx_loop (f : Z -> bool) (n : nat) (m : mem) (s : slice) (i : nat) : option Z :=
  match n with
  | O => Some (-1)
  | S n' =>
    match sread m s i with
    | None => None
    | Some a => if f a then Some (Z.of_nat i) else idx_loop f n' m s (S i)
    end
  end.
Definition go_index_func (f : Z -> bool) (m : mem) (s : slice) : option Z := idx_loop f (len s) m s 0.
Definition go_index (m : mem) (s : slice) (v : Z) : option Z := go_index_func (Z.eqb v) m s.
Definition go_contains_func (f : Z -> bool) (m : mem) (s : slice) : option bool :=
  match go_index_func f m s with None => None | Some i => Some (i >=? 0) end.
Definition go_contains (m : mem) (s : slice) (v : Z) : option bool := go_contains_func (Z.eqb v) m s.

(* the clamping of SubSlice: None = "return nil", Some (start, end) = "return s[start:end]" *)
Definition sub_bounds (l start end_ : Z) : option (Z * Z) :=
  if start >? l then None else
  let start := if start <? 0 then 0 else start in
  let end_ := if (end_ <? 0) || (end_ >? l) then l else end_ in
  if start >=? end_ then None else Some (start, end_).
Definition go_subslice (s : slice) (start end_ : Z) : option slice :=
  match sub_bounds (Z.of_nat (len s)) start end_ with
  | None => Some nil_slice
  | Some (a, b) => reslice s a b
  end.

(* the clamping of Copy: None = "return nil", Some (start, length) *)
Definition copy_bounds (l start length : Z) : option (Z * Z) :=
  if (l =? 0) || (start >=? l) || (length =? 0) then None else
  let start := if start <? 0 then 0 else start in
  let maxn := l - start in
  let length := if (length <? 0) || (length >? maxn) then maxn else length in
  Some (start, length).
Definition go_copy (m : mem) (s : slice) (start length : Z) : option (mem * slice) :=
  match copy_bounds (Z.of_nat (len s)) start length with
  | None => Some (m, nil_slice)
  | Some (a, n) =>
    match reslice s a (a + n) with
    | None => None
    | Some c =>
      match slice_vals_chk m c with
      | None => None
      | Some vs => Some (append_all m nil_slice vs)               (* append([]T(nil), s[a:a+n]...) *)
      end
    end
  end.

(* Values: make([]V, n) is never nil; filled in order *)
Definition go_values (fn : Z -> Z) (m : mem) (ss : list slice) : mem * slice :=
  let vs := map fn (concat (map (slice_vals m) ss)) in
  (m ++ [vs], mkS (length m) 0 (length vs) (length vs)).

(* Remove: (s, zero, false) when the index is out of range; otherwise shift left, zero the last slot, s[:last] *)
Definition go_remove (m : mem) (s : slice) (index : Z) : option (mem * slice * Z * bool) :=
  let l := Z.of_nat (len s) in
  if (index <? 0) || (index >=? l) then Some (m, s, 0, false) else
  let last := l - 1 in
  match sread m s (Z.to_nat index) with
  | None => None
  | Some v =>
    let m1 :=
      if index <? last then
        match reslice s index l, reslice s (index + 1) l with
        | Some d, Some src => builtin_copy m d src
        | _, _ => None
        end
      else Some m in
    match m1 with
    | None => None
    | Some m1 =>
      match swrite m1 s (Z.to_nat last) 0, reslice s 0 last with
      | Some m2, Some r => Some (m2, r, v, true)
      | _, _ => None
      end
    end
  end.

(* Chunk: the loop of n = len/chunkSize full pieces, then the rest *)
Fixpoint chunk_loop (s : slice) (size : Z) (n : nat) (start : Z) (acc : list slice) : option (list slice * Z) :=
  match n with
  | O => Some (acc, start)
  | S k =>
    let e := start + size in
    match reslice s start e with
    | None => None
    | Some c => chunk_loop s size k e (acc ++ [c])
    end
  end.
(* result: (is nil, capacity of the outer slice, pieces) *)
Definition go_chunk (s : slice) (size : Z) : option (bool * Z * list slice) :=
  let l := Z.of_nat (len s) in
  if l =? 0 then Some (true, 0, []) else
  if (size <? 1) || (l <=? size) then Some (false, 1, [s]) else
  let n := l / size in
  match chunk_loop s size (Z.to_nat n) 0 [] with
  | None => None
  | Some (acc, start) =>
    if l >? start then
      match reslice s start l with
      | None => None
      | Some c => Some (false, n + 1, acc ++ [c])
      end
    else Some (false, n + 1, acc)
  end.

(* ChunkProcess with a callback that records its argument and fails at call number [fail_at] (>= 1; 0 = never).
   result: (recorded calls, error returned) *)
Definition process (fail_at : Z) (calls : list slice) (c : slice) : list slice * bool :=
  (calls ++ [c], Z.of_nat (length calls) + 1 =? fail_at).
Fixpoint cp_loop (fail_at : Z) (s : slice) (size : Z) (n : nat) (start : Z) (calls : list slice)
  : option (list slice * Z * bool) :=
  match n with
  | O => Some (calls, start, false)
  | S k =>
    let e := start + size in
    match reslice s start e with
    | None => None
    | Some c =>
      let '(calls', err) := process fail_at calls c in
      if err then Some (calls', e, true) else cp_loop fail_at s size k e calls'
    end
  end.
Definition go_chunk_process (fail_at : Z) (s : slice) (size : Z) : option (list slice * bool) :=
  let l := Z.of_nat (len s) in
  if l =? 0 then Some ([], false) else
  if (size <? 1) || (l <=? size) then Some (process fail_at [] s) else
  let n := l / size in
  match cp_loop fail_at s size (Z.to_nat n) 0 [] with
  | None => None
  | Some (calls, start, true) => Some (calls, true)
  | Some (calls, start, false) =>
    if l >? start then
      match reslice s start l with
      | None => None
      | Some c => Some (process fail_at calls c)
      end
    else Some (calls, false)
  end.

(* ------------------------------------------------------------------ definitional side *)
(* first occurrence of every key, in order *)
Fixpoint firsts (key : Z -> Z) (seen : list Z) (l : list Z) : list Z :=
  match l with
  | [] => []
  | v :: t => if memz (key v) seen then firsts key seen t else v :: firsts key (key v :: seen) t
  end.
Definition spec_diff (l1 l2 : list Z) : list Z := filter (fun v => negb (memz v l2)) l1.
Definition spec_intersect (l1 l2 : list Z) : list Z := filter (fun v => memz v l2) l1.
Definition spec_unique_by (key : Z -> Z) (l : list Z) : list Z := firsts key [] l.

Fixpoint eqb_list (a b : list Z) : bool :=
  match a, b with
  | [], [] => true
  | x :: a', y :: b' => (x =? y) && eqb_list a' b'
  | _, _ => false
  end.
Fixpoint find_index (f : Z -> bool) (l : list Z) (i : Z) : Z :=
  match l with [] => -1 | x :: t => if f x then i else find_index f t (i + 1) end.

(* SubSlice as documented: start clamped up to 0, a negative or oversized end means len(s); empty when start >= end.
   (start is also clamped down to len before it becomes a nat: nothing is left from there on anyway) *)
Definition spec_sub (l : list Z) (start end_ : Z) : list Z :=
  let n := Z.of_nat (length l) in
  let a := Z.min (Z.max start 0) n in
  let b := if (end_ <? 0) || (end_ >? n) then n else end_ in
  window l (Z.to_nat a) (Z.to_nat (b - a)).
(* Copy as documented: length elements from start; a negative or oversized length means "to the end" *)
Definition spec_copy (l : list Z) (start length : Z) : list Z :=
  let n := Z.of_nat (List.length l) in
  let a := Z.min (Z.max start 0) n in
  let k := if (length <? 0) || (length >? n - a) then n - a else length in
  window l (Z.to_nat a) (Z.to_nat k).
Definition spec_remove (l : list Z) (index : Z) : list Z * Z * bool :=
  if (0 <=? index) && (index <? Z.of_nat (length l))
  then (firstn (Z.to_nat index) l ++ skipn (S (Z.to_nat index)) l, nth (Z.to_nat index) l 0, true)
  else (l, 0, false).

(* the chunking: consecutive pieces of [size] elements (the last one holds what is left); one piece when size < 1 *)
Fixpoint chunks_fuel (fuel size : nat) (l : list Z) : list (list Z) :=
  match fuel with
  | O => []
  | S f => match l with [] => [] | _ => firstn size l :: chunks_fuel f size (skipn size l) end
  end.
Definition spec_chunks (size : Z) (l : list Z) : list (list Z) :=
  match l with
  | [] => []
  | _ => if size <? 1 then [l] else chunks_fuel (length l) (Z.to_nat (Z.min size (Z.of_nat (length l)))) l
  end.
Fixpoint eqb_lists (a b : list (list Z)) : bool :=
  match a, b with
  | [], [] => true
  | x :: a', y :: b' => eqb_list x y && eqb_lists a' b'
  | _, _ => false
  end.

(* same multiset *)
Definition count (x : Z) (l : list Z) : nat := count_occ Z.eq_dec l x.
Definition perm_b (a b : list Z) : bool := forallb (fun x => (count x a =? count x b)%nat) (a ++ b).

(* ------------------------------------------------------------------ cases, observations, judge *)
(* function codes *)
Definition F_DIFF := 1.          Definition F_DIFF_IP := 2.      Definition F_INTER := 3.       Definition F_INTER_IP := 4.
Definition F_UNIQUE := 5.        Definition F_UNIQUE_IP := 6.    Definition F_UNIQKEY := 7.     Definition F_UNIQKEY_IP := 8.
Definition F_FILTER := 9.        Definition F_FILTER_IP := 10.   Definition F_EQUAL := 11.      Definition F_INDEX := 12.
Definition F_INDEXFN := 13.      Definition F_SUBSLICE := 14.    Definition F_CONTAINS := 15.   Definition F_CONTAINSFN := 16.
Definition F_CHUNK := 17.        Definition F_CHUNKP := 18.      Definition F_COPY := 19.       Definition F_VALUES := 20.
Definition F_REMOVE := 21.

Record case := mkCase { c_f : Z; c_mem : mem; c_sl : list slice; c_args : list Z }.

(* a slice as the harness observes it: nil?, elements, where it lives (array*1000+offset for one of the case's arrays
   when cap > 0, -1 for memory that is none of them) *)
Record rs := mkRs { r_nil : bool; r_vals : list Z; r_where : Z }.
(* an outcome: panic, or result slices + scalars + the case's arrays after the call *)
Record out := mkOut { o_panic : bool; o_res : list rs; o_scal : list Z; o_arrs : list (list Z) }.
Definition out_panic : out := mkOut true [] [] [].

Definition wf_slice (m : mem) (s : slice) : bool :=
  (arr s <? length m)%nat && (len s <=? cap s)%nat && (off s + cap s <=? length (arr_of m (arr s)))%nat.
Definition elem_ok (v : Z) : bool := (0 <=? v) && (v <? 60).
Definition sl (c : case) (i : nat) : slice := nth i (c_sl c) nil_slice.
(* integer arguments travel as tokens below 2^61: a token within 1000 of +-2^60 stands for the Go int that far from
   MaxInt / MinInt (so that math.MaxInt, math.MinInt and their neighbours can be passed to the real functions) *)
Definition ext_arg (v : Z) : Z :=
  if (2 ^ 60 - 1000 <=? v) && (v <=? 2 ^ 60) then 2 ^ 63 - 1 - (2 ^ 60 - v)
  else if (- 2 ^ 60 <=? v) && (v <=? - 2 ^ 60 + 1000) then - 2 ^ 63 + (v + 2 ^ 60)
  else v.
Definition arg (c : case) (i : nat) : Z := ext_arg (nth i (c_args c) 0).
(* what the harness's callbacks can compute without overflow or a panic of their own *)
Definition args_ok (c : case) : bool :=
  let f := c_f c in
  if (f =? F_UNIQKEY) || (f =? F_UNIQKEY_IP) then (1 <=? arg c 0) && (arg c 0 <=? 1000) else
  if (f =? F_FILTER) || (f =? F_FILTER_IP) || (f =? F_INDEXFN) || (f =? F_CONTAINSFN) then (0 <=? arg c 0) && (arg c 0 <? 2 ^ 60) else
  if f =? F_VALUES then (-1000 <=? arg c 0) && (arg c 0 <=? 1000) && (-1000 <=? arg c 1) && (arg c 1 <=? 1000) else
  (1 <=? f) && (f <=? 21).
Definition wf_case (c : case) : bool :=
  match c_mem c with
  | [] :: rest => forallb (wf_slice (c_mem c)) (c_sl c) && forallb (forallb elem_ok) rest && args_ok c
  | _ => false
  end.
Definition pred_of (mask : Z) (v : Z) : bool := Z.testbit mask v.           (* mask>>v & 1 == 1 *)
Definition key_of (kd : Z) (v : Z) : Z := v / kd.                           (* keyFn in the harness: v / kd, kd >= 1, v >= 0 *)
Definition fn_of (mul add : Z) (v : Z) : Z := v * mul + add.                (* fn of Values in the harness *)

Definition where_of (k : nat) (s : slice) : Z :=
  if (1 <=? arr s)%nat && (arr s <=? k)%nat && (0 <? cap s)%nat then Z.of_nat (arr s) * 1000 + Z.of_nat (off s) else -1.
Definition observe (k : nat) (m : mem) (s : slice) : rs := mkRs (is_nil s) (slice_vals m s) (where_of k s).
Definition arrays_of (k : nat) (m : mem) : list (list Z) := firstn k (skipn 1 m).
Definition zb (b : bool) : Z := if b then 1 else 0.

Definition out_sel (k : nat) (r : option (mem * slice)) : out :=
  match r with
  | None => out_panic
  | Some (m, s) => mkOut false [observe k m s] [] (arrays_of k m)
  end.

Definition run_case (c : case) : out :=
  let m := c_mem c in let k := Nat.pred (length m) in let f := c_f c in
  if f =? F_DIFF then out_sel k (go_diff m (sl c 0) (sl c 1) (sl c 2)) else
  if f =? F_DIFF_IP then out_sel k (go_diff_in_place m (sl c 0) (sl c 1)) else
  if f =? F_INTER then out_sel k (go_intersect m (sl c 0) (sl c 1) (sl c 2)) else
  if f =? F_INTER_IP then out_sel k (go_intersect_in_place m (sl c 0) (sl c 1)) else
  if f =? F_UNIQUE then out_sel k (go_unique_by_key (fun v => v) m (sl c 0) (sl c 1)) else
  if f =? F_UNIQUE_IP then out_sel k (go_unique_by_key_in_place (fun v => v) m (sl c 0)) else
  if f =? F_UNIQKEY then out_sel k (go_unique_by_key (key_of (arg c 0)) m (sl c 0) (sl c 1)) else
  if f =? F_UNIQKEY_IP then out_sel k (go_unique_by_key_in_place (key_of (arg c 0)) m (sl c 0)) else
  if f =? F_FILTER then out_sel k (go_filter (pred_of (arg c 0)) m (sl c 0) (sl c 1)) else
  if f =? F_FILTER_IP then out_sel k (go_filter_in_place (pred_of (arg c 0)) m (sl c 0)) else
  if f =? F_EQUAL then
    match go_equal m (sl c 0) (sl c 1) with None => out_panic | Some b => mkOut false [] [zb b] (arrays_of k m) end else
  if f =? F_INDEX then
    match go_index m (sl c 0) (arg c 0) with None => out_panic | Some i => mkOut false [] [i] (arrays_of k m) end else
  if f =? F_INDEXFN then
    match go_index_func (pred_of (arg c 0)) m (sl c 0) with None => out_panic | Some i => mkOut false [] [i] (arrays_of k m) end else
  if f =? F_SUBSLICE then
    match go_subslice (sl c 0) (arg c 0) (arg c 1) with None => out_panic | Some s => mkOut false [observe k m s] [] (arrays_of k m) end else
  if f =? F_CONTAINS then
    match go_contains m (sl c 0) (arg c 0) with None => out_panic | Some b => mkOut false [] [zb b] (arrays_of k m) end else
  if f =? F_CONTAINSFN then
    match go_contains_func (pred_of (arg c 0)) m (sl c 0) with None => out_panic | Some b => mkOut false [] [zb b] (arrays_of k m) end else
  if f =? F_CHUNK then
    match go_chunk (sl c 0) (arg c 0) with
    | None => out_panic
    | Some (isnil, ocap, cs) => mkOut false (map (observe k m) cs) [zb isnil; ocap] (arrays_of k m)
    end else
  if f =? F_CHUNKP then
    match go_chunk_process (arg c 1) (sl c 0) (arg c 0) with
    | None => out_panic
    | Some (calls, err) => mkOut false (map (observe k m) calls) [zb err] (arrays_of k m)
    end else
  if f =? F_COPY then out_sel k (go_copy m (sl c 0) (arg c 0) (arg c 1)) else
  if f =? F_VALUES then out_sel k (Some (go_values (fn_of (arg c 0) (arg c 1)) m (c_sl c))) else
  if f =? F_REMOVE then
    match go_remove m (sl c 0) (arg c 0) with
    | None => out_panic
    | Some (m', s, v, ok) => mkOut false [observe k m' s] [v; zb ok] (arrays_of k m')
    end else
  out_panic.

(* ---- the judge: what C14 claims about an observed outcome of the case (capacities and, for the functions
   that promise nothing about them, the arrays after the call are not looked at) *)
Definition vals0 (c : case) (i : nat) : list Z := slice_vals (c_mem c) (sl c i).       (* contents before the call *)
Definition res_vals (o : out) : list Z := match o_res o with r :: _ => r_vals r | [] => [] end.
Definition res_is (o : out) (l : list Z) : bool :=
  match o_res o with [r] => eqb_list (r_vals r) l | _ => false end.
Definition res_fresh (o : out) : bool :=
  match o_res o with [r] => r_where r =? -1 | _ => false end.
Definition scal (o : out) (i : nat) : Z := nth i (o_scal o) (-7).
(* the window of slice i of the case, in the arrays observed after the call *)
Definition win_after (c : case) (o : out) (i : nat) : list Z :=
  let s := sl c i in window (nth (Nat.pred (arr s)) (o_arrs o) []) (off s) (len s).
Definition arrays_same (c : case) (o : out) : bool := eqb_lists (o_arrs o) (skipn 1 (c_mem c)).
(* the dst layouts the property speaks about: dst shares no array with s1, or dst and s1 start at the same element *)
Definition layout_claimed (dst s1 : slice) : bool :=
  negb (arr dst =? arr s1)%nat || (off dst =? off s1)%nat.
(* an InPlace result: same multiset as the definitional result; it is the front of the argument; the argument's
   window is a permutation of its old content *)
Definition inplace_ok (c : case) (o : out) (expect : list Z) : bool :=
  match o_res o with
  | [r] => perm_b (r_vals r) expect && eqb_list (r_vals r) (firstn (length (r_vals r)) (win_after c o 0))
           && perm_b (win_after c o 0) (vals0 c 0)
  | _ => false
  end.
(* the five dst-taking functions called with a dst that overlaps s1 elsewhere than at its start: the property says nothing *)
Definition is_sel (f : Z) : bool :=
  (f =? F_DIFF) || (f =? F_INTER) || (f =? F_UNIQUE) || (f =? F_UNIQKEY) || (f =? F_FILTER).
Definition unclaimed_sel (c : case) : bool := is_sel (c_f c) && negb (layout_claimed (sl c 0) (sl c 1)).
Definition sel_ok (c : case) (o : out) (expect : list Z) : bool := res_is o expect.

Definition judge (c : case) (o : out) : bool :=
  let f := c_f c in
  if unclaimed_sel c then true else
  if o_panic o then false else
  if f =? F_DIFF then sel_ok c o (spec_diff (vals0 c 1) (vals0 c 2)) else
  if f =? F_DIFF_IP then inplace_ok c o (spec_diff (vals0 c 0) (vals0 c 1)) else
  if f =? F_INTER then sel_ok c o (spec_intersect (vals0 c 1) (vals0 c 2)) else
  if f =? F_INTER_IP then inplace_ok c o (spec_intersect (vals0 c 0) (vals0 c 1)) else
  if f =? F_UNIQUE then sel_ok c o (spec_unique_by (fun v => v) (vals0 c 1)) else
  if f =? F_UNIQUE_IP then inplace_ok c o (spec_unique_by (fun v => v) (vals0 c 0)) else
  if f =? F_UNIQKEY then sel_ok c o (spec_unique_by (key_of (arg c 0)) (vals0 c 1)) else
  if f =? F_UNIQKEY_IP then inplace_ok c o (spec_unique_by (key_of (arg c 0)) (vals0 c 0)) else
  if f =? F_FILTER then sel_ok c o (filter (pred_of (arg c 0)) (vals0 c 1)) else
  if f =? F_FILTER_IP then inplace_ok c o (filter (pred_of (arg c 0)) (vals0 c 0)) else
  if f =? F_EQUAL then scal o 0 =? zb (eqb_list (vals0 c 0) (vals0 c 1)) else
  if f =? F_INDEX then scal o 0 =? find_index (Z.eqb (arg c 0)) (vals0 c 0) 0 else
  if f =? F_INDEXFN then scal o 0 =? find_index (pred_of (arg c 0)) (vals0 c 0) 0 else
  if f =? F_SUBSLICE then res_is o (spec_sub (vals0 c 0) (arg c 0) (arg c 1)) && arrays_same c o else
  if f =? F_CONTAINS then scal o 0 =? zb (memz (arg c 0) (vals0 c 0)) else
  if f =? F_CONTAINSFN then scal o 0 =? zb (existsb (pred_of (arg c 0)) (vals0 c 0)) else
  if f =? F_CHUNK then eqb_lists (map r_vals (o_res o)) (spec_chunks (arg c 0) (vals0 c 0)) && arrays_same c o else
  if f =? F_CHUNKP then
    (* process saw the chunks in order up to and including the first one it rejected; the error is reported iff it rejected one *)
    let cs := spec_chunks (arg c 0) (vals0 c 0) in
    let failed := (1 <=? arg c 1) && (arg c 1 <=? Z.of_nat (length cs)) in
    eqb_lists (map r_vals (o_res o)) (if failed then firstn (Z.to_nat (arg c 1)) cs else cs) &&
    (scal o 0 =? zb failed) && arrays_same c o else
  if f =? F_COPY then res_is o (spec_copy (vals0 c 0) (arg c 0) (arg c 1)) && res_fresh o && arrays_same c o else
  if f =? F_VALUES then
    res_is o (map (fn_of (arg c 0) (arg c 1)) (concat (map (slice_vals (c_mem c)) (c_sl c)))) && res_fresh o && arrays_same c o else
  if f =? F_REMOVE then
    let '(l, v, ok) := spec_remove (vals0 c 0) (arg c 0) in
    res_is o l && (scal o 0 =? v) && (scal o 1 =? zb ok) else
  false.
