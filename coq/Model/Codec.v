(* C07 — strz/enc.go: OctalFormat/Parse, HexFormat/Parse, UnicodeFormat/Parse, Utf16Format/Parse (and the ToString
   forms), with the helpers parseUint / lower / upper of strz/std_strconv.go and appendUint / toUpper of enc.go.

   Index-level model.  byte = Z in [0,256), string / []byte = list Z.  Every slice expression and every indexed
   read or write the Go code performs is a checked operation here; [None] = the Go code would panic (fuel exhaustion
   is [None] too: the totality theorems of Proofs/Codec*.v exclude both at once).
   A parser gets the length [dl] of the destination buffer separately from the source (Parse(dst, src)); the
   ToString forms call it with dl = len(src).  cap(dst) = len(dst) and cap(src) = len(src) (the harness hands the
   implementation exact-capacity slices).

   Second half of the file: the specification side (no cursors, no buffers): the escapes as arithmetic on the value,
   Format as "concat of the escapes of the runes", Parse as a left-to-right scan of the list. *)
From Coq Require Import List ZArith Bool Arith.
From V Require Import Lib.Utf8 Gen.Codec.
Import ListNotations.
Local Open Scope Z_scope.

(* ================================================================================================================ *)
(* constants read from the source on every run (gen/codec.go -> Gen/Codec.v)                                         *)
Definition MaxRune : Z := 1114111.                       (* utf8.MaxRune (standard library) *)
Definition RuneSelf : Z := 128.                          (* utf8.RuneSelf *)

(* ================================================================================================================ *)
(* std_strconv.go                                                                                                    *)
Definition lower (c : Z) : Z := Z.lor c 32.                                  (* c | 32 *)
Definition upper (c : Z) : Z := Z.ldiff c (Z.shiftl (Z.shiftr c 6) 5).      (* c &^ (c >> 6 << 5) *)

Definition digit (c : Z) : option Z :=
  if (48 <=? c) && (c <=? 57) then Some (c - 48)
  else let l := lower c in if (97 <=? l) && (l <=? 122) then Some (l - 97 + 10) else None.

Definition two64 : Z := 18446744073709551616.
Definition cutoff (base : Z) : Z := (two64 - 1) / base + 1.                  (* maxUint64/uint64(base) + 1 *)
Definition maxval (bits : Z) : Z := 2 ^ bits - 1.                            (* uint64(1)<<uint(bitSize) - 1 *)

(* parseUint(s, base, bitSize) = (n, index of the first rejected byte, ok), uint64 arithmetic, std_strconv.go:122-155 *)
Fixpoint pu (base maxv n : Z) (j : nat) (ds : list Z) : Z * nat * bool :=
  match ds with
  | [] => (n, j, true)
  | c :: t =>
      match digit c with
      | None => (0, j, false)
      | Some dg =>
          if base <=? dg then (0, j, false)
          else if cutoff base <=? n then (maxv, j, false)
          else let nb := (n * base) mod two64 in
               let n1 := (nb + dg) mod two64 in
               if (n1 <? nb) || (maxv <? n1) then (maxv, j, false)
               else pu base maxv n1 (S j) t
      end
  end.
Definition parse_uint (ds : list Z) (base bits : Z) : Z * nat * bool := pu base (maxval bits) 0 0%nat ds.

(* ================================================================================================================ *)
(* checked buffer operations                                                                                         *)
Definition slice (l : list Z) (a b : nat) : option (list Z) :=        (* l[a:b], cap = len *)
  if (a <=? b)%nat && (b <=? length l)%nat then Some (firstn (b - a) (skipn a l)) else None.

(* e += copy(dst[e:], chunk) with len(dst) = dl: dst[e:] panics if e > dl, copy truncates silently *)
Definition copy_into (dl : nat) (out chunk : list Z) : option (list Z) :=
  if (length out <=? dl)%nat then Some (out ++ firstn (dl - length out) chunk) else None.

(* dst[e] = b; e++   and   e += utf8.EncodeRune(dst[e:], r): panic unless all the bytes fit *)
Definition write (dl : nat) (out bytes : list Z) : option (list Z) :=
  if (length out + length bytes <=? dl)%nat then Some (out ++ bytes) else None.

(* if f < i { e += copy(dst[e:], src[f:i]) } *)
Definition flush (dl : nat) (src : list Z) (f i : nat) (out : list Z) : option (list Z) :=
  if (f <? i)%nat then match slice src f i with None => None | Some lit => copy_into dl out lit end else Some out.

(* after the loop: if f < len(src) { e += copy(dst[e:], src[f:]) }; return e   (the result is dst[:e]) *)
Definition finish (dl : nat) (src : list Z) (f : nat) (out : list Z) : option (list Z) :=
  if (f <? length src)%nat
  then match slice src f (length src) with None => None | Some tl => copy_into dl out tl end
  else Some out.

(* ================================================================================================================ *)
(* OctalParse / HexParse / UnicodeParse (enc.go:100-133, 153-186, 225-267): three copies of one loop that differ in
   the escape width W, the prefix (its length P), the digit base, the bit size and what is done with the value.     *)
Section Esc.
Variable W P : nat.                          (* bytes per escape, bytes of prefix *)
Variable prefix : list Z.
Variable base maxv : Z.
Variable emit : Z -> option (list Z).        (* None: value rejected (n > utf8.MaxRune): i += W, nothing flushed *)
Variable dl : nat.                           (* len(dst) *)

(* src[i] != '\\' || src[i+1] != 'x' : the prefix bytes at i (in range because len(src)-i >= W) *)
Definition pfx_ok (src : list Z) (i : nat) : option bool :=
  match slice src i (i + P) with None => None | Some p => Some (if list_eq_dec Z.eq_dec p prefix then true else false) end.

Fixpoint gparse (fuel : nat) (src : list Z) (i f : nat) (out : list Z) : option (list Z) :=
  match fuel with
  | O => None
  | S fu =>
      let n := length src in
      if (n <=? i)%nat then finish dl src f out
      else if (n - i <? W)%nat then finish dl src f out
      else match pfx_ok src i with
           | None => None
           | Some false => gparse fu src (S i) f out
           | Some true =>
               match slice src (i + P) (i + W) with
               | None => None
               | Some ds =>
                   let '(v, j, ok) := pu base maxv 0 0%nat ds in
                   if negb ok then gparse fu src (i + P + j) f out
                   else match emit v with
                        | None => gparse fu src (i + W) f out
                        | Some bs =>
                            match flush dl src f i out with
                            | None => None
                            | Some out1 =>
                                match write dl out1 bs with
                                | None => None
                                | Some out2 => gparse fu src (i + W) (i + W) out2
                                end
                            end
                        end
               end
           end
  end.
Definition esc_parse (src : list Z) : option (list Z) := gparse (S (length src)) src 0 0 [].
End Esc.

Definition byte_emit (v : Z) : option (list Z) := Some [v mod 256].                          (* dst[e] = byte(n) *)
Definition unicode_emit (v : Z) : option (list Z) :=
  if MaxRune <? v then None else Some (if v <? RuneSelf then [v mod 256] else encode_rune v).

Definition octal_parse (dl : nat) (src : list Z) : option (list Z) :=
  esc_parse (Z.to_nat oct_W) (Z.to_nat oct_P) oct_prefix oct_base (maxval oct_bits) byte_emit dl src.
Definition hex_parse (dl : nat) (src : list Z) : option (list Z) :=
  esc_parse (Z.to_nat hex_W) (Z.to_nat hex_P) hex_prefix hex_base (maxval hex_bits) byte_emit dl src.
Definition unicode_parse (dl : nat) (src : list Z) : option (list Z) :=
  esc_parse (Z.to_nat uni_W) (Z.to_nat uni_P) uni_prefix uni_base (maxval uni_bits) unicode_emit dl src.

(* ================================================================================================================ *)
(* Utf16Parse (enc.go:317-383), branch for branch                                                                    *)
Definition utf16_decode (r1 r2 : Z) : Z :=                                   (* utf16.DecodeRune *)
  if (55296 <=? r1) && (r1 <? 56320) && (56320 <=? r2) && (r2 <? 57344)
  then (r1 - 55296) * 1024 + (r2 - 56320) + 65536 else RuneError.

Definition is_u (src : list Z) (i : nat) : option bool :=                    (* src[i] == '\\' && src[i+1] == 'u' *)
  match nth_error src i, nth_error src (i + 1) with
  | Some c0, Some c1 => Some ((c0 =? 92) && (c1 =? 117))
  | _, _ => None
  end.

Section U16.
Variable dl : nat.
Fixpoint uparse (fuel : nat) (src : list Z) (i f : nat) (out : list Z) : option (list Z) :=
  match fuel with
  | O => None
  | S fu =>
      let n := length src in
      if (n <=? i)%nat then finish dl src f out
      else if (n - i <? 6)%nat then finish dl src f out
      else match is_u src i with
           | None => None
           | Some false => uparse fu src (S i) f out
           | Some true =>
               match slice src (i + 2) (i + 6) with
               | None => None
               | Some ds =>
                   let '(n1, j, ok) := pu 16 (maxval 16) 0 0%nat ds in
                   if negb ok then uparse fu src (i + 2 + j) f out
                   else match flush dl src f i out with
                        | None => None
                        | Some out1 =>
                            let f1 := if (f <? i)%nat then i else f in
                            if (n1 <? u16_surr1) || (u16_surr3 <=? n1) then
                              match write dl out1 (encode_rune n1) with
                              | None => None
                              | Some out2 => uparse fu src (i + 6) (i + 6) out2
                              end
                            else if (u16_surr1 <=? n1) && (n1 <? u16_surr2) then
                              let i2 := (i + 6)%nat in
                              if (n - i2 <? 6)%nat then finish dl src f1 out1                    (* break *)
                              else match is_u src i2 with
                                   | None => None
                                   | Some false => uparse fu src (S i2) f1 out1
                                   | Some true =>
                                       match slice src (i2 + 2) (i2 + 6) with
                                       | None => None
                                       | Some ds2 =>
                                           let '(n2, j2, ok2) := pu 16 (maxval 16) 0 0%nat ds2 in
                                           if negb ok2 then uparse fu src (i2 + 2 + j2) f1 out1
                                           else if (u16_surr2 <=? n2) && (n2 <? u16_surr3) then
                                                  match write dl out1 (encode_rune (utf16_decode n1 n2)) with
                                                  | None => None
                                                  | Some out2 => uparse fu src (i2 + 6) (i2 + 6) out2
                                                  end
                                                else uparse fu src (i2 + 6) f1 out1              (* falls to the last i += 6 *)
                                       end
                                   end
                            else uparse fu src (i + 6) f1 out1                                    (* a lone low surrogate *)
                        end
               end
           end
  end.
Definition utf16_parse (src : list Z) : option (list Z) := uparse (S (length src)) src 0 0 [].
End U16.

(* ================================================================================================================ *)
(* Format side: strconv.AppendUint, appendUint (zero padded), toUpper, and the four loops                             *)
Definition digit_char (d : Z) : Z := if d <? 10 then 48 + d else 87 + d.     (* "0123456789abcdefghijklmnopqrstuvwxyz"[d] *)
Fixpoint fmt_digits (fuel : nat) (base v : Z) (acc : list Z) : list Z :=
  match fuel with
  | O => acc
  | S fu => let acc' := digit_char (v mod base) :: acc in
            if v / base =? 0 then acc' else fmt_digits fu base (v / base) acc'
  end.
Definition format_bits (v base : Z) : list Z := fmt_digits 64 base v [].     (* strconv.AppendUint(nil, v, base) *)

(* appendUint(dst, v, base), len(dst) = w (w <= len(zeroPadding) at every call site): digits right-aligned, '0' to
   the left; a value with more than w digits makes x negative and dst[x:] panics *)
Definition append_uint (w : nat) (v base : Z) : option (list Z) :=
  let b := format_bits v base in
  if (length b <=? w)%nat then Some (repeat 48 (w - length b) ++ b) else None.
Definition to_upper (l : list Z) : list Z := map upper l.

Definition pad_to (cap : nat) (out : list Z) : list Z := out ++ repeat 0 (cap - length out).   (* the whole make()d buffer is returned *)

(* OctalFormat: b := make([]byte, len(s)*4); per byte: b[j] = '\\'; appendUint(b[j+1:j+4], s[i], 8) *)
Fixpoint octal_format_go (cap : nat) (s out : list Z) : option (list Z) :=
  match s with
  | [] => Some (pad_to cap out)
  | c :: t =>
      if (length out + 4 <=? cap)%nat then
        match append_uint 3 c 8 with
        | None => None
        | Some d => octal_format_go cap t (out ++ 92 :: d)
        end
      else None
  end.
Definition octal_format (s : list Z) : option (list Z) := octal_format_go (length s * 4) s [].

(* HexFormat: '\\', 'x', appendUint(b[j+2:j+4], s[i], 16), toUpper *)
Fixpoint hex_format_go (cap : nat) (s out : list Z) : option (list Z) :=
  match s with
  | [] => Some (pad_to cap out)
  | c :: t =>
      if (length out + 4 <=? cap)%nat then
        match append_uint 2 c 16 with
        | None => None
        | Some d => hex_format_go cap t (out ++ 92 :: 120 :: to_upper d)
        end
      else None
  end.
Definition hex_format (s : list Z) : option (list Z) := hex_format_go (length s * 4) s [].

(* UnicodeFormat: b := make([]byte, utf8.RuneCountInString(src)*10); ASCII fast path; DecodeRuneInString otherwise;
   RuneError (an invalid byte, or a genuine U+FFFD) is written as the literal "0000FFFD" *)
Definition FFFD8 : list Z := [48; 48; 48; 48; 70; 70; 70; 68].
Fixpoint unicode_format_go (fuel cap : nat) (s out : list Z) : option (list Z) :=
  match fuel with
  | O => None
  | S fu =>
      match s with
      | [] => Some (pad_to cap out)
      | bt :: t =>
          if (length out + 10 <=? cap)%nat then
            if bt <? RuneSelf then
              match append_uint 8 bt 16 with
              | None => None
              | Some d => unicode_format_go fu cap t (out ++ 92 :: 85 :: to_upper d)
              end
            else
              let (c, size) := decode s in
              if c =? RuneError then unicode_format_go fu cap (skipn size s) (out ++ 92 :: 85 :: FFFD8)
              else match append_uint 8 c 16 with
                   | None => None
                   | Some d => unicode_format_go fu cap (skipn size s) (out ++ 92 :: 85 :: to_upper d)
                   end
          else None
      end
  end.
Definition unicode_format (s : list Z) : option (list Z) :=
  unicode_format_go (S (length s)) (rune_count s * 10) s [].

(* Utf16Format: b grows by append (no capacity to overrun); switch on the decoded rune *)
Definition utf16_encode (r : Z) : Z * Z :=                                   (* utf16.EncodeRune *)
  if (r <? 65536) || (MaxRune <? r) then (RuneError, RuneError)
  else (55296 + ((r - 65536) / 1024) mod 1024, 56320 + (r - 65536) mod 1024).
Definition FFFD4 : list Z := [70; 70; 70; 68].
Definition u_esc (d : list Z) : list Z := 92 :: 117 :: d.
Fixpoint utf16_format_go (fuel : nat) (s out : list Z) : option (list Z) :=
  match fuel with
  | O => None
  | S fu =>
      match s with
      | [] => Some out
      | bt :: t =>
          if bt <? RuneSelf then
            match append_uint 4 bt 16 with
            | None => None
            | Some d => utf16_format_go fu t (out ++ u_esc (to_upper d))
            end
          else
            let (c, size) := decode s in
            let rest := skipn size s in
            if c =? RuneError then utf16_format_go fu rest (out ++ u_esc FFFD4)
            else if ((0 <=? c) && (c <? 55296)) || ((57344 <=? c) && (c <? 65536)) then
              match append_uint 4 c 16 with
              | None => None
              | Some d => utf16_format_go fu rest (out ++ u_esc (to_upper d))
              end
            else if (65536 <=? c) && (c <=? MaxRune) then
              let (r1, r2) := utf16_encode c in
              match append_uint 4 r1 16, append_uint 4 r2 16 with
              | Some d1, Some d2 => utf16_format_go fu rest (out ++ u_esc (to_upper d1) ++ u_esc (to_upper d2))
              | _, _ => None
              end
            else utf16_format_go fu rest (out ++ u_esc FFFD4)
      end
  end.
Definition utf16_format (s : list Z) : option (list Z) := utf16_format_go (S (length s)) s [].

(* ================================================================================================================ *)
(* ================================================================================================================ *)
(* SPECIFICATION SIDE                                                                                                *)

Definition is_byte (b : Z) : Prop := 0 <= b < 256.
Definition bytes (s : list Z) : Prop := Forall is_byte s.
Definition backslash_free (s : list Z) : Prop := Forall (fun c => c <> 92) s.

(* the escapes, as arithmetic on the value; digits are upper case *)
Definition hexd (n : Z) : Z := if n <? 10 then 48 + n else 55 + n.           (* '0'..'9', 'A'..'F' *)
Definition hex2 (v : Z) : list Z := [hexd (v / 16); hexd (v mod 16)].
Definition hex4 (v : Z) : list Z := [hexd (v / 4096); hexd ((v / 256) mod 16); hexd ((v / 16) mod 16); hexd (v mod 16)].
Definition hex8 (v : Z) : list Z := hex4 (v / 65536) ++ hex4 (v mod 65536).
Definition esc_o (b : Z) : list Z := [92; 48 + b / 64; 48 + (b / 8) mod 8; 48 + b mod 8].     (* \ooo *)
Definition esc_x (b : Z) : list Z := [92; 120] ++ hex2 b.                                      (* \xXX *)
Definition esc_U (r : Z) : list Z := [92; 85] ++ hex8 r.                                       (* \UXXXXXXXX *)
Definition hi_s (r : Z) : Z := 55296 + (r - 65536) / 1024.                                     (* high / low surrogate of r >= 0x10000 *)
Definition lo_s (r : Z) : Z := 56320 + (r - 65536) mod 1024.
Definition esc_u (r : Z) : list Z :=                                                           (* \uXXXX, a pair above U+FFFF *)
  if r <? 65536 then [92; 117] ++ hex4 r else ([92; 117] ++ hex4 (hi_s r)) ++ [92; 117] ++ hex4 (lo_s r).

(* Format = the escapes of the bytes / of the runes ([runes]: range-over-string decoding, an invalid byte is U+FFFD) *)
Definition s_octal_format (s : list Z) : list Z := concat (map esc_o s).
Definition s_hex_format (s : list Z) : list Z := concat (map esc_x s).
Definition s_unicode_format (s : list Z) : list Z := concat (map esc_U (runes s)).
Definition s_utf16_format (s : list Z) : list Z := concat (map esc_u (runes s)).
(* what a string becomes when every invalid byte is replaced by U+FFFD (the identity on valid UTF-8) *)
Definition sanitize (s : list Z) : list Z := concat (map encode_rune (runes s)).

(* value of a digit string: every byte a digit of the base, no prefix value above maxv *)
Fixpoint pus (base maxv n : Z) (ds : list Z) : option Z :=
  match ds with
  | [] => Some n
  | c :: t =>
      match digit c with
      | None => None
      | Some d => if base <=? d then None
                  else let n1 := n * base + d in if maxv <? n1 then None else pus base maxv n1 t
      end
  end.

Fixpoint list_eqb (a b : list Z) : bool :=
  match a, b with
  | [], [] => true
  | x :: a', y :: b' => (x =? y) && list_eqb a' b'
  | _, _ => false
  end.

(* Parse as a scan of the list: at each position, if a complete escape (all W bytes present, the prefix, W-P digits
   of the base, value accepted) starts here it is replaced by what it denotes and the scan continues behind it;
   otherwise the byte is copied and the scan continues at the next byte. [skip] = bytes of an escape still to drop. *)
Section SpecEsc.
Variable W P : nat.
Variable prefix : list Z.
Variable base maxv : Z.
Variable emit : Z -> option (list Z).
Definition esc_at (l : list Z) : option (list Z) :=
  if (W <=? length l)%nat && list_eqb (firstn P l) prefix then
    match pus base maxv 0 (firstn (W - P) (skipn P l)) with
    | Some v => emit v
    | None => None
    end
  else None.
Fixpoint s_scan (skip : nat) (l : list Z) : list Z :=
  match l with
  | [] => []
  | c :: t =>
      match skip with
      | S k => s_scan k t
      | O => match esc_at l with
             | Some bs => bs ++ s_scan (W - 1) t
             | None => c :: s_scan 0 t
             end
      end
  end.
Definition s_parse (l : list Z) : list Z := s_scan 0 l.
End SpecEsc.

Definition s_byte_emit (v : Z) : option (list Z) := Some [v].
Definition s_unicode_emit (v : Z) : option (list Z) := if 1114111 <? v then None else Some (encode_rune v).
Definition s_octal_parse : list Z -> list Z := s_parse 4 1 [92] 8 255 s_byte_emit.
Definition s_hex_parse : list Z -> list Z := s_parse 4 2 [92; 120] 16 255 s_byte_emit.
Definition s_unicode_parse : list Z -> list Z := s_parse 10 2 [92; 85] 16 4294967295 s_unicode_emit.

(* UTF-16: the code unit of a complete \uXXXX at the head of l *)
Definition u_at (l : list Z) : option Z :=
  if (6 <=? length l)%nat && list_eqb (firstn 2 l) [92; 117] then pus 16 65535 0 (firstn 4 (skipn 2 l)) else None.
Definition is_hi (n : Z) : bool := (55296 <=? n) && (n <? 56320).
Definition is_lo (n : Z) : bool := (56320 <=? n) && (n <? 57344).
(* scan: a non-surrogate unit is replaced by its UTF-8 encoding; a high surrogate directly followed by a low
   surrogate escape is replaced by the encoding of the scalar the pair denotes; a lone low surrogate escape stays;
   a high surrogate escape that is not followed by a low one stays, AND SO DOES a complete \uXXXX escape directly
   behind it, whatever its value (this is what the code does: both are stepped over together). *)
Fixpoint s_utf16_scan (fuel : nat) (l : list Z) : list Z :=
  match fuel with
  | O => l
  | S fu =>
      match l with
      | [] => []
      | c :: t =>
          match u_at l with
          | None => c :: s_utf16_scan fu t
          | Some n1 =>
              if is_hi n1 then
                match u_at (skipn 6 l) with
                | Some n2 =>
                    if is_lo n2 then encode_rune (65536 + (n1 - 55296) * 1024 + (n2 - 56320)) ++ s_utf16_scan fu (skipn 12 l)
                    else firstn 12 l ++ s_utf16_scan fu (skipn 12 l)
                | None => firstn 6 l ++ s_utf16_scan fu (skipn 6 l)
                end
              else if is_lo n1 then firstn 6 l ++ s_utf16_scan fu (skipn 6 l)
              else encode_rune n1 ++ s_utf16_scan fu (skipn 6 l)
          end
      end
  end.
Definition s_utf16_parse (l : list Z) : list Z := s_utf16_scan (length l) l.
