From Coq Require Import List ZArith Lia Bool Arith.
Import ListNotations.
Local Open Scope Z_scope.
Arguments Z.add : simpl never.
Arguments Z.sub : simpl never.
Arguments Z.mul : simpl never.
Arguments Z.modulo : simpl never.
Arguments Z.pow : simpl never.
Arguments Z.of_nat : simpl never.
Arguments Z.to_nat : simpl never.

Definition M32 : Z := 2 ^ 32.
Definition u32 (x : Z) : Z := x mod M32.

Fixpoint upd {A} (l : list A) (i : nat) (x : A) : list A :=
  match l, i with
  | [], _ => []
  | _ :: t, O => x :: t
  | h :: t, S j => h :: upd t j x
  end.

(* ------------------------------------------------------------------------------------------- *)
(* Step model of ringz.SyncRing under concurrency.                                              *)
(* hd, tl are unbounded ghosts; the code only ever sees u32 hd, u32 tl.                         *)
(* q (abstract FIFO content) and ph (per-slot phase) are ghosts: written, never read by control. *)
(* ------------------------------------------------------------------------------------------- *)
Inductive phase := Free (p : Z) | PushOwned (p : Z) | Published (p : Z) | PopOwned (p : Z).
Definition seq_of (f : phase) : Z :=
  match f with Free p => p | PushOwned p => p | Published p => p + 1 | PopOwned p => p + 1 end.
Definition ticket (f : phase) : Z :=
  match f with Free p | PushOwned p | Published p | PopOwned p => p end.

Inductive lin_ev := LPush (v : Z) | LPop (v : Z).

Record shared := {
  slots : list (option Z * Z);       (* value, pos (a uint32) *)
  hd : Z; tl : Z; cap : Z;
  q : list Z;                        (* ghost: abstract FIFO content *)
  ph : list phase;                   (* ghost: per-slot phase *)
  lin : list lin_ev                  (* ghost: operations in the order of their linearisation points *)
}.

(* the observers Len / IsEmpty / IsFull: two counter loads each *)
Inductive obs := KLen | KIsEmpty | KIsFull.
(* Len(): two loads, a wrapping subtraction, a clamp *)
Definition len_of (t h c : Z) : Z := let l := u32 (t - h) in if c <? l then c else l.

Inductive pc :=
| Idle
| PuLoadTail (v : Z)
| PuLoadSeq (v pos T0 : Z)
| PuCas (v pos seq T0 : Z)
| PuWrite (v pos seq T0 : Z)
| PuPublish (v pos seq T0 : Z)
| PoLoadHead
| PoLoadSeq (pos H0 : Z)
| PoCas (pos seq H0 : Z)
| PoRead (pos seq H0 gv : Z)
| PoClear (pos seq H0 gv : Z) (val : option Z)
| PoRelease (pos seq H0 gv : Z) (val : option Z)
| ObsFirst (k : obs)
| ObsSecond (k : obs) (a : Z).

Inductive op := OpPush (v : Z) | OpPop | OpObs (k : obs).
Inductive res := RPush (b : bool) | RPop (o : option Z) (claimed : option Z)
  | RObs (k : obs) (z : Z) (c : Z).   (* observer result (Len value, or 0/1) and, as a ghost, the capacity *)  (* claimed: ghost, value taken at the LP *)

Definition sidx (s : shared) (pos : Z) : nat := Z.to_nat (pos mod cap s).   (* pos & mask *)

Definition set_slot (s : shared) (i : nat) (x : option Z * Z) (f : phase) : shared :=
  {| slots := upd (slots s) i x; hd := hd s; tl := tl s; cap := cap s; q := q s; ph := upd (ph s) i f; lin := lin s |}.

(* one atomic (or non-atomic shared) step of a thread; returns new shared state, new pc, optional result *)
Definition tstep (s : shared) (p : pc) (o : op) : option (shared * pc * option res) :=
  match p with
  | Idle => match o with OpPush v => Some (s, PuLoadTail v, None) | OpPop => Some (s, PoLoadHead, None)
                         | OpObs k => Some (s, ObsFirst k, None) end
  (* IsEmpty: head then tail; IsFull and Len: tail then head (operand order of the Go expressions) *)
  | ObsFirst k => Some (s, ObsSecond k (match k with KIsEmpty => u32 (hd s) | _ => u32 (tl s) end), None)
  | ObsSecond k a =>
      Some (s, Idle, Some (RObs k (match k with
                                   | KLen => len_of a (u32 (hd s)) (cap s)
                                   | KIsFull => if u32 (a - u32 (hd s)) =? cap s then 1 else 0
                                   | KIsEmpty => if a =? u32 (tl s) then 1 else 0
                                   end) (cap s)))
  | PuLoadTail v => Some (s, PuLoadSeq v (u32 (tl s)) (tl s), None)
  | PuLoadSeq v pos T0 =>
      match nth_error (slots s) (sidx s pos) with
      | None => None
      | Some (_, seq) => if pos =? seq then Some (s, PuCas v pos seq T0, None) else Some (s, Idle, Some (RPush false))
      end
  | PuCas v pos seq T0 =>
      if u32 (tl s) =? pos
      then Some ({| slots := slots s; hd := hd s; tl := tl s + 1; cap := cap s; q := q s ++ [v];
                    ph := upd (ph s) (sidx s pos) (PushOwned (tl s)); lin := lin s ++ [LPush v] |}, PuWrite v pos seq (tl s), None)
      else Some (s, Idle, Some (RPush false))
  | PuWrite v pos seq T0 =>
      match nth_error (slots s) (sidx s pos) with
      | None => None
      | Some (_, sq) => Some (set_slot s (sidx s pos) (Some v, sq) (PushOwned T0), PuPublish v pos seq T0, None)
      end
  | PuPublish v pos seq T0 =>
      match nth_error (slots s) (sidx s pos) with
      | None => None
      | Some (x, _) => Some (set_slot s (sidx s pos) (x, u32 (seq + 1)) (Published T0), Idle, Some (RPush true))
      end
  | PoLoadHead => Some (s, PoLoadSeq (u32 (hd s)) (hd s), None)
  | PoLoadSeq pos H0 =>
      match nth_error (slots s) (sidx s pos) with
      | None => None
      | Some (_, seq) => if u32 (pos + 1) =? seq then Some (s, PoCas pos seq H0, None) else Some (s, Idle, Some (RPop None None))
      end
  | PoCas pos seq H0 =>
      if u32 (hd s) =? pos
      then Some ({| slots := slots s; hd := hd s + 1; tl := tl s; cap := cap s; q := tail (q s);
                    ph := upd (ph s) (sidx s pos) (PopOwned (hd s)); lin := lin s ++ [LPop (nth 0 (q s) 0)] |}, PoRead pos seq (hd s) (nth 0 (q s) 0), None)
      else Some (s, Idle, Some (RPop None None))
  | PoRead pos seq H0 gv =>
      match nth_error (slots s) (sidx s pos) with
      | None => None
      | Some (x, _) => Some (s, PoClear pos seq H0 gv x, None)
      end
  | PoClear pos seq H0 gv val =>
      match nth_error (slots s) (sidx s pos) with
      | None => None
      | Some (_, sq) => Some (set_slot s (sidx s pos) (None, sq) (PopOwned H0), PoRelease pos seq H0 gv val, None)
      end
  | PoRelease pos seq H0 gv val =>
      match nth_error (slots s) (sidx s pos) with
      | None => None
      | Some (x, _) => Some (set_slot s (sidx s pos) (x, u32 (seq + (cap s - 1))) (Free (H0 + cap s)), Idle, Some (RPop val (Some gv)))
      end
  end.

Record config := { sh : shared; ths : list pc; hist : list (nat * res) }.

Definition step (c : config) (e : nat * op) : option config :=
  let '(i, o) := e in
  match nth_error (ths c) i with
  | None => Some c
  | Some p =>
      match tstep (sh c) p o with
      | None => None
      | Some (s', p', r) =>
          Some {| sh := s'; ths := upd (ths c) i p';
                  hist := match r with Some x => hist c ++ [(i, x)] | None => hist c end |}
      end
  end.

Fixpoint run (c : config) (sched : list (nat * op)) : option config :=
  match sched with
  | [] => Some c
  | e :: t => match step c e with None => None | Some c' => run c' t end
  end.

Definition init (k : Z) (n : nat) : config :=
  {| sh := {| slots := map (fun i => (None, Z.of_nat i)) (seq 0 (Z.to_nat (2 ^ k)));
              hd := 0; tl := 0; cap := 2 ^ k; q := [];
              ph := map (fun i => Free (Z.of_nat i)) (seq 0 (Z.to_nat (2 ^ k))); lin := [] |};
     ths := repeat Idle n; hist := [] |}.

(* ------------------------------------------------------------------------------------------- *)
(* Invariant                                                                                    *)
(* ------------------------------------------------------------------------------------------- *)
Definition phase_at (s : shared) (p : Z) : option phase := nth_error (ph s) (sidx s p).
Definition slot_at (s : shared) (p : Z) : option (option Z * Z) := nth_error (slots s) (sidx s p).

Definition slot_ok (s : shared) (i : nat) (x : option Z * Z) (f : phase) : Prop :=
  sidx s (ticket f) = i /\
  snd x = u32 (seq_of f) /\
  match f with
  | Free p => tl s <= p < hd s + cap s
  | PushOwned p => hd s <= p < tl s
  | Published p => hd s <= p < tl s /\ fst x = Some (nth (Z.to_nat (p - hd s)) (q s) 0)
  | PopOwned p => tl s - cap s <= p < hd s
  end.

(* sequential specification: a FIFO of capacity c replays the log; None = the log is not a legal run *)
Fixpoint replay (c : Z) (l : list lin_ev) (q0 : list Z) : option (list Z) :=
  match l with
  | [] => Some q0
  | LPush v :: t => if Z.of_nat (length q0) <? c then replay c t (q0 ++ [v]) else None
  | LPop v :: t => match q0 with x :: q' => if x =? v then replay c t q' else None | [] => None end
  end.

Record G (k : Z) (s : shared) : Prop := {
  g_k : 1 <= k <= 31;
  g_cap : cap s = 2 ^ k;
  g_len : Z.of_nat (length (slots s)) = cap s;
  g_lph : length (ph s) = length (slots s);
  g_hd : 0 <= hd s;
  g_q : tl s = hd s + Z.of_nat (length (q s));
  g_full : Z.of_nat (length (q s)) <= cap s;
  g_slots : forall i x f, nth_error (slots s) i = Some x -> nth_error (ph s) i = Some f -> slot_ok s i x f;
  g_lin : replay (cap s) (lin s) [] = Some (q s)
}.

Definition tassert (s : shared) (p : pc) : Prop :=
  match p with
  | Idle | PuLoadTail _ | PoLoadHead | ObsFirst _ | ObsSecond _ _ => True
  | PuLoadSeq v pos T0 => pos = u32 T0 /\ T0 <= tl s
  | PuCas v pos seq T0 => pos = u32 T0 /\ T0 <= tl s /\ seq = pos /\ (T0 = tl s -> phase_at s T0 = Some (Free T0))
  | PuWrite v pos seq T0 =>
      pos = u32 T0 /\ seq = u32 T0 /\ phase_at s T0 = Some (PushOwned T0) /\ nth (Z.to_nat (T0 - hd s)) (q s) 0 = v
  | PuPublish v pos seq T0 =>
      pos = u32 T0 /\ seq = u32 T0 /\ phase_at s T0 = Some (PushOwned T0) /\ nth (Z.to_nat (T0 - hd s)) (q s) 0 = v /\
      exists sq, slot_at s T0 = Some (Some v, sq)
  | PoLoadSeq pos H0 => pos = u32 H0 /\ H0 <= hd s
  | PoCas pos seq H0 => pos = u32 H0 /\ H0 <= hd s /\ seq = u32 (pos + 1) /\ (H0 = hd s -> phase_at s H0 = Some (Published H0))
  | PoRead pos seq H0 gv =>
      pos = u32 H0 /\ seq = u32 (H0 + 1) /\ phase_at s H0 = Some (PopOwned H0) /\ exists sq, slot_at s H0 = Some (Some gv, sq)
  | PoClear pos seq H0 gv val | PoRelease pos seq H0 gv val =>
      pos = u32 H0 /\ seq = u32 (H0 + 1) /\ phase_at s H0 = Some (PopOwned H0) /\ val = Some gv
  end.

(* the phase a thread's assertion pins down (if any) *)
Definition pinned (s : shared) (p : pc) : option phase :=
  match p with
  | PuCas _ _ _ T0 => if T0 =? tl s then Some (Free T0) else None
  | PuWrite _ _ _ T0 | PuPublish _ _ _ T0 => Some (PushOwned T0)
  | PoCas _ _ H0 => if H0 =? hd s then Some (Published H0) else None
  | PoRead _ _ H0 _ | PoClear _ _ H0 _ _ | PoRelease _ _ H0 _ _ => Some (PopOwned H0)
  | _ => None
  end.

Definition owner_phase (p : pc) : option phase :=
  match p with
  | PuWrite _ _ _ T0 | PuPublish _ _ _ T0 => Some (PushOwned T0)
  | PoRead _ _ H0 _ | PoClear _ _ H0 _ _ | PoRelease _ _ H0 _ _ => Some (PopOwned H0)
  | _ => None
  end.

(* two different threads never own the same ticket *)
Definition Uniq (l : list pc) : Prop :=
  forall i j p1 p2 f, i <> j -> nth_error l i = Some p1 -> nth_error l j = Some p2 ->
    owner_phase p1 = Some f -> owner_phase p2 <> Some f.

Definition res_ok (r : nat * res) : Prop :=
  match snd r with
  | RPop v (Some g) => v = Some g
  | RObs KLen z c => 0 <= z <= c
  | RObs _ z _ => z = 0 \/ z = 1
  | _ => True
  end.

Definition is_owned (f : phase) : bool := match f with PushOwned _ | PopOwned _ => true | _ => false end.
(* every slot that is in an owned phase has an owning thread *)
Definition Owned (s : shared) (l : list pc) : Prop :=
  forall i f, nth_error (ph s) i = Some f -> is_owned f = true -> exists j pj, nth_error l j = Some pj /\ owner_phase pj = Some f.

Record Inv (k : Z) (c : config) : Prop := {
  inv_g : G k (sh c);
  inv_u : Uniq (ths c);
  inv_t : Forall (tassert (sh c)) (ths c);
  inv_h : Forall res_ok (hist c);
  inv_o : Owned (sh c) (ths c)
}.

Definition push_hist (h : list (nat * res)) (i : nat) (r : option res) : list (nat * res) :=
  match r with Some x => h ++ [(i, x)] | None => h end.

(* ------------------------------------------------------------------------------------------- *)
(* LP of Push: successful CAS on tail                                                            *)
(* ------------------------------------------------------------------------------------------- *)
Definition after_push_cas (s : shared) (v : Z) : shared :=
  {| slots := slots s; hd := hd s; tl := tl s + 1; cap := cap s; q := q s ++ [v];
     ph := upd (ph s) (sidx s (tl s)) (PushOwned (tl s)); lin := lin s ++ [LPush v] |}.

(* ------------------------------------------------------------------------------------------- *)
(* LP of Pop: successful CAS on head                                                             *)
(* ------------------------------------------------------------------------------------------- *)
Definition after_pop_cas (s : shared) : shared :=
  {| slots := slots s; hd := hd s + 1; tl := tl s; cap := cap s; q := tail (q s);
     ph := upd (ph s) (sidx s (hd s)) (PopOwned (hd s)); lin := lin s ++ [LPop (nth 0 (q s) 0)] |}.

(* ------------------------------------------------------------------------------------------- *)
(* One step of any thread preserves the invariant (and never panics)                             *)
(* ------------------------------------------------------------------------------------------- *)
Definition fresh_ok (c : config) (i : nat) : Prop :=
  match nth_error (ths c) i with
  | Some (PuCas _ _ _ T0) => tl (sh c) - T0 < M32
  | Some (PoCas _ _ H0) => hd (sh c) - H0 < M32
  | _ => True
  end.

Definition next (c : config) (i : nat) (s' : shared) (p' : pc) (r : option res) : config :=
  {| sh := s'; ths := upd (ths c) i p'; hist := push_hist (hist c) i r |}.

Fixpoint fresh_run (c : config) (sched : list (nat * op)) : Prop :=
  match sched with
  | [] => True
  | e :: t => fresh_ok c (fst e) /\ match step c e with Some c' => fresh_run c' t | None => True end
  end.

(* non-atomic accesses to a slot's value: (slot index, is it a write) *)
Definition plain_access (s : shared) (p : pc) : option (nat * bool) :=
  match p with
  | PuWrite _ pos _ _ => Some (sidx s pos, true)
  | PoRead pos _ _ _ => Some (sidx s pos, false)
  | PoClear pos _ _ _ _ => Some (sidx s pos, true)
  | _ => None
  end.
Definition race (c : config) : Prop :=
  exists i j pi pj a wi wj, i <> j /\ nth_error (ths c) i = Some pi /\ nth_error (ths c) j = Some pj /\
    plain_access (sh c) pi = Some (a, wi) /\ plain_access (sh c) pj = Some (a, wj) /\ (wi || wj = true).


(* ------------------------------------------------------------------------------------------- *)
(* Progress: starting from a quiescent ring that is not full, if only pushers run, the first one   *)
(* to reach its CAS succeeds; so any run in which some push completes contains a successful push.  *)
(* ------------------------------------------------------------------------------------------- *)
Definition only_push (sched : list (nat * op)) : Prop := Forall (fun e => exists v, snd e = OpPush v) sched.

(* phase A: nobody has claimed a ticket yet; phase B: somebody has (and either still owns it or has returned true) *)
Definition phaseA (c0 c : config) : Prop :=
  sh c = sh c0 /\ hist c = hist c0 /\
  Forall (fun p => p = Idle \/ (exists v, p = PuLoadTail v) \/ (exists v, p = PuLoadSeq v (u32 (tl (sh c0))) (tl (sh c0))) \/
                   (exists v, p = PuCas v (u32 (tl (sh c0))) (u32 (tl (sh c0))) (tl (sh c0)))) (ths c).
Definition phaseB (c : config) : Prop :=
  (exists j v pos seq T0, nth_error (ths c) j = Some (PuWrite v pos seq T0) \/ nth_error (ths c) j = Some (PuPublish v pos seq T0)) \/
  (exists j, In (j, RPush true) (hist c)).

(* ------------------------------------------------------------------------------------------- *)
(* the sequential state after [base] pairs and [fill] pushes *)
Definition fill_val (j : Z) : Z := 9001 + j.
Definition seq_state (k base fill : Z) (n : nat) : config :=
  let c := 2 ^ k in
  let slot i :=       (* the unique p in [base, base + c) with p mod c = i *)
    let p := base + ((i - base) mod c) in
    if p <? base + fill then ((Some (fill_val (p - base)), u32 (p + 1)), Published p)
    else ((None, u32 p), Free p) in
  let idx := map Z.of_nat (seq 0 (Z.to_nat c)) in
  let vs := map fill_val (map Z.of_nat (seq 0 (Z.to_nat fill))) in
  {| sh := {| slots := map (fun i => fst (slot i)) idx; hd := base; tl := base + fill; cap := c;
              q := vs; ph := map (fun i => snd (slot i)) idx; lin := map LPush vs |};
     ths := repeat Idle n; hist := [] |}.


Definition only_pop (sched : list (nat * op)) : Prop := Forall (fun e => snd e = OpPop) sched.
