(* C12 — the HISTORY of a run of the call-driven machine (Model/SafeKVCalls.v), and what "linearizable" means for it.

   Steps of a schedule are numbered 0, 1, 2, ...  The step on which an idle thread starts a call is the INVOCATION of that
   call; the step on which a thread that has run its skeleton to the end goes back to idle is its RESPONSE (the result is
   computed there from what the call's own reads observed).  [hstep] runs [cstep] and, next to it, a step counter, the
   invocation step of every thread's current call and the list of completed calls (invocation step, response step, call,
   result) — the same record type [hop] the judge of observed histories ([linearizable], Model/SafeKV.v) works on.
   Nothing here is read by the machine: hc (hrun ..) = crun .. (Proofs/SafeKVLinearize.v, hrun_crun). *)
From Coq Require Import List Arith ZArith Bool Permutation.
From V Require Import Lib.Enc Gen.SafeKVSkel Model.SafeKV Model.SafeKVCalls.
Import ListNotations.

(* the next step of this thread is the return of its call *)
Definition returning (t : cthread) : bool :=
  match ccall t, cur (base t), cinb t, rest (base t) with Some _, [], false, [] => true | _, _, _, _ => false end.

Record hconfig := {
  hc : cconfig;                  (* the machine *)
  hk : nat;                      (* number of steps taken so far = index of the next step *)
  hinv : list nat;               (* per thread: the step at which its current call was invoked *)
  hhist : list hop               (* the completed calls, in the order of their responses *)
}.

Definition hstep (h : hconfig) (sc : nat * call) : hconfig :=
  let i := fst sc in
  let c' := cstep (hc h) sc in
  match nth_error (cths (hc h)) i with
  | None => {| hc := c'; hk := S (hk h); hinv := hinv h; hhist := hhist h |}
  | Some t =>
      match ccall t with
      | None => {| hc := c'; hk := S (hk h); hinv := upd (hinv h) i (hk h); hhist := hhist h |}          (* invocation *)
      | Some cl =>
          if returning t
          then {| hc := c'; hk := S (hk h); hinv := hinv h;                                                (* response *)
                  hhist := hhist h ++ [{| h_inv := Z.of_nat (nth i (hinv h) 0); h_resp := Z.of_nat (hk h);
                                          h_call := cl; h_res := result cl (cobs t) (cits t) |}] |}
          else {| hc := c'; hk := S (hk h); hinv := hinv h; hhist := hhist h |}
      end
  end.

Definition hinit (n : nat) (m0 : map_) : hconfig := {| hc := cinit n m0; hk := 0; hinv := repeat 0 n; hhist := [] |}.
Definition hrun (n : nat) (m0 : map_) (sched : list (nat * call)) : hconfig := fold_left hstep sched (hinit n m0).

(* the history of the run: every completed call *)
Definition chistory (n : nat) (m0 : map_) (sched : list (nat * call)) : list hop := hhist (hrun n m0 sched).

(* the calls that were invoked and have not returned when the schedule ends: (invocation step, call), in thread order *)
Definition pending_of (ts : list cthread) (invs : list nat) : list (Z * call) :=
  flat_map (fun i => match ccall (nth i ts cidle) with Some cl => [(Z.of_nat (nth i invs 0), cl)] | None => [] end)
           (seq 0 (length ts)).
Definition cpending (n : nat) (m0 : map_) (sched : list (nat * call)) : list (Z * call) :=
  let h := hrun n m0 sched in pending_of (cths (hc h)) (hinv h).

(* a completion of the pending calls: each one is either dropped or given a response (any result) at time [K] *)
Inductive completion (K : Z) : list (Z * call) -> list hop -> Prop :=
| comp_nil : completion K [] []
| comp_drop p ps hs : completion K ps hs -> completion K (p :: ps) hs
| comp_take p ps hs r : completion K ps hs ->
    completion K (p :: ps) ({| h_inv := fst p; h_resp := K; h_call := snd p; h_res := r |} :: hs).

(* a is somewhere before b in the list *)
Definition before (l : list hop) (a b : hop) : Prop := exists l1 l2 l3, l = l1 ++ a :: l2 ++ b :: l3.

(* the list, read as a sequential execution of the plain-map specification from m, returns exactly the recorded results *)
Fixpoint seq_legal (l : list hop) (m : map_) : Prop :=
  match l with
  | [] => True
  | h :: t => h_res h = snd (sem (h_call h) m) /\ seq_legal t (fst (sem (h_call h) m))
  end.
(* the map a prefix of such an execution leaves *)
Definition state_after (l : list hop) (m : map_) : map_ := fold_left (fun s h => fst (sem (h_call h) s)) l m.

(* linearizable: the calls can be put in ONE total order that respects real time (a call that had returned before another
   was invoked stands before it) and is a legal sequential execution of the specification from m0 with the observed results *)
Definition linearization (hist : list hop) (m0 : map_) (l : list hop) : Prop :=
  Permutation l hist /\
  (forall a b, In a l -> In b l -> (h_resp a < h_inv b)%Z -> before l a b) /\
  seq_legal l m0.

(* ---- vocabulary of the corollaries stated on histories ---- *)
(* the shared map as it is after the first j steps of the schedule *)
Definition map_at (n : nat) (m0 : map_) (sched : list (nat * call)) (j : nat) : map_ :=
  cmp (crun (cinit n m0) (firstn j sched)).

Definition is_setnx (k : Z) (c : call) : bool := match c with CSetNx k' _ => (k' =? k)%Z | _ => false end.
(* a completed SetNx on k that reported true *)
Definition setnx_win (k : Z) (h : hop) : bool := is_setnx k (h_call h) && list_eqb (h_res h) [1%Z].
(* a call that never changes whether k is present (reads, writes to other keys, Set/SetX on a present key ...) *)
Definition keeps_key (k : Z) (c : call) : Prop := forall m, has (fst (sem c m)) k = has m k.
(* a call that never makes an absent k present *)
Definition never_creates (k : Z) (c : call) : Prop := forall m, has m k = false -> has (fst (sem c m)) k = false.
