(* C05 — the Dump observation: the BUILT STRUCTURE of the trie, not only the answers of queries.

   Model side: [dump T] lists the node table in pre-order (children in stored order), one (word, node) pair per node.
   Specification side: [spec_dump ps] is the Aho-Corasick automaton of the pattern set as a mathematical object, computed
   from the byte strings only — no table, no bisection, no queue: the nodes are the prefixes of the patterns' rune words
   (grouped recursively by first rune, runes ascending), isEnd = some pattern ends here, size = sum of the widths of the
   runes on the path, fail = the longest proper suffix of the word that is a prefix of some pattern.

   Encoding (harness/trie_common.go: trieDump reads the same out of the real algz.Trie through reflect/unsafe):
     DUMPTAG :: nnodes :: for every node in pre-order:  put_list word ++ [isEnd; size; nchildren] ++ fail
     fail = -1 (nil) | put_list (word of the target)      (the root is the empty word: 0)
   A case asks for the observation with a trailing 1 after the query (Run/C05.v). *)
From Coq Require Import List ZArith Bool Arith.
From V Require Import Lib.Enc Lib.Utf8 Model.Trie Model.TrieCase.
Import ListNotations.
Local Open Scope Z_scope.

Definition DUMPTAG : Z := -1000020.

(* ------------------------------------------------------------------ model side *)
Fixpoint dump_nodes (fuel : nat) (T : trie) (w : word) : list (word * node) :=
  match fuel with
  | O => []
  | S f => match get T w with
           | None => []
           | Some n => (w, n) :: flat_map (fun c => dump_nodes f T (w ++ [c])) (kids n)
           end
  end.
(* a word of the table is shorter than the table is long (its prefixes are distinct keys): the fuel suffices *)
Definition dump (T : trie) : list (word * node) := dump_nodes (S (length T)) T [].

Definition enc_fail (f : option word) : list Z := match f with None => [-1] | Some u => put_list u end.
Definition enc_node (wn : word * node) : list Z :=
  put_list (fst wn) ++ [zb (isEnd (snd wn)); nsize (snd wn); Z.of_nat (length (kids (snd wn)))] ++ enc_fail (fail (snd wn)).
Definition enc_dump (l : list (word * node)) : list Z := DUMPTAG :: Z.of_nat (length l) :: flat_map enc_node l.

Definition c05_queries (T : trie) (text : bytes) : list Z :=
  out_of (cat_opts [enc_bool_res (match_ T text); enc_list_res (find_all T text);
                    enc_list_res (prefix_search T text); enc_list_res (fuzzy_search T text)]).
(* the four query outputs exactly as c05_model gives them, then the structure *)
Definition c05_model_dump (ops : list op) (text : bytes) : list Z :=
  match run_ops empty_trie ops with
  | None => [NOFUEL]
  | Some T => c05_queries T text ++ enc_dump (dump T)
  end.

(* ------------------------------------------------------------------ specification side *)
Notation tokl := (list (Z * nat)) (only parsing).

Fixpoint ins_sorted (x : Z) (l : list Z) : list Z :=
  match l with
  | [] => [x]
  | y :: t => if x <? y then x :: l else if x =? y then l else y :: ins_sorted x t
  end.
(* the distinct first runes of the remaining pattern suffixes, ascending *)
Definition heads (ws : list tokl) : list Z :=
  fold_right (fun w acc => match w with [] => acc | (r, _) :: _ => ins_sorted r acc end) [] ws.
(* what remains of the suffixes that start with rune c *)
Definition tails_of (c : Z) (ws : list tokl) : list tokl :=
  flat_map (fun w => match w with (r, _) :: t => if r =? c then [t] else [] | [] => [] end) ws.
(* the width decodeRune reported for c (the same wherever c occurs) *)
Fixpoint width_of (c : Z) (ws : list tokl) : nat :=
  match ws with
  | [] => 0%nat
  | ((r, k) :: _) :: rest => if r =? c then k else width_of c rest
  | [] :: rest => width_of c rest
  end.
Fixpoint wpre_b (u w : word) : bool :=
  match u, w with
  | [], _ => true
  | x :: u', y :: w' => (x =? y) && wpre_b u' w'
  | _ :: _, [] => false
  end.
(* the longest suffix of w that satisfies inP; the empty word when there is none *)
Fixpoint first_suffix (inP : word -> bool) (w : word) : word :=
  match w with [] => [] | _ :: t => if inP w then w else first_suffix inP t end.
Definition spec_fail (inP : word -> bool) (w : word) : option word :=
  match w with [] => None | _ :: t => Some (first_suffix inP t) end.

Fixpoint spec_nodes (fuel : nat) (inP : word -> bool) (ws : list tokl) (w : word) (size : Z) : list (word * node) :=
  match fuel with
  | O => []
  | S f =>
      let ks := heads ws in
      (w, mkNode ks (spec_fail inP w) size (existsb (fun x => match x with [] => true | _ => false end) ws))
      :: flat_map (fun c => spec_nodes f inP (tails_of c ws) (w ++ [c]) (size + Z.of_nat (width_of c ws))) ks
  end.
Definition spec_dump (ps : list bytes) : list (word * node) :=
  let tw := map tokens (filter (fun p => match p with [] => false | _ => true end) ps) in
  spec_nodes (S (fold_right (fun t m => Nat.max (length t) m) 0%nat tw))
             (fun u => existsb (fun t => wpre_b u (map fst t)) tw) tw [] 0.

(* ------------------------------------------------------------------ judge *)
(* the implementation's output of a Dump case = query part (what c05_ok judges) ++ dump part *)
Definition c05_split (out : list Z) : list Z * list Z :=
  match out with
  | m :: r1 =>
      let (_, r2) := get_strings r1 in
      let (_, r3) := get_strings r2 in
      let (_, r4) := get_strings r3 in
      (firstn (length out - length r4) out, r4)
  | [] => ([], [])
  end.
(* tries that end with a build: the dumped structure must BE the automaton of the inserted patterns; others (nil / stale
   fail links) are compared with the model only *)
Definition c05_ok_dump (ops : list op) (text : bytes) (out : list Z) : bool :=
  let (q, d) := c05_split out in
  c05_ok ops text q && (negb (canonical ops) || list_eqb d (enc_dump (spec_dump (inserted ops)))).
