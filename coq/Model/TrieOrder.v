(* C05 — specification side of the EMISSION ORDER of find / FindAll and PrefixSearch (no trie, no proofs).

   find / FindAll: the occurrences by end position ascending and, at the same end position, by start position
   ascending, i.e. the longer pattern first (the order of the fail chain).  Model.Trie.occs already lists them
   that way; [occ_before] is the order, stated declaratively.

   PrefixSearch: the explicit stack pops the LAST child first and reports a node before its descendants.  On rune
   words (values as decodeRune assigns them: a code point, or invalidByteBase + b for a stray byte b) this is the
   order [dfs_before]: a proper prefix comes first; otherwise, at the first position where the words differ, the
   LARGER rune value comes first.  [spec_prefix_ordered] sorts the specification's prefix set by it. *)
From Coq Require Import List ZArith Bool Arith.
From V Require Import Lib.Utf8 Model.Trie.
Import ListNotations.
Local Open Scope Z_scope.

(* (start, end) a is emitted before (start, end) b *)
Definition occ_before (a b : nat * nat) : Prop :=
  (snd a < snd b)%nat \/ (snd a = snd b /\ (fst a < fst b)%nat).
(* the same on the integer scopes find returns *)
Definition scope_before (a b : Z * Z) : Prop := snd a < snd b \/ (snd a = snd b /\ fst a < fst b).
Definition scope_of (se : nat * nat) : Z * Z := (Z.of_nat (fst se), Z.of_nat (snd se)).

(* pre-order, last child first, on rune words *)
Fixpoint dfs_before (x y : word) : bool :=
  match x, y with
  | [], [] => false
  | [], _ :: _ => true
  | _ :: _, [] => false
  | a :: x', b :: y' => if a =? b then dfs_before x' y' else b <? a
  end.
(* ... on byte strings, through their rune words *)
Definition pat_before (p q : bytes) : bool := dfs_before (runes_of p) (runes_of q).

(* insertion sort by a strict order *)
Fixpoint insert_by (lt : bytes -> bytes -> bool) (x : bytes) (l : list bytes) : list bytes :=
  match l with
  | [] => [x]
  | y :: t => if lt y x then y :: insert_by lt x t else x :: y :: t
  end.
Definition sort_by (lt : bytes -> bytes -> bool) (l : list bytes) : list bytes := fold_right (insert_by lt) [] l.

(* PrefixSearch(key) as a LIST: the inserted patterns that start with key, in the order of the depth-first walk *)
Definition spec_prefix_ordered (aligned : bool) (ps : list bytes) (key : bytes) : list bytes :=
  sort_by pat_before (spec_prefix aligned ps key).
