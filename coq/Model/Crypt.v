(* C09 — cryptz/crypt.go: secret-based encryption on top of C08 (Model/Aes.v).
   Extra standard-library primitives as Section variables: md5, b64enc, b64dec (base64.StdEncoding).
   Hex is modelled directly (hex.Encode of encoding/hex; strz.hexDecode is golib code).
   Every slice expression is checked ([slice] -> None = the Go code would panic).
   The random salt is an input of the model (the harness pins crypto/rand.Reader to it).
   Stream mode: a reader is a list of chunks (an empty chunk = a Read returning 0, nil) plus a terminal behaviour
   (0: then 0,EOF / 1: the last data comes together with EOF / 2: then 0,error); Read(p) returns at most len(p)
   bytes of the current chunk.  A writer accepts a given number of Write calls and fails afterwards. *)
From Coq Require Import List ZArith Bool Arith.
From V Require Import Lib.Enc Gen.Cryptz Model.Aes.
Import ListNotations.

Definition E_B64 : Z := 10.        (* base64 CorruptInputError *)
Definition E_CTLEN2 : Z := 11.     (* "cipherText text length illegal" *)
Definition E_HDR_CBC : Z := 12.    (* "check cbc fixed header error" *)
Definition E_HDR : Z := 13.        (* "check fixed header error" *)
Definition E_HEX : Z := 14.        (* "hex decode error: ..." *)
Definition E_RDHDR : Z := 15.      (* "read header error: ..." *)
Definition E_COPY : Z := 16.       (* "copy stream error: ..." *)
Definition E_WRHDR : Z := 17.      (* "write fixed salt header error: ..." *)
Definition E_WRSALT : Z := 18.     (* "write salt error: ..." *)
Definition E_SALT : Z := 19.       (* "generate random salt error: ..." *)

Definition SALT : nat := Z.to_nat salt_len.
Definition KEYLEN : nat := Z.to_nat key_len.
Definition CRED : nat := Z.to_nat cred_len.
Definition NONCE : nat := Z.to_nat nonce_size.
Definition ROUNDS : nat := Z.to_nat kdf_rounds.
Definition STEP : nat := Z.to_nat kdf_step.
Definition header : bytes := fixed_salt_header.

Definition slice (l : bytes) (a b : nat) : option bytes :=            (* l[a:b], cap = len *)
  if (a <=? b) && (b <=? length l) then Some (firstn (b - a) (skipn a l)) else None.
Definition zeros (n : nat) : bytes := repeat 0%Z n.

Definition bind {A B} (r : res A) (f : A -> res B) : res B :=
  match r with Ok a => f a | Err e => Err e | Panic => Panic end.
Definition of_opt {A} (o : option A) : res A := match o with Some a => Ok a | None => Panic end.

(* ---- hex *)
Definition hex_digit (d : Z) : Z := if (d <? 10)%Z then (48 + d)%Z else (87 + d)%Z.        (* "0123456789abcdef" *)
Definition hex_encode (l : bytes) : bytes := flat_map (fun b => [hex_digit (b / 16); hex_digit (b mod 16)]%Z) l.
Definition from_hex (c : Z) : option Z :=                                                    (* fromHexChar *)
  if (48 <=? c)%Z && (c <=? 57)%Z then Some (c - 48)%Z
  else if (97 <=? c)%Z && (c <=? 102)%Z then Some (c - 87)%Z
  else if (65 <=? c)%Z && (c <=? 70)%Z then Some (c - 55)%Z else None.
(* strz.hexDecode: Some bytes, or None for any error (invalid byte / odd length) *)
Fixpoint hex_decode (l : bytes) : option bytes :=
  match l with
  | [] => Some []
  | [_] => None
  | a :: b :: t =>
      match from_hex a, from_hex b with
      | Some x, Some y => match hex_decode t with Some r => Some ((x * 16 + y)%Z :: r) | None => None end
      | _, _ => None
      end
  end.

(* ---- stream readers and writers *)
Inductive rstat := RNil | REof | RErr.
Record reader := mkR { r_chunks : list bytes; r_term : Z }.
Definition read (r : reader) (n : nat) : bytes * rstat * reader :=
  match r_chunks r with
  | [] => ([], if (r_term r =? 2)%Z then RErr else REof, r)
  | c :: t =>
      if length c =? 0 then ([], RNil, mkR t (r_term r))
      else if length c <=? n then
        (c, if (match t with [] => true | _ => false end) && (r_term r =? 1)%Z then REof else RNil, mkR t (r_term r))
      else (firstn n c, RNil, mkR (skipn n c :: t) (r_term r))
  end.
Definition r_data (r : reader) : bytes := concat (r_chunks r).
Definition r_fuel (r : reader) : nat := S (S (length (r_data r) + length (r_chunks r))).

(* writer: remaining number of accepted Write calls, bytes written so far, sizes of the accepted writes *)
Record writer := mkW { w_budget : Z; w_out : bytes; w_sizes : list nat }.
Definition write (w : writer) (d : bytes) : option writer :=
  if (w_budget w <=? 0)%Z then None
  else Some (mkW (w_budget w - 1) (w_out w ++ d) (w_sizes w ++ [length d])).

Inductive hres := HOk (h : bytes) (r : reader) | HErr | HNoFuel.
(* io.ReadFull(stream, buf[need]) *)
Fixpoint read_full (fuel : nat) (r : reader) (need : nat) (acc : bytes) : hres :=
  match need with
  | O => HOk acc r
  | _ =>
      match fuel with
      | O => HNoFuel
      | S f =>
          let '(c, st, r') := read r need in
          let acc' := acc ++ c in
          let need' := need - length c in
          match st with
          | RNil => read_full f r' need' acc'
          | _ => if need' =? 0 then HOk acc' r' else HErr
          end
      end
  end.

(* big-endian counter arithmetic of cipher.NewCTR *)
Definition be_to_Z (l : bytes) : Z := fold_left (fun a b => (a * 256 + b)%Z) l 0%Z.
Fixpoint Z_to_be (n : nat) (z : Z) : bytes :=
  match n with O => [] | S k => Z_to_be k (z / 256) ++ [(z mod 256)%Z] end.
Definition ctr_in (iv : bytes) (j : nat) : bytes := Z_to_be 16 ((be_to_Z iv + Z.of_nat j) mod 2 ^ 128).

Section Prims.
Variable E D : bytes -> bytes -> bytes.
Variable seal : bytes -> bytes -> bytes -> bytes -> bytes.
Variable open : bytes -> bytes -> bytes -> bytes -> option bytes.
Variable md5 : bytes -> bytes.
Variable b64enc : bytes -> bytes.
Variable b64dec : bytes -> option bytes.

(* ---- fillCred: rounds of md5(prevSum[:n] ++ secret ++ salt), each copied to cred[i*16:] *)
Fixpoint fill_loop (rounds i : nat) (prev secret salt cred : bytes) : res bytes :=
  match rounds with
  | O => Ok cred
  | S r =>
      let n := if i =? 0 then 0 else 16 in
      let buf := firstn n prev ++ secret ++ salt in
      let sum := md5 buf in
      if length cred <? i * STEP then Panic else                       (* cred[i*16:] *)
      fill_loop r (S i) sum secret salt (firstn (i * STEP) cred ++ copy_into (skipn (i * STEP) cred) sum)
  end.
Definition fill_cred (secret salt : bytes) : res bytes := fill_loop ROUNDS 0 (zeros 16) secret salt (zeros CRED).

(* OpenSSL EVP_BytesToKey(MD5, count 1), 48 bytes *)
Definition evp (secret salt : bytes) : bytes :=
  let d1 := md5 (secret ++ salt) in let d2 := md5 (d1 ++ secret ++ salt) in let d3 := md5 (d2 ++ secret ++ salt) in
  d1 ++ d2 ++ d3.

(* key := cred[:_KEY_LEN]; iv := cred[_KEY_LEN:] *)
Definition key_iv (cred : bytes) : res (bytes * bytes) :=
  match slice cred 0 KEYLEN, slice cred KEYLEN (length cred) with
  | Some k, Some iv => Ok (k, iv)
  | _, _ => Panic
  end.
(* nonce := cred[_KEY_LEN : _KEY_LEN+nonceSize] *)
Definition key_nonce (cred : bytes) : res (bytes * bytes) :=
  match slice cred 0 KEYLEN, slice cred KEYLEN (KEYLEN + NONCE) with
  | Some k, Some n => Ok (k, n)
  | _, _ => Panic
  end.

(* dst with "Salted__" and the salt copied in: copy(dst[0:], header); copy(dst[8:], salt) *)
Definition with_header (dst salt : bytes) : res bytes :=
  let d1 := copy_into dst header in
  if length d1 <? 8 then Panic else                                    (* dst[8:] *)
  Ok (firstn 8 d1 ++ copy_into (skipn 8 d1) salt).

(* ---- SaltBySecretCBCEncrypt; salt = None: the random source failed *)
Definition salt_cbc_parts (osalt : option bytes) (plain secret : bytes) : res (bytes * bytes * bytes) :=
  match osalt with
  | None => Err E_SALT
  | Some salt =>
      bind (fill_cred secret salt) (fun cred =>
      bind (key_iv cred) (fun '(key, iv) =>
      bind (with_header (zeros (BS + Z.to_nat (cbc_encrypt_len (length plain)))) salt) (fun dst =>
      Ok (dst, key, iv))))
  end.
Definition salt_cbc_encrypt (osalt : option bytes) (plain secret : bytes) : res bytes :=
  bind (salt_cbc_parts osalt plain secret) (fun '(dst, key, iv) =>
  if length dst <? BS then Panic else                                  (* dst[aes.BlockSize:] *)
  match cbc_encrypt E (skipn BS dst) plain key iv with
  | Ok body => Ok (firstn BS dst ++ body)
  | Err _ => Ok dst                                                    (* `_ = AESCBCEncrypt(...)`: error ignored *)
  | Panic => Panic
  end).

(* SaltBySecretCBCDecrypt: (plaintext, final content of the cipherText argument) *)
Definition salt_cbc_decrypt (ct secret : bytes) (reuse : bool) : res (bytes * bytes) :=
  if (length ct <? 2 * BS) || negb (masked (length ct) =? 0) then Err E_CTLEN2 else
  bind (of_opt (slice ct 0 8)) (fun h =>
  if negb (beq h header) then Err E_HDR_CBC else
  bind (of_opt (slice ct 8 BS)) (fun salt =>
  bind (fill_cred secret salt) (fun cred =>
  bind (key_iv cred) (fun '(key, iv) =>
  bind (of_opt (slice ct BS (length ct))) (fun body =>
  let dst := if reuse then body else zeros (length body) in
  bind (cbc_decrypt D dst body key iv) (fun '(n, d) =>
  bind (of_opt (slice d 0 n)) (fun r =>                                (* dst[:n] *)
  Ok (r, if reuse then firstn BS ct ++ d else ct)))))))).

(* ---- SaltBySecretGCMEncrypt / Decrypt *)
Definition salt_gcm_encrypt (osalt : option bytes) (plain secret ad : bytes) : res bytes :=
  match osalt with
  | None => Err E_SALT
  | Some salt =>
      bind (fill_cred secret salt) (fun cred =>
      bind (key_nonce cred) (fun '(key, nonce) =>
      bind (with_header (zeros (BS + Z.to_nat (gcm_encrypt_len (length plain)))) salt) (fun dst =>
      if length dst <? BS then Panic else
      match gcm_encrypt seal (skipn BS dst) plain key nonce ad with
      | Ok body => Ok (firstn BS dst ++ body)
      | Err _ => Ok dst
      | Panic => Panic
      end)))
  end.

Definition salt_gcm_decrypt (ct secret ad : bytes) (reuse : bool) : res (bytes * bytes) :=
  if length ct <? BS then Err E_CTLEN2 else
  bind (of_opt (slice ct 0 8)) (fun h =>
  if negb (beq h header) then Err E_HDR else
  bind (of_opt (slice ct 8 BS)) (fun salt =>
  bind (fill_cred secret salt) (fun cred =>
  bind (key_nonce cred) (fun '(key, nonce) =>
  bind (of_opt (slice ct BS (length ct))) (fun body =>
  let dst := if reuse then body else zeros (length body) in
  bind (gcm_decrypt open dst body key nonce ad) (fun d =>
  if length d <? TAG then Panic else                                   (* dst[:len(dst)-gcmTagSize] with a negative bound *)
  bind (of_opt (slice d 0 (length d - TAG))) (fun r =>
  Ok (r, if reuse then firstn BS ct ++ d else ct)))))))).

(* ---- Encrypt / Decrypt / GCMEncrypt / GCMDecrypt *)
Definition encrypt (osalt : option bytes) (plain secret : bytes) : res bytes :=
  bind (salt_cbc_encrypt osalt plain secret) (fun c => Ok (b64enc c)).
Definition decrypt (input secret : bytes) : res bytes :=
  match b64dec input with
  | None => Err E_B64
  | Some src => bind (salt_cbc_decrypt src secret true) (fun '(p, _) => Ok p)
  end.
Definition gcm_encrypt_s (osalt : option bytes) (plain secret ad : bytes) : res bytes :=
  bind (salt_gcm_encrypt osalt plain secret ad) (fun c => Ok (hex_encode c)).
Definition gcm_decrypt_s (input secret ad : bytes) : res bytes :=
  match hex_decode input with
  | None => Err E_HEX
  | Some src => bind (salt_gcm_decrypt src secret ad true) (fun '(p, _) => Ok p)
  end.

(* ---- CTR keystream (NIST SP 800-38A, 128-bit big-endian counter) *)
Definition keystream (key iv : bytes) (nblocks : nat) : bytes :=
  concat (map (fun j => E key (ctr_in iv j)) (seq 0 nblocks)).
(* XORKeyStream of a chunk at absolute position pos *)
Definition xor_at (ks : bytes) (pos : nat) (c : bytes) : bytes := xor c (skipn pos ks).

(* io.Copy through cipher.StreamReader / cipher.StreamWriter: Read at most B bytes, XOR, Write; result code *)
Fixpoint copy_loop (fuel : nat) (B : nat) (ks : bytes) (r : reader) (pos : nat) (w : writer) : Z * writer :=
  match fuel with
  | O => (NOFUEL, w)
  | S f =>
      let '(c, st, r') := read r B in
      let ow := if length c =? 0 then Some w else write w (xor_at ks pos c) in
      match ow with
      | None => (E_COPY, w)                                            (* the writer failed *)
      | Some w' =>
          match st with
          | RNil => copy_loop f B ks r' (pos + length c) w'
          | REof => (0%Z, w')
          | RErr => (E_COPY, w')
          end
      end
  end.

Definition nblocks_for (r : reader) : nat := length (r_data r) / 16 + 1.

(* EncryptStreamTo(out, stream, secret): result code and the writer afterwards *)
Definition encrypt_stream (B : nat) (osalt : option bytes) (r : reader) (w : writer) (secret : bytes) : res (Z * writer) :=
  match osalt with
  | None => Ok (E_SALT, w)
  | Some salt =>
      bind (fill_cred secret salt) (fun cred =>
      bind (key_iv cred) (fun '(key, iv) =>
      if negb (good_key key) then Ok (E_NEWCIPHER, w) else
      match write w header with
      | None => Ok (E_WRHDR, w)
      | Some w1 =>
          match write w1 salt with
          | None => Ok (E_WRSALT, w1)
          | Some w2 =>
              if negb (length iv =? BS) then Panic else                (* cipher.NewCTR: IV length *)
              Ok (copy_loop (r_fuel r) B (keystream key iv (nblocks_for r)) r 0 w2)
          end
      end))
  end.

(* DecryptStreamTo(out, stream, secret) *)
Definition decrypt_stream (B : nat) (r : reader) (w : writer) (secret : bytes) : res (Z * writer) :=
  match read_full (r_fuel r) r BS [] with
  | HNoFuel => Ok (NOFUEL, w)
  | HErr => Ok (E_RDHDR, w)
  | HOk h r' =>
      bind (of_opt (slice h 0 8)) (fun magic =>
      if negb (beq magic header) then Ok (E_HDR, w) else
      bind (of_opt (slice h 8 (length h))) (fun salt =>
      bind (fill_cred secret salt) (fun cred =>
      bind (key_iv cred) (fun '(key, iv) =>
      if negb (good_key key) then Ok (E_NEWCIPHER, w) else
      if negb (length iv =? BS) then Panic else
      Ok (copy_loop (r_fuel r) B (keystream key iv (nblocks_for r)) r' 0 w)))))
  end.

End Prims.

(* ---------------------------------------------------------------- operations (what Run/C09 executes) *)
Inductive op :=
| OEnc (osalt : option bytes) (plain secret : bytes)
| ODec (input secret : bytes)
| OGEnc (osalt : option bytes) (plain secret ad : bytes)
| OGDec (mustfail : bool) (input secret ad : bytes)
| OSCEnc (osalt : option bytes) (plain secret : bytes)
| OSCDec (reuse : bool) (ct secret : bytes)
| OSGEnc (osalt : option bytes) (plain secret ad : bytes)
| OSGDec (mustfail reuse : bool) (ct secret ad : bytes)
| OEncStream (B : nat) (osalt : option bytes) (r : reader) (wbudget : Z) (secret : bytes)
| ODecStream (B : nat) (r : reader) (wbudget : Z) (secret : bytes).

Definition enc_pair (x : bytes * bytes) : list Z := put_list (fst x) ++ put_list (snd x).
Definition enc_stream (x : Z * writer) : list Z :=
  fst x :: put_list (w_out (snd x)) ++ put_list (map Z.of_nat (w_sizes (snd x))).
Definition new_writer (budget : Z) : writer := mkW budget [] [].

Section Ops.
Variable E D : bytes -> bytes -> bytes.
Variable seal : bytes -> bytes -> bytes -> bytes -> bytes.
Variable open : bytes -> bytes -> bytes -> bytes -> option bytes.
Variable md5 : bytes -> bytes.
Variable b64enc : bytes -> bytes.
Variable b64dec : bytes -> option bytes.

Definition run_op (o : op) : list Z :=
  match o with
  | OEnc osalt p s => enc_res (fun x => x) (encrypt E md5 b64enc osalt p s)
  | ODec i s => enc_res (fun x => x) (decrypt D md5 b64dec i s)
  | OGEnc osalt p s a => enc_res (fun x => x) (gcm_encrypt_s seal md5 osalt p s a)
  | OGDec _ i s a => enc_res (fun x => x) (gcm_decrypt_s open md5 i s a)
  | OSCEnc osalt p s => enc_res (fun x => x) (salt_cbc_encrypt E md5 osalt p s)
  | OSCDec reuse c s => enc_res enc_pair (salt_cbc_decrypt D md5 c s reuse)
  | OSGEnc osalt p s a => enc_res (fun x => x) (salt_gcm_encrypt seal md5 osalt p s a)
  | OSGDec _ reuse c s a => enc_res enc_pair (salt_gcm_decrypt open md5 c s a reuse)
  | OEncStream B osalt r wb s => enc_res enc_stream (encrypt_stream E md5 B osalt r (new_writer wb) s)
  | ODecStream B r wb s => enc_res enc_stream (decrypt_stream E md5 B r (new_writer wb) s)
  end.
End Ops.

(* ---- the judge: independent derivation with the library's whole-message primitives
   std_enc / std_dec: AES-CBC without padding; std_ctr key iv data: cipher.NewCTR(...).XORKeyStream over all of data;
   sealS / openS: AES-GCM; md5S; b64encS / b64decS.  The key schedule is the OpenSSL definition [evp]. *)
Section Judge.
Variable std_enc std_dec std_ctr : bytes -> bytes -> bytes -> bytes.
Variable sealS : bytes -> bytes -> bytes -> bytes -> bytes.
Variable openS : bytes -> bytes -> bytes -> bytes -> option bytes.
Variable md5S : bytes -> bytes.
Variable b64encS : bytes -> bytes.
Variable b64decS : bytes -> option bytes.

Definition evp_key (secret salt : bytes) : bytes := firstn 32 (evp md5S secret salt).
Definition evp_iv (secret salt : bytes) : bytes := firstn 16 (skipn 32 (evp md5S secret salt)).
Definition evp_nonce (secret salt : bytes) : bytes := firstn 12 (skipn 32 (evp md5S secret salt)).

(* the OpenSSL "Salted__" message for plaintext p *)
Definition spec_cbc_message (salt p secret : bytes) : bytes :=
  header ++ salt ++ std_enc (evp_key secret salt) (evp_iv secret salt) (pkcs7_padded p (spec_pad_len (length p) 16)).
Definition spec_cbc_open (raw secret : bytes) : option bytes :=
  if (length raw <? 32) || negb (length raw mod 16 =? 0) || negb (list_eqb (firstn 8 raw) header) then None else
  let salt := firstn 8 (skipn 8 raw) in
  spec_unpad (std_dec (evp_key secret salt) (evp_iv secret salt) (skipn 16 raw)) 16.
Definition spec_gcm_message (salt p secret ad : bytes) : bytes :=
  header ++ salt ++ sealS (evp_key secret salt) (evp_nonce secret salt) p ad.
Definition spec_gcm_open (raw secret ad : bytes) : option bytes :=
  if (length raw <? 16) || negb (list_eqb (firstn 8 raw) header) then None else
  let salt := firstn 8 (skipn 8 raw) in
  openS (evp_key secret salt) (evp_nonce secret salt) (skipn 16 raw) ad.

Definition out_is (out : list Z) (o : option bytes) : bool :=
  match o with Some p => list_eqb out (0%Z :: p) | None => is_err out end.
(* Ok with a pair: only the first component (the plaintext) is constrained *)
Definition out_fst_is (out : list Z) (o : option bytes) : bool :=
  match o with
  | Some p => match out with 0%Z :: r => list_eqb (fst (get_list r)) p && (Z.of_nat (length p) =? hd0 r)%Z | _ => false end
  | None => is_err out
  end.
Definition stream_parts (out : list Z) : Z * bytes := (hd0 out, fst (get_list (tl out))).
Definition data_before_error (r : reader) : bool := negb (r_term r =? 2)%Z.

Definition spec_ok (o : op) (out : list Z) : bool :=
  match o with
  | OEnc None _ _ | OGEnc None _ _ _ | OSCEnc None _ _ | OSGEnc None _ _ _ => is_err out
  | OEnc (Some salt) p s => list_eqb out (0%Z :: b64encS (spec_cbc_message salt p s))
  | OSCEnc (Some salt) p s => list_eqb out (0%Z :: spec_cbc_message salt p s)
  | OGEnc (Some salt) p s a => list_eqb out (0%Z :: hex_encode (spec_gcm_message salt p s a))
  | OSGEnc (Some salt) p s a => list_eqb out (0%Z :: spec_gcm_message salt p s a)
  | ODec i s => out_is out (match b64decS i with Some raw => spec_cbc_open raw s | None => None end)
  | OSCDec _ c s => out_fst_is out (spec_cbc_open c s)
  | OGDec mustfail i s a =>
      if mustfail then is_err out else
      out_is out (match hex_decode i with Some raw => spec_gcm_open raw s a | None => None end)
  | OSGDec mustfail _ c s a => if mustfail then is_err out else out_fst_is out (spec_gcm_open c s a)
  | OEncStream B osalt r wb s =>
      match out with
      | 0%Z :: code :: rest =>
          let written := fst (get_list rest) in
          match osalt with
          | None => negb (code =? 0)%Z
          | Some salt =>
              if data_before_error r then
                if (Z.of_nat (length (r_data r)) + 2 <=? wb)%Z then     (* a writer that accepts enough writes *)
                  (code =? 0)%Z &&
                  list_eqb written (header ++ salt ++ std_ctr (evp_key s salt) (evp_iv s salt) (r_data r))
                else if (wb <? 2)%Z then negb (code =? 0)%Z             (* the header cannot be written: an error *)
                else true
              else negb (code =? 0)%Z                                  (* failing reader: an error, no panic *)
          end
      | _ => false
      end
  | ODecStream B r wb s =>
      match out with
      | 0%Z :: code :: rest =>
          let written := fst (get_list rest) in
          let data := r_data r in
          if data_before_error r && (Z.of_nat (length data) <=? wb)%Z then            (* a writer that accepts at least one write per byte *)
            if (16 <=? length data) && list_eqb (firstn 8 data) header then
              let salt := firstn 8 (skipn 8 data) in
              (code =? 0)%Z && list_eqb written (std_ctr (evp_key s salt) (evp_iv s salt) (skipn 16 data))
            else negb (code =? 0)%Z
          else if data_before_error r then true else negb (code =? 0)%Z
      | _ => false
      end
  end.
End Judge.
