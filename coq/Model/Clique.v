(* C18 — algz/graph.go: GetMaximalCliques / BronKerbosch (no pivot) on lists with fuel.
   A graph on vertices 0..n-1 is a list of neighbour lists (g[v] = neighbours of v).  The order in which Go's map
   iteration fills P is an explicit argument.  No proofs in this file. *)
From Coq Require Import List Bool Arith.
From V Require Import Model.Dp.
Import ListNotations.

Definition graph := list (list nat).
Definition nbr (g : graph) (v u : nat) : bool := existsb (Nat.eqb u) (nth v g []).
(* intersect(a, g.Nodes[v]) *)
Definition inter (g : graph) (a : list nat) (v : nat) : list nat := filter (nbr g v) a.

(* BronKerbosch(R, P, X, &cliques): None = out of fuel.
   for _, v := range P { rec(append(R, v), P ∩ N(v), X ∩ N(v)); P = P[1:]; X = append(X, v) } *)
(* the loop body, given the recursive call *)
Definition bk_loop (rec : list nat -> list nat -> list nat -> option (list (list nat))) (g : graph) (R : list nat) :=
  fix loop (P X : list nat) (acc : list (list nat)) : option (list (list nat)) :=
    match P with
    | [] => Some acc
    | v :: P' =>
        match rec (R ++ [v]) (inter g P v) (inter g X v) with
        | None => None
        | Some cs => loop P' (X ++ [v]) (acc ++ cs)
        end
    end.
Fixpoint bk (g : graph) (fuel : nat) (R P X : list nat) : option (list (list nat)) :=
  match fuel with
  | O => None
  | S f =>
      match P, X with
      | [], [] => Some [R]                      (* clique := append(nil, R...) *)
      | _, _ => bk_loop (bk g f) g R P X []
      end
  end.

(* the top-level call BronKerbosch(R, P, P[:0], ...): X shares P's backing array, so `X = append(X, v)` in iteration k
   writes v into slot k of that array (from which `range P` reads its elements).  buf = the shared array. *)
Fixpoint updn (l : list nat) (i : nat) (x : nat) : list nat :=
  match l, i with
  | [], _ => []
  | _ :: t, O => x :: t
  | h :: t, S j => h :: updn t j x
  end.
Fixpoint top_loop (g : graph) (f : nat) (buf : list nat) (k iters : nat) (acc : list (list nat)) : option (list (list nat)) :=
  match iters with
  | O => Some acc
  | S m =>
      let v := nth k buf 0 in
      match bk g f [v] (inter g (skipn k buf) v) (inter g (firstn k buf) v) with
      | None => None
      | Some cs => top_loop g f (updn buf k v) (S k) m (acc ++ cs)
      end
  end.
(* order = the vertices in the order `for v := range g.Nodes` produced them *)
Definition max_cliques (g : graph) (order : list nat) : option (list (list nat)) :=
  match order with
  | [] => Some [[]]
  | _ => top_loop g (length order) order 0 (length order) []
  end.

(* ---- specification: maximal cliques by definition, brute force over all vertex subsets ---- *)
Definition is_clique (g : graph) (c : list nat) : bool :=
  forallb (fun u => forallb (fun w => Nat.eqb u w || nbr g u w) c) c.
Definition memn (x : nat) (l : list nat) : bool := existsb (Nat.eqb x) l.
Definition maximal (g : graph) (n : nat) (c : list nat) : bool :=
  forallb (fun v => memn v c || negb (forallb (fun u => nbr g v u) c)) (seq 0 n).
Definition spec_cliques (g : graph) (n : nat) : list (list nat) :=
  filter (fun c => is_clique g c && maximal g n c) (subseqs (seq 0 n)).

(* ---- canonical form of a clique list: each clique ascending, the list in lexicographic order (duplicates kept) ---- *)
Fixpoint ins (x : nat) (l : list nat) : list nat :=
  match l with [] => [x] | y :: t => if x <=? y then x :: l else y :: ins x t end.
Definition sortn (l : list nat) : list nat := fold_right ins [] l.
Fixpoint lex_le (a b : list nat) : bool :=
  match a, b with
  | [], _ => true
  | _ :: _, [] => false
  | x :: a', y :: b' => if x <? y then true else if y <? x then false else lex_le a' b'
  end.
Fixpoint insl (x : list nat) (l : list (list nat)) : list (list nat) :=
  match l with [] => [x] | y :: t => if lex_le x y then x :: l else y :: insl x t end.
Definition canon (cs : list (list nat)) : list (list nat) := fold_right insl [] (map sortn cs).
