(* C12 — mapz.SafeKV: a plain Go map guarded by one sync.RWMutex.

   Three layers, all over the method skeletons regenerated from mapz/safekv.go + mapz/iter.go (Gen/SafeKVSkel.v):
   1. [wl] / [well_locked]: the lock discipline of one skeleton.
   2. the step machine [step]: any number of threads, an RWMutex (writer flag, reader count), the shared map; every step
      executes one event of one thread.  Control flow that depends on data (how often a Star part runs) and the effect of
      each write are supplied by the schedule entry, so quantifying over schedules quantifies over all of them.
      Ghost fields (snap, seen, done_) are written, never read by the control flow.
   3. the per-method interpretation: [exec_call] walks the generated skeleton of a call against a private map, with the
      hand-written table ([again], [wr], [result]) saying how often a Star part runs, what a write does and what is returned;
      [sem] is the plain-map specification of the same call.  The run checks exec_call (sub 0) and sem (sub 1) against the
      real SafeKV on operation sequences, and searches a linearisation w.r.t. [sem] for observed concurrent histories. *)
From Coq Require Import List Arith ZArith Bool.
From V Require Import Lib.Enc Gen.SafeKVSkel.
Import ListNotations.

(* ================================================================== 1. lock discipline *)
Definition held := option mode.

Definition acc_ok (h : held) (e : ev) : bool :=
  match e with
  | Rd _ => match h with Some _ => true | None => false end
  | Wr _ => match h with Some W => true | _ => false end
  | CallUser => true
  | Acq _ | Rel _ => false                    (* no lock operation inside a repeated part *)
  end.

(* reads need some lock, writes need the write lock; a lock is taken only when none is held, released in the mode it
   was taken, and none is left held at the end *)
Fixpoint wl (h : held) (l : list item) : bool :=
  match l with
  | [] => match h with None => true | Some _ => false end
  | E (Acq m) :: t => match h with None => wl (Some m) t | Some _ => false end
  | E (Rel m) :: t => match h, m with Some R, R => wl None t | Some W, W => wl None t | _, _ => false end
  | E e :: t => acc_ok h e && wl h t
  | Star b :: t => forallb (acc_ok h) b && wl h t
  end.
Definition well_locked (l : list item) : bool := wl None l.

(* one critical section per call: exactly one acquisition (with [wl]: exactly one release, at its end) *)
Definition n_acq (l : list item) : nat := length (filter (fun i => match i with E (Acq _) => true | _ => false end) l).
Definition one_section (l : list item) : bool := well_locked l && (n_acq l =? 1).

(* ================================================================== 2. the step machine *)
Definition map_ := list (Z * Z).               (* the guarded map: association list, strictly ascending keys *)

Record thread := { cur : list ev;              (* rest of the current iteration of a Star part *)
                   rest : list item;           (* what follows; a Star being iterated stays at the head *)
                   hold : held;
                   snap : map_;                (* ghost: the map when the current critical section began *)
                   seen : list map_;           (* ghost: what the reads of the current section observed *)
                   done_ : list (map_ -> map_) (* ghost: the writes of the current section *) }.
Record lockst := { writer : bool; readers : nat }.
Record config := { lk : lockst; mp : map_; ths : list thread }.

(* one schedule entry: which thread moves, and the choices the environment makes for it at this step *)
Record choice := { tid : nat; meth : nat (* method an idle thread starts *); again : bool (* run the Star part once more? *);
                   eff : map_ -> map_ (* what a write does *) }.

Fixpoint upd {A} (l : list A) (i : nat) (x : A) : list A :=
  match l, i with [], _ => [] | _ :: t, O => x :: t | h :: t, S j => h :: upd t j x end.

Definition with_code (t : thread) (c : list ev) (r : list item) : thread :=
  {| cur := c; rest := r; hold := hold t; snap := snap t; seen := seen t; done_ := done_ t |}.

(* execute event e of thread t whose remaining code after e is (c, r) *)
Definition exec_ev (l : lockst) (m : map_) (t : thread) (e : ev) (c : list ev) (r : list item) (ch : choice)
  : lockst * map_ * thread :=
  match e with
  | Acq W => if negb (writer l) && (readers l =? 0)
             then ({| writer := true; readers := readers l |}, m,
                   {| cur := c; rest := r; hold := Some W; snap := m; seen := []; done_ := [] |})
             else (l, m, t)                                               (* blocks *)
  | Acq R => if negb (writer l)
             then ({| writer := writer l; readers := S (readers l) |}, m,
                   {| cur := c; rest := r; hold := Some R; snap := m; seen := []; done_ := [] |})
             else (l, m, t)
  | Rel W => ({| writer := false; readers := readers l |}, m,
              {| cur := c; rest := r; hold := None; snap := snap t; seen := seen t; done_ := done_ t |})
  | Rel R => ({| writer := writer l; readers := pred (readers l) |}, m,
              {| cur := c; rest := r; hold := None; snap := snap t; seen := seen t; done_ := done_ t |})
  | Rd _ => (l, m, {| cur := c; rest := r; hold := hold t; snap := snap t; seen := seen t ++ [m]; done_ := done_ t |})
  | Wr _ => (l, eff ch m, {| cur := c; rest := r; hold := hold t; snap := snap t; seen := seen t; done_ := done_ t ++ [eff ch] |})
  | CallUser => (l, m, with_code t c r)
  end.

Section Machine.
Variable methods : list (list item).

Definition tstep (l : lockst) (m : map_) (t : thread) (ch : choice) : lockst * map_ * thread :=
  match cur t with
  | e :: c => exec_ev l m t e c (rest t) ch
  | [] =>
      match rest t with
      | [] => (l, m, with_code t [] (nth (meth ch) methods []))           (* an idle thread starts a method *)
      | E e :: r => exec_ev l m t e [] r ch
      | Star b :: r => if again ch then (l, m, with_code t b (Star b :: r)) else (l, m, with_code t [] r)
      end
  end.

Definition step (c : config) (ch : choice) : config :=
  match nth_error (ths c) (tid ch) with
  | None => c
  | Some t => let '(l', m', t') := tstep (lk c) (mp c) t ch in {| lk := l'; mp := m'; ths := upd (ths c) (tid ch) t' |}
  end.
Definition run (c : config) (sched : list choice) : config := fold_left step sched c.
End Machine.

Definition idle : thread := {| cur := []; rest := []; hold := None; snap := []; seen := []; done_ := [] |}.
Definition init (n : nat) (m0 : map_) : config :=
  {| lk := {| writer := false; readers := 0 |}; mp := m0; ths := repeat idle n |}.

(* the next step of a thread as a memory access: location and whether it writes *)
Definition next_ev (t : thread) : option ev :=
  match cur t with e :: _ => Some e | [] => match rest t with E e :: _ => Some e | _ => None end end.
Definition next_access (t : thread) : option (loc * bool) :=
  match next_ev t with Some (Rd l) => Some (l, false) | Some (Wr l) => Some (l, true) | _ => None end.
Definition loc_eqb (a b : loc) : bool := match a, b with Hdr, Hdr | Entries, Entries => true | _, _ => false end.
(* a data race: two different threads are both about to touch the same location, at least one of them writing *)
Definition race (c : config) : Prop :=
  exists i j ti tj la a lb b, i <> j /\ nth_error (ths c) i = Some ti /\ nth_error (ths c) j = Some tj /\
    next_access ti = Some (la, a) /\ next_access tj = Some (lb, b) /\ loc_eqb la lb = true /\ (a || b = true).

Definition apply_all (fs : list (map_ -> map_)) (m : map_) : map_ := fold_left (fun acc f => f acc) fs m.

(* the write section a step completes, as the list of its effects (ghost) *)
Definition commit_of (c : config) (ch : choice) : list (map_ -> map_) :=
  match nth_error (ths c) (tid ch) with
  | Some t => match next_ev t with Some (Rel W) => done_ t | _ => [] end
  | None => []
  end.
Fixpoint commits (methods : list (list item)) (c : config) (sched : list choice) : list (map_ -> map_) :=
  match sched with [] => [] | ch :: s => commit_of c ch ++ commits methods (step methods c ch) s end.

(* ================================================================== 3. calls: specification and interpretation *)
Fixpoint get (m : map_) (k : Z) : option Z :=
  match m with [] => None | (a, b) :: t => if (a =? k)%Z then Some b else get t k end.
Fixpoint put (m : map_) (k v : Z) : map_ :=
  match m with
  | [] => [(k, v)]
  | (a, b) :: t => if (k <? a)%Z then (k, v) :: (a, b) :: t else if (k =? a)%Z then (k, v) :: t else (a, b) :: put t k v
  end.
Fixpoint del (m : map_) (k : Z) : map_ :=
  match m with [] => [] | (a, b) :: t => if (a =? k)%Z then t else (a, b) :: del t k end.
Definition has (m : map_) (k : Z) : bool := match get m k with Some _ => true | None => false end.
Fixpoint zinsert (x : Z) (l : list Z) : list Z :=
  match l with [] => [x] | y :: t => if (x <=? y)%Z then x :: y :: t else y :: zinsert x t end.
Definition zsort (l : list Z) : list Z := fold_right zinsert [] l.
Fixpoint zdedup (l : list Z) : list Z :=       (* of an ascending list *)
  match l with
  | x :: ((y :: _) as t) => if (x =? y)%Z then zdedup t else x :: zdedup t
  | _ => l
  end.
Definition flat (m : map_) : list Z := flat_map (fun p => [fst p; snd p]) m.

(* what the callback of Map does to the map it is handed *)
Definition user_fn (f : Z) (a b : Z) (m : map_) : map_ :=
  if (f =? 1)%Z then put m a b else
  if (f =? 2)%Z then put (del m a) b a else
  if (f =? 3)%Z then map (fun p => (fst p, (snd p + 1)%Z)) m else
  if (f =? 4)%Z then match get m a with Some v => put m b (v + 1)%Z | None => m end else m.

Inductive call :=
| CGet (k : Z) | CSet (k v : Z) | CSetNx (k v : Z) | CSetX (k v : Z) | CDelete (ks : list Z) | CHas (k : Z) | CContains (k : Z)
| CLen | CKeys | CValues | CRange (stop : nat) | CAll (stop : nat) | CGetWithMap (ks : list Z) | CGetWithLock (k : Z)
| CClear | CMap (f a b : Z).

Definition iter_result (stop : nat) (m : map_) : list Z :=
  match stop with O => put_list (flat m) | _ => [Z.of_nat (Nat.min stop (length m)); 1%Z] end.

(* the specification: the call as one atomic step on a plain map *)
Definition sem (c : call) (m : map_) : map_ * list Z :=
  match c with
  | CGet k => (m, match get m k with Some v => [v; 1%Z] | None => [0%Z; 0%Z] end)
  | CSet k v => (put m k v, [])
  | CSetNx k v => if has m k then (m, [0%Z]) else (put m k v, [1%Z])
  | CSetX k v => if has m k then (put m k v, [1%Z]) else (m, [0%Z])
  | CDelete ks => (fold_left del ks m, [])
  | CHas k | CContains k => (m, [zb (has m k)])
  | CLen => (m, [Z.of_nat (length m)])
  | CKeys => (m, put_list (map fst m))
  | CValues => (m, put_list (zsort (map snd m)))
  | CRange stop | CAll stop => (m, iter_result stop m)
  | CGetWithMap ks => (m, put_list (flat_map (fun k => [k; match get m k with Some v => v | None => (-1)%Z end]) (zdedup (zsort ks))))
  | CGetWithLock k => (m, match get m k with Some v => [1%Z; v] | None => [0%Z] end)
  | CClear => ([], [])
  | CMap f a b => (user_fn f a b m, [Z.of_nat (length m)])
  end.

(* ---- the interpretation of a call over its generated skeleton ---- *)
Definition skel_of (c : call) : list item :=
  match c with
  | CGet _ => skel_Get | CSet _ _ => skel_Set | CSetNx _ _ => skel_SetNx | CSetX _ _ => skel_SetX | CDelete _ => skel_Delete
  | CHas _ => skel_Has | CContains _ => skel_Contains | CLen => skel_Len | CKeys => skel_Keys | CValues => skel_Values
  | CRange _ => skel_Range | CAll _ => skel_All | CGetWithMap _ => skel_GetWithMap | CGetWithLock _ => skel_GetWithLock
  | CClear => skel_Clear | CMap _ _ _ => skel_Map
  end.

Definition obs_at (obs : list map_) (i : nat) : map_ := nth i obs [].
Definition last_obs (obs : list map_) : map_ := last obs [].

(* does the Star part run once more?  [it] = iterations completed so far.  (Hand-written from the Go code: the `if !ok`,
   `if ok`, `for range keys`, `for range m`, `for range s.entries` headers.) *)
Definition again_ (c : call) (obs : list map_) (it : nat) : bool :=
  match c with
  | CSetNx k _ => (it =? 0) && negb (has (last_obs obs) k)
  | CSetX k _ => (it =? 0) && has (last_obs obs) k
  | CGetWithLock k => (it =? 0) && has (last_obs obs) k
  | CDelete ks => it <? length ks
  | CGetWithMap ks => it <? length (zdedup (zsort ks))
  | CKeys | CValues => it <? length (obs_at obs 3)              (* the map the range statement started on *)
  | CRange stop | CAll stop => (it <? length (obs_at obs 1)) && ((stop =? 0) || (it <? stop))
  | _ => false
  end.
(* what a write event of the call does; [it] = index of the current iteration *)
Definition wr (c : call) (it : nat) : map_ -> map_ :=
  match c with
  | CSet k v | CSetNx k v | CSetX k v => fun m => put m k v
  | CDelete ks => fun m => del m (nth it ks 0%Z)
  | CClear => fun _ => []
  | CMap f a b => user_fn f a b
  | _ => fun m => m
  end.
(* the returned value, from what the reads observed *)
Definition nth_pair (m : map_) (j : nat) : list Z := match nth_error m j with Some (k, v) => [k; v] | None => [] end.
Definition result (c : call) (obs : list map_) (its : nat) : list Z :=
  match c with
  | CGet k => match get (obs_at obs 1) k with Some v => [v; 1%Z] | None => [0%Z; 0%Z] end
  | CSetNx k _ => [zb (negb (has (obs_at obs 1) k))]
  | CSetX k _ => [zb (has (obs_at obs 1) k)]
  | CHas k | CContains k => [zb (has (obs_at obs 1) k)]
  | CLen => [Z.of_nat (length (obs_at obs 1))]
  | CKeys => put_list (flat_map (fun j => match nth_error (obs_at obs (4 + j)) j with Some (k, _) => [k] | None => [] end) (seq 0 its))
  | CValues => put_list (zsort (flat_map (fun j => match nth_error (obs_at obs (4 + j)) j with Some (_, v) => [v] | None => [] end) (seq 0 its)))
  | CRange stop | CAll stop =>
      match stop with
      | O => put_list (flat_map (fun j => nth_pair (obs_at obs (2 + j)) j) (seq 0 its))
      | _ => [Z.of_nat its; 1%Z]
      end
  | CGetWithMap ks =>
      put_list (flat_map (fun j => let k := nth j (zdedup (zsort ks)) 0%Z in
                                   [k; match get (obs_at obs (2 * j + 1)) k with Some v => v | None => (-1)%Z end]) (seq 0 its))
  | CGetWithLock k => match get (obs_at obs 1) k with Some v => [1%Z; v] | None => [0%Z] end
  | CMap _ _ _ => [Z.of_nat (length (obs_at obs 0))]
  | _ => []
  end.

(* walking the skeleton against a private map *)
Definition do_ev (c : call) (it : nat) (e : ev) (m : map_) (obs : list map_) : map_ * list map_ :=
  match e with Rd _ => (m, obs ++ [m]) | Wr _ => (wr c it m, obs) | _ => (m, obs) end.
Fixpoint run_body (c : call) (it : nat) (b : list ev) (m : map_) (obs : list map_) : map_ * list map_ :=
  match b with [] => (m, obs) | e :: t => let '(m', obs') := do_ev c it e m obs in run_body c it t m' obs' end.
Fixpoint run_star (fuel : nat) (c : call) (it : nat) (b : list ev) (m : map_) (obs : list map_) : option (map_ * list map_ * nat) :=
  if again_ c obs it then
    match fuel with
    | O => None
    | S f => let '(m', obs') := run_body c it b m obs in run_star f c (S it) b m' obs'
    end
  else Some (m, obs, it).
Fixpoint run_items (fuel : nat) (c : call) (l : list item) (m : map_) (obs : list map_) (its : nat) : option (map_ * list map_ * nat) :=
  match l with
  | [] => Some (m, obs, its)
  | E e :: t => let '(m', obs') := do_ev c 0 e m obs in run_items fuel c t m' obs' its
  | Star b :: t => match run_star fuel c 0 b m obs with
                   | Some (m', obs', n) => run_items fuel c t m' obs' n
                   | None => None
                   end
  end.
Definition call_fuel (c : call) (m : map_) : nat :=
  S (S (length m + match c with CDelete ks | CGetWithMap ks => length ks | _ => 0 end)).
Definition exec_call (c : call) (m : map_) : option (map_ * list Z) :=
  match run_items (call_fuel c m) c (skel_of c) m [] 0 with
  | Some (m', obs, its) => Some (m', result c obs its)
  | None => None
  end.

(* operation sequences *)
Fixpoint run_model (cs : list call) (m : map_) : list Z :=
  match cs with
  | [] => []
  | c :: t => match exec_call c m with Some (m', r) => r ++ run_model t m' | None => [NOFUEL] end
  end.
Fixpoint run_spec (cs : list call) (m : map_) : list Z :=
  match cs with [] => [] | c :: t => let '(m', r) := sem c m in r ++ run_spec t m' end.

(* ================================================================== 4. linearisation search for observed histories *)
(* one completed call of a history: invocation stamp, response stamp (one global counter), the call, what it returned *)
Record hop := { h_inv : Z; h_resp : Z; h_call : call; h_res : list Z }.

Fixpoint min_resp (l : list hop) (acc : option Z) : option Z :=
  match l with
  | [] => acc
  | h :: t => min_resp t (match acc with None => Some (h_resp h) | Some a => Some (Z.min a (h_resp h)) end)
  end.
Fixpoint remove_nth {A} (n : nat) (l : list A) : list A :=
  match n, l with _, [] => [] | O, _ :: t => t | S k, x :: t => x :: remove_nth k t end.

(* Wing-Gong search: next in the linearisation may be any pending call invoked before every pending response;
   it must return what the specification returns on the current map *)
Fixpoint lin_search (fuel : nat) (pending : list hop) (m : map_) : bool :=
  match pending with
  | [] => true
  | _ =>
      match fuel with
      | O => false
      | S f =>
          let bound := match min_resp pending None with Some b => b | None => 0%Z end in
          existsb (fun i => match nth_error pending i with
                            | Some h => (h_inv h <? bound)%Z &&
                                        (let '(m', r) := sem (h_call h) m in
                                         list_eqb r (h_res h) && lin_search f (remove_nth i pending) m')
                            | None => false
                            end) (seq 0 (length pending))
      end
  end.
Definition linearizable (hist : list hop) (m0 : map_) : bool := lin_search (S (length hist)) hist m0.
