From Coq Require Import List ZArith NArith Bool Arith.
From V Require Import Lib.Enc.
Import ListNotations.
Local Open Scope N_scope.

(* Model of setz.Bitmap Add/Remove/Contains (bits.go:105-139) on 64-bit words. *)
Fixpoint upd (l : list N) (i : nat) (x : N) : list N :=
  match l, i with
  | [], _ => []
  | _ :: t, O => x :: t
  | h :: t, S j => h :: upd t j x
  end.

Definition widx (num : N) : nat := N.to_nat (N.shiftr num 6).     (* int(num >> 6) *)
Definition bidx (num : N) : N := N.land num 63.                   (* num & 63 *)
Definition mask (b : N) : N := N.shiftl 1 b.                      (* 1 << bit *)

Definition contains (set : list N) (num : N) : bool :=
  (widx num <? length set)%nat && negb (N.land (nth (widx num) set 0) (mask (bidx num)) =? 0).

Definition add (set : list N) (num : N) : list N * bool :=
  let i := widx num in
  if (length set <=? i)%nat
  then let grown := set ++ repeat 0 (i + 1 - length set) in
       (upd grown i (N.lor (nth i grown 0) (mask (bidx num))), true)
  else if N.land (nth i set 0) (mask (bidx num)) =? 0
       then (upd set i (N.lor (nth i set 0) (mask (bidx num))), true)
       else (set, false).

Definition remove (set : list N) (num : N) : list N * bool :=
  let i := widx num in
  if (i <? length set)%nat && negb (N.land (nth i set 0) (mask (bidx num)) =? 0)
  then (upd set i (N.ldiff (nth i set 0) (mask (bidx num))), true)      (* &^= *)
  else (set, false).

(* ---- the set a word array denotes ---- *)
Definition mem (set : list N) (n : N) : bool := N.testbit (nth (N.to_nat (n / 64)) set 0) (n mod 64).

(* setz.BitmapIter (bits.go:56-90): position (i, j) with a pending-advance flag. *)
Record iter := { wi : nat; bj : N; rd : bool }.

Definition bit_set (set : list N) (i : nat) (j : N) : bool := negb (N.land (nth i set 0) (N.shiftl 1 j) =? 0).

(* the two nested loops of Next, as one loop with fuel: each round either finds a bit, or does j++, or i++; j = 0 *)
Fixpoint scan (fuel : nat) (set : list N) (i : nat) (j : N) : option (nat * N) :=
  match fuel with
  | O => None
  | S f =>
      if (i <? length set)%nat then
        if j <? 64 then (if bit_set set i j then Some (i, j) else scan f set i (j + 1))
        else scan f set (S i) 0
      else None
  end.

Definition next (set : list N) (it : iter) : option iter :=
  let j0 := if rd it then bj it + 1 else bj it in
  match scan (65 * (length set - wi it) + 1) set (wi it) j0 with
  | Some (i, j) => Some {| wi := i; bj := j; rd := true |}
  | None => None
  end.
Definition value (it : iter) : N := N.of_nat (wi it) * 64 + bj it.

(* the whole loop "for it.Next() { out = append(out, it.Value()) }" *)
Fixpoint drain (fuel : nat) (set : list N) (it : iter) : list N :=
  match fuel with
  | O => []
  | S f => match next set it with Some it' => value it' :: drain f set it' | None => [] end
  end.
Definition lo_of (it : iter) : N := if rd it then value it + 1 else value it.
Definition wf (it : iter) : Prop := (rd it = true -> bj it < 64) /\ (rd it = false -> bj it <= 64).


(* ---- setz.Bitmap.Diff / Intersect / Merge (bits.go:196-228), receivers of different word counts ---- *)
Fixpoint diff (b o : list N) : list N :=
  match b, o with x :: b', y :: o' => N.ldiff x y :: diff b' o' | _, _ => b end.          (* b.set[i] &= ^other.set[i], i < min *)
Fixpoint inter (b o : list N) : list N :=
  match b with
  | [] => []
  | x :: b' => match o with [] => 0 :: inter b' [] | y :: o' => N.land x y :: inter b' o' end   (* beyond other: b.set[i] = 0 *)
  end.
Fixpoint merge (b o : list N) : list N :=
  match b, o with x :: b', y :: o' => N.lor x y :: merge b' o' | [], _ => o | _, [] => b end.

(* ---- Len: the sum of the words' population counts is the number of members ---- *)
Definition bits64 : list N := map N.of_nat (seq 0 64).
Definition popcount (w : N) : nat := length (filter (N.testbit w) bits64).      (* bits.OnesCount64, by its specification *)
Fixpoint len (set : list N) : nat := match set with [] => O | w :: t => (popcount w + len t)%nat end.

(* the members, word by word *)
Fixpoint mlist (k : N) (set : list N) : list N :=
  match set with
  | [] => []
  | w :: t => map (fun j => 64 * k + j) (filter (N.testbit w) bits64) ++ mlist (k + 1) t
  end.

(* ---------------------------------------------------------------------------------------------
   The three public types and an operation-sequence runner (what Run/C16 executes).
   setz.Bitmap  = words only (Len = popcount sum);
   setz.Bits    = words + cached length, bulk ops recount;
   dsz.Bits     = words + cached length updated inline, Add/Remove return nothing, no bulk ops.
   --------------------------------------------------------------------------------------------- *)
Record bits := { words : list N; cached : Z }.

Definition grow (set : list N) (n : N) : list N :=
  let i := widx n in if (length set <=? i)%nat then set ++ repeat 0 (i + 1 - length set) else set.
Definition cap (set : list N) : N := N.shiftl (N.of_nat (length set)) 6.

Definition b_add (b : bits) (n : N) : bits * bool :=
  let (w, ch) := add (words b) n in ({| words := w; cached := if ch then (cached b + 1)%Z else cached b |}, ch).
Definition b_remove (b : bits) (n : N) : bits * bool :=
  let (w, ch) := remove (words b) n in ({| words := w; cached := if ch then (cached b - 1)%Z else cached b |}, ch).
Definition recount (w : list N) : bits := {| words := w; cached := Z.of_nat (len w) |}.

(* the members in ascending order, as Iter / Range / All produce them *)
Definition enumerate (set : list N) : list N :=
  drain (64 * length set + 1) set {| wi := O; bj := 0; rd := false |}.
(* Bitmap.Range (bits.go:161-171) / Bits.All (iter.go:9-21): the double loop "for i < len(set) { for j < 64 { if set[i]&(1<<j) != 0
   { if !fn(uint(i<<6 + j)) { return } } } }" with a callback that returns false at its k-th call (k = 0: never).
   [calls] = callback invocations so far; the stop flag is carried out of both loops. *)
Fixpoint range_word (js : list N) (w base : N) (k calls : nat) : list N * nat * bool :=
  match js with
  | [] => ([], calls, false)
  | j :: r =>
      if negb (N.land w (N.shiftl 1 j) =? 0) then
        if (0 <? k)%nat && (k <=? S calls)%nat then ([base + j], S calls, true)
        else let '(l, c, s) := range_word r w base k (S calls) in ((base + j) :: l, c, s)
      else range_word r w base k calls
  end.
Fixpoint range_loop (set : list N) (i : N) (k calls : nat) : list N :=
  match set with
  | [] => []
  | w :: t => let '(l, c, s) := range_word bits64 w (N.shiftl i 6) k calls in
              if s then l else l ++ range_loop t (i + 1) k c
  end.
Definition enumerate_stop (set : list N) (k : nat) : list N := range_loop set 0 k 0.

(* kinds *)
Inductive kind := KBits | KBitmap | KDsz.
Inductive op :=
| OAdd (t : bool) (n : N) | ORemove (t : bool) (n : N) | OContains (t : bool) (n : N)
| OLen (t : bool) | OCap (t : bool) | OGrow (t : bool) (n : N)
| OIter (t : bool) | ORange (t : bool) (k : nat) | OAll (t : bool) (k : nat)
| ODiff (t : bool) | OIntersect (t : bool) | OMerge (t : bool) | OClone (t : bool).

Definition sel {A} (t : bool) (p : A * A) : A := if t then snd p else fst p.
Definition upd2 {A} (t : bool) (p : A * A) (x : A) : A * A := if t then (fst p, x) else (x, snd p).

Definition len_of (k : kind) (b : bits) : Z :=
  match k with KBitmap => Z.of_nat (len (words b)) | _ => cached b end.

(* one operation: new state and the observable output (as integers) *)
Definition step (k : kind) (st : bits * bits) (o : op) : (bits * bits) * list Z :=
  match o with
  | OAdd t n => let (b, ch) := b_add (sel t st) n in (upd2 t st b, match k with KDsz => [] | _ => [zb ch] end)
  | ORemove t n => let (b, ch) := b_remove (sel t st) n in (upd2 t st b, match k with KDsz => [] | _ => [zb ch] end)
  | OContains t n => (st, [zb (contains (words (sel t st)) n)])
  | OLen t => (st, [len_of k (sel t st)])
  | OCap t => (st, [Z.of_N (cap (words (sel t st)))])
  | OGrow t n => let b := sel t st in (upd2 t st {| words := grow (words b) n; cached := cached b |}, [])
  | OIter t => (st, put_list (of_Ns (enumerate (words (sel t st)))))
  | ORange t c => (st, put_list (of_Ns (enumerate_stop (words (sel t st)) c)))
  | OAll t c => (st, put_list (of_Ns (enumerate_stop (words (sel t st)) c)))
  | ODiff t => (upd2 t st (recount (diff (words (sel t st)) (words (sel (negb t) st)))), [])
  | OIntersect t => (upd2 t st (recount (inter (words (sel t st)) (words (sel (negb t) st)))), [])
  | OMerge t => (upd2 t st (recount (merge (words (sel t st)) (words (sel (negb t) st)))), [])
  | OClone t => (upd2 (negb t) st (sel t st), [])
  end.

Fixpoint run (k : kind) (st : bits * bits) (ops : list op) : list Z :=
  match ops with
  | [] => []
  | o :: r => let (st', out) := step k st o in out ++ run k st' r
  end.
Definition empty : bits := {| words := []; cached := 0 |}.

(* ---- the specification side: a set is a strictly ascending list of N (Spec) ---- *)
Fixpoint s_insert (x : N) (l : list N) : list N :=
  match l with
  | [] => [x]
  | y :: t => if x <? y then x :: l else if x =? y then l else y :: s_insert x t
  end.
Fixpoint s_delete (x : N) (l : list N) : list N :=
  match l with [] => [] | y :: t => if x =? y then t else y :: s_delete x t end.
Definition s_mem (x : N) (l : list N) : bool := existsb (N.eqb x) l.
Definition s_diff (a b : list N) : list N := filter (fun x => negb (s_mem x b)) a.
Definition s_inter (a b : list N) : list N := filter (fun x => s_mem x b) a.
Definition s_union (a b : list N) : list N := fold_left (fun acc x => s_insert x acc) b a.

(* spec state: two sets plus the two capacities (Cap is observable and is not part of set semantics:
   the spec tracks it as the least multiple of 64 covering everything ever added/grown/merged) *)
Record sset := { elems : list N; scap : N }.
Definition need (n : N) : N := (n / 64 + 1) * 64.
Definition s_step (k : kind) (st : sset * sset) (o : op) : (sset * sset) * list Z :=
  match o with
  | OAdd t n => let s := sel t st in
      (upd2 t st {| elems := s_insert n (elems s); scap := N.max (scap s) (need n) |},
       match k with KDsz => [] | _ => [zb (negb (s_mem n (elems s)))] end)
  | ORemove t n => let s := sel t st in
      (upd2 t st {| elems := s_delete n (elems s); scap := scap s |},
       match k with KDsz => [] | _ => [zb (s_mem n (elems s))] end)
  | OContains t n => (st, [zb (s_mem n (elems (sel t st)))])
  | OLen t => (st, [Z.of_nat (length (elems (sel t st)))])
  | OCap t => (st, [Z.of_N (scap (sel t st))])
  | OGrow t n => let s := sel t st in (upd2 t st {| elems := elems s; scap := N.max (scap s) (need n) |}, [])
  | OIter t => (st, put_list (of_Ns (elems (sel t st))))
  | ORange t c | OAll t c =>
      (st, put_list (of_Ns (match c with O => elems (sel t st) | _ => firstn c (elems (sel t st)) end)))
  | ODiff t => let s := sel t st in
      (upd2 t st {| elems := s_diff (elems s) (elems (sel (negb t) st)); scap := scap s |}, [])
  | OIntersect t => let s := sel t st in
      (upd2 t st {| elems := s_inter (elems s) (elems (sel (negb t) st)); scap := scap s |}, [])
  | OMerge t => let s := sel t st in let o' := sel (negb t) st in
      (upd2 t st {| elems := s_union (elems s) (elems o'); scap := N.max (scap s) (scap o') |}, [])
  | OClone t => (upd2 (negb t) st (sel t st), [])
  end.
Fixpoint s_run (k : kind) (st : sset * sset) (ops : list op) : list Z :=
  match ops with
  | [] => []
  | o :: r => let (st', out) := s_step k st o in out ++ s_run k st' r
  end.
Definition s_empty : sset := {| elems := []; scap := 0 |}.
