(* C04 — heapz: model of adjustment.go (up / down / fix / build), slice.go (Slice), heap.go (Heap with *Element
   handles), std_heap.go (Init/Push/Pop/Remove/Fix over a caller-supplied container) and iter.go (PopAll),
   plus the specification side (heap order, multiset priority queue judge).  No proofs in this file.

   Three layers:
   1. "pure" loops on [list A] with nat indices and a total [nth] (what the order theorems are stated on);
   2. the executable loops [gdown_go]/[gup_go]/[gfix]/[gbuild_from] exactly as the Go code runs them: int (Z)
      indices, every element access checked ([Panic] where Go panics), fuel ([NoFuel], never observed), generic
      in the container through [less]/[swp] (the swap hook of adjustment.go, the heap.Interface of std_heap.go);
   3. the operations of Slice / Heap / the generic functions, operation sequences, and the judge. *)
From Coq Require Import List Arith ZArith Bool PeanoNat Permutation.
Import ListNotations.

(* ------------------------------------------------------------------ results: Go panics are values *)
Inductive res (X : Type) : Type := Ok (x : X) | Panic | NoFuel.
Arguments Ok {X} x.
Arguments Panic {X}.
Arguments NoFuel {X}.
Definition bind {X Y : Type} (r : res X) (f : X -> res Y) : res Y :=
  match r with Ok x => f x | Panic => Panic | NoFuel => NoFuel end.

Fixpoint upd {X : Type} (l : list X) (i : nat) (x : X) : list X :=
  match l, i with
  | [], _ => []
  | _ :: t, O => x :: t
  | h :: t, S j => h :: upd t j x
  end.
Definition Zlen {X : Type} (l : list X) : Z := Z.of_nat (length l).
(* s[i] with an int index: panics outside 0 <= i < len(s) *)
Definition nthZ {X : Type} (s : list X) (i : Z) : res X :=
  if (i <? 0)%Z then Panic else match nth_error s (Z.to_nat i) with Some x => Ok x | None => Panic end.

(* ------------------------------------------------------------------ layer 2: the loops as the Go code runs them *)
Section Generic.
Variable S : Type.
Variable less : S -> Z -> Z -> res bool.      (* cmp(s[a], s[b])  /  h.Less(a, b) *)
Variable swp : S -> Z -> Z -> res S.          (* swap(s, a, b)    /  h.Swap(a, b) *)
Local Open Scope Z_scope.

(* adjustment.go:31-49 down  /  std_heap.go:86-103 std_down *)
Fixpoint gdown_go (fuel : nat) (s : S) (i n : Z) : res (S * Z) :=
  match fuel with
  | O => NoFuel
  | Datatypes.S f =>
      let j1 := 2 * i + 1 in
      if (j1 >=? n) || (j1 <? 0) then Ok (s, i) else
      let j2 := j1 + 1 in
      bind (if j2 <? n then less s j2 j1 else Ok false) (fun b =>
      let j := if b then j2 else j1 in
      bind (less s j i) (fun c =>
      if c then bind (swp s i j) (fun s' => gdown_go f s' j n) else Ok (s, i)))
  end.
Definition gdown (fuel : nat) (s : S) (i0 n : Z) : res (S * bool) :=
  bind (gdown_go fuel s i0 n) (fun r => Ok (fst r, snd r >? i0)).

(* adjustment.go:20-29 up  /  std_heap.go:75-84 std_up; (j - 1) / 2 is Go's truncating division *)
Fixpoint gup_go (fuel : nat) (s : S) (j : Z) : res S :=
  match fuel with
  | O => NoFuel
  | Datatypes.S f =>
      let i := Z.quot (j - 1) 2 in
      if i =? j then Ok s else
      bind (less s j i) (fun c => if c then bind (swp s i j) (fun s' => gup_go f s' i) else Ok s)
  end.

(* adjustment.go:7-11 fix  /  the body of std Fix and of std Remove *)
Definition gfix (fuel : nat) (s : S) (i n : Z) : res S :=
  bind (gdown fuel s i n) (fun r => if snd r then Ok (fst r) else gup_go fuel (fst r) i).

(* adjustment.go:13-18 build  /  std Init:  for i := n/2 - 1; i >= 0; i-- { down(s, i, n) }  (k = n/2 rounds) *)
Fixpoint gbuild_from (fuel : nat) (k : nat) (s : S) (n : Z) : res S :=
  match k with
  | O => Ok s
  | Datatypes.S i => bind (gdown fuel s (Z.of_nat i) n) (fun r => gbuild_from fuel i (fst r) n)
  end.
Definition gbuild (fuel : nat) (s : S) (n : Z) : res S := gbuild_from fuel (Z.to_nat (n / 2)) s n.
End Generic.

Section Heap.
Variable A : Type.
Variable d : A.
Variable lt : A -> A -> bool.                     (* cmp(a, b): a must come before b *)
Variable eqb : A -> A -> bool.                    (* identity of values, used by the judge only *)

(* ------------------------------------------------------------------ layer 1: pure loops (nat indices, total nth) *)
Definition swap (s : list A) (i j : nat) : list A := upd (upd s i (nth j s d)) j (nth i s d).

Fixpoint down_go (fuel : nat) (s : list A) (i n : nat) : list A * nat :=
  match fuel with
  | O => (s, i)
  | S f =>
      let j1 := 2 * i + 1 in
      if n <=? j1 then (s, i) else
      let j := if (j1 + 1 <? n) && lt (nth (j1 + 1) s d) (nth j1 s d) then j1 + 1 else j1 in
      if lt (nth j s d) (nth i s d) then down_go f (swap s i j) j n else (s, i)
  end.
Definition down (s : list A) (i0 n : nat) : list A * bool :=
  let '(s', i) := down_go n s i0 n in (s', i0 <? i).

Fixpoint up_go (fuel : nat) (s : list A) (j : nat) : list A :=
  match fuel with
  | O => s
  | S f =>
      let i := (j - 1) / 2 in
      if (i =? j) || negb (lt (nth j s d) (nth i s d)) then s else up_go f (swap s i j) i
  end.
Definition up (s : list A) (j : nat) : list A := up_go (S j) s j.

Definition fix_ (s : list A) (i n : nat) : list A :=
  let '(s', moved) := down s i n in if moved then s' else up s' i.

Fixpoint build_from (k : nat) (s : list A) : list A :=
  match k with
  | O => s
  | S i => build_from i (fst (down_go (length s) s i (length s)))
  end.
Definition build (s : list A) : list A := build_from (length s / 2) s.

(* ---- the comparator: any strict weak order (irreflexive, transitive, incomparability transitive) ---- *)
Definition incomparable (a b : A) : Prop := lt a b = false /\ lt b a = false.
Definition strict_weak_order : Prop :=
  (forall a, lt a a = false) /\
  (forall a b c, lt a b = true -> lt b c = true -> lt a c = true) /\
  (forall a b c, incomparable a b -> incomparable b c -> incomparable a c).

(* ---- heap order: the parent never follows the child ---- *)
Definition le (a b : A) : Prop := lt b a = false.          (* "b does not precede a" *)
Definition is_child (p c : nat) : Prop := c = 2 * p + 1 \/ c = 2 * p + 2.
Definition ok (s : list A) (p c : nat) : Prop := le (nth p s d) (nth c s d).
Definition heap_ok (s : list A) (n : nat) : Prop := forall p c, c < n -> is_child p c -> ok s p c.
Definition heap_from (s : list A) (lo n : nat) : Prop := forall p c, lo <= p -> c < n -> is_child p c -> ok s p c.

(* ------------------------------------------------------------------ container 1: a plain slice ([]T, swap[T]) *)
Definition lessL (s : list A) (a b : Z) : res bool :=
  bind (nthZ s a) (fun x => bind (nthZ s b) (fun y => Ok (lt x y))).
Definition swapL (s : list A) (a b : Z) : res (list A) :=
  bind (nthZ s a) (fun x => bind (nthZ s b) (fun y => Ok (upd (upd s (Z.to_nat a) y) (Z.to_nat b) x))).
Definition fuelL (s : list A) : nat := S (length s).
Definition downL (s : list A) := gdown (list A) lessL swapL (fuelL s) s.
Definition upL (s : list A) := gup_go (list A) lessL swapL (fuelL s) s.
Definition fixL (s : list A) := gfix (list A) lessL swapL (fuelL s) s.
Definition buildL (s : list A) := gbuild (list A) lessL swapL (fuelL s) s (Zlen s).

Local Open Scope Z_scope.

(* ---- slice.go ---- *)
Definition sl_push (s : list A) (x : A) : res (list A) :=
  let s' := s ++ [x] in upL s' (Zlen s' - 1).
Definition cut_last (s : list A) (n : Z) : res (list A * option A) :=      (* x = s[n]; s = s[:n] *)
  bind (nthZ s n) (fun x => Ok (firstn (Z.to_nat n) s, Some x)).
Definition sl_pop (s : list A) : res (list A * option A) :=
  let n := Zlen s in
  if n =? 0 then Ok (s, None) else
  if n =? 1 then bind (nthZ s 0) (fun x => Ok ([], Some x)) else
  let n := n - 1 in
  bind (swapL s 0 n) (fun s1 => bind (downL s1 0 n) (fun r => cut_last (fst r) n)).
Definition sl_peek (s : list A) : res (option A) :=
  if Zlen s =? 0 then Ok None else bind (nthZ s 0) (fun x => Ok (Some x)).
Definition sl_remove (s : list A) (i : Z) : res (list A * option A) :=
  if (i <? 0) || (i >=? Zlen s) then Ok (s, None) else
  let n := Zlen s - 1 in
  bind (if negb (n =? i) then bind (swapL s i n) (fun s1 => fixL s1 i n) else Ok s) (fun s2 => cut_last s2 n).
Definition sl_fix (s : list A) (i : Z) : res (list A) :=
  if (i <? 0) || (i >=? Zlen s) then Ok s else fixL s i (Zlen s).

(* ---- std_heap.go over a container that is a slice type ([]T with Len/Less/Swap/Push/Pop methods) ---- *)
Definition c_pop (s : list A) : res (list A * option A) :=                 (* old := *h; x := old[n-1]; *h = old[:n-1] *)
  cut_last s (Zlen s - 1).
Definition std_push (s : list A) (x : A) : res (list A) :=
  let s' := s ++ [x] in upL s' (Zlen s' - 1).
Definition std_pop (s : list A) : res (list A * option A) :=
  let n := Zlen s - 1 in
  bind (swapL s 0 n) (fun s1 => bind (downL s1 0 n) (fun r => c_pop (fst r))).
Definition std_remove (s : list A) (i : Z) : res (list A * option A) :=
  let n := Zlen s - 1 in
  bind (if negb (n =? i) then bind (swapL s i n) (fun s1 => fixL s1 i n) else Ok s) c_pop.
Definition std_fix (s : list A) (i : Z) : res (list A) := fixL s i (Zlen s).

(* ---- operation sequences on the two list flavours ---- *)
Inductive lop :=
| LPush (x : A) | LPop | LPeek | LLen | LRemove (i : Z) | LFix (i : Z)
| LSetFix (i : Z) (x : A)        (* if 0 <= i < len { Values[i] = x }; Fix(i) *)
| LReInit (i : Z) (x : A)        (* if 0 <= i < len { Values[i] = x }; FromSlice(Values) / Init(h) *)
| LPopAll (k : Z).               (* for x := range PopAll() { ...; stop after k values (k <= 0: never) } *)
Inductive lobs := ONone | OOpt (r : option A) | OInt (n : Z) | OList (l : list A).
Definition ltrace := list (lobs * list A).      (* per operation: what it returned, Values afterwards *)

Definition set_at (s : list A) (i : Z) (x : A) : list A :=
  if (i <? 0) || (i >=? Zlen s) then s else upd s (Z.to_nat i) x.

(* PopAll: Pop until empty or until the consumer breaks after k values *)
Fixpoint popall (fuel : nat) (pop : list A -> res (list A * option A)) (s : list A) (k : Z) (acc : list A)
  : res (list A * list A) :=
  match fuel with
  | O => NoFuel
  | S f =>
      bind (pop s) (fun r =>
      match snd r with
      | None => Ok (fst r, rev acc)
      | Some x => if k =? 1 then Ok (fst r, rev (x :: acc)) else popall f pop (fst r) (k - 1) (x :: acc)
      end)
  end.

Definition lstep (std : bool) (s : list A) (o : lop) : res (list A * lobs) :=
  match o with
  | LPush x => bind (if std then std_push s x else sl_push s x) (fun s' => Ok (s', ONone))
  | LPop => bind (if std then std_pop s else sl_pop s) (fun r => Ok (fst r, OOpt (snd r)))
  | LPeek => if std then Ok (s, ONone) else bind (sl_peek s) (fun r => Ok (s, OOpt r))
  | LLen => Ok (s, OInt (Zlen s))
  | LRemove i => bind (if std then std_remove s i else sl_remove s i) (fun r => Ok (fst r, OOpt (snd r)))
  | LFix i => bind (if std then std_fix s i else sl_fix s i) (fun s' => Ok (s', ONone))
  | LSetFix i x => let s1 := set_at s i x in
                   bind (if std then std_fix s1 i else sl_fix s1 i) (fun s' => Ok (s', ONone))
  | LReInit i x => bind (buildL (set_at s i x)) (fun s' => Ok (s', ONone))
  | LPopAll k => if std then Ok (s, ONone) else
                 bind (popall (S (length s)) sl_pop s k []) (fun r => Ok (fst r, OList (snd r)))
  end.
Fixpoint lrun (std : bool) (s : list A) (ops : list lop) : res ltrace :=
  match ops with
  | [] => Ok []
  | o :: t => bind (lstep std s o) (fun r => bind (lrun std (fst r) t) (fun tr => Ok ((snd r, fst r) :: tr)))
  end.
(* a case: FromSlice(init) / Init(container holding init), then the operations *)
Definition lcase (std : bool) (init : list A) (ops : list lop) : res ltrace :=
  bind (buildL init) (fun s => bind (lrun std s ops) (fun tr => Ok ((ONone, s) :: tr))).

(* ------------------------------------------------------------------ container 2: heap.go, []*Element with cached index / owner *)
Record elem := mkE { eidx : Z; eown : Z; evalue : A }.        (* eown: 0 / 1 = the owning heap, -1 = nil *)
Definition dummyE : elem := mkE (-1) (-1) d.
Definition store := list elem.                                 (* every Element ever created; a handle is its position *)
Definition getE (st : store) (e : nat) : elem := nth e st dummyE.
Definition set_idx (st : store) (e : nat) (k : Z) : store := upd st e (mkE k (eown (getE st e)) (evalue (getE st e))).
Definition set_own (st : store) (e : nat) (o : Z) : store := upd st e (mkE (eidx (getE st e)) o (evalue (getE st e))).
Definition set_val (st : store) (e : nat) (v : A) : store := upd st e (mkE (eidx (getE st e)) (eown (getE st e)) v).
Definition hst := (list nat * store)%type.                     (* h.values (as handles), the elements *)

Definition lessH (t : hst) (a b : Z) : res bool :=             (* rcmp: cmp(a.Value, b.Value) *)
  bind (nthZ (fst t) a) (fun x => bind (nthZ (fst t) b) (fun y =>
    Ok (lt (evalue (getE (snd t) x)) (evalue (getE (snd t) y))))).
(* swapEle: s[i], s[j] = s[j], s[i]; s[i].index = i; s[j].index = j *)
Definition swapH (t : hst) (a b : Z) : res hst :=
  bind (nthZ (fst t) a) (fun x => bind (nthZ (fst t) b) (fun y =>
    Ok (upd (upd (fst t) (Z.to_nat a) y) (Z.to_nat b) x, set_idx (set_idx (snd t) y a) x b))).
Definition fuelH (t : hst) : nat := S (length (fst t)).
Definition downH (t : hst) := gdown hst lessH swapH (fuelH t) t.
Definition upH (t : hst) := gup_go hst lessH swapH (fuelH t) t.
Definition fixH (t : hst) := gfix hst lessH swapH (fuelH t) t.
Definition buildH (t : hst) := gbuild hst lessH swapH (fuelH t) t (Zlen (fst t)).

(* h.pop(): e := values[n]; values = values[:n]; e.heap = nil; e.index = -1 *)
Definition hp_poplast (t : hst) : res (hst * Z) :=
  let n := Zlen (fst t) - 1 in
  bind (nthZ (fst t) n) (fun e =>
    Ok ((firstn (Z.to_nat n) (fst t), set_idx (set_own (snd t) e (-1)) e (-1)), Z.of_nat e)).
(* PushElement *)
Definition hp_pushelem (h : Z) (t : hst) (e : nat) : res hst :=
  let index := Zlen (fst t) in
  upH (fst t ++ [e], set_idx (set_own (snd t) e h) e index) index.
Definition hp_push (h : Z) (t : hst) (v : A) : res hst :=
  hp_pushelem h (fst t, snd t ++ [mkE 0 (-1) v]) (length (snd t)).
Definition hp_pop (t : hst) : res (hst * Z) :=
  let n := Zlen (fst t) in
  if n =? 0 then Ok (t, -1) else
  if n =? 1 then hp_poplast t else
  let n := n - 1 in
  bind (swapH t 0 n) (fun t1 => bind (downH t1 0 n) (fun r => hp_poplast (fst r))).
Definition hp_peek (t : hst) : res Z :=
  if Zlen (fst t) =? 0 then Ok (-1) else bind (nthZ (fst t) 0) (fun e => Ok (Z.of_nat e)).
Definition hp_guard (h : Z) (t : hst) (e : nat) : bool :=      (* e.heap == nil || e.heap != h  -> return *)
  (eown (getE (snd t) e) =? -1) || negb (eown (getE (snd t) e) =? h).
Definition hp_remove (h : Z) (t : hst) (e : nat) : res hst :=
  if hp_guard h t e then Ok t else
  let ix := eidx (getE (snd t) e) in
  if (ix <? 0) || (ix >=? Zlen (fst t)) then Panic else            (* panic("heap: invalid index") *)
  let n := Zlen (fst t) - 1 in
  bind (if negb (n =? ix) then bind (swapH t ix n) (fun t1 => fixH t1 ix n) else Ok t) (fun t2 =>
  bind (hp_poplast t2) (fun r => Ok (fst r))).
Definition hp_fix (h : Z) (t : hst) (e : nat) : res hst :=
  if hp_guard h t e then Ok t else
  let ix := eidx (getE (snd t) e) in
  if (ix <? 0) || (ix >=? Zlen (fst t)) then Panic else
  fixH t ix (Zlen (fst t)).
(* Init (after commit 758e861): detach the old elements, create fresh ones with index i, build *)
Fixpoint detach (st : store) (l : list nat) : store :=
  match l with [] => st | e :: r => detach (set_idx (set_own st e (-1)) e (-1)) r end.
Fixpoint fresh (h : Z) (i : Z) (vs : list A) : list elem :=
  match vs with [] => [] | v :: r => mkE i h v :: fresh h (i + 1) r end.
Definition hp_init (h : Z) (t : hst) (vs : list A) : res hst :=
  let st1 := detach (snd t) (fst t) in
  buildH (seq (length st1) (length vs), st1 ++ fresh h 0 vs).

(* two heaps over one population of elements, so that handles of the other heap exist *)
Record world := mkW { wh0 : list nat; wh1 : list nat; wst : store }.
Definition heap_of (w : world) (h : Z) : hst := (if h =? 0 then wh0 w else wh1 w, wst w).
Definition put_heap (w : world) (h : Z) (t : hst) : world :=
  if h =? 0 then mkW (fst t) (wh1 w) (snd t) else mkW (wh0 w) (fst t) (snd t).

Inductive hop :=
| HPush (h : Z) (v : A) | HPop (h : Z) | HPeek (h : Z) | HLen (h : Z)
| HRemove (h : Z) (e : nat) | HFix (h : Z) (e : nat)
| HSetFix (e : nat) (v : A) (a : Z)      (* e.Value = v; heaps[a].Fix(e); heaps[1-a].Fix(e) *)
| HPushElem (h : Z) (e : nat)            (* only for an element that reports Index() == -1 *)
| HInit (h : Z) (vs : list A)
| HPopAll (h : Z) (k : Z)
| HCorrupt (e : nat) (k : Z).            (* harness writes e.index = k through unsafe: reaches the panic branch *)
Inductive hobs := HNone | HHandle (r : Z) | HInt (n : Z) | HList (l : list A).
Definition htrace := list (hobs * list Z).         (* per operation: result, Index() of every handle afterwards *)

Fixpoint hpopall (fuel : nat) (t : hst) (k : Z) (acc : list A) : res (hst * list A) :=
  match fuel with
  | O => NoFuel
  | S f =>
      bind (hp_pop t) (fun r =>
      if snd r =? -1 then Ok (fst r, rev acc) else
      let x := evalue (getE (snd (fst r)) (Z.to_nat (snd r))) in
      if k =? 1 then Ok (fst r, rev (x :: acc)) else hpopall f (fst r) (k - 1) (x :: acc))
  end.

Definition known (w : world) (e : nat) : bool := (e <? length (wst w))%nat.
Definition hstep (w : world) (o : hop) : res (world * hobs) :=
  match o with
  | HPush h v => bind (hp_push h (heap_of w h) v) (fun t => Ok (put_heap w h t, HNone))
  | HPop h => bind (hp_pop (heap_of w h)) (fun r => Ok (put_heap w h (fst r), HHandle (snd r)))
  | HPeek h => bind (hp_peek (heap_of w h)) (fun r => Ok (w, HHandle r))
  | HLen h => Ok (w, HInt (Zlen (fst (heap_of w h))))
  | HRemove h e => if known w e then bind (hp_remove h (heap_of w h) e) (fun t => Ok (put_heap w h t, HNone))
                   else Ok (w, HNone)
  | HFix h e => if known w e then bind (hp_fix h (heap_of w h) e) (fun t => Ok (put_heap w h t, HNone))
                else Ok (w, HNone)
  | HSetFix e v a =>
      if known w e then
        let w1 := mkW (wh0 w) (wh1 w) (set_val (wst w) e v) in
        bind (hp_fix a (heap_of w1 a) e) (fun t =>
        let w2 := put_heap w1 a t in
        bind (hp_fix (1 - a) (heap_of w2 (1 - a)) e) (fun t' => Ok (put_heap w2 (1 - a) t', HNone)))
      else Ok (w, HNone)
  | HPushElem h e =>
      if known w e && (eidx (getE (wst w) e) =? -1) then
        bind (hp_pushelem h (heap_of w h) e) (fun t => Ok (put_heap w h t, HNone))
      else Ok (w, HNone)
  | HInit h vs => bind (hp_init h (heap_of w h) vs) (fun t => Ok (put_heap w h t, HNone))
  | HPopAll h k => bind (hpopall (S (length (fst (heap_of w h)))) (heap_of w h) k [])
                     (fun r => Ok (put_heap w h (fst r), HList (snd r)))
  | HCorrupt e k => Ok (mkW (wh0 w) (wh1 w) (set_idx (wst w) e k), HNone)
  end.
Fixpoint hrun (w : world) (ops : list hop) : res htrace :=
  match ops with
  | [] => Ok []
  | o :: t => bind (hstep w o) (fun r => bind (hrun (fst r) t) (fun tr =>
                Ok ((snd r, map eidx (wst (fst r))) :: tr)))
  end.
Definition hcase (ops : list hop) : res htrace := hrun (mkW [] [] []) ops.

(* ================================================================== specification side: the judge *)
Local Close Scope Z_scope.

(* executable heap order of a whole slice *)
Definition heap_okb (s : list A) : bool :=
  forallb (fun c => negb (lt (nth c s d) (nth ((c - 1) / 2) s d))) (seq 1 (length s - 1)).
(* multiset equality *)
Fixpoint remove1 (x : A) (l : list A) : option (list A) :=
  match l with
  | [] => None
  | y :: t => if eqb x y then Some t else match remove1 x t with Some t' => Some (y :: t') | None => None end
  end.
Fixpoint permb (a b : list A) : bool :=
  match a with
  | [] => match b with [] => true | _ => false end
  | x :: t => match remove1 x b with Some b' => permb t b' | None => false end
  end.
Definition minimal (x : A) (l : list A) : bool := forallb (fun y => negb (lt y x)) l.    (* nothing in l precedes x *)
Fixpoint sortedb (l : list A) : bool :=                                                    (* no later element precedes an earlier one *)
  match l with [] => true | x :: t => minimal x t && sortedb t end.
Fixpoint list_eqb (a b : list A) : bool :=
  match a, b with
  | [], [] => true
  | x :: a', y :: b' => eqb x y && list_eqb a' b'
  | _, _ => false
  end.
Definition opt_eqb (a b : option A) : bool :=
  match a, b with None, None => true | Some x, Some y => eqb x y | _, _ => false end.
Definition in_range (i : Z) (s : list A) : bool := (0 <=? i)%Z && (i <? Zlen s)%Z.

(* one step of the multiset priority queue, judged on what the implementation reported:
   prev = Values before the call, (r, next) = the call's result and Values after it *)
Inductive verdict := VBad | VStop | VGo.
Definition vb (b : bool) : verdict := if b then VGo else VBad.
Definition jl_step (std : bool) (prev : list A) (o : lop) (r : lobs) (next : list A) : verdict :=
  match o with
  | LPush x => vb (match r with ONone => permb next (x :: prev) && heap_okb next | _ => false end)
  | LPop =>
      match prev with
      | [] => if std then VStop else vb (match r with OOpt None => list_eqb next [] | _ => false end)
      | _ => vb (match r with
                 | OOpt (Some x) => minimal x prev && permb (x :: next) prev && heap_okb next
                 | _ => false end)
      end
  | LPeek =>
      if std then vb (match r with ONone => list_eqb next prev | _ => false end) else
      match prev with
      | [] => vb (match r with OOpt None => list_eqb next [] | _ => false end)
      | _ => vb (match r with
                 | OOpt (Some x) => minimal x prev && existsb (eqb x) prev && list_eqb next prev
                 | _ => false end)
      end
  | LLen => vb (match r with OInt n => (n =? Zlen prev)%Z && list_eqb next prev | _ => false end)
  | LRemove i =>
      if in_range i prev then
        vb (match r with
            | OOpt (Some x) => eqb x (nth (Z.to_nat i) prev d) && permb (x :: next) prev && heap_okb next
            | _ => false end)
      else if std then VStop else vb (match r with OOpt None => list_eqb next prev | _ => false end)
  | LFix i =>
      if in_range i prev then vb (match r with ONone => permb next prev && heap_okb next | _ => false end)
      else if std then VStop else vb (match r with ONone => list_eqb next prev | _ => false end)
  | LSetFix i x =>
      if in_range i prev then
        vb (match r with ONone => permb next (upd prev (Z.to_nat i) x) && heap_okb next | _ => false end)
      else if std then VStop else vb (match r with ONone => list_eqb next prev | _ => false end)
  | LReInit i x => vb (match r with ONone => permb next (set_at prev i x) && heap_okb next | _ => false end)
  | LPopAll k =>
      if std then vb (match r with ONone => list_eqb next prev | _ => false end) else
      vb (match r with
          | OList l =>
              sortedb l && permb (l ++ next) prev && forallb (fun x => minimal x next) l && heap_okb next &&
              (length l =? (if (k <=? 0)%Z then length prev else Nat.min (Z.to_nat k) (length prev)))
          | _ => false end)
  end.
Fixpoint jl_run (std : bool) (prev : list A) (ops : list lop) (tr : ltrace) : bool :=
  match ops, tr with
  | [], [] => true
  | o :: ops', (r, next) :: tr' =>
      match jl_step std prev o r next with
      | VBad => false
      | VStop => true
      | VGo => jl_run std next ops' tr'
      end
  | _, _ => false
  end.
(* is a panic permitted?  only for the generic functions, when some call is outside their contract
   (index out of range / Pop or Remove on an empty container) — sizes are determined by the operations *)
Fixpoint l_may_panic (n : Z) (ops : list lop) : bool :=
  match ops with
  | [] => false
  | o :: t =>
      match o with
      | LPush _ => l_may_panic (n + 1) t
      | LPop => if (n <=? 0)%Z then true else l_may_panic (n - 1) t
      | LRemove i => if (0 <=? i)%Z && (i <? n)%Z then l_may_panic (n - 1) t else true
      | LFix i | LSetFix i _ => if (0 <=? i)%Z && (i <? n)%Z then l_may_panic n t else true
      | _ => l_may_panic n t
      end
  end.
Definition jl_case (std : bool) (init : list A) (ops : list lop) (out : res ltrace) : bool :=
  match out with
  | Ok ((ONone, s0) :: tr) => permb s0 init && heap_okb s0 && jl_run std s0 ops tr
  | Ok _ => false
  | Panic => std && l_may_panic (Zlen init) ops
  | NoFuel => false
  end.

(* ---- judge for Heap: the specification tracks which handles are in which heap and their values;
        after every call the reported Index() values must place exactly the live handles of each heap on
        0 .. len-1 in heap order, and every other handle must report -1 ---- *)
Record jst := mkJ { jl0 : list nat; jl1 : list nat; jvals : list A }.
Definition jlive (j : jst) (h : Z) : list nat := if (h =? 0)%Z then jl0 j else jl1 j.
Definition jput (j : jst) (h : Z) (l : list nat) : jst :=
  if (h =? 0)%Z then mkJ l (jl1 j) (jvals j) else mkJ (jl0 j) l (jvals j).
Definition jval (j : jst) (e : nat) : A := nth e (jvals j) d.
Definition memn (e : nat) (l : list nat) : bool := existsb (Nat.eqb e) l.
Definition removen (e : nat) (l : list nat) : list nat := filter (fun x => negb (Nat.eqb e x)) l.
Definition idx_of (idxs : list Z) (e : nat) : Z := nth e idxs (-2)%Z.
(* the array the indices describe: position k holds the live handle that reports k *)
Definition arr_of (live : list nat) (idxs : list Z) : list (option nat) :=
  map (fun k => find (fun e => (idx_of idxs e =? Z.of_nat k)%Z) live) (seq 0 (length live)).
Definition heap_view_ok (j : jst) (live : list nat) (idxs : list Z) : bool :=
  let arr := arr_of live idxs in
  forallb (fun o => match o with Some _ => true | None => false end) arr &&
  heap_okb (map (fun o => match o with Some e => jval j e | None => d end) arr).
Definition view_ok (j : jst) (idxs : list Z) : bool :=
  (length idxs =? length (jvals j)) &&
  heap_view_ok j (jl0 j) idxs && heap_view_ok j (jl1 j) idxs &&
  forallb (fun e => memn e (jl0 j) || memn e (jl1 j) || (idx_of idxs e =? -1)%Z) (seq 0 (length idxs)).

Inductive hverdict := HBad | HStop | HGo (j : jst).
Definition hb (b : bool) (j : jst) : hverdict := if b then HGo j else HBad.
Definition jh_step (j : jst) (o : hop) (r : hobs) (idxs : list Z) : hverdict :=
  match o with
  | HPush h v =>
      let j' := jput (mkJ (jl0 j) (jl1 j) (jvals j ++ [v])) h (jlive j h ++ [length (jvals j)]) in
      hb (match r with HNone => view_ok j' idxs | _ => false end) j'
  | HPop h =>
      match r with
      | HHandle z =>
          match jlive j h with
          | [] => hb ((z =? -1)%Z && view_ok j idxs) j
          | _ => let e := Z.to_nat z in
                 let j' := jput j h (removen e (jlive j h)) in
                 hb ((0 <=? z)%Z && memn e (jlive j h) && minimal (jval j e) (map (jval j) (jlive j h)) && view_ok j' idxs) j'
          end
      | _ => HBad
      end
  | HPeek h =>
      match r with
      | HHandle z =>
          match jlive j h with
          | [] => hb ((z =? -1)%Z && view_ok j idxs) j
          | _ => let e := Z.to_nat z in
                 hb ((0 <=? z)%Z && memn e (jlive j h) && minimal (jval j e) (map (jval j) (jlive j h)) && view_ok j idxs) j
          end
      | _ => HBad
      end
  | HLen h => hb (match r with HInt n => (n =? Zlen (jlive j h))%Z && view_ok j idxs | _ => false end) j
  | HRemove h e =>
      let j' := if memn e (jlive j h) then jput j h (removen e (jlive j h)) else j in
      hb (match r with HNone => view_ok j' idxs | _ => false end) j'
  | HFix h e => hb (match r with HNone => view_ok j idxs | _ => false end) j
  | HSetFix e v a =>
      let j' := if (e <? length (jvals j)) then mkJ (jl0 j) (jl1 j) (upd (jvals j) e v) else j in
      hb (match r with HNone => view_ok j' idxs | _ => false end) j'
  | HPushElem h e =>
      let j' := if (e <? length (jvals j)) && negb (memn e (jl0 j)) && negb (memn e (jl1 j))
                then jput j h (jlive j h ++ [e]) else j in
      hb (match r with HNone => view_ok j' idxs | _ => false end) j'
  | HInit h vs =>
      let j' := jput (mkJ (jl0 j) (jl1 j) (jvals j ++ vs)) h (seq (length (jvals j)) (length vs)) in
      hb (match r with HNone => view_ok j' idxs | _ => false end) j'
  | HPopAll h k =>
      match r with
      | HList l =>
          let gone := filter (fun e => (idx_of idxs e =? -1)%Z) (jlive j h) in
          let stay := filter (fun e => negb (idx_of idxs e =? -1)%Z) (jlive j h) in
          let j' := jput j h stay in
          hb (sortedb l && permb l (map (jval j) gone) && forallb (fun x => minimal x (map (jval j) stay)) l &&
              (length l =? (if (k <=? 0)%Z then length (jlive j h) else Nat.min (Z.to_nat k) (length (jlive j h)))) &&
              view_ok j' idxs) j'
      | _ => HBad
      end
  | HCorrupt _ _ => HStop          (* outside the API: not judged (the correspondence run compares it) *)
  end.
Fixpoint jh_run (j : jst) (ops : list hop) (tr : htrace) : bool :=
  match ops, tr with
  | [], [] => true
  | o :: ops', (r, idxs) :: tr' =>
      match jh_step j o r idxs with
      | HBad => false
      | HStop => true
      | HGo j' => jh_run j' ops' tr'
      end
  | _, _ => false
  end.
Definition has_corrupt (ops : list hop) : bool :=
  existsb (fun o => match o with HCorrupt _ _ => true | _ => false end) ops.
Definition jh_case (ops : list hop) (out : res htrace) : bool :=
  match out with
  | Ok tr => jh_run (mkJ [] [] []) ops tr
  | Panic => has_corrupt ops
  | NoFuel => false
  end.
End Heap.

(* ================================================================== invariants of Heap worlds (used in theorem statements) *)
Section HeapInv.
Variable A : Type.
Variable d : A.
Variable lt : A -> A -> bool.
Definition valof (st : store A) (e : nat) : A := evalue A (getE A d st e).          (* e.Value *)
Definition ltE (val : nat -> A) (x y : nat) : bool := lt (val x) (val y).            (* handles compared through their values *)
(* every slot's element knows its own position and its heap; no element sits in two slots *)
Definition Hd (h : Z) (t : hst A) : Prop :=
  NoDup (fst t) /\
  forall k, k < length (fst t) ->
    nth k (fst t) 0 < length (snd t) /\ eidx A (getE A d (snd t) (nth k (fst t) 0)) = Z.of_nat k /\
    eown A (getE A d (snd t) (nth k (fst t) 0)) = h.
Definition free_ok (mine other : list nat) (st : store A) : Prop :=
  forall e, e < length st -> ~ In e mine -> ~ In e other ->
    eidx A (getE A d st e) = (-1)%Z /\ eown A (getE A d st e) = (-1)%Z.
(* structure: handles of both heaps intact, every element outside both reports index -1, owner nil *)
Definition HS (h : Z) (mine other : list nat) (st : store A) : Prop :=
  Hd h (mine, st) /\ Hd (1 - h)%Z (other, st) /\ free_ok mine other st.
(* order: both handle arrays are heaps with respect to the current values *)
Definition Ord (mine other : list nat) (st : store A) : Prop :=
  heap_ok nat 0 (ltE (valof st)) mine (length mine) /\ heap_ok nat 0 (ltE (valof st)) other (length other).
Definition WInv (w : world A) : Prop := HS 0%Z (wh0 A w) (wh1 A w) (wst A w) /\ Ord (wh0 A w) (wh1 A w) (wst A w).
(* the judge's state describes the world: same live handles per heap, same values *)
Definition J (w : world A) (j : jst A) : Prop :=
  Permutation (jl0 A j) (wh0 A w) /\ Permutation (jl1 A j) (wh1 A w) /\ jvals A j = map (evalue A) (wst A w).
Definition is01 (h : Z) : bool := ((h =? 0) || (h =? 1))%Z.
(* operations of the API on one of the two heaps (HCorrupt is not an API operation) *)
Definition hop_wf (o : hop A) : bool :=
  match o with
  | HPush _ h _ | HPop _ h | HPeek _ h | HLen _ h | HRemove _ h _ | HFix _ h _ | HPushElem _ h _ | HInit _ h _ | HPopAll _ h _ => is01 h
  | HSetFix _ _ _ a => is01 a
  | HCorrupt _ _ _ => false
  end.
End HeapInv.
