(* C20 — randz: ID (base-32 text, numerals), IdGenerator, StrGenerator, CountGenerator.
   Executable model that follows randz/id.go, randz/str.go, randz/count.go as they are now, plus the
   specification-side definitions (positional numerals, the layout judge, the pure count walk).
   Every numeric constant comes from Gen/Randz.v (extracted from the Go source on every run).
   No proofs here. *)
From Coq Require Import List ZArith Bool.
From V Require Import Lib.Enc Lib.Utf8 Gen.Randz.
Import ListNotations.
Local Open Scope Z_scope.

(* ------------------------------------------------------------------ machine integers *)
Definition wrap64 (x : Z) : Z := (x + 2 ^ 63) mod 2 ^ 64 - 2 ^ 63.      (* int64 arithmetic result *)
Definition u32 (x : Z) : Z := x mod 2 ^ 32.
(* a 64-bit value travels as two tokens: hi = v >> 32 (arithmetic), lo = v & 0xffffffff *)
Definition hi32 (x : Z) : Z := x / 2 ^ 32.
Definition lo32 (x : Z) : Z := x mod 2 ^ 32.
Definition of_halves (hi lo : Z) : Z := hi * 2 ^ 32 + lo.
Definition put64 (x : Z) : list Z := [hi32 x; lo32 x].

(* ------------------------------------------------------------------ the decode table, as init() builds it *)
Fixpoint setnth (l : list Z) (i : nat) (x : Z) : list Z :=
  match l, i with [], _ => [] | _ :: t, O => x :: t | h :: t, S j => h :: setnth t j x end.

(* var decodeBase32Map [256]byte (zeroed);  for i < bound { t[i] = 0xFF } *)
Definition table_filled : list Z :=
  firstn (Z.to_nat g_decode_table_len)
         (repeat g_decode_fill (Z.to_nat g_decode_init_bound) ++
          repeat 0 (Z.to_nat (g_decode_table_len - g_decode_init_bound))).
(* for i := 0; i < len(encodeBase32Map); i++ { t[encodeBase32Map[i]] = byte(i) } *)
Definition decode_table : list Z :=
  fst (fold_left (fun '(t, i) c => (setnth t (Z.to_nat c) (i mod 256), i + 1))
                 (firstn (Z.to_nat g_decode_scatter_bound) g_base32_alphabet) (table_filled, 0)).
Definition dec_byte (c : Z) : Z := nth (Z.to_nat c) decode_table 0.

(* ParseBase32: id = id*32 + int64(t[b[i]]) on int64; the first byte whose entry is the marker ends with an error *)
Definition parse_step (acc : option Z) (c : Z) : option Z :=
  match acc with
  | None => None
  | Some id => let dv := dec_byte c in
               if dv =? g_parse_invalid then None else Some (wrap64 (id * g_parse_radix + dv))
  end.
Definition parse_base32 (s : list Z) : option Z := fold_left parse_step s (Some 0).

(* ID.Base32: digits least significant first as the loop appends them, then reversed.
   f < 0 indexes the alphabet string with a negative value: run-time panic (None). *)
Fixpoint digits_le (fuel : nat) (base f : Z) : list Z :=
  match fuel with
  | O => [f]
  | S n => if f <? base then [f] else (f mod base) :: digits_le n base (f / base)
  end.
Definition alpha (d : Z) : Z := nth (Z.to_nat d) g_base32_alphabet 0.
Definition base32 (f : Z) : option (list Z) :=
  if f <? 0 then None else Some (map alpha (rev (digits_le 13 g_format_radix f))).

(* ID.Base2 / Base36 / String = strconv.FormatInt(v, base) for v >= 0 (standard library, modelled) *)
Definition std_digits : list Z :=   (* "0123456789abcdefghijklmnopqrstuvwxyz" *)
  [48;49;50;51;52;53;54;55;56;57;97;98;99;100;101;102;103;104;105;106;107;108;109;110;111;112;113;114;115;116;117;118;119;120;121;122].
Definition digit_char (d : Z) : Z := nth (Z.to_nat d) std_digits 0.
Definition format_int (base v : Z) : list Z := map digit_char (rev (digits_le 63 base v)).

(* ---- specification side: positional numerals *)
Fixpoint value_be (base : Z) (ds : list Z) (acc : Z) : Z :=
  match ds with [] => acc | d :: t => value_be base t (acc * base + d) end.
Fixpoint index_of (c : Z) (l : list Z) (i : Z) : option Z :=
  match l with [] => None | x :: t => if x =? c then Some i else index_of c t (i + 1) end.
Fixpoint map_opt {A B} (f : A -> option B) (l : list A) : option (list B) :=
  match l with
  | [] => Some []
  | x :: t => match f x, map_opt f t with Some y, Some r => Some (y :: r) | _, _ => None end
  end.
Definition in_alphabet (c : Z) : bool := existsb (Z.eqb c) g_base32_alphabet.
(* the text s is THE numeral of v in the given base over the given digit characters:
   non-empty, only digit characters of value < base, positional value v, no leading zero digit unless it is the single digit *)
Definition numeral_ok (digits : list Z) (base : Z) (s : list Z) (v : Z) : bool :=
  match map_opt (fun c => index_of c digits 0) s with
  | Some ds =>
      match s with [] => false | _ => true end &&
      forallb (fun d => d <? base) ds && (value_be base ds 0 =? v) &&
      (match s with c0 :: _ :: _ => negb (c0 =? nth 0 digits 0) | _ => true end)
  | None => false
  end.
(* ParseBase32 by the book: every byte must be an alphabet character; the value is the positional value (as an int64) *)
Definition spec_parse (s : list Z) : option Z :=
  match map_opt (fun c => index_of c g_base32_alphabet 0) s with
  | None => None
  | Some ds => Some (wrap64 (value_be 32 ds 0))
  end.

(* ------------------------------------------------------------------ IdGenerator *)
Definition clamp_bits (rb : Z) : Z :=
  if rb <=? g_rb_lo then g_rb_default else if g_rb_hi <? rb then g_rb_hiset else rb.
(* Generate: (elapsedMs & timeMask) << timeShift | rand, rand < 1 << randBit; elapsed ms and the random part are inputs *)
Definition id_of (ms rnd rb : Z) : Z := Z.lor (Z.shiftl (Z.land ms g_time_mask) (clamp_bits rb)) rnd.

(* judge: is id a possible output for some elapsed time in the measured window [e0, e1]?
   (41 time bits above clamp_bits rb random bits; the time field is the elapsed ms modulo 2^41) *)
Definition id_ok (rb id e0 e1 : Z) : bool :=
  let b := clamp_bits rb in
  let t := id / 2 ^ b in
  (0 <=? id) && (id <? 2 ^ 63) && (t <? 2 ^ 41) && ((t - e0) mod 2 ^ 41 <=? e1 - e0).
(* ids whose windows are disjoint and lie in one 2^41-ms epoch must increase *)
Fixpoint ids_increasing (obs : list (Z * Z * Z)) : bool :=
  match obs with
  | (id1, e0a, e1a) :: (((id2, e0b, e1b) :: _) as t) =>
      (if (e1a <? e0b) && (e0a / 2 ^ 41 =? e1b / 2 ^ 41) then id1 <? id2 else true) && ids_increasing t
  | _ => true
  end.
Definition ids_ok (rb : Z) (obs : list (Z * Z * Z)) : bool :=
  forallb (fun '(id, e0, e1) => id_ok rb id e0 e1) obs && ids_increasing obs.

(* ------------------------------------------------------------------ StrGenerator *)
Record sgen := { charset : list Z; cbits : Z; cmask : Z; imax : nat }.
(* for l := len(r); l != 0; bits++ { l = l >> 1 } *)
Fixpoint bits_loop (fuel : nat) (l bits : Z) : Z :=
  match fuel with
  | O => bits
  | S f => if l =? 0 then bits else bits_loop f (Z.shiftr l 1) (bits + 1)
  end.
(* NewStrGenerator: []rune(charSet) (invalid bytes become U+FFFD), bits, 1<<bits - 1, 63 / bits (panics for bits = 0) *)
Definition new_sgen (cs : list Z) : option sgen :=
  let r := Utf8.runes cs in
  let bits := bits_loop 64 (Z.of_nat (length r)) 0 in
  if bits =? 0 then None
  else Some {| charset := r; cbits := bits; cmask := 2 ^ bits - 1; imax := Z.to_nat (g_str_word_bits / bits) |}.

(* one cache word with `remain` index fields left in it; `need` characters still to write *)
Fixpoint draw (g : sgen) (remain : nat) (cache : Z) (need : nat) (acc : list Z) : list Z * nat :=
  match remain, need with
  | _, O => (acc, O)
  | O, _ => (acc, need)
  | S r, S k =>
      let idx := Z.land cache (cmask g) in
      if idx <? Z.of_nat (length (charset g))
      then draw g r (Z.shiftr cache (cbits g)) k (acc ++ [nth (Z.to_nat idx) (charset g) 0])
      else draw g r (Z.shiftr cache (cbits g)) need acc
  end.
Fixpoint generate_go (g : sgen) (stream : list Z) (need : nat) (acc : list Z) (used : nat) : option (list Z * nat) :=
  match need with
  | O => Some (acc, used)
  | _ => match stream with
         | [] => None            (* the supplied randomness ran out; the real loop would keep drawing *)
         | w :: rest => let '(acc', need') := draw g (imax g) w need acc in generate_go g rest need' acc' (S used)
         end
  end.
(* Generate(n) calls Int63 once before it looks at n; result: the runes written and the number of Int63 calls *)
Definition generate (g : sgen) (stream : list Z) (n : nat) : option (list Z * nat) :=
  match stream with
  | [] => None
  | w :: rest => let '(acc, need) := draw g (imax g) w n [] in generate_go g rest need acc 1%nat
  end.
(* strings.Builder.WriteRune per rune *)
Definition runes_to_bytes (rs : list Z) : list Z := flat_map Utf8.encode_rune rs.

(* ------------------------------------------------------------------ CountGenerator *)
Record rule := { period : Z; end_max : Z; interval : Z; int_max : Z }.
(* hashz.BKDRHash on uint32 *)
Definition bkdr (s : list Z) : Z := Z.land (fold_left (fun h b => u32 (h * g_bkdr_seed + b)) s 0) g_bkdr_mask.
(* getRand(n uint32, max int): 0 for max = 0, else n % uint32(max) + 1 (a multiple of 2^32 divides by zero) *)
Definition get_rand (hn mx : Z) : option Z :=
  if mx =? 0 then Some 0 else let m := u32 mx in if m =? 0 then None else Some (u32 (hn mod m + 1)).
(* Go integer division: truncated, panics on 0 *)
Definition qdiv (a b : Z) : option Z := if b =? 0 then None else Some (Z.quot a b).

(* the loop shared by Generate / Max / Min; f = per-interval multiplier, g = period-end increment *)
Fixpoint walk (f g : rule -> option Z) (rules : list rule) (diff count last : Z) : option Z :=
  match rules with
  | [] => Some count
  | r :: t =>
      match f r with
      | None => None
      | Some m =>
          if diff <? period r
          then match qdiv (diff - last) (interval r) with None => None | Some q => Some (q * m + count) end
          else match qdiv (period r - last) (interval r), g r with
               | Some q, Some e => walk f g t diff (count + (q * m + e)) (period r)
               | _, _ => None
               end
      end
  end.
Definition generate_count (hn : Z) (rules : list rule) (diff : Z) : option Z :=
  if diff <=? 0 then Some 0
  else walk (fun r => get_rand hn (int_max r)) (fun r => get_rand hn (end_max r)) rules diff 0 0.
Definition count_min (rules : list rule) (diff : Z) : option Z :=
  if diff <=? 0 then Some 0 else walk (fun _ => Some 1) (fun _ => Some 1) rules diff 0 0.
Definition count_max (rules : list rule) (diff : Z) : option Z :=
  if diff <=? 0 then Some 0 else walk (fun r => Some (int_max r)) (fun r => Some (end_max r)) rules diff 0 0.
(* AddRule: append + sort.Slice by period.  For at most 12 rules sort.Slice is an insertion sort (stable), so the new
   rule lands behind every rule whose period is <= its own. *)
Fixpoint insert_rule (r : rule) (l : list rule) : list rule :=
  match l with
  | [] => [r]
  | x :: t => if period r <? period x then r :: l else x :: insert_rule r t
  end.
Definition add_rules (rs : list rule) : list rule := fold_left (fun l r => insert_rule r l) rs [].

(* ---- specification side: the walk over Z with mathematical division (meaningful for positive parameters) *)
Fixpoint walk_pure (f g : rule -> Z) (rules : list rule) (diff count last : Z) : Z :=
  match rules with
  | [] => count
  | r :: t => if diff <? period r then (diff - last) / interval r * f r + count
              else walk_pure f g t diff (count + ((period r - last) / interval r * f r + g r)) (period r)
  end.
Definition rule_positive (r : rule) : bool :=
  (0 <? period r) && (0 <? end_max r) && (0 <? interval r) && (0 <? int_max r) &&
  (end_max r <? 2 ^ 32) && (int_max r <? 2 ^ 32).

(* ------------------------------------------------------------------ case level: what one check case computes
   kind 0: ParseBase32(bytes)              -> [err; hi; lo]
   kind 1: id (two halves)                 -> Base32 text, ParseBase32 of it, Base2, Base36, String
   kind 2: IdGenerator                     -> [1]   (the observation is judged by [judge_ids], see Run/C20.v)
   kind 3: n, charset, scripted Int63 list -> generated text, number of Int63 calls
   kind 4: id text, rules, diffs           -> Generate, Min, Max per diff *)
Definition parse_out (r : option Z) : list Z :=
  match r with None => 1 :: put64 (-1) | Some v => 0 :: put64 v end.

Definition m_parse (s : list Z) : list Z := parse_out (parse_base32 s).
Definition s_parse (s : list Z) : list Z := parse_out (spec_parse s).

Definition m_format (id : Z) : list Z :=
  match base32 id with
  | None => [PANIC]
  | Some b => put_list b ++ parse_out (parse_base32 b) ++
              put_list (format_int 2 id) ++ put_list (format_int 36 id) ++ put_list (format_int 10 id)
  end.
Definition ok_format (id : Z) (out : list Z) : bool :=
  if id <? 0 then true else
  let (b32, r1) := get_list out in
  let p := firstn 3 r1 in
  let (b2, r2) := get_list (skipn 3 r1) in
  let (b36, r3) := get_list r2 in
  let (b10, r4) := get_list r3 in
  numeral_ok g_base32_alphabet 32 b32 id && list_eqb p (0 :: put64 id) &&
  numeral_ok std_digits 2 b2 id && numeral_ok std_digits 36 b36 id && numeral_ok std_digits 10 b10 id &&
  match r4 with [] => true | _ => false end &&
  list_eqb out (put_list b32 ++ p ++ put_list b2 ++ put_list b36 ++ put_list b10).

Fixpoint words_of (l : list Z) : list Z :=
  match l with hi :: lo :: t => of_halves hi lo :: words_of t | _ => [] end.
Definition m_str (n : Z) (cs : list Z) (script : list Z) : list Z :=
  if n <? 0 then [PANIC] else
  match new_sgen cs with
  | None => [PANIC]
  | Some g =>
      match generate g (script ++ repeat 0 (S (Z.to_nat n))) (Z.to_nat n) with
      | None => [NOFUEL]
      | Some (rs, used) => put_list (runes_to_bytes rs) ++ [Z.of_nat used]
      end
  end.
Definition ok_str (n : Z) (cs : list Z) (out : list Z) : bool :=
  if (n <? 0) || match Utf8.runes cs with [] => true | _ => false end then true else
  let (bytes, r) := get_list out in
  match r with
  | [_] => list_eqb out (put_list bytes ++ r) &&
           (Z.of_nat (Utf8.rune_count bytes) =? n) &&
           forallb (fun c => existsb (Z.eqb c) (Utf8.runes cs)) (Utf8.runes bytes)
  | _ => false
  end.

Fixpoint rules_of (n : nat) (l : list Z) : list rule * list Z :=
  match n, l with
  | S k, p :: e :: i :: m :: t => let (rs, r) := rules_of k t in ({| period := p; end_max := e; interval := i; int_max := m |} :: rs, r)
  | _, _ => ([], l)
  end.
Fixpoint m_count_go (hn : Z) (rules : list rule) (diffs : list Z) : option (list Z) :=
  match diffs with
  | [] => Some []
  | d :: t =>
      match generate_count hn rules d, count_min rules d, count_max rules d, m_count_go hn rules t with
      | Some g, Some mn, Some mx, Some r => Some (g :: mn :: mx :: r)
      | _, _, _, _ => None
      end
  end.
Definition m_count (idtext : list Z) (added : list rule) (diffs : list Z) : list Z :=
  match m_count_go (bkdr idtext) (add_rules added) diffs with None => [PANIC] | Some l => l end.
(* judge for positive rule sets: per diff  Min <= Generate <= Max;  Generate non-decreasing in diff *)
Fixpoint triples (l : list Z) : option (list (Z * Z * Z)) :=
  match l with
  | [] => Some []
  | g :: mn :: mx :: t => match triples t with Some r => Some ((g, mn, mx) :: r) | None => None end
  | _ => None
  end.
Fixpoint mono_ok (dg : list (Z * Z)) : bool :=     (* every pair (d1,g1) (d2,g2) of the list: d1 <= d2 -> g1 <= g2 *)
  match dg with
  | [] => true
  | (d1, g1) :: t => forallb (fun '(d2, g2) => (if d1 <=? d2 then g1 <=? g2 else true) && (if d2 <=? d1 then g2 <=? g1 else true)) t && mono_ok t
  end.
Definition ok_count (added : list rule) (diffs : list Z) (out : list Z) : bool :=
  if negb (forallb rule_positive added) then true else
  match triples out with
  | None => false
  | Some ts =>
      (length ts =? length diffs)%nat &&
      forallb (fun '(g, mn, mx) => (mn <=? g) && (g <=? mx)) ts &&
      mono_ok (combine diffs (map (fun '(g, _, _) => g) ts))
  end.

(* ------------------------------------------------------------------ a decoded case, its model output, its judge *)
Inductive ccase :=
| CParse (s : list Z)
| CFormat (id : Z)
| CIdgen
| CStr (n : Z) (cs script : list Z)
| CCount (idt : list Z) (added : list rule) (diffs : list Z)
| CBad.
Definition run_case (c : ccase) : list Z :=
  match c with
  | CParse s => m_parse s
  | CFormat id => m_format id
  | CIdgen => [1]
  | CStr n cs ws => m_str n cs ws
  | CCount i a d => m_count i a d
  | CBad => [BADCASE]
  end.
(* spec_ok: what the property demands of an output for this case (applied by the check to the implementation's output) *)
Definition ok_case (c : ccase) (out : list Z) : bool :=
  match c with
  | CParse s => list_eqb out (s_parse s)
  | CFormat id => ok_format id out
  | CIdgen => list_eqb out [1]
  | CStr n cs _ => ok_str n cs out
  | CCount _ a d => ok_count a d out
  | CBad => false
  end.
