(* C14 — slicez/flex.go.  FlexSlice at buffer level: [fb] is the backing array from the slice's first element to
   the end of its capacity (cap = length fb), [fl] the length; the elements are [firstn fl fb], the rest is spare
   capacity holding whatever the code left there (zeros written by Remove, the parent's tail after SubSlice, ...).
   Append / Prepend / Get / Remove / SubSlice / Pop / Shift / Len / shrink follow flex.go statement by statement;
   Remove and SubSlice use the clamping of slices.go ([Slices.sub_bounds]).  The only thing not computed here is the
   capacity Go's [append] picks when it has to grow: that is an input ([FAppend _ ocap], observed by the harness).
   The constants 8, /4, *2 (shrink) and 2* (Prepend) come from Gen/Slicez.v.

   Second half: the plain sequence specification and the judge.  No proofs in this file. *)
From Coq Require Import List ZArith Bool Arith.
From V Require Import Gen.Slicez Model.Slices.
Import ListNotations.
Local Open Scope Z_scope.

Record flex := mkF { fb : list Z; fl : nat }.
Definition fvals (f : flex) : list Z := firstn (fl f) (fb f).
Definition fcap (f : flex) : Z := Z.of_nat (length (fb f)).
Definition zlen (l : list Z) : Z := Z.of_nat (length l).
Definition zeros (n : Z) : list Z := repeat 0 (Z.to_nat n).

(* shrink: if cap <= 8 return; if len <= cap/4 { newCap = max(2*len, 8); make(len, newCap); copy } *)
Definition shrink (f : flex) : flex :=
  if fcap f <=? flex_min_cap then f else
  if Z.of_nat (fl f) <=? fcap f / flex_shrink_div then
    let nc0 := Z.of_nat (fl f) * flex_shrink_mul in
    let nc := if nc0 <? flex_min_cap then flex_min_cap else nc0 in
    mkF (fvals f ++ zeros (nc - Z.of_nat (fl f))) (fl f)
  else f.

(* f.Values = append(f.Values, v...) *)
Definition f_append (f : flex) (vs : list Z) (ocap : Z) : flex :=
  match vs with
  | [] => f
  | _ =>
    let nl := Z.of_nat (fl f) + zlen vs in
    if nl <=? fcap f then mkF (splice (fb f) (fl f) vs) (fl f + length vs)
    else mkF (fvals f ++ vs ++ zeros (Z.max ocap nl - nl)) (fl f + length vs)       (* grown: capacity chosen by Go *)
  end.

(* Prepend: shift inside the capacity, or a new array of capacity 2c / exactly nc *)
Definition f_prepend (f : flex) (vs : list Z) : option flex :=
  let n1 := zlen vs in let n2 := Z.of_nat (fl f) in let c := fcap f in let nc := n1 + n2 in
  if c >=? nc then
    (* f.Values = f.Values[:nc]; copy(f.Values[n1:], f.Values[:n2]); copy(f.Values, v) *)
    if (nc <=? c) && (n1 <=? nc) && (n2 <=? nc) then
      let b1 := splice (fb f) (length vs) (firstn (Nat.min (Z.to_nat (nc - n1)) (fl f)) (fb f)) in
      let b2 := splice b1 0 (firstn (Z.to_nat nc) vs) in
      Some (mkF b2 (Z.to_nat nc))
    else None
  else
    let c' := if flex_prepend_mul * c >=? nc then flex_prepend_mul * c else nc in
    (* newValues := make([]T, nc, c'); copy(newValues, v); copy(newValues[n1:], f.Values) *)
    Some (mkF (vs ++ fvals f ++ zeros (c' - nc)) (Z.to_nat nc)).

Definition f_get (f : flex) (index : Z) : option (Z * bool) :=
  if (index >=? 0) && (index <? Z.of_nat (fl f)) then
    match nth_error (fvals f) (Z.to_nat index) with None => None | Some v => Some (v, true) end
  else Some (0, false).

(* slicez.Remove on f.Values, then shrink *)
Definition f_remove (f : flex) (index : Z) : option (flex * Z * bool) :=
  let l := Z.of_nat (fl f) in
  if (index <? 0) || (index >=? l) then Some (f, 0, false) else
  let i := Z.to_nat index in let last := Nat.pred (fl f) in
  match nth_error (fvals f) i with
  | None => None
  | Some v =>
    let b1 := if index <? l - 1 then splice (fb f) i (window (fb f) (S i) (fl f - S i)) else fb f in   (* copy(s[index:], s[index+1:]) *)
    if (last <? length b1)%nat then
      Some (shrink (mkF (upd b1 last 0) last), v, true)                                                (* s[last] = zero; s[:last] *)
    else None
  end.

(* nf := FlexSlice{Values: SubSlice(f.Values, start, end)}; nf.shrink() *)
Definition f_subslice (f : flex) (start end_ : Z) : option flex :=
  match sub_bounds (Z.of_nat (fl f)) start end_ with
  | None => Some (shrink (mkF [] 0))
  | Some (a, b) =>
    if (0 <=? a) && (a <=? b) && (b <=? fcap f) then Some (shrink (mkF (skipn (Z.to_nat a) (fb f)) (Z.to_nat (b - a))))
    else None
  end.

Inductive fop :=
| FAppend (vs : list Z) (ocap : Z)      (* ocap: cap(f.Values) the harness saw after this call *)
| FPrepend (vs : list Z)
| FGet (i : Z)
| FRemove (i : Z)
| FSubSlice (a b : Z)                   (* f = f.SubSlice(a, b) *)
| FPop
| FShift
| FLen.

(* one observation per operation: the operation's results, then f.Values and cap(f.Values) *)
Record fobs := mkObs { ob_res : list Z; ob_vals : list Z; ob_cap : Z }.
Definition obs_of (res : list Z) (f : flex) : fobs := mkObs res (fvals f) (fcap f).

Definition f_step (f : flex) (o : fop) : option (flex * list Z) :=
  match o with
  | FAppend vs oc => Some (f_append f vs oc, [])
  | FPrepend vs => match f_prepend f vs with None => None | Some f' => Some (f', []) end
  | FGet i => match f_get f i with None => None | Some (v, ok) => Some (f, [v; zb ok]) end
  | FRemove i => match f_remove f i with None => None | Some (f', v, ok) => Some (f', [v; zb ok]) end
  | FSubSlice a b => match f_subslice f a b with None => None | Some f' => Some (f', []) end
  | FPop => match f_remove f (Z.of_nat (fl f) - 1) with None => None | Some (f', v, ok) => Some (f', [v; zb ok]) end
  | FShift => match f_remove f 0 with None => None | Some (f', v, ok) => Some (f', [v; zb ok]) end
  | FLen => Some (f, [Z.of_nat (fl f)])
  end.
(* None = some operation would panic *)
Fixpoint f_run (f : flex) (ops : list fop) : option (list fobs) :=
  match ops with
  | [] => Some []
  | o :: t =>
    match f_step f o with
    | None => None
    | Some (f', res) => match f_run f' t with None => None | Some r => Some (obs_of res f' :: r) end
    end
  end.

(* ------------------------------------------------------------------ the sequence specification *)
Definition s_step (l : list Z) (o : fop) : list Z * list Z :=
  match o with
  | FAppend vs _ => (l ++ vs, [])
  | FPrepend vs => (vs ++ l, [])
  | FGet i => (l, if (0 <=? i) && (i <? zlen l) then [nth (Z.to_nat i) l 0; 1] else [0; 0])
  | FRemove i => let '(l', v, ok) := spec_remove l i in (l', [v; zb ok])
  | FSubSlice a b => (spec_sub l a b, [])
  | FPop => let '(l', v, ok) := spec_remove l (zlen l - 1) in (l', [v; zb ok])
  | FShift => let '(l', v, ok) := spec_remove l 0 in (l', [v; zb ok])
  | FLen => (l, [zlen l])
  end.
(* per operation: (results, the sequence afterwards) *)
Fixpoint s_run (l : list Z) (ops : list fop) : list (list Z * list Z) :=
  match ops with
  | [] => []
  | o :: t => let '(l', res) := s_step l o in (res, l') :: s_run l' t
  end.

(* the judge: results and contents are those of the sequence; a capacity is never below the length *)
Fixpoint obs_ok (exp : list (list Z * list Z)) (got : list fobs) : bool :=
  match exp, got with
  | [], [] => true
  | (res, l) :: e', g :: g' =>
      eqb_list (ob_res g) res && eqb_list (ob_vals g) l && (zlen (ob_vals g) <=? ob_cap g) && obs_ok e' g'
  | _, _ => false
  end.
Definition flex_judge (f0 : flex) (ops : list fop) (got : option (list fobs)) : bool :=
  match got with
  | None => false
  | Some g => obs_ok (s_run (fvals f0) ops) g
  end.
