(* C08 — cryptz/aes.go: AES-CBC / AES-GCM helpers and PKCS#7 padding.
   Model only (no proofs).  The Go standard library primitives are Section variables:
     E D   : key -> 16-byte block -> block             (crypto/aes single block)
     seal  : key -> nonce -> plaintext -> ad -> bytes   (cipher.NewGCMWithNonceSize(...).Seal)
     open  : key -> nonce -> ciphertext -> ad -> option bytes
   byte = Z in 0..255, []byte = list Z, a slice has cap = len (DESIGN §3).
   Result: Ok v | Err code | Panic (the Go code would panic at this point).
   Two levels:
     - functional level: dst and src are separate byte strings (dst's initial content is an input; its
       final content the output);
     - memory level (`*_mem`): one backing array with (offset,length) views for dst and src, the overlap
       rules of copy (memmove), cipher.BlockMode.CryptBlocks and AEAD.Seal/Open written out.  *)
From Coq Require Import List ZArith Bool Arith.
From V Require Import Lib.Enc Gen.Cryptz.
Import ListNotations.

Definition bytes := list Z.
Inductive res (A : Type) := Ok (a : A) | Err (e : Z) | Panic.
Arguments Ok {A}. Arguments Err {A}. Arguments Panic {A}.

(* error codes (the harness maps the Go error texts onto the same numbers) *)
Definition E_NEWCIPHER : Z := 1.   (* "NewCipher error: ..." (invalid key size) *)
Definition E_CTLEN : Z := 2.       (* "cipherText length illegal" *)
Definition E_PADLEN : Z := 3.      (* "invalid padding length" *)
Definition E_PADBYTES : Z := 4.    (* "invalid padding bytes" *)
Definition E_NEWGCM : Z := 5.      (* "NewGCM error: ..." (zero-length nonce) *)
Definition E_OPEN : Z := 6.        (* "GCM Open error: ..." *)
Definition E_EMPTY : Z := 7.       (* "input data cannot be empty" *)
Definition E_BLOCKSIZE : Z := 8.   (* "block size must be a positive integer" *)
Definition E_MULTIPLE : Z := 9.    (* "input data length must be a multiple of block size" *)

Definition BS : nat := Z.to_nat aes_block_size.      (* aes.BlockSize *)
Definition TAG : nat := Z.to_nat gcm_tag_size.       (* gcmTagSize *)

Definition good_key (k : bytes) : bool :=            (* aes.NewCipher accepts 16, 24, 32 *)
  (length k =? 16) || (length k =? 24) || (length k =? 32).

Fixpoint beq (a b : bytes) : bool :=                 (* bytes.Equal *)
  match a, b with
  | [], [] => true
  | x :: a', y :: b' => Z.eqb x y && beq a' b'
  | _, _ => false
  end.

Definition last_opt (d : bytes) : option Z :=        (* data[len(data)-1] *)
  match d with [] => None | _ => Some (last d 0%Z) end.

(* copy(dst, src): overwrites the first min(len dst, len src) bytes of dst *)
Definition copy_into (dst src : bytes) : bytes := firstn (length dst) src ++ skipn (length src) dst.

(* ---------------------------------------------------------------- padding table and length helpers *)
(* init(): prePadPatterns[i] = bytes.Repeat([]byte{byte(i)}, i), i = 0 .. len-1 *)
Definition pad_table : list bytes :=
  map (fun i => repeat (Z.of_nat i mod 256)%Z i) (seq 0 (Z.to_nat pad_table_len)).

(* len & blockSizeMask *)
Definition masked (n : nat) : nat := Z.to_nat (Z.land (Z.of_nat n) block_size_mask).

Definition cbc_encrypt_len (n : nat) : Z := (Z.of_nat n + aes_block_size - Z.of_nat (masked n))%Z.
Definition cbc_decrypt_len (n : nat) : Z := Z.of_nat n.
Definition gcm_encrypt_len (n : nat) : Z := (Z.of_nat n + gcm_tag_size)%Z.
Definition gcm_decrypt_len (n : nat) : Z := (Z.of_nat n - gcm_tag_size)%Z.

(* pkcs7UnPadding (aes.go:214-223): the table version used inside AESCBCDecrypt *)
Definition unpad_tbl (d : bytes) : res nat :=
  match last_opt d with
  | None => Panic                                                   (* data[len(data)-1] on an empty slice *)
  | Some pl =>
      if (aes_block_size <? pl)%Z || (pl <=? 0)%Z then Err E_PADLEN else
      match nth_error pad_table (Z.to_nat pl) with
      | None => Panic                                               (* prePadPatterns[paddingLen] *)
      | Some pat =>
          if length d <? Z.to_nat pl then Panic else                (* data[len(data)-paddingLen:] *)
          if beq pat (skipn (length d - Z.to_nat pl) d) then Ok (length d - Z.to_nat pl) else Err E_PADBYTES
      end
  end.

(* ---------------------------------------------------------------- standalone PKCS7Padding / PKCS7UnPadding *)
(* blockSize is a Go int (may be <= 0 or > 255); byte(paddingLen) truncates mod 256 *)
Definition pkcs7_pad (d : bytes) (bs : Z) : res bytes :=
  if length d =? 0 then Err E_EMPTY else
  if (bs <=? 0)%Z then Err E_BLOCKSIZE else
  let pl := Z.to_nat bs - (length d mod Z.to_nat bs) in
  Ok (d ++ repeat (Z.of_nat pl mod 256)%Z pl).

Definition pkcs7_unpad (d : bytes) (bs : Z) : res bytes :=
  if length d =? 0 then Err E_EMPTY else
  if (bs <=? 0)%Z then Err E_BLOCKSIZE else
  if negb (length d mod Z.to_nat bs =? 0) then Err E_MULTIPLE else
  let p := last d 0%Z in                                             (* int(data[len(data)-1]) *)
  if (p <=? 0)%Z || (bs <? p)%Z then Err E_PADLEN else
  let pl := Z.to_nat p in
  if length d <? pl then Panic else                                  (* data[len(data)-paddingLen:] *)
  if beq (skipn (length d - pl) d) (repeat (p mod 256)%Z pl)
  then Ok (firstn (length d - pl) d) else Err E_PADBYTES.

Definition pkcs5_pad (d : bytes) : res bytes := pkcs7_pad d 8.
Definition pkcs5_unpad (d : bytes) : res bytes := pkcs7_unpad d 8.

(* ---------------------------------------------------------------- memory views *)
Definition mread (m : bytes) (off len : nat) : bytes := firstn len (skipn off m).
Definition mwrite (m : bytes) (off : nat) (d : bytes) : bytes := firstn off m ++ d ++ skipn (off + length d) m.
(* crypto/internal/alias *)
Definition any_overlap (o1 l1 o2 l2 : nat) : bool := (0 <? l1) && (0 <? l2) && (o1 <? o2 + l2) && (o2 <? o1 + l1).
Definition inexact_overlap (o1 l1 o2 l2 : nat) : bool :=
  if (l1 =? 0) || (l2 =? 0) || (o1 =? o2) then false else any_overlap o1 l1 o2 l2.

Definition xor (a b : bytes) : bytes := map (fun '(x, y) => Z.lxor x y) (combine a b).

Fixpoint chunks (n : nat) (l : bytes) (fuel : nat) : list bytes :=
  match fuel with
  | O => []
  | S f => match l with [] => [] | _ => firstn n l :: chunks n (skipn n l) f end
  end.
Definition blocks (l : bytes) : list bytes := chunks BS l (length l).

Section Prims.
Variable E D : bytes -> bytes -> bytes.
Variable seal : bytes -> bytes -> bytes -> bytes -> bytes.
Variable open : bytes -> bytes -> bytes -> bytes -> option bytes.

(* CBC, NIST SP 800-38A *)
Fixpoint cbc_enc (k : bytes) (prev : bytes) (bs : list bytes) : list bytes :=
  match bs with [] => [] | b :: t => let c := E k (xor b prev) in c :: cbc_enc k c t end.
Fixpoint cbc_dec (k : bytes) (prev : bytes) (cs : list bytes) : list bytes :=
  match cs with [] => [] | c :: t => xor (D k c) prev :: cbc_dec k c t end.
Definition cbc_enc_bytes (k iv d : bytes) : bytes := concat (cbc_enc k iv (blocks d)).
Definition cbc_dec_bytes (k iv d : bytes) : bytes := concat (cbc_dec k iv (blocks d)).

(* ---- functional level ---- *)
(* AESCBCEncrypt(dst, plainText, key, iv): dst after the two copies, before CryptBlocks *)
Definition cbc_encrypt_prep (dst plain key iv : bytes) : res bytes :=
  if negb (good_key key) then Err E_NEWCIPHER else
  let pl := BS - masked (length plain) in
  let d1 := copy_into dst plain in                                   (* copy(dst, plainText) *)
  if length dst <? length plain then Panic else                      (* dst[len(plainText):] *)
  match nth_error pad_table pl with
  | None => Panic                                                    (* prePadPatterns[paddingLen] *)
  | Some pat =>
      let d2 := firstn (length plain) d1 ++ copy_into (skipn (length plain) d1) pat in
      if negb (length iv =? BS) then Panic else                      (* NewCBCEncrypter: IV length *)
      if negb (length d2 mod BS =? 0) then Panic else                (* CryptBlocks: input not full blocks *)
      Ok d2
  end.
(* final content of dst *)
Definition cbc_encrypt (dst plain key iv : bytes) : res bytes :=
  match cbc_encrypt_prep dst plain key iv with
  | Ok d2 => Ok (cbc_enc_bytes key iv d2)
  | Err e => Err e
  | Panic => Panic
  end.

(* AESCBCDecrypt(dst, cipherText, key, iv): (n, final content of dst) *)
Definition cbc_decrypt (dst ct key iv : bytes) : res (nat * bytes) :=
  if (length ct <? BS) || negb (masked (length ct) =? 0) then Err E_CTLEN else
  if negb (good_key key) then Err E_NEWCIPHER else
  if negb (length iv =? BS) then Panic else                          (* NewCBCDecrypter: IV length *)
  if negb (length ct mod BS =? 0) then Panic else                    (* CryptBlocks: input not full blocks *)
  if length dst <? length ct then Panic else                         (* CryptBlocks: output smaller than input *)
  let d1 := copy_into dst (cbc_dec_bytes key iv ct) in
  match unpad_tbl d1 with
  | Ok n => Ok (n, d1)
  | Err e => Err e
  | Panic => Panic
  end.

(* AESGCMEncrypt: gcm.Seal(dst[:0], ...) appends in place iff cap(dst) = len(dst) suffices, else into fresh memory *)
Definition gcm_encrypt (dst plain key nonce ad : bytes) : res bytes :=
  if negb (good_key key) then Err E_NEWCIPHER else
  if length nonce =? 0 then Err E_NEWGCM else
  if length plain + TAG <=? length dst then Ok (copy_into dst (seal key nonce plain ad)) else Ok dst.

Definition gcm_decrypt (dst ct key nonce ad : bytes) : res bytes :=
  if negb (good_key key) then Err E_NEWCIPHER else
  if length nonce =? 0 then Err E_NEWGCM else
  match open key nonce ct ad with
  | None => Err E_OPEN
  | Some p => if length ct - TAG <=? length dst then Ok (copy_into dst p) else Ok dst
  end.

(* ---- memory level: final content of the whole backing array ---- *)
(* the backing array after copy(dst, plainText) and copy(dst[len(plainText):], pattern), before CryptBlocks *)
Definition cbc_encrypt_prep_mem (m : bytes) (doff dlen soff slen : nat) (key iv : bytes) : res bytes :=
  let plain := mread m soff slen in
  if negb (good_key key) then Err E_NEWCIPHER else
  let pl := BS - masked slen in
  let m1 := mwrite m doff (firstn (Nat.min dlen slen) plain) in      (* copy = memmove *)
  if dlen <? slen then Panic else
  match nth_error pad_table pl with
  | None => Panic
  | Some pat =>
      let m2 := mwrite m1 (doff + slen) (firstn (dlen - slen) pat) in
      if negb (length iv =? BS) then Panic else
      if negb (dlen mod BS =? 0) then Panic else Ok m2
  end.
Definition cbc_encrypt_mem (m : bytes) (doff dlen soff slen : nat) (key iv : bytes) : res bytes :=
  match cbc_encrypt_prep_mem m doff dlen soff slen key iv with
  | Ok m2 => Ok (mwrite m2 doff (cbc_enc_bytes key iv (mread m2 doff dlen)))  (* CryptBlocks(dst, dst): exact overlap *)
  | Err e => Err e
  | Panic => Panic
  end.

Definition cbc_decrypt_mem (m : bytes) (doff dlen soff slen : nat) (key iv : bytes) : res (nat * bytes) :=
  let ct := mread m soff slen in
  if (slen <? BS) || negb (masked slen =? 0) then Err E_CTLEN else
  if negb (good_key key) then Err E_NEWCIPHER else
  if negb (length iv =? BS) then Panic else
  if negb (slen mod BS =? 0) then Panic else
  if dlen <? slen then Panic else
  if inexact_overlap doff slen soff slen then Panic else             (* CryptBlocks: invalid buffer overlap *)
  let m1 := mwrite m doff (cbc_dec_bytes key iv ct) in
  match unpad_tbl (mread m1 doff dlen) with
  | Ok n => Ok (n, m1)
  | Err e => Err e
  | Panic => Panic
  end.

Definition gcm_encrypt_mem (m : bytes) (doff dlen soff slen : nat) (key nonce ad : bytes) : res bytes :=
  let plain := mread m soff slen in
  if negb (good_key key) then Err E_NEWCIPHER else
  if length nonce =? 0 then Err E_NEWGCM else
  if slen + TAG <=? dlen then
    if inexact_overlap doff slen soff slen then Panic                (* Seal: invalid buffer overlap *)
    else Ok (mwrite m doff (seal key nonce plain ad))
  else Ok m.

Definition gcm_decrypt_mem (m : bytes) (doff dlen soff slen : nat) (key nonce ad : bytes) : res bytes :=
  let ct := mread m soff slen in
  if negb (good_key key) then Err E_NEWCIPHER else
  if length nonce =? 0 then Err E_NEWGCM else
  if slen <? TAG then Err E_OPEN else                                (* Open: len(ciphertext) < tagSize *)
  let n := slen - TAG in
  if (n <=? dlen) && inexact_overlap doff n soff n then Panic else   (* Open: invalid buffer overlap *)
  match open key nonce ct ad with
  | None => Err E_OPEN
  | Some p =>
      if n <=? dlen then
        (* the assembly implementation decrypts into out before it compares the tag: an output that runs over
           the tag of the source destroys it (only possible with an undocumented layout) *)
        let m' := mwrite m doff p in
        if beq (mread m' (soff + n) TAG) (mread m (soff + n) TAG) then Ok m' else Err E_OPEN
      else Ok m
  end.

End Prims.

(* ---------------------------------------------------------------- specification side *)
(* PKCS#7: x is d followed by k bytes of value k, 1 <= k <= bs *)
Definition pkcs7_padded (d : bytes) (k : nat) : bytes := d ++ repeat (Z.of_nat k) k.
Definition spec_pad_len (n bs : nat) : nat := bs - n mod bs.
(* executable decision of "exists d k, 1 <= k <= bs /\ k <= 255 /\ x = pkcs7_padded d k": the candidate k is the last byte *)
Definition spec_unpad (x : bytes) (bs : nat) : option bytes :=
  match last_opt x with
  | None => None
  | Some p =>
      let k := Z.to_nat p in
      if (1 <=? k) && (k <=? bs) && (k <=? length x) &&
         beq (skipn (length x - k) x) (repeat p k) then Some (firstn (length x - k) x) else None
  end.

(* ---------------------------------------------------------------- operations (what Run/C08 executes) *)
Inductive op :=
| OLen (which : Z) (n : nat)                                           (* 0 CBCEncryptLen 1 CBCDecryptLen 2 GCMEncryptLen 3 GCMDecryptLen *)
| OCbcEnc (m : bytes) (doff dlen soff slen : nat) (key iv : bytes)
| OCbcDec (m : bytes) (doff dlen soff slen : nat) (key iv : bytes)
| OGcmEnc (m : bytes) (doff dlen soff slen : nat) (key nonce ad : bytes)
| OGcmDec (mustfail : bool) (m : bytes) (doff dlen soff slen : nat) (key nonce ad : bytes)
| OPad (d : bytes) (bs : Z)
| OUnpad (d : bytes) (bs : Z)
| OPad5 (d : bytes)
| OUnpad5 (d : bytes).

Definition enc_res {A} (f : A -> list Z) (r : res A) : list Z :=
  match r with Ok a => 0%Z :: f a | Err e => [1%Z; e] | Panic => [PANIC] end.
Definition enc_nb (x : nat * bytes) : list Z := Z.of_nat (fst x) :: snd x.

Section Ops.
Variable E D : bytes -> bytes -> bytes.
Variable seal : bytes -> bytes -> bytes -> bytes -> bytes.
Variable open : bytes -> bytes -> bytes -> bytes -> option bytes.

Definition run_op (o : op) : list Z :=
  match o with
  | OLen w n => [if (w =? 0)%Z then cbc_encrypt_len n else if (w =? 1)%Z then cbc_decrypt_len n
                 else if (w =? 2)%Z then gcm_encrypt_len n else gcm_decrypt_len n]
  | OCbcEnc m doff dlen soff slen key iv => enc_res (fun x => x) (cbc_encrypt_mem E m doff dlen soff slen key iv)
  | OCbcDec m doff dlen soff slen key iv => enc_res enc_nb (cbc_decrypt_mem D m doff dlen soff slen key iv)
  | OGcmEnc m doff dlen soff slen key nonce ad => enc_res (fun x => x) (gcm_encrypt_mem seal m doff dlen soff slen key nonce ad)
  | OGcmDec _ m doff dlen soff slen key nonce ad => enc_res (fun x => x) (gcm_decrypt_mem open m doff dlen soff slen key nonce ad)
  | OPad d bs => enc_res (fun x => x) (pkcs7_pad d bs)
  | OUnpad d bs => enc_res (fun x => x) (pkcs7_unpad d bs)
  | OPad5 d => enc_res (fun x => x) (pkcs5_pad d)
  | OUnpad5 d => enc_res (fun x => x) (pkcs5_unpad d)
  end.
End Ops.

(* ---- the judge: what the property demands of an observed output.
   std_enc / std_dec : key -> iv -> data -> data is the library's whole-message AES-CBC without padding
   (cipher.NewCBCEncrypter / NewCBCDecrypter . CryptBlocks), sealS / openS the library's AES-GCM.
   Uses of the helpers outside what the doc comments allow (dst of another size, inexact overlap, IV of another
   length) are not constrained (the Go code may panic there). *)
Definition is_err (out : list Z) : bool := match out with [1%Z; _] => true | _ => false end.
Definition views_ok (m : bytes) (doff dlen soff slen : nat) : bool :=
  (doff + dlen <=? length m) && (soff + slen <=? length m).
Definition layout_ok (doff dlen soff slen : nat) : bool :=
  negb (any_overlap doff dlen soff slen) || (doff =? soff).

Section Judge.
Variable std_enc std_dec : bytes -> bytes -> bytes -> bytes.
Variable sealS : bytes -> bytes -> bytes -> bytes -> bytes.
Variable openS : bytes -> bytes -> bytes -> bytes -> option bytes.

Definition spec_ok (o : op) (out : list Z) : bool :=
  match o with
  | OLen w n =>
      list_eqb out [if (w =? 0)%Z then (Z.of_nat n + 16 - Z.of_nat n mod 16)%Z      (* next multiple of 16 above n *)
                    else if (w =? 1)%Z then Z.of_nat n
                    else if (w =? 2)%Z then (Z.of_nat n + 16)%Z else (Z.of_nat n - 16)%Z]
  | OCbcEnc m doff dlen soff slen key iv =>
      if negb (good_key key) then is_err out else
      if (length iv =? 16) && views_ok m doff dlen soff slen && layout_ok doff dlen soff slen &&
         (dlen =? slen + spec_pad_len slen 16) then
        list_eqb out (0%Z :: mwrite m doff (std_enc key iv (pkcs7_padded (mread m soff slen) (spec_pad_len slen 16))))
      else true
  | OCbcDec m doff dlen soff slen key iv =>
      if (slen <? 16) || negb (slen mod 16 =? 0) then is_err out else
      if negb (good_key key) then is_err out else
      if (length iv =? 16) && views_ok m doff dlen soff slen && layout_ok doff dlen soff slen && (dlen =? slen) then
        match spec_unpad (std_dec key iv (mread m soff slen)) 16 with
        | None => is_err out                                           (* not a correctly padded message *)
        | Some p =>
            match out with
            | 0%Z :: n :: m' =>
                (n =? Z.of_nat (length p))%Z && (length m' =? length m) &&
                list_eqb (firstn doff m') (firstn doff m) && list_eqb (skipn (doff + dlen) m') (skipn (doff + dlen) m) &&
                list_eqb (mread m' doff (length p)) p
            | _ => false
            end
        end
      else true
  | OGcmEnc m doff dlen soff slen key nonce ad =>
      if negb (good_key key) || (length nonce =? 0) then is_err out else
      if views_ok m doff dlen soff slen && layout_ok doff dlen soff slen && (dlen =? slen + 16) then
        list_eqb out (0%Z :: mwrite m doff (sealS key nonce (mread m soff slen) ad))
      else true
  | OGcmDec mustfail m doff dlen soff slen key nonce ad =>
      if negb (good_key key) || (length nonce =? 0) then is_err out else
      if negb (views_ok m doff dlen soff slen && layout_ok doff dlen soff slen) then true else
      if mustfail then is_err out else                                 (* a corrupted message: must be rejected *)
      match openS key nonce (mread m soff slen) ad with
      | None => is_err out
      | Some p => if dlen + 16 =? slen then list_eqb out (0%Z :: mwrite m doff p) else true
      end
  | OPad d bs =>
      if (length d =? 0) || (bs <=? 0)%Z then is_err out else
      if (bs <=? 255)%Z then list_eqb out (0%Z :: pkcs7_padded d (spec_pad_len (length d) (Z.to_nat bs))) else true
  | OUnpad d bs =>
      if (length d =? 0) || (bs <=? 0)%Z then is_err out else
      if negb (length d mod Z.to_nat bs =? 0) then is_err out else
      match spec_unpad d (Z.to_nat bs) with
      | Some r => list_eqb out (0%Z :: r)
      | None => is_err out
      end
  | OPad5 d =>
      if length d =? 0 then is_err out else list_eqb out (0%Z :: pkcs7_padded d (spec_pad_len (length d) 8))
  | OUnpad5 d =>
      if (length d =? 0) || negb (length d mod 8 =? 0) then is_err out else
      match spec_unpad d 8 with
      | Some r => list_eqb out (0%Z :: r)
      | None => is_err out
      end
  end.
End Judge.
