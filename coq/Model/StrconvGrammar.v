(* C15 — DECLARATIVE specification of what Go's strconv.ParseUint accepts and returns, as a grammar over byte lists.
   Specification side only, written independently of the code in Model/Strconv.v: no `c | 32`, no state machine, no
   accumulator loop, no constant read from the Go source; the only thing shared with the model is the result type
   [presult].  No proofs here (Proofs/StrconvGrammar*.v show the model equal to this).

   The reading of Go's rules that is written down here (checked against the real strconv.ParseUint on all texts of
   length <= 5 over "0179afxXbo_g" for the bases 0/2/8/10/16 and four bit sizes before anything was proved):

   * base 2..36 given: the text is `digit+` in that base (letters of either case are 10..35); no sign, no prefix,
     no underscore.
   * base 0: Go integer-literal syntax.  `0b|0B` + body (base 2), `0o|0O` + body (base 8), `0x|0X` + body (base 16) when a
     body follows the two prefix characters; otherwise a text beginning with `0` is octal AS A WHOLE (the leading 0 is
     its first digit: "0", "017", "0_7"); otherwise decimal.  The body is `digits { "_" digits }`, and directly after a
     base prefix one more "_" may stand ("0x_1f").  So an underscore is a SEPARATOR: between two digits, or between the
     base prefix and the first digit — never first, never last, never doubled, never inside the prefix ("0_x1").
   * value: positional value of the digits.
   * errors, in strconv's order: empty text -> syntax; base not 0, 2..36 -> base; bit size not 0..64 -> bit size (0 means
     64); then the digits are read from the left: when the digits BEFORE the first character that is not a digit of the
     base already exceed 2^bits - 1 -> range, value 2^bits - 1; else a non-digit -> syntax; else a misplaced
     underscore -> syntax; else the value. *)
From Coq Require Import List ZArith Bool.
From V Require Import Model.Strconv.
Import ListNotations.
Local Open Scope Z_scope.

(* ------------------------------------------------------------------ characters *)
Definition us_char : Z := 95.                                                  (* '_' *)
Definition char_value (c : Z) : option Z :=
  if (48 <=? c) && (c <=? 57) then Some (c - 48)                               (* '0'..'9' *)
  else if (97 <=? c) && (c <=? 122) then Some (c - 97 + 10)                    (* 'a'..'z' *)
  else if (65 <=? c) && (c <=? 90) then Some (c - 65 + 10)                     (* 'A'..'Z' *)
  else None.
(* the value of c as a digit of base b, if it is one *)
Definition digit_in (b c : Z) : option Z :=
  match char_value c with Some d => if d <? b then Some d else None | None => None end.
Definition is_digit_in (b c : Z) : bool := match digit_in b c with Some _ => true | None => false end.

(* the letter of a base prefix and its base *)
Definition prefix_base (c : Z) : option Z :=
  if (c =? 98) || (c =? 66) then Some 2                                        (* b B *)
  else if (c =? 111) || (c =? 79) then Some 8                                  (* o O *)
  else if (c =? 120) || (c =? 88) then Some 16                                 (* x X *)
  else None.

(* ------------------------------------------------------------------ tokens *)
(* the groups between the underscores, like strings.Split(s, "_"): "1__0" -> ["1"; ""; "0"]; "" -> [""] *)
Fixpoint split_us (s : list Z) : list (list Z) :=
  match s with
  | [] => [[]]
  | c :: t => if c =? us_char then [] :: split_us t
              else match split_us t with g :: gs => (c :: g) :: gs | [] => [[c]] end
  end.
Definition nonempty (g : list Z) : bool := match g with [] => false | _ :: _ => true end.

(* ------------------------------------------------------------------ value *)
(* positional value of a digit list, most significant digit first *)
Fixpoint positional (b : Z) (ds : list Z) : Z :=
  match ds with [] => 0 | d :: t => d * b ^ Z.of_nat (length t) + positional b t end.
(* the digits of base b at the front of a text *)
Fixpoint leading_digits (b : Z) (s : list Z) : list Z :=
  match s with
  | [] => []
  | c :: t => match digit_in b c with Some d => d :: leading_digits b t | None => [] end
  end.

(* ------------------------------------------------------------------ the literal *)
(* which literal form a text has under a base argument: (base of the digits, "a base prefix stands before the body", body) *)
Definition literal_shape (s : list Z) (base : Z) : option (Z * bool * list Z) :=
  if (2 <=? base) && (base <=? 36) then Some (base, false, s)
  else if base =? 0 then
    match s with
    | c0 :: p :: ((_ :: _) as body) =>
        if c0 =? 48 then match prefix_base p with Some b => Some (b, true, body) | None => Some (8, false, s) end
        else Some (10, false, s)
    | c0 :: _ => if c0 =? 48 then Some (8, false, s) else Some (10, false, s)
    | [] => Some (10, false, s)
    end
  else None.

(* the separator rule on the token structure of a literal body whose groups consist of digits: no group is empty, except
   that the first one may be when a base prefix stands before it *)
Definition well_separated (pre : bool) (groups : list (list Z)) : bool :=
  match groups with
  | g0 :: gs => (pre || nonempty g0) && forallb nonempty gs
  | [] => false
  end.

(* the result for a literal of base b whose body has the groups [groups], at bit size bits (1..64) *)
Definition literal_result (b : Z) (pre : bool) (bits : Z) (groups : list (list Z)) : presult :=
  let chars := concat groups in                                  (* the body without its underscores *)
  let ds := leading_digits b chars in
  if 2 ^ bits - 1 <? positional b ds then PRange (2 ^ bits - 1)
  else if negb (forallb (is_digit_in b) chars) then PSyntax
  else if well_separated pre groups then POk (positional b ds) else PSyntax.

Definition go_parse_uint (s : list Z) (base bitSize : Z) : presult :=
  match s with
  | [] => PSyntax
  | _ :: _ =>
      match literal_shape s base with
      | None => PBase
      | Some (b, pre, body) =>
          if (bitSize <? 0) || (64 <? bitSize) then PBitSize
          else literal_result b pre (if bitSize =? 0 then 64 else bitSize)
                              (if base =? 0 then split_us body else [body])      (* underscores separate only in base 0 *)
      end
  end.

(* ------------------------------------------------------------------ the same literals as an inductive grammar *)
(* digits { ["_"] digits } in base b, with the digit values; [us]: underscores permitted *)
Inductive sep_digits (b : Z) (us : bool) : list Z -> list Z -> Prop :=
| SD_last c d : digit_in b c = Some d -> sep_digits b us [c] [d]
| SD_next c d t ds : digit_in b c = Some d -> sep_digits b us t ds -> sep_digits b us (c :: t) (d :: ds)
| SD_sep c d t ds : us = true -> digit_in b c = Some d -> sep_digits b us t ds -> sep_digits b us (c :: us_char :: t) (d :: ds).

(* go_literal base text b ds: under the base argument [base] the text is a literal of base b with digit values ds *)
Inductive go_literal : Z -> list Z -> Z -> list Z -> Prop :=
| GL_explicit base s ds : 2 <= base <= 36 -> sep_digits base false s ds -> go_literal base s base ds
| GL_decimal c s ds : c <> 48 -> sep_digits 10 true (c :: s) ds -> go_literal 0 (c :: s) 10 ds
| GL_octal s ds : sep_digits 8 true (48 :: s) ds -> go_literal 0 (48 :: s) 8 ds          (* the leading 0 is a digit *)
| GL_prefix p b s ds : prefix_base p = Some b -> sep_digits b true s ds -> go_literal 0 (48 :: p :: s) b ds
| GL_prefix_us p b s ds : prefix_base p = Some b -> sep_digits b true s ds -> go_literal 0 (48 :: p :: us_char :: s) b ds.

(* ------------------------------------------------------------------ underscoreOK, declaratively, for ANY text *)
(* strconv's underscoreOK is asked about arbitrary texts (other characters may occur, an optional sign is skipped, a
   base prefix needs only two characters there); its digits are 0-9, and a-f A-F after a hex prefix *)
Definition sep_digit (hex : bool) (c : Z) : bool :=
  ((48 <=? c) && (c <=? 57)) || (hex && (((97 <=? c) && (c <=? 102)) || ((65 <=? c) && (c <=? 70)))).
Definition starts_with_digit (hex : bool) (g : list Z) : bool := match g with c :: _ => sep_digit hex c | [] => false end.
Fixpoint ends_with_digit (hex : bool) (g : list Z) : bool :=
  match g with [] => false | [c] => sep_digit hex c | _ :: t => ends_with_digit hex t end.

(* (1) positional reading, the sentence of the Go documentation: "underscores must appear only between digits or between
   a base prefix and a digit": wherever the text is  l ++ "_" ++ r,  l ends with a digit (or is empty and [left] says a
   base prefix stands there) and r begins with a digit *)
Definition separators_only (hex left : bool) (s : list Z) : Prop :=
  forall l r, s = l ++ us_char :: r ->
    (match l with [] => left = true | _ :: _ => ends_with_digit hex l = true end) /\ starts_with_digit hex r = true.

(* (2) the same on the token structure: for every two neighbouring groups g "_" g', g ends with a digit (or is the empty
   first group behind a base prefix) and g' begins with one *)
Fixpoint tokens_separated (hex left : bool) (g : list Z) (gs : list (list Z)) : bool :=
  match gs with
  | [] => true
  | g' :: gs' => (match g with [] => left | _ :: _ => ends_with_digit hex g end)
                 && starts_with_digit hex g' && tokens_separated hex false g' gs'
  end.
Definition groups_separated (hex left : bool) (groups : list (list Z)) : bool :=
  match groups with g :: gs => tokens_separated hex left g gs | [] => true end.

(* the part of a text that underscoreOK looks at: (hex digits count, a base prefix stands before, text behind sign and prefix) *)
Definition us_context (s : list Z) : bool * bool * list Z :=
  let s1 := match s with c :: t => if (c =? 43) || (c =? 45) then t else s | [] => s end in      (* optional sign *)
  match s1 with
  | c0 :: p :: t =>
      if c0 =? 48 then match prefix_base p with
                       | Some b => (b =? 16, true, t)
                       | None => (false, false, s1)
                       end
      else (false, false, s1)
  | _ => (false, false, s1)
  end.
Definition go_underscore_ok (s : list Z) : bool :=
  let '(hex, pre, body) := us_context s in groups_separated hex pre (split_us body).
