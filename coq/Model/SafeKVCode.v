(* C12 — semantics of the map-statement language (Lib/MapLang.v) over the model's map type, and the effect of a call as the
   REGENERATED method body says it (Gen/SafeKVCode.v, dumped from mapz/safekv.go on every run by gen/safekv_code.go).
   Proofs/SafeKVCode.v proves [code_effect] equal to the hand-written specification [sem] (and so to [exec_call]). *)
From Coq Require Import List Arith ZArith Bool.
From V Require Import Lib.Enc Lib.MapLang Gen.SafeKVCode Model.SafeKV.
Import ListNotations.

(* state of one sequential execution of a method body: the map, the locals (all 0 at the start: Go's zero values; a bool is
   0 / 1), and the returned values once a return statement ran (the statements after it are skipped) *)
Record cstate := { s_map : map_; s_env : nat -> Z; s_sl : nat -> list Z; s_ret : option (list Z) }.

Definition env_set (e : nat -> Z) (x : nat) (v : Z) : nat -> Z := fun y => if Nat.eqb y x then v else e y.
Definition env_set_opt (e : nat -> Z) (x : option nat) (v : Z) : nat -> Z :=
  match x with Some x => env_set e x v | None => e end.
Definition sl_set (l : nat -> list Z) (x : nat) (v : list Z) : nat -> list Z := fun y => if Nat.eqb y x then v else l y.

Fixpoint eval (args : list Z) (e : nat -> Z) (x : exp) : Z :=
  match x with
  | EVar v => e v
  | EArg i => nth i args 0%Z
  | ENot a => if (eval args e a =? 0)%Z then 1%Z else 0%Z
  | EBool b => zb b
  | EZero => 0%Z
  end.

Fixpoint exec (args vs : list Z) (s : stmt) (st : cstate) : cstate :=
  match s_ret st with
  | Some _ => st
  | None =>
      let m := s_map st in let e := s_env st in let l := s_sl st in
      match s with
      | SSkip => st
      | SSeq a b => exec args vs b (exec args vs a st)
      | SAssign x a => {| s_map := m; s_env := env_set e x (eval args e a); s_sl := l; s_ret := None |}
      | SLookup xv xok k =>
          (* Go: a missing key gives the zero value and false; both targets are assigned after the lookup, left to right *)
          let r := get m (eval args e k) in
          let v := match r with Some v => v | None => 0%Z end in
          let ok := match r with Some _ => 1%Z | None => 0%Z end in
          {| s_map := m; s_env := env_set_opt (env_set_opt e xv v) xok ok; s_sl := l; s_ret := None |}
      | SStore k v => {| s_map := put m (eval args e k) (eval args e v); s_env := e; s_sl := l; s_ret := None |}
      | SDelete k => {| s_map := del m (eval args e k); s_env := e; s_sl := l; s_ret := None |}
      | SLen x => {| s_map := m; s_env := env_set e x (Z.of_nat (length m)); s_sl := l; s_ret := None |}
      | SClear => {| s_map := []; s_env := e; s_sl := l; s_ret := None |}
      | SIf c t f => if (eval args e c =? 0)%Z then exec args vs f st else exec args vs t st
      | SForArgs x b =>
          fold_left (fun st' k => match s_ret st' with
                                  | Some _ => st'
                                  | None => exec args vs b {| s_map := s_map st'; s_env := env_set (s_env st') x k; s_sl := s_sl st'; s_ret := None |}
                                  end) vs st
      | SReturn es => {| s_map := m; s_env := e; s_sl := l; s_ret := Some (map (eval args e) es) |}
      | SMakeSlice x => {| s_map := m; s_env := e; s_sl := sl_set l x []; s_ret := None |}
      | SAppend x a => {| s_map := m; s_env := e; s_sl := sl_set l x (l x ++ [eval args e a]); s_ret := None |}
      | SRangeMap kx vx b =>
          (* the pairs of the map as it is when the loop starts, in the model's (ascending key) order; Go's order is
             unspecified: results that depend on it are compared sorted *)
          fold_left (fun st' kv => match s_ret st' with
                                   | Some _ => st'
                                   | None => exec args vs b {| s_map := s_map st'; s_env := env_set_opt (env_set_opt (s_env st') kx (fst kv)) vx (snd kv);
                                                               s_sl := s_sl st'; s_ret := None |}
                                   end) m st
      | SReturnSlice x => {| s_map := m; s_env := e; s_sl := l; s_ret := Some (put_list (l x)) |}
      end
  end.

(* a method body run on a map: the map it leaves and the values it returns *)
Definition run_method (md : method) (args vs : list Z) (m : map_) : map_ * list Z :=
  let st := exec args vs (m_body md) {| s_map := m; s_env := fun _ => 0%Z; s_sl := fun _ => []; s_ret := None |} in
  (s_map st, match s_ret st with Some r => r | None => [] end).

(* the generated body and the actual parameters of a call (None: callback and iteration methods, not translated) *)
Definition code_of (c : call) : option (method * list Z * list Z) :=
  match c with
  | CGet k => Some (code_Get, [k], [])
  | CSet k v => Some (code_Set, [k; v], [])
  | CSetNx k v => Some (code_SetNx, [k; v], [])
  | CSetX k v => Some (code_SetX, [k; v], [])
  | CDelete ks => Some (code_Delete, [], ks)
  | CHas k => Some (code_Has, [k], [])
  | CContains k => Some (code_Contains, [k], [])
  | CLen => Some (code_Len, [], [])
  | CClear => Some (code_Clear, [], [])
  | CKeys => Some (code_Keys, [], [])
  | _ => None
  end.
Definition code_effect (c : call) (m : map_) : option (map_ * list Z) :=
  match code_of c with Some (md, a, vs) => Some (run_method md a vs m) | None => None end.
(* Values: Go's iteration order is unspecified and the specification returns the values sorted *)
Definition sort_out (r : list Z) : list Z := match r with n :: l => n :: zsort l | [] => [] end.
Definition translated (c : call) : bool := match code_of c with Some _ => true | None => false end.
