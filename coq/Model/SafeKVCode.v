(* C12 — semantics of the map-statement language (Lib/MapLang.v) over the model's map type, and the effect of a call as the
   REGENERATED method body says it (Gen/SafeKVCode*.v, dumped from mapz/safekv.go + iter.go on every run by
   gen/safekv_code.go).  Proofs/SafeKVCode.v proves it equal to the hand-written specification [sem] (and so to [exec_call]). *)
From Coq Require Import List Arith ZArith Bool.
From V Require Import Lib.Enc Lib.MapLang Gen.SafeKVCode Model.SafeKV.
Import ListNotations.

(* state of one sequential execution of a method body: the map, the locals (all 0 at the start: Go's zero values; a bool is
   0 / 1), the slice locals, and the returned values once a return statement ran (the statements after it are skipped) *)
Record cstate := { s_map : map_; s_env : nat -> Z; s_sl : nat -> list Z; s_ret : option (list Z);
                   s_brk : bool;        (* a break is on its way to the innermost loop *)
                   s_n : nat;           (* callback calls so far *)
                   s_log : list Z       (* what the callbacks were handed / observed *) }.

Definition env_set (e : nat -> Z) (x : nat) (v : Z) : nat -> Z := fun y => if Nat.eqb y x then v else e y.
Definition env_set_opt (e : nat -> Z) (x : option nat) (v : Z) : nat -> Z :=
  match x with Some x => env_set e x v | None => e end.
Definition sl_set (l : nat -> list Z) (x : nat) (v : list Z) : nat -> list Z := fun y => if Nat.eqb y x then v else l y.

Fixpoint eval (args : list Z) (e : nat -> Z) (x : exp) : Z :=
  match x with
  | EVar v => e v
  | EArg i => nth i args 0%Z
  | ENot a => if (eval args e a =? 0)%Z then 1%Z else 0%Z
  | EBool b => zb b
  | EZero => 0%Z
  end.

Definition upd_me (st : cstate) (m : map_) (e : nat -> Z) : cstate :=
  {| s_map := m; s_env := e; s_sl := s_sl st; s_ret := None; s_brk := false; s_n := s_n st; s_log := s_log st |}.
Definition clear_brk (st : cstate) : cstate :=
  {| s_map := s_map st; s_env := s_env st; s_sl := s_sl st; s_ret := s_ret st; s_brk := false; s_n := s_n st; s_log := s_log st |}.
Definition stopped (st : cstate) : bool := match s_ret st with Some _ => true | None => s_brk st end.

(* the callbacks are parameters: [cb n xs] = the bool (0 / 1) the scalar callback answers on its (n+1)-th call with arguments
   xs; [mcb m] = what the map callback of Map makes of the map it is handed, and what it observed *)
Section Exec.
Variable cb : nat -> list Z -> Z.
Variable mcb : map_ -> map_ * list Z.
Variables args vs : list Z.

Fixpoint exec (s : stmt) (st : cstate) : cstate :=
  if stopped st then st else
      let m := s_map st in let e := s_env st in let l := s_sl st in
      match s with
      | SSkip => st
      | SSeq a b => exec b (exec a st)
      | SAssign x a => upd_me st m (env_set e x (eval args e a))
      | SLookup xv xok k =>
          (* Go: a missing key gives the zero value and false; both targets are assigned after the lookup, left to right *)
          let r := get m (eval args e k) in
          let v := match r with Some v => v | None => 0%Z end in
          let ok := match r with Some _ => 1%Z | None => 0%Z end in
          upd_me st m (env_set_opt (env_set_opt e xv v) xok ok)
      | SStore k v => upd_me st (put m (eval args e k) (eval args e v)) e
      | SDelete k => upd_me st (del m (eval args e k)) e
      | SLen x => upd_me st m (env_set e x (Z.of_nat (length m)))
      | SClear => upd_me st [] e
      | SIf c t f => if (eval args e c =? 0)%Z then exec f st else exec t st
      | SForArgs x b =>
          clear_brk (fold_left (fun st' k => if stopped st' then st' else exec b (upd_me st' (s_map st') (env_set (s_env st') x k))) vs st)
      | SReturn es => {| s_map := m; s_env := e; s_sl := l; s_ret := Some (map (eval args e) es); s_brk := false; s_n := s_n st; s_log := s_log st |}
      | SMakeSlice x => {| s_map := m; s_env := e; s_sl := sl_set l x []; s_ret := None; s_brk := false; s_n := s_n st; s_log := s_log st |}
      | SAppend x a => {| s_map := m; s_env := e; s_sl := sl_set l x (l x ++ [eval args e a]); s_ret := None; s_brk := false; s_n := s_n st; s_log := s_log st |}
      | SRangeMap kx vx b =>
          (* the pairs of the map as it is when the loop starts, in the model's (ascending key) order; Go's order is
             unspecified: results that depend on it are compared sorted *)
          clear_brk (fold_left (fun st' kv => if stopped st' then st' else
                                  exec b (upd_me st' (s_map st') (env_set_opt (env_set_opt (s_env st') kx (fst kv)) vx (snd kv)))) m st)
      | SReturnSlice x => {| s_map := m; s_env := e; s_sl := l; s_ret := Some (put_list (l x)); s_brk := false; s_n := s_n st; s_log := s_log st |}
      | SCall es xres =>
          let xs := map (eval args e) es in
          {| s_map := m; s_env := env_set_opt e xres (cb (s_n st) xs); s_sl := l; s_ret := None; s_brk := false;
             s_n := S (s_n st); s_log := s_log st ++ xs |}
      | SCallMap =>
          {| s_map := fst (mcb m); s_env := e; s_sl := l; s_ret := None; s_brk := false; s_n := S (s_n st); s_log := s_log st ++ snd (mcb m) |}
      | SBreak => {| s_map := m; s_env := e; s_sl := l; s_ret := None; s_brk := true; s_n := s_n st; s_log := s_log st |}
      end.

Definition run_state (md : method) (m : map_) : cstate :=
  exec (m_body md) {| s_map := m; s_env := fun _ => 0%Z; s_sl := fun _ => []; s_ret := None; s_brk := false; s_n := 0; s_log := [] |}.
End Exec.

Definition no_mcb : map_ -> map_ * list Z := fun m => (m, []).
(* a callback-free method body run on a map: the map it leaves and the values it returns *)
Definition run_method (md : method) (args vs : list Z) (m : map_) : map_ * list Z :=
  let st := run_state (fun _ _ => 1%Z) no_mcb args vs md m in
  (s_map st, match s_ret st with Some r => r | None => [] end).
(* a callback method: the map it leaves, how often it called back, and the log of what the callbacks were handed *)
Definition run_cb (cb : nat -> list Z -> Z) (mcb : map_ -> map_ * list Z) (md : method) (args : list Z) (m : map_) : map_ * nat * list Z :=
  let st := run_state cb mcb args [] md m in (s_map st, s_n st, s_log st).

(* the callbacks of the model's calls, and how the model's result reads the log *)
Definition stop_cb (stop : nat) : nat -> list Z -> Z := fun n _ => match stop with O => 1%Z | _ => zb (negb (Nat.eqb (S n) stop)) end.
Definition iter_enc (stop : nat) (n : nat) (log : list Z) : list Z :=
  match stop with O => put_list log | _ => [Z.of_nat n; 1%Z] end.
Definition lock_enc (n : nat) (log : list Z) : list Z := match n with O => [0%Z] | _ => 1%Z :: log end.
Definition map_cb (f a b : Z) : map_ -> map_ * list Z := fun m => (user_fn f a b m, [Z.of_nat (length m)]).

(* the generated body and the actual parameters of a call (None: callback methods and GetWithMap, stated separately / not
   translated; Values is stated modulo order) *)
Definition code_of (c : call) : option (method * list Z * list Z) :=
  match c with
  | CGet k => Some (code_Get, [k], [])
  | CSet k v => Some (code_Set, [k; v], [])
  | CSetNx k v => Some (code_SetNx, [k; v], [])
  | CSetX k v => Some (code_SetX, [k; v], [])
  | CDelete ks => Some (code_Delete, [], ks)
  | CHas k => Some (code_Has, [k], [])
  | CContains k => Some (code_Contains, [k], [])
  | CLen => Some (code_Len, [], [])
  | CClear => Some (code_Clear, [], [])
  | CKeys => Some (code_Keys, [], [])
  | _ => None
  end.
Definition code_effect (c : call) (m : map_) : option (map_ * list Z) :=
  match code_of c with Some (md, a, vs) => Some (run_method md a vs m) | None => None end.
(* Values: Go's iteration order is unspecified and the specification returns the values sorted *)
Definition sort_out (r : list Z) : list Z := match r with n :: l => n :: zsort l | [] => [] end.
Definition translated (c : call) : bool := match code_of c with Some _ => true | None => false end.
