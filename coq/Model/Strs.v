(* C17 — strz/strs.go: Mask, Sub, SubByDisplay, Rev, Len, RemoveRunes, SnakeToCamelCase, CamelCaseToSnake,
   UcFirst, LcFirst.  Byte-cursor level over Lib.Utf8 (byte = Z, string = list Z, Go int = Z with explicit
   64-bit wrap where an int expression of the code can leave the int64 range for int64 arguments).
   Every slice expression of the code is the checked [sl]; [Panic] = the Go code would panic,
   [Stuck] = the model's fuel ran out (shown impossible in Proofs/StrsBasic.v).  No proofs in this file. *)
From Coq Require Import List ZArith Bool Arith.
From V Require Import Lib.Utf8.
Import ListNotations.
Local Open Scope Z_scope.

Inductive res := Ret (b : list Z) | Panic | Stuck.

Definition two63 : Z := 9223372036854775808.
Definition two64 : Z := 18446744073709551616.
Definition maxint : Z := 9223372036854775807.
Definition wrap64 (z : Z) : Z := (z + two63) mod two64 - two63.
(* runtime.maxAlloc on linux/amd64 (1<<48): bytealg.MakeNoZero panics above it (strings.Builder.Grow inside strings.Repeat) *)
Definition alloc_limit : Z := 281474976710656.

Definition zlen (s : list Z) : Z := Z.of_nat (length s).
(* s[a:b] *)
Definition sl (s : list Z) (a b : nat) : res :=
  if (a <=? b)%nat && (b <=? length s)%nat then Ret (firstn (b - a) (skipn a s)) else Panic.
Definition bind (r : res) (f : list Z -> res) : res := match r with Ret b => f b | Panic => Panic | Stuck => Stuck end.

(* what one iteration of the hand-written scanning loops advances by:
   if b := s[i]; b < utf8.RuneSelf { i++ } else { _, size := utf8.DecodeRuneInString(s[i:]); i += size } *)
Definition adv (r : list Z) : nat :=
  match r with [] => 0%nat | b :: _ => if b <? 128 then 1%nat else width r end.

(* ------------------------------------------------------------------------------------------------ *)
(* the runes of a byte string as those loops (and range-over-string) cut it: one chunk of bytes per rune;
   an invalid byte is a chunk of its own.  This is the rune list of the specification. *)
Fixpoint chunks_fuel (fuel : nat) (r : list Z) : list (list Z) :=
  match fuel with
  | O => []
  | S f => match r with [] => [] | _ => firstn (adv r) r :: chunks_fuel f (skipn (adv r) r) end
  end.
Definition chunks (r : list Z) : list (list Z) := chunks_fuel (length r) r.
(* firstn / skipn with a Go int argument (saturating; negative = 0) *)
Definition clampn {A} (z : Z) (l : list A) : nat := Z.to_nat (Z.min (Z.max z 0) (Z.of_nat (length l))).
Definition firstz {A} (z : Z) (l : list A) : list A := firstn (clampn z l) l.
Definition skipz {A} (z : Z) (l : list A) : list A := skipn (clampn z l) l.

(* ------------------------------------------------------------------------------------------------ *)
(* Len *)
Fixpoint count_go (fuel : nat) (r : list Z) (n : Z) : Z :=
  match fuel with
  | O => n
  | S f => match r with [] => n | _ => count_go f (skipn (adv r) r) (n + 1) end
  end.
(* utf8.RuneCountInString *)
Definition rune_count_z (s : list Z) : Z := count_go (length s) s 0.
Definition len (s : list Z) : Z := rune_count_z s.

(* ------------------------------------------------------------------------------------------------ *)
(* Sub(s, start, length) *)
Fixpoint sub_go (s : list Z) (start length_ : Z) (fuel i : nat) (count begin : Z) : res :=
  match fuel with
  | O => Stuck
  | S f =>
      if (i <? length s)%nat then
        let next b := sub_go s start length_ f (i + adv (skipn i s)) (count + 1) b in
        if count =? start then
          if length_ =? -1 then sl s i (length s) else next (Z.of_nat i)
        else if (0 <=? begin) && (wrap64 (start + length_) =? count) then sl s (Z.to_nat begin) i
        else next begin
      else if begin <? 0 then Ret [] else sl s (Z.to_nat begin) (length s)
  end.
Definition sub (s : list Z) (start length_ : Z) : res :=
  if (start <? 0) || (length_ <? -1) || (match s with [] => true | _ => false end) then Ret s
  else if length_ =? 0 then Ret []
  else sub_go s start length_ (S (length s)) 0 0 (-1).

Definition spec_sub (s : list Z) (start length_ : Z) : list Z :=
  if length_ =? 0 then []
  else if length_ =? -1 then concat (skipz start (chunks s))
  else concat (firstz length_ (skipz start (chunks s))).

(* ------------------------------------------------------------------------------------------------ *)
(* Mask(str, mask, start, end) *)
(* strings.Repeat(m, count) for count >= 1 *)
Definition repeat_str (m : list Z) (count : Z) : res :=
  if count =? 1 then Ret m
  else if maxint <? zlen m * count then Panic                (* "strings: Repeat output length overflow" *)
  else match m with
       | [] => Ret []
       | _ => if alloc_limit <? zlen m * count then Panic    (* Builder.Grow -> makeslice: len out of range *)
              else Ret (concat (repeat m (Z.to_nat count)))
       end.

Fixpoint idx_go (s : list Z) (start end_ : Z) (fuel i : nat) (count : Z) (si ei : nat) : option (nat * nat) :=
  match fuel with
  | O => None
  | S f =>
      if (i <? length s)%nat then
        let si' := if count =? start then i else si in
        let ei' := if count =? start then ei else if count =? end_ then i else ei in
        idx_go s start end_ f (i + adv (skipn i s)) (count + 1) si' ei'
      else Some (si, ei)
  end.

Definition mask (str msk : list Z) (start end_ : Z) : res :=
  let l := rune_count_z str in
  if (l <? start) || (l <? end_) then Ret str else
  let ml := wrap64 (wrap64 (l - start) - end_) in
  if ml <=? 0 then Ret str else
  bind (if rune_count_z msk =? 1 then repeat_str msk ml else Ret msk) (fun msk' =>
  if ml =? l then Ret msk' else
  let e := wrap64 (l - end_) in
  match idx_go str start e (S (length str)) 0 0 0 0 with
  | None => Stuck
  | Some (si, ei) =>
      let ei' := if (ei =? 0)%nat then length str else ei in
      bind (sl str 0 si) (fun a => bind (sl str ei' (length str)) (fun b => Ret (a ++ msk' ++ b)))
  end).

(* first `start` runes, the mask (once per replaced rune when it is exactly one rune), last `end` runes;
   unchanged when nothing lies between *)
Definition spec_mask (str msk : list Z) (start end_ : Z) : list Z :=
  let cs := chunks str in
  let l := Z.of_nat (length cs) in
  if l <=? start + end_ then str
  else let ml := l - start - end_ in
       let msk' := if (length (chunks msk) =? 1)%nat then concat (repeat msk (Z.to_nat ml)) else msk in
       concat (firstz start cs) ++ msk' ++ concat (skipz (l - end_) cs).

(* ------------------------------------------------------------------------------------------------ *)
(* SubByDisplay(s, length): for i, v := range s *)
Definition disp (v : Z) : Z := if v <? 128 then 1 else 2.
Fixpoint sbd_go (s : list Z) (limit : Z) (fuel i : nat) (dpl : Z) : res :=
  match fuel with
  | O => Stuck
  | S f =>
      if (i <? length s)%nat then
        let (v, w) := decode (skipn i s) in
        let dpl' := dpl + disp v in
        if limit <? dpl' then sl s 0 i else sbd_go s limit f (i + w) dpl'
      else Ret s
  end.
Definition sub_by_display (s : list Z) (limit : Z) : res :=
  if zlen s <=? limit then Ret s else sbd_go s limit (S (length s)) 0 0.

(* display width of a rune chunk: 1 for ASCII, 2 otherwise *)
Definition cdisp (c : list Z) : Z := match c with [b] => if b <? 128 then 1 else 2 | _ => 2 end.
Fixpoint cwidth (cs : list (list Z)) : Z := match cs with [] => 0 | c :: t => cdisp c + cwidth t end.
(* longest prefix of whole runes whose display width does not exceed the limit *)
Fixpoint fit (cs : list (list Z)) (limit : Z) : list (list Z) :=
  match cs with
  | [] => []
  | c :: t => if cdisp c <=? limit then c :: fit t (limit - cdisp c) else []
  end.
Definition spec_sub_by_display (s : list Z) (limit : Z) : list Z := concat (fit (chunks s) limit).

(* ------------------------------------------------------------------------------------------------ *)
(* Rev: []rune(s), reverse, string(runes) *)
Definition rev_str (s : list Z) : list Z := concat (map encode_rune (rev (runes s))).
Definition spec_rev (s : list Z) : list Z := concat (rev (chunks s)).

(* ------------------------------------------------------------------------------------------------ *)
(* RemoveRunes(s, shouldRemove): grown = buf.Cap() > 0 *)
Fixpoint rr_go (p : Z -> bool) (s : list Z) (fuel i : nat) (grown : bool) (buf : list Z) : res :=
  match fuel with
  | O => Stuck
  | S f =>
      if (i <? length s)%nat then
        let (v, w) := decode (skipn i s) in
        if grown then rr_go p s f (i + w) true (if p v then buf else buf ++ encode_rune v)
        else if p v then bind (sl s 0 i) (fun pre => rr_go p s f (i + w) true (buf ++ pre))
        else rr_go p s f (i + w) false buf
      else if grown then Ret buf else Ret s
  end.
Definition remove_runes (p : Z -> bool) (s : list Z) : res := rr_go p s (S (length s)) 0 false [].
(* the rune a chunk stands for *)
Definition crune (c : list Z) : Z := fst (decode c).
Definition spec_remove_runes (p : Z -> bool) (s : list Z) : list Z :=
  concat (filter (fun c => negb (p (crune c))) (chunks s)).

(* ------------------------------------------------------------------------------------------------ *)
(* UcFirst / LcFirst *)
Definition uc_first (s : list Z) : list Z :=
  match s with [] => [] | b :: t => if (97 <=? b) && (b <=? 122) then (b - 32) :: t else s end.
Definition lc_first (s : list Z) : list Z :=
  match s with [] => [] | b :: t => if (65 <=? b) && (b <=? 90) then (b + 32) :: t else s end.

(* ------------------------------------------------------------------------------------------------ *)
(* SnakeToCamelCase(str, firstUp); buf = the builder's content.  (buf.Cap()==0 only guards Grow: no effect on the result) *)
Definition wr (buf s : list Z) (a b : nat) : res :=       (* if a < b { buf.WriteString(s[a:b]) } *)
  if (a <? b)%nat then bind (sl s a b) (fun x => Ret (buf ++ x)) else Ret buf.
Fixpoint s2c_go (s : list Z) (fuel i start : nat) (up : bool) (buf : list Z) : res :=
  match fuel with
  | O => Stuck
  | S f =>
      if (i <? length s)%nat then
        let b := nth i s 0 in
        if b <? 128 then
          if up then
            if (97 <=? b) && (b <=? 122)
            then bind (wr buf s start i) (fun buf' => s2c_go s f (i + 1) (i + 1) false (buf' ++ [b - 32]))
            else s2c_go s f (i + 1) start false buf
          else if (0 <? i)%nat && (b =? 95)
            then bind (wr buf s start i) (fun buf' => s2c_go s f (i + 1) (i + 1) true buf')
            else s2c_go s f (i + 1) start false buf
        else s2c_go s f (i + width (skipn i s)) start false buf
      else match buf with
           | [] => Ret s
           | _ => wr buf s start (length s)
           end
  end.
Definition snake_to_camel (s : list Z) (up : bool) : res := s2c_go s (S (length s)) 0 0 up [].

(* CamelCaseToSnake(str) *)
Fixpoint c2s_go (s : list Z) (fuel i start : nat) (buf : list Z) : res :=
  match fuel with
  | O => Stuck
  | S f =>
      if (i <? length s)%nat then
        let b := nth i s 0 in
        if b <? 128 then
          if (65 <=? b) && (b <=? 90)
          then bind (wr buf s start i) (fun buf' =>
                 c2s_go s f (i + 1) (i + 1) ((if (0 <? i)%nat then buf' ++ [95] else buf') ++ [b + 32]))
          else c2s_go s f (i + 1) start buf
        else c2s_go s f (i + width (skipn i s)) start buf
      else match buf with
           | [] => Ret s
           | _ => wr buf s start (length s)
           end
  end.
Definition camel_to_snake (s : list Z) : res := c2s_go s (S (length s)) 0 0 [].

(* the identifier grammar of DESIGN §5 C17: word (_ word)*, word = [a-z][a-z0-9]* *)
Definition lower (b : Z) : bool := (97 <=? b) && (b <=? 122).
Definition digit (b : Z) : bool := (48 <=? b) && (b <=? 57).
(* st: 0 = at the start of a word (a letter must follow), 1 = inside a word *)
Fixpoint ident_go (s : list Z) (inword : bool) : bool :=
  match s with
  | [] => inword
  | b :: t => if inword then (if lower b || digit b then ident_go t true else if b =? 95 then ident_go t false else false)
              else if lower b then ident_go t true else false
  end.
Definition ident (s : list Z) : bool := ident_go s false.
