(* C10 — ringz.Ring (ringz/ring.go) used from one goroutine: executable model + the bounded-FIFO specification.
   The model follows the code: head/tail indices with the -1 sentinel, `%` as Go's truncated remainder
   (a zero divisor panics), every index / slice expression checked (None = the Go code would panic),
   Recap with the one-part and the two-part copy, PushWithExpand = IsFull / Recap(cap*2) / Push.
   Constants (sentinels, growth factor) come from Gen/Ringz.v, i.e. from the source on every run.
   No proofs in this file. *)
From Coq Require Import List ZArith Bool.
From V Require Import Gen.Ringz.
Import ListNotations.
Local Open Scope Z_scope.

Definition WILD : Z := -1000006.   (* framework token: in a specification output it matches any implementation token *)

(* ---------------------------------------------------------------- operations and results (shared with SyncRingSeq) *)
Inductive res :=
| RBool (b : bool)
| RVal (ok : bool) (v : Z)        (* Pop / Peek: (value, ok); the value is T's zero when !ok *)
| RInt (z : Z)
| RUnit
| RDump (l : list Z).             (* internal state read through reflect/unsafe; the specification does not constrain it *)

(* what the specification can say about a result: the content of a dump is not constrained, only its size *)
Definition hide (r : res) : res :=
  match r with RDump l => RDump (repeat WILD (length l)) | _ => r end.

Inductive op :=
| OPush (v : Z) | OPop | OPeek | OLen | OIsEmpty | OIsFull | OCap
| ORecap (c : Z) | OPushX (v : Z) | OInit (c : Z) | ODump.

(* ---------------------------------------------------------------- Go helpers *)
Fixpoint upd (l : list Z) (i : nat) (x : Z) : list Z :=
  match l, i with [], _ => [] | _ :: t, O => x :: t | h :: t, S j => h :: upd t j x end.

(* a % c on Go ints: truncated remainder; integer divide by zero panics *)
Definition gorem (a c : Z) : option Z := if c =? 0 then None else Some (Z.rem a c).
(* l[i] *)
Definition get_at (l : list Z) (i : Z) : option Z := if 0 <=? i then nth_error l (Z.to_nat i) else None.
(* l[i] = x *)
Definition set_at (l : list Z) (i : Z) (x : Z) : option (list Z) :=
  if (0 <=? i) && (i <? Z.of_nat (length l)) then Some (upd l (Z.to_nat i) x) else None.
(* l[a:b] with cap(l) = len(l) *)
Definition slice (l : list Z) (a b : Z) : option (list Z) :=
  if (0 <=? a) && (a <=? b) && (b <=? Z.of_nat (length l))
  then Some (firstn (Z.to_nat b - Z.to_nat a) (skipn (Z.to_nat a) l)) else None.
(* copy(dst, src): min(len) elements; returns the new dst and n *)
Definition gocopy (dst src : list Z) : list Z := firstn (length dst) src ++ skipn (length src) dst.

(* ---------------------------------------------------------------- ringz.Ring *)
Record ring := { vals : list Z; head : Z; tail : Z; cap : Z }.

(* Init (ring.go:20-29) *)
Definition init (c : Z) : option ring :=
  if c <=? 0 then None                                  (* panic("invalid capacity") *)
  else Some {| vals := repeat 0 (Z.to_nat c); head := ring_init_head; tail := ring_init_tail; cap := c |}.

Definition is_empty (r : ring) : bool := head r =? ring_empty.
Definition is_full (r : ring) : option bool :=
  match gorem (tail r + 1) (cap r) with None => None | Some m => Some (m =? head r) end.

(* Push (ring.go:42-54) *)
Definition push (r : ring) (v : Z) : option (ring * bool) :=
  match is_full r with
  | None => None
  | Some true => Some (r, false)
  | Some false =>
      let h := if is_empty r then ring_push_first_head else head r in
      match gorem (tail r + 1) (cap r) with
      | None => None
      | Some t =>
          match set_at (vals r) t v with
          | None => None
          | Some vs => Some ({| vals := vs; head := h; tail := t; cap := cap r |}, true)
          end
      end
  end.

(* Pop (ring.go:57-72) *)
Definition pop (r : ring) : option (ring * (bool * Z)) :=
  if is_empty r then Some (r, (false, 0)) else
  match get_at (vals r) (head r) with
  | None => None
  | Some v =>
      match set_at (vals r) (head r) 0 with
      | None => None
      | Some vs =>
          if head r =? tail r
          then Some ({| vals := vs; head := ring_pop_last_head; tail := ring_pop_last_tail; cap := cap r |}, (true, v))
          else match gorem (head r + 1) (cap r) with
               | None => None
               | Some h => Some ({| vals := vs; head := h; tail := tail r; cap := cap r |}, (true, v))
               end
      end
  end.

(* Peek (ring.go:75-82) *)
Definition peek (r : ring) : option (bool * Z) :=
  if is_empty r then Some (false, 0) else
  match get_at (vals r) (head r) with None => None | Some v => Some (true, v) end.

(* Len (ring.go:94-104) *)
Definition len (r : ring) : Z :=
  if is_empty r then 0 else
  if head r <=? tail r then tail r - head r + 1 else cap r - head r + tail r + 1.

(* Recap (ring.go:112-143) *)
Definition recap (r : ring) (c : Z) : option (ring * bool) :=
  if (c <=? 0) || (c =? cap r) then Some (r, false) else
  let l := len r in
  if c <? l then Some (r, false) else
  let nv := repeat 0 (Z.to_nat c) in
  if is_empty r
  then Some ({| vals := nv; head := ring_recap_empty_head; tail := ring_recap_empty_tail; cap := c |}, true)
  else
    let nv' :=
      if head r <=? tail r then
        match slice (vals r) (head r) (tail r + 1) with                   (* r.values[r.head:r.tail+1] *)
        | None => None
        | Some s => Some (gocopy nv s)
        end
      else
        match slice (vals r) (head r) (Z.of_nat (length (vals r))),       (* r.values[r.head:] *)
              slice (vals r) 0 (tail r + 1) with                          (* r.values[:r.tail+1] *)
        | Some p1, Some p2 =>
            let n := Nat.min (length nv) (length p1) in
            let nv1 := gocopy nv p1 in
            Some (firstn n nv1 ++ gocopy (skipn n nv1) p2)                (* copy(newValues[n:], ...) *)
        | _, _ => None
        end in
    match nv' with
    | None => None
    | Some b => Some ({| vals := b; head := ring_recap_head; tail := l - 1; cap := c |}, true)
    end.

(* PushWithExpand (ring.go:85-91): the results of Recap and Push are dropped *)
Definition push_expand (r : ring) (v : Z) : option ring :=
  match is_full r with
  | None => None
  | Some f =>
      match (if f then match recap r (cap r * ring_expand_factor) with None => None | Some (r1, _) => Some r1 end
             else Some r) with
      | None => None
      | Some r1 => match push r1 v with None => None | Some (r2, _) => Some r2 end
      end
  end.

Definition dump (r : ring) : list Z := head r :: tail r :: vals r.

Definition step (r : ring) (o : op) : option (ring * res) :=
  match o with
  | OPush v => match push r v with None => None | Some (r', b) => Some (r', RBool b) end
  | OPop => match pop r with None => None | Some (r', (ok, v)) => Some (r', RVal ok v) end
  | OPeek => match peek r with None => None | Some (ok, v) => Some (r, RVal ok v) end
  | OLen => Some (r, RInt (len r))
  | OIsEmpty => Some (r, RBool (is_empty r))
  | OIsFull => match is_full r with None => None | Some b => Some (r, RBool b) end
  | OCap => Some (r, RInt (cap r))
  | ORecap c => match recap r c with None => None | Some (r', b) => Some (r', RBool b) end
  | OPushX v => match push_expand r v with None => None | Some r' => Some (r', RUnit) end
  | OInit c => match init c with None => None | Some r' => Some (r', RUnit) end
  | ODump => Some (r, RDump (dump r))
  end.

(* results are accumulated in reverse (linear time when extracted) *)
Fixpoint run_acc (r : ring) (ops : list op) (acc : list res) : option (list res) :=
  match ops with
  | [] => Some (rev acc)
  | o :: t => match step r o with None => None | Some (r', x) => run_acc r' t (x :: acc) end
  end.
Definition run (r : ring) (ops : list op) : option (list res) := run_acc r ops [].

(* the state after the operations (None = panic) *)
Fixpoint exec (r : ring) (ops : list op) : option ring :=
  match ops with
  | [] => Some r
  | o :: t => match step r o with None => None | Some (r', _) => exec r' t end
  end.

(* a case: ringz.New(c) followed by the operations; None = panic *)
Definition ring_case (c : Z) (ops : list op) : option (list res) :=
  match init c with None => None | Some r => run r ops end.

(* ---------------------------------------------------------------- specification: bounded FIFO *)
Record fifo := { fcap : Z; fq : list Z }.

Definition flen (f : fifo) : Z := Z.of_nat (length (fq f)).
Definition fnew (c : Z) : option fifo := if c <=? 0 then None else Some {| fcap := c; fq := [] |}.

Definition fstep (f : fifo) (o : op) : option (fifo * res) :=
  match o with
  | OPush v => if flen f <? fcap f then Some ({| fcap := fcap f; fq := fq f ++ [v] |}, RBool true)
               else Some (f, RBool false)
  | OPop => match fq f with [] => Some (f, RVal false 0) | x :: q => Some ({| fcap := fcap f; fq := q |}, RVal true x) end
  | OPeek => match fq f with [] => Some (f, RVal false 0) | x :: _ => Some (f, RVal true x) end
  | OLen => Some (f, RInt (flen f))
  | OIsEmpty => Some (f, RBool (flen f =? 0))
  | OIsFull => Some (f, RBool (flen f =? fcap f))
  | OCap => Some (f, RInt (fcap f))
  | ORecap c => if (0 <? c) && negb (c =? fcap f) && (flen f <=? c)
                then Some ({| fcap := c; fq := fq f |}, RBool true) else Some (f, RBool false)
  | OPushX v => let c := if flen f =? fcap f then 2 * fcap f else fcap f in
                Some ({| fcap := c; fq := fq f ++ [v] |}, RUnit)
  | OInit c => match fnew c with None => None | Some f' => Some (f', RUnit) end
  | ODump => Some (f, RDump (repeat WILD (Z.to_nat (2 + fcap f))))
  end.

Fixpoint frun_acc (f : fifo) (ops : list op) (acc : list res) : option (list res) :=
  match ops with
  | [] => Some (rev acc)
  | o :: t => match fstep f o with None => None | Some (f', x) => frun_acc f' t (x :: acc) end
  end.
Definition frun (f : fifo) (ops : list op) : option (list res) := frun_acc f ops [].
Definition fifo_case (c : Z) (ops : list op) : option (list res) :=
  match fnew c with None => None | Some f => frun f ops end.
