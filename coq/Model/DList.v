(* C13 — listz.DList (listz/doubly_list.go, listz/iter.go): heap-level executable model + sequence specification.
   Nodes are ids; the pointer fields next / prev / list and Value are stores indexed by id; a nil dereference is a
   panic.  Two lists live in one heap (so that handles of the other list — "foreign" nodes — and PushBackDList /
   PushFrontDList with another list or with the list itself can be exercised): the sentinel of list L is the id L
   (0 or 1), nodes have ids >= 2 in allocation order.  insert / remove / move perform the code's pointer writes in
   the code's order, re-reading the fields the code re-reads; every public method carries its guards and lazyInit.
   The specification is container/list's documented behaviour on sequences of node ids.
   No proofs in this file. *)
From Coq Require Import List ZArith Bool Arith.
Import ListNotations.
Local Open Scope Z_scope.

Definition fupd {A} (f : nat -> A) (i : nat) (x : A) : nat -> A := fun j => if Nat.eqb j i then x else f j.

Record heap := {
  nxt : nat -> option nat;      (* e.next  (None = nil) *)
  prv : nat -> option nat;      (* e.prev *)
  own : nat -> option nat;      (* e.list: Some L = &list L *)
  val : nat -> Z;               (* e.Value *)
  llen : nat -> Z;              (* l.len of list L *)
  fresh : nat                   (* next node id *)
}.

Definition set_nxt h i x := {| nxt := fupd (nxt h) i x; prv := prv h; own := own h; val := val h; llen := llen h; fresh := fresh h |}.
Definition set_prv h i x := {| nxt := nxt h; prv := fupd (prv h) i x; own := own h; val := val h; llen := llen h; fresh := fresh h |}.
Definition set_own h i x := {| nxt := nxt h; prv := prv h; own := fupd (own h) i x; val := val h; llen := llen h; fresh := fresh h |}.
Definition set_len h L x := {| nxt := nxt h; prv := prv h; own := own h; val := val h; llen := fupd (llen h) L x; fresh := fresh h |}.

(* &DNode{Value: v} *)
Definition alloc (h : heap) (v : Z) : heap * nat :=
  let e := fresh h in
  ({| nxt := fupd (nxt h) e None; prv := fupd (prv h) e None; own := fupd (own h) e None; val := fupd (val h) e v;
      llen := llen h; fresh := S e |}, e).

(* the initial heap: list L is a zero value (z = true) or the result of NewDoubly() *)
Definition root_ptr (z : bool) (L : nat) : option nat := if z then None else Some L.
Definition heap0 (z0 z1 : bool) : heap :=
  {| nxt := fun i => if Nat.eqb i 0 then root_ptr z0 0 else if Nat.eqb i 1 then root_ptr z1 1 else None;
     prv := fun i => if Nat.eqb i 0 then root_ptr z0 0 else if Nat.eqb i 1 then root_ptr z1 1 else None;
     own := fun _ => None; val := fun _ => 0; llen := fun _ => 0; fresh := 2 |}.

(* Init (doubly_list.go:43-48) *)
Definition init (h : heap) (L : nat) : heap := set_len (set_prv (set_nxt h L (Some L)) L (Some L)) L 0.
(* lazyInit (207-211) *)
Definition lazy_init (h : heap) (L : nat) : heap := match nxt h L with None => init h L | Some _ => h end.

(* insert(e, at) (214-222): e.prev = at; e.next = at.next; e.prev.next = e; e.next.prev = e; e.list = l; l.len++ *)
Definition insert (h : heap) (L e at_ : nat) : option heap :=
  let h1 := set_prv h e (Some at_) in
  let h2 := set_nxt h1 e (nxt h1 at_) in
  match prv h2 e with
  | None => None
  | Some p =>
      let h3 := set_nxt h2 p (Some e) in
      match nxt h3 e with
      | None => None
      | Some n =>
          let h4 := set_prv h3 n (Some e) in
          let h5 := set_own h4 e (Some L) in
          Some (set_len h5 L (llen h5 L + 1))
      end
  end.

(* insertValue(v, at) (225-227) *)
Definition insert_value (h : heap) (L : nat) (v : Z) (at_ : nat) : option (heap * nat) :=
  let (h0, e) := alloc h v in
  match insert h0 L e at_ with None => None | Some h' => Some (h', e) end.

(* remove(e) (230-237): e.prev.next = e.next; e.next.prev = e.prev; e.next = nil; e.prev = nil; e.list = nil; l.len-- *)
Definition remove (h : heap) (L e : nat) : option heap :=
  match prv h e with
  | None => None
  | Some p =>
      let h1 := set_nxt h p (nxt h e) in
      match nxt h1 e with
      | None => None
      | Some n =>
          let h2 := set_prv h1 n (prv h1 e) in
          let h3 := set_nxt h2 e None in
          let h4 := set_prv h3 e None in
          let h5 := set_own h4 e None in
          Some (set_len h5 L (llen h5 L - 1))
      end
  end.

(* move(e, at) (240-252) *)
Definition move (h : heap) (e at_ : nat) : option heap :=
  if Nat.eqb e at_ then Some h else
  match prv h e with
  | None => None
  | Some p =>
      let h1 := set_nxt h p (nxt h e) in                  (* e.prev.next = e.next *)
      match nxt h1 e with
      | None => None
      | Some n =>
          let h2 := set_prv h1 n (prv h1 e) in            (* e.next.prev = e.prev *)
          let h3 := set_prv h2 e (Some at_) in            (* e.prev = at *)
          let h4 := set_nxt h3 e (nxt h3 at_) in          (* e.next = at.next *)
          match prv h4 e with
          | None => None
          | Some p' =>
              let h5 := set_nxt h4 p' (Some e) in         (* e.prev.next = e *)
              match nxt h5 e with
              | None => None
              | Some n' => Some (set_prv h5 n' (Some e))  (* e.next.prev = e *)
              end
          end
      end
  end.

Definition owned (h : heap) (e L : nat) : bool := match own h e with Some L' => Nat.eqb L' L | None => false end.
Definition oeqb (a : option nat) (b : nat) : bool := match a with Some x => Nat.eqb x b | None => false end.

(* DNode.Next / Prev (18-32) *)
Definition node_next (h : heap) (e : nat) : option nat :=
  match own h e with
  | None => None
  | Some L => match nxt h e with Some p => if Nat.eqb p L then None else Some p | None => None end
  end.
Definition node_prev (h : heap) (e : nat) : option nat :=
  match own h e with
  | None => None
  | Some L => match prv h e with Some p => if Nat.eqb p L then None else Some p | None => None end
  end.

(* Front / Back (58-72) *)
Definition front (h : heap) (L : nat) : option nat := if llen h L =? 0 then None else nxt h L.
Definition back (h : heap) (L : nat) : option nat := if llen h L =? 0 then None else prv h L.

(* ---------------------------------------------------------------- operations *)
Inductive res := RInt (z : Z) | RHandle (o : option nat) | RList (l : list Z) | RUnit.

Inductive op :=
| OInit (L : nat) | OLen (L : nat) | OFront (L : nat) | OBack (L : nat)
| ONext (e : nat) | OPrev (e : nat) | OValue (e : nat)
| ORemove (L e : nat)
| OPushFront (L : nat) (v : Z) | OPushBack (L : nat) (v : Z)
| OInsertBefore (L : nat) (v : Z) (mark : nat) | OInsertAfter (L : nat) (v : Z) (mark : nat)
| OPushFrontNode (L e : nat) | OPushBackNode (L e : nat)
| OInsertNodeBefore (L e mark : nat) | OInsertNodeAfter (L e mark : nat)
| OMoveToFront (L e : nat) | OMoveToBack (L e : nat) | OMoveBefore (L e mark : nat) | OMoveAfter (L e mark : nat)
| OPushBackDList (L L' : nat) | OPushFrontDList (L L' : nat)
| OFwd (L : nat) | OBwd (L : nat) | OAll (L : nat) (k : nat)
| ONewNode (v : Z).

Inductive outcome := Panic | NoFuel | Bad | Ok (h : heap) (r : res).

Definition is_list (L : nat) : bool := Nat.ltb L 2.
Definition is_node (h : heap) (e : nat) : bool := Nat.leb 2 e && Nat.ltb e (fresh h).

Definition ok_unit (o : option heap) : outcome := match o with None => Panic | Some h => Ok h RUnit end.

(* the loops of PushBackDList / PushFrontDList (187-204): i counts down from other.Len(); e walks other *)
Fixpoint copy_back (n : nat) (h : heap) (L : nat) (e : option nat) : option heap :=
  match n with
  | O => Some h
  | S n' =>
      match e, prv h L with
      | Some x, Some at_ =>
          match insert_value h L (val h x) at_ with
          | None => None
          | Some (h', _) => copy_back n' h' L (node_next h' x)
          end
      | _, _ => None
      end
  end.
Fixpoint copy_front (n : nat) (h : heap) (L : nat) (e : option nat) : option heap :=
  match n with
  | O => Some h
  | S n' =>
      match e with
      | Some x =>
          match insert_value h L (val h x) L with
          | None => None
          | Some (h', _) => copy_front n' h' L (node_prev h' x)
          end
      | None => None
      end
  end.

(* for e := l.Front(); e != nil; e = e.Next(): ids and values, and All() with an early stop after k values (k = 0: never) *)
Fixpoint walk (fuel : nat) (h : heap) (step : heap -> nat -> option nat) (e : option nat) (acc : list Z) : option (list Z) :=
  match e with
  | None => Some (rev acc)
  | Some x => match fuel with
              | O => None
              | S f => walk f h step (step h x) (val h x :: Z.of_nat x :: acc)
              end
  end.
Fixpoint walk_all (fuel : nat) (h : heap) (e : option nat) (k : nat) (acc : list Z) : option (list Z) :=
  match e with
  | None => Some (rev acc)
  | Some x => match fuel with
              | O => None
              | S f => if Nat.eqb k 1 then Some (rev (val h x :: acc))
                       else walk_all f h (node_next h x) (Nat.pred k) (val h x :: acc)
              end
  end.

Definition step (h : heap) (o : op) : outcome :=
  match o with
  | OInit L => if is_list L then Ok (init h L) RUnit else Bad
  | OLen L => if is_list L then Ok h (RInt (llen h L)) else Bad
  | OFront L => if is_list L then Ok h (RHandle (front h L)) else Bad
  | OBack L => if is_list L then Ok h (RHandle (back h L)) else Bad
  | ONext e => if is_node h e then Ok h (RHandle (node_next h e)) else Bad
  | OPrev e => if is_node h e then Ok h (RHandle (node_prev h e)) else Bad
  | OValue e => if is_node h e then Ok h (RInt (val h e)) else Bad
  | ORemove L e =>
      if is_list L && is_node h e then
        if owned h e L then match remove h L e with None => Panic | Some h' => Ok h' (RInt (val h' e)) end
        else Ok h (RInt (val h e))
      else Bad
  | OPushFront L v =>
      if is_list L then
        let h1 := lazy_init h L in
        match insert_value h1 L v L with None => Panic | Some (h', e) => Ok h' (RHandle (Some e)) end
      else Bad
  | OPushBack L v =>
      if is_list L then
        let h1 := lazy_init h L in
        match prv h1 L with
        | None => Panic
        | Some at_ => match insert_value h1 L v at_ with None => Panic | Some (h', e) => Ok h' (RHandle (Some e)) end
        end
      else Bad
  | OInsertBefore L v mark =>
      if is_list L && is_node h mark then
        if negb (owned h mark L) then Ok h (RHandle None)
        else match prv h mark with
             | None => Panic
             | Some at_ => match insert_value h L v at_ with None => Panic | Some (h', e) => Ok h' (RHandle (Some e)) end
             end
      else Bad
  | OInsertAfter L v mark =>
      if is_list L && is_node h mark then
        if negb (owned h mark L) then Ok h (RHandle None)
        else match insert_value h L v mark with None => Panic | Some (h', e) => Ok h' (RHandle (Some e)) end
      else Bad
  | OPushFrontNode L e =>
      if is_list L && is_node h e then ok_unit (insert (lazy_init h L) L e L) else Bad
  | OPushBackNode L e =>
      if is_list L && is_node h e then
        let h1 := lazy_init h L in
        match prv h1 L with None => Panic | Some at_ => ok_unit (insert h1 L e at_) end
      else Bad
  | OInsertNodeBefore L e mark =>
      if is_list L && is_node h e && is_node h mark then
        if negb (owned h mark L) then Ok h RUnit
        else match prv h mark with None => Panic | Some at_ => ok_unit (insert h L e at_) end
      else Bad
  | OInsertNodeAfter L e mark =>
      if is_list L && is_node h e && is_node h mark then
        if negb (owned h mark L) then Ok h RUnit else ok_unit (insert h L e mark)
      else Bad
  | OMoveToFront L e =>
      if is_list L && is_node h e then
        if negb (owned h e L) || oeqb (nxt h L) e then Ok h RUnit else ok_unit (move h e L)
      else Bad
  | OMoveToBack L e =>
      if is_list L && is_node h e then
        if negb (owned h e L) || oeqb (prv h L) e then Ok h RUnit
        else match prv h L with None => Panic | Some at_ => ok_unit (move h e at_) end
      else Bad
  | OMoveBefore L e mark =>
      if is_list L && is_node h e && is_node h mark then
        if negb (owned h e L) || Nat.eqb e mark || negb (owned h mark L) then Ok h RUnit
        else match prv h mark with None => Panic | Some at_ => ok_unit (move h e at_) end
      else Bad
  | OMoveAfter L e mark =>
      if is_list L && is_node h e && is_node h mark then
        if negb (owned h e L) || Nat.eqb e mark || negb (owned h mark L) then Ok h RUnit
        else ok_unit (move h e mark)
      else Bad
  | OPushBackDList L L' =>
      if is_list L && is_list L' then
        let h1 := lazy_init h L in
        ok_unit (copy_back (Z.to_nat (llen h1 L')) h1 L (front h1 L'))
      else Bad
  | OPushFrontDList L L' =>
      if is_list L && is_list L' then
        let h1 := lazy_init h L in
        ok_unit (copy_front (Z.to_nat (llen h1 L')) h1 L (back h1 L'))
      else Bad
  | OFwd L => if is_list L then match walk (S (fresh h)) h node_next (front h L) [] with None => NoFuel | Some l => Ok h (RList l) end else Bad
  | OBwd L => if is_list L then match walk (S (fresh h)) h node_prev (back h L) [] with None => NoFuel | Some l => Ok h (RList l) end else Bad
  | OAll L k => if is_list L then match walk_all (S (fresh h)) h (front h L) k [] with None => NoFuel | Some l => Ok h (RList l) end else Bad
  | ONewNode v => let (h', e) := alloc h v in Ok h' (RHandle (Some e))
  end.

Inductive result := RPanic | RNoFuel | RBad | ROut (l : list res).

Fixpoint run_acc (h : heap) (ops : list op) (acc : list res) : result :=
  match ops with
  | [] => ROut (rev acc)
  | o :: t => match step h o with
              | Panic => RPanic | NoFuel => RNoFuel | Bad => RBad
              | Ok h' r => run_acc h' t (r :: acc)
              end
  end.
Definition dlist_case (z0 z1 : bool) (ops : list op) : result := run_acc (heap0 z0 z1) ops [].

(* ---------------------------------------------------------------- specification: sequences of node ids *)
Record dspec := { s0 : list nat; s1 : list nat; sval : nat -> Z; sfresh : nat }.

Definition seq_of (s : dspec) (L : nat) : list nat := if Nat.eqb L 0 then s0 s else s1 s.
Definition set_seq (s : dspec) (L : nat) (l : list nat) : dspec :=
  if Nat.eqb L 0 then {| s0 := l; s1 := s1 s; sval := sval s; sfresh := sfresh s |}
  else {| s0 := s0 s; s1 := l; sval := sval s; sfresh := sfresh s |}.
Definition mem (x : nat) (l : list nat) : bool := existsb (Nat.eqb x) l.
Fixpoint rem (x : nat) (l : list nat) : list nat :=
  match l with [] => [] | y :: t => if Nat.eqb x y then t else y :: rem x t end.
Fixpoint ins_before (x mark : nat) (l : list nat) : list nat :=
  match l with [] => [] | y :: t => if Nat.eqb mark y then x :: y :: t else y :: ins_before x mark t end.
Fixpoint ins_after (x mark : nat) (l : list nat) : list nat :=
  match l with [] => [] | y :: t => if Nat.eqb mark y then y :: x :: t else y :: ins_after x mark t end.
Fixpoint succ_of (x : nat) (l : list nat) : option nat :=
  match l with
  | [] => None
  | y :: t => if Nat.eqb x y then match t with [] => None | z :: _ => Some z end else succ_of x t
  end.
Definition pred_of (x : nat) (l : list nat) : option nat := succ_of x (rev l).
Definition last_opt (l : list nat) : option nat := match rev l with [] => None | x :: _ => Some x end.
Definition first_opt (l : list nat) : option nat := match l with [] => None | x :: _ => Some x end.
Definition detached (s : dspec) (e : nat) : bool := negb (mem e (s0 s)) && negb (mem e (s1 s)).
Definition snode (s : dspec) (e : nat) : bool := Nat.leb 2 e && Nat.ltb e (sfresh s).
Definition salloc (s : dspec) (v : Z) : dspec * nat :=
  ({| s0 := s0 s; s1 := s1 s; sval := fupd (sval s) (sfresh s) v; sfresh := S (sfresh s) |}, sfresh s).
Definition home (s : dspec) (e : nat) : list nat := if mem e (s0 s) then s0 s else if mem e (s1 s) then s1 s else [].

(* copies of the values vs appended to / prepended before list L, nodes allocated in the order the code creates them *)
Fixpoint scopy_back (vs : list Z) (s : dspec) (L : nat) : dspec :=
  match vs with
  | [] => s
  | v :: t => let (s', e) := salloc s v in scopy_back t (set_seq s' L (seq_of s' L ++ [e])) L
  end.
Fixpoint scopy_front (vs : list Z) (s : dspec) (L : nat) : dspec :=      (* vs = values back to front *)
  match vs with
  | [] => s
  | v :: t => let (s', e) := salloc s v in scopy_front t (set_seq s' L (e :: seq_of s' L)) L
  end.

Definition ids_vals (s : dspec) (l : list nat) : list Z := flat_map (fun x => [Z.of_nat x; sval s x]) l.
Definition take_all (k : nat) (l : list Z) : list Z := match k with O => l | _ => firstn k l end.

(* None: the operation is outside the specification (unknown handle, Init of a non-empty list, node-insertion of a
   node that is still in a list) *)
Definition sstep (s : dspec) (o : op) : option (dspec * res) :=
  match o with
  | OInit L => if is_list L && match seq_of s L with [] => true | _ => false end then Some (s, RUnit) else None
  | OLen L => if is_list L then Some (s, RInt (Z.of_nat (length (seq_of s L)))) else None
  | OFront L => if is_list L then Some (s, RHandle (first_opt (seq_of s L))) else None
  | OBack L => if is_list L then Some (s, RHandle (last_opt (seq_of s L))) else None
  | ONext e => if snode s e then Some (s, RHandle (succ_of e (home s e))) else None
  | OPrev e => if snode s e then Some (s, RHandle (pred_of e (home s e))) else None
  | OValue e => if snode s e then Some (s, RInt (sval s e)) else None
  | ORemove L e =>
      if is_list L && snode s e then Some (set_seq s L (rem e (seq_of s L)), RInt (sval s e)) else None
  | OPushFront L v =>
      if is_list L then let (s', e) := salloc s v in Some (set_seq s' L (e :: seq_of s' L), RHandle (Some e)) else None
  | OPushBack L v =>
      if is_list L then let (s', e) := salloc s v in Some (set_seq s' L (seq_of s' L ++ [e]), RHandle (Some e)) else None
  | OInsertBefore L v mark =>
      if is_list L && snode s mark then
        if mem mark (seq_of s L)
        then let (s', e) := salloc s v in Some (set_seq s' L (ins_before e mark (seq_of s' L)), RHandle (Some e))
        else Some (s, RHandle None)
      else None
  | OInsertAfter L v mark =>
      if is_list L && snode s mark then
        if mem mark (seq_of s L)
        then let (s', e) := salloc s v in Some (set_seq s' L (ins_after e mark (seq_of s' L)), RHandle (Some e))
        else Some (s, RHandle None)
      else None
  | OPushFrontNode L e =>
      if is_list L && snode s e && detached s e then Some (set_seq s L (e :: seq_of s L), RUnit) else None
  | OPushBackNode L e =>
      if is_list L && snode s e && detached s e then Some (set_seq s L (seq_of s L ++ [e]), RUnit) else None
  | OInsertNodeBefore L e mark =>
      if is_list L && snode s e && snode s mark then
        if mem mark (seq_of s L)
        then if detached s e then Some (set_seq s L (ins_before e mark (seq_of s L)), RUnit) else None
        else Some (s, RUnit)
      else None
  | OInsertNodeAfter L e mark =>
      if is_list L && snode s e && snode s mark then
        if mem mark (seq_of s L)
        then if detached s e then Some (set_seq s L (ins_after e mark (seq_of s L)), RUnit) else None
        else Some (s, RUnit)
      else None
  | OMoveToFront L e =>
      if is_list L && snode s e then
        if mem e (seq_of s L) then Some (set_seq s L (e :: rem e (seq_of s L)), RUnit) else Some (s, RUnit)
      else None
  | OMoveToBack L e =>
      if is_list L && snode s e then
        if mem e (seq_of s L) then Some (set_seq s L (rem e (seq_of s L) ++ [e]), RUnit) else Some (s, RUnit)
      else None
  | OMoveBefore L e mark =>
      if is_list L && snode s e && snode s mark then
        if mem e (seq_of s L) && mem mark (seq_of s L) && negb (Nat.eqb e mark)
        then Some (set_seq s L (ins_before e mark (rem e (seq_of s L))), RUnit) else Some (s, RUnit)
      else None
  | OMoveAfter L e mark =>
      if is_list L && snode s e && snode s mark then
        if mem e (seq_of s L) && mem mark (seq_of s L) && negb (Nat.eqb e mark)
        then Some (set_seq s L (ins_after e mark (rem e (seq_of s L))), RUnit) else Some (s, RUnit)
      else None
  | OPushBackDList L L' =>
      if is_list L && is_list L' then Some (scopy_back (map (sval s) (seq_of s L')) s L, RUnit) else None
  | OPushFrontDList L L' =>
      if is_list L && is_list L' then Some (scopy_front (map (sval s) (rev (seq_of s L'))) s L, RUnit) else None
  | OFwd L => if is_list L then Some (s, RList (ids_vals s (seq_of s L))) else None
  | OBwd L => if is_list L then Some (s, RList (ids_vals s (rev (seq_of s L)))) else None
  | OAll L k => if is_list L then Some (s, RList (take_all k (map (sval s) (seq_of s L)))) else None
  | ONewNode v => let (s', e) := salloc s v in Some (s', RHandle (Some e))
  end.

Fixpoint srun_acc (s : dspec) (ops : list op) (acc : list res) : option (list res) :=
  match ops with
  | [] => Some (rev acc)
  | o :: t => match sstep s o with None => None | Some (s', r) => srun_acc s' t (r :: acc) end
  end.
Definition dspec0 : dspec := {| s0 := []; s1 := []; sval := fun _ => 0; sfresh := 2 |}.
Definition dspec_case (ops : list op) : option (list res) := srun_acc dspec0 ops [].

(* the states after the operations (for the invariant theorem) *)
Fixpoint dexec (h : heap) (ops : list op) : option heap :=
  match ops with
  | [] => Some h
  | o :: t => match step h o with Ok h' _ => dexec h' t | _ => None end
  end.
Fixpoint sexec (s : dspec) (ops : list op) : option dspec :=
  match ops with
  | [] => Some s
  | o :: t => match sstep s o with Some (s', _) => sexec s' t | None => None end
  end.
