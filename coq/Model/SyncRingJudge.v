(* C01, specification side: a judge for observed histories of a bounded MPMC FIFO.
   It knows nothing about the ring's representation.  Input: capacity, initial content, the per-thread
   programs, and the observed sequence of steps in which operation starts are marked and the successful
   compare-and-swap on the tail / head counter are the linearisation points.  It replays the linearisation
   points against a FIFO of that capacity and then checks every reported result:
     - Push true  <-> its LP occurred (and the FIFO held fewer than cap elements then);
     - Pop (v, true) <-> its LP occurred and v is the element that was at the head then;
     - a false result needs an excuse: the FIFO was full (empty) at some instant between the operation's
       start and the thread's next start, or another operation was in flight during that window;
     - at the end (quiescence) the ring reports exactly the FIFO's content.                              *)
From Coq Require Import List ZArith Bool Arith.
Import ListNotations.
Local Open Scope Z_scope.

Record oprec := { o_push : bool; o_val : Z; o_lp : bool; o_got : Z; o_excuse : bool;
                  o_wait : bool (* PushWait / PopWait: the loop retries until its attempt succeeds *);
                  o_left : Z (* further tries a timed wait may still make; -1 = unbounded *) }.
Record tstate := { t_next : nat;                 (* index of the next operation to start *)
                   t_cur : option oprec;         (* operation in flight *)
                   t_done : list oprec }.        (* finished operations, reversed *)
Record jstate := { j_q : list Z; j_ths : list tstate; j_ok : bool }.

Fixpoint updn {A} (l : list A) (i : nat) (x : A) : list A :=
  match l, i with [], _ => [] | _ :: t, O => x :: t | h :: t, S j => h :: updn t j x end.

Definition set_excuse (r : oprec) : oprec :=
  {| o_push := o_push r; o_val := o_val r; o_lp := o_lp r; o_got := o_got r; o_excuse := true; o_wait := o_wait r; o_left := o_left r |}.
(* observers (Len = -1, IsEmpty = -2, IsFull = -3, kept in o_val) have no boundary excuse *)
Definition boundary_now (cap : Z) (q : list Z) (r : oprec) : bool :=
  if o_val r <? 0 then false else
  if o_push r then cap <=? Z.of_nat (length q) else match q with [] => true | _ => false end.
Definition obs_exact (cap : Z) (q : list Z) (o : Z) : Z :=
  if o =? -1 then Z.of_nat (length q)
  else if o =? -2 then (match q with [] => 1 | _ => 0 end)
  else (if Z.of_nat (length q) =? cap then 1 else 0).
(* every in-flight operation looks at the FIFO: full (for a push) / empty (for a pop) is an excuse *)
Definition look (cap : Z) (q : list Z) (t : tstate) : tstate :=
  match t_cur t with
  | Some r => if boundary_now cap q r then {| t_next := t_next t; t_cur := Some (set_excuse r); t_done := t_done t |} else t
  | None => t
  end.
Definition in_flight (t : tstate) : bool := match t_cur t with Some _ => true | None => false end.
Definition excuse_all (t : tstate) : tstate :=
  match t_cur t with
  | Some r => {| t_next := t_next t; t_cur := Some (set_excuse r); t_done := t_done t |}
  | None => t
  end.
Definition finish (t : tstate) : tstate :=
  match t_cur t with
  | Some r => {| t_next := t_next t; t_cur := None; t_done := r :: t_done t |}
  | None => t
  end.

(* thread i starts its next operation (op = 0: Pop, v > 0: Push v); its previous one is over *)
Definition j_start (cap : Z) (progs : list (list Z)) (s : jstate) (i : nat) : jstate :=
  match nth_error (j_ths s) i with
  | None => {| j_q := j_q s; j_ths := j_ths s; j_ok := false |}
  | Some t0 =>
      (* a start marker while a PushWait / PopWait has not succeeded yet is the next attempt of the same call *)
      if match t_cur t0 with Some r => o_wait r && negb (o_lp r) && negb (o_left r =? 0) | None => false end then
        match t_cur t0 with
        | Some r =>
            let r' := {| o_push := o_push r; o_val := o_val r; o_lp := false; o_got := o_got r; o_excuse := o_excuse r;
                         o_wait := true; o_left := if o_left r <? 0 then -1 else o_left r - 1 |} in
            {| j_q := j_q s; j_ths := updn (j_ths s) i {| t_next := t_next t0; t_cur := Some r'; t_done := t_done t0 |}; j_ok := j_ok s |}
        | None => s
        end
      else
      let t := finish t0 in
      match nth_error (nth i progs []) (t_next t) with
      | None => {| j_q := j_q s; j_ths := updn (j_ths s) i t; j_ok := false |}      (* more starts than operations *)
      | Some o =>
          let others := existsb in_flight (updn (j_ths s) i t) in
          let wait := (1000000 <=? o) || (o =? -10) || (o <=? -100) in
          let v := if 2000000 <=? o then (o - 2000000) mod 10000 else if 1000000 <=? o then o - 1000000
                   else if (o =? -10) || (o <=? -100) then 0 else o in
          let r := {| o_push := 0 <? v; o_val := v; o_lp := false; o_got := obs_exact cap (j_q s) v; o_excuse := others; o_wait := wait;
                      o_left := if o <=? -100 then - o - 100 else if 2000000 <=? o then (o - 2000000) / 10000 else -1 |} in
          let t' := {| t_next := S (t_next t); t_cur := Some r; t_done := t_done t |} in
          let ths := updn (j_ths s) i t' in
          let ths := if others then map excuse_all ths else ths in
          {| j_q := j_q s; j_ths := map (look cap (j_q s)) ths; j_ok := j_ok s |}
      end
  end.

(* a successful CAS of thread i on the tail (push = true) or head counter *)
Definition j_lp (cap : Z) (s : jstate) (i : nat) (push : bool) : jstate :=
  match nth_error (j_ths s) i with
  | Some t =>
      match t_cur t with
      | Some r =>
          if negb (Bool.eqb (o_push r) push) || o_lp r then {| j_q := j_q s; j_ths := j_ths s; j_ok := false |}
          else if push then
            let ok := Z.of_nat (length (j_q s)) <? cap in
            let q' := j_q s ++ [o_val r] in
            let r' := {| o_push := true; o_val := o_val r; o_lp := true; o_got := 0; o_excuse := o_excuse r; o_wait := o_wait r; o_left := o_left r |} in
            {| j_q := q'; j_ths := map (look cap q') (updn (j_ths s) i {| t_next := t_next t; t_cur := Some r'; t_done := t_done t |});
               j_ok := j_ok s && ok |}
          else
            match j_q s with
            | [] => {| j_q := []; j_ths := j_ths s; j_ok := false |}
            | x :: q' =>
                let r' := {| o_push := false; o_val := 0; o_lp := true; o_got := x; o_excuse := o_excuse r; o_wait := o_wait r; o_left := o_left r |} in
                {| j_q := q'; j_ths := map (look cap q') (updn (j_ths s) i {| t_next := t_next t; t_cur := Some r'; t_done := t_done t |});
                   j_ok := j_ok s |}
            end
      | None => {| j_q := j_q s; j_ths := j_ths s; j_ok := false |}
      end
  | None => {| j_q := j_q s; j_ths := j_ths s; j_ok := false |}
  end.

(* reported results of one thread against its records: [1; b] for Push, [2; ok; v] for Pop *)
Fixpoint check_results (cap : Z) (recs : list oprec) (res : list Z) : bool :=
  match recs, res with
  | [], [] => true
  | r :: recs', 1 :: b :: res' =>
      o_push r && Bool.eqb (negb (b =? 0)) (o_lp r) && (o_lp r || o_excuse r || o_wait r) && check_results cap recs' res'
  | r :: recs', 2 :: ok :: v :: res' =>
      negb (o_push r) && Bool.eqb (negb (ok =? 0)) (o_lp r) && (if o_lp r then v =? o_got r else (v =? 0) && (o_excuse r || o_wait r))
      && check_results cap recs' res'
  | r :: recs', 3 :: z :: res' =>
      (* an observer that ran alone is exact; one that overlapped other operations stays within its range *)
      (o_val r <? 0) && (if o_excuse r then (0 <=? z) && ((if o_val r =? -1 then cap else 1) >=? z) else z =? o_got r)
      && check_results cap recs' res'
  | _, _ => false
  end.
