(* C18 — algz/dp.go: Knapsack, FindDpSolvers, DpSolvers.Best / BestAllowMinOverflow.
   Items are identified by their index in the argument slice (a selection = list of indices in the order the code
   appends them).  Go's map iteration order is an explicit argument ([ord]); the optional tie-breaker is an arbitrary
   function on two selections.  Specification side: selections = strictly increasing index lists, brute force over
   all of them ([subseqs]).  No proofs in this file. *)
From Coq Require Import List ZArith Bool Arith Sorted.
Import ListNotations.

Definition breaker := option (list nat -> list nat -> bool).

(* ================================================================================================ *)
(* Knapsack (dp.go:118-149): table of (score, chosen indices) per capacity, inner loop from maxWeight down to w,
   in place.  tmp is a scratch copy that is fully rewritten before each use: it carries no state. *)
Record cell := { score : Z; sel : list nat }.
Definition d0 : cell := {| score := 0; sel := [] |}.

Fixpoint upd (l : list cell) (i : nat) (x : cell) : list cell :=
  match l, i with
  | [], _ => []
  | _ :: t, O => x :: t
  | h :: t, S j => h :: upd t j x
  end.

Definition item := (nat * Z)%type.             (* weight, value *)

Definition cell_step (brk : breaker) (w : nat) (v : Z) (idx : nat) (dp : list cell) (i : nat) : list cell :=
  let a := nth (i - w) dp d0 in
  let b := nth i dp d0 in
  let ns := (score a + v)%Z in
  let cand := {| score := ns; sel := sel a ++ [idx] |} in
  if (score b <? ns)%Z then upd dp i cand
  else if (ns =? score b)%Z then
    match brk with
    | Some f => if f (sel b) (sel a ++ [idx]) then upd dp i cand else dp
    | None => dp
    end
  else dp.

(* for i := W; i >= w; i-- *)
Definition inner (brk : breaker) (W w : nat) (v : Z) (idx : nat) (dp : list cell) : list cell :=
  fold_left (cell_step brk w v idx) (rev (seq w (S W - w))) dp.

Fixpoint outer (brk : breaker) (W : nat) (items : list item) (idx : nat) (dp : list cell) : list cell :=
  match items with
  | [] => dp
  | (w, v) :: t => outer brk W t (S idx) (inner brk W w v idx dp)
  end.
Definition knapsack (brk : breaker) (W : nat) (items : list item) : list nat :=
  sel (nth W (outer brk W items 0 (repeat d0 (S W))) d0).

(* Go ints: make([]knapsack, maxWeight+1) / dp[maxWeight] panic for maxWeight < 0; dp[i-w] panics for w < 0
   (i = maxWeight >= w is the first index tried).  None = panic. *)
Definition knapsack_z (brk : breaker) (W : Z) (items : list (Z * Z)) : option (list nat) :=
  if (W <? 0)%Z then None
  else if existsb (fun it => (fst it <? 0)%Z) items then None
  else Some (knapsack brk (Z.to_nat W) (map (fun it => (Z.to_nat (fst it), snd it)) items)).

(* ---- specification vocabulary ---- *)
Section KSpec.
Variable items : list item.
Definition wt (i : nat) : nat := fst (nth i items (0, 0%Z)).
Definition vl (i : nat) : Z := snd (nth i items (0, 0%Z)).
Definition weight (s : list nat) : nat := fold_right (fun i a => wt i + a) 0 s.
Definition value (s : list nat) : Z := fold_right (fun i a => (vl i + a)%Z) 0%Z s.
(* a selection among the first k items within capacity c: strictly increasing indices below k (each item at most once) *)
Definition valid (k c : nat) (s : list nat) : Prop :=
  StronglySorted lt s /\ Forall (fun i => i < k) s /\ weight s <= c.
End KSpec.

(* all selections among n items: the sub-sequences of [0; 1; ...; n-1] *)
Fixpoint subseqs {A} (l : list A) : list (list A) :=
  match l with
  | [] => [[]]
  | x :: t => let r := subseqs t in map (cons x) r ++ r
  end.
Fixpoint increasing (lo : nat) (s : list nat) : bool :=     (* strictly increasing, all >= lo *)
  match s with [] => true | i :: t => (lo <=? i) && increasing (S i) t end.
Definition sel_ok (n : nat) (s : list nat) : bool := increasing 0 s && forallb (fun i => i <? n) s.

(* judge: the selection uses each item at most once, stays within the limit, and no selection within the limit is worth more *)
Definition knap_ok (W : nat) (items : list item) (r : list nat) : bool :=
  sel_ok (length items) r && (weight items r <=? W) &&
  forallb (fun s => negb (weight items s <=? W) || (value items s <=? value items r)%Z) (subseqs (seq 0 (length items))).

(* ================================================================================================ *)
(* FindDpSolvers (dp.go:53-105) *)
Local Open Scope Z_scope.
Definition dcell := (Z * list nat)%type.            (* total, indices of the items used *)
Definition has (k : Z) (dp : list dcell) : bool := existsb (fun c => fst c =? k) dp.
Fixpoint lookup (k : Z) (dp : list dcell) : option (list nat) :=
  match dp with [] => None | (k', s) :: t => if k' =? k then Some s else lookup k t end.

(* one round: entries = the current map in iteration order; tmp = dpTmp; ovf = the `overflow` variable *)
Fixpoint round_go (brk : breaker) (maxV v : Z) (idx : nat) (allow : bool) (dp entries tmp : list dcell) (ovf : Z)
  : list dcell * Z :=
  match entries with
  | [] => (tmp, ovf)
  | (cur, s) :: t =>
      let nv := cur + v in
      if (maxV <? nv) && (negb allow || ((0 <? ovf) && (ovf <? nv))) then round_go brk maxV v idx allow dp t tmp ovf
      else
        let ovf' := if maxV <? nv then nv else ovf in
        match lookup nv dp, brk with
        | Some old, None => round_go brk maxV v idx allow dp t tmp ovf'
        | Some old, Some f =>
            if f old (s ++ [idx]) then round_go brk maxV v idx allow dp t ((nv, s ++ [idx]) :: tmp) ovf'
            else round_go brk maxV v idx allow dp t tmp ovf'
        | None, _ => round_go brk maxV v idx allow dp t ((nv, s ++ [idx]) :: tmp) ovf'
        end
  end.

(* for v, solver := range dpTmp { dp[v] = solver } *)
Definition merge (dp tmp : list dcell) : list dcell := tmp ++ filter (fun c => negb (has (fst c) tmp)) dp.

(* ord k dp = the order in which Go's map iteration yields the entries of dp in round k (a permutation of dp) *)
Fixpoint solve (brk : breaker) (maxV : Z) (allow : bool) (ord : nat -> list dcell -> list dcell) (vals : list Z) (n : nat)
  : list dcell * Z :=
  match n with
  | O => ([(0, [])], 0)
  | S k => let '(dp, ovf) := solve brk maxV allow ord vals k in
           let '(tmp, ovf') := round_go brk maxV (nth k vals 0) k allow dp (ord k dp) [] ovf in (merge dp tmp, ovf')
  end.
Definition find_dp_solvers (brk : breaker) (maxV : Z) (allow : bool) (ord : nat -> list dcell -> list dcell) (vals : list Z)
  : list dcell := fst (solve brk maxV allow ord vals (length vals)).

(* ---- Best / BestAllowMinOverflow: a scan of the map's keys in iteration order; result = the chosen key ---- *)
Definition maxint : Z := 9223372036854775807.
Fixpoint best_go (maxV : Z) (keys : list Z) (best : option Z) (minDiff : Z) : option Z :=
  match keys with
  | [] => best
  | v :: t => let diff := maxV - v in
              if (0 <=? diff) && (diff <? minDiff) then best_go maxV t (Some v) diff else best_go maxV t best minDiff
  end.
Definition best (maxV : Z) (keys : list Z) : option Z :=
  if existsb (Z.eqb maxV) keys then Some maxV else best_go maxV keys None maxint.

Fixpoint over_go (maxV : Z) (keys : list Z) (best : option Z) (minDiff : Z) : option Z :=
  match keys with
  | [] => best
  | v :: t => let diff := maxV - v in
              if diff <? 0 then
                (if (0 <? minDiff) || (minDiff <? diff) then over_go maxV t (Some v) diff else over_go maxV t best minDiff)
              else if diff <? minDiff then over_go maxV t (Some v) diff else over_go maxV t best minDiff
  end.
Definition best_over (maxV : Z) (keys : list Z) : option Z :=
  if existsb (Z.eqb maxV) keys then Some maxV else over_go maxV keys None maxint.

(* ---- specification vocabulary ---- *)
(* specification, independent of order *)
Definition is_best (maxV : Z) (keys : list Z) (r : option Z) : Prop :=
  match r with
  | Some b => In b keys /\ b <= maxV /\ forall k, In k keys -> k <= maxV -> k <= b
  | None => forall k, In k keys -> maxV < k
  end.
Definition is_best_over (maxV : Z) (keys : list Z) (r : option Z) : Prop :=
  match r with
  | Some b => In b keys /\
              ((b = maxV) \/
               (maxV < b /\ ~ In maxV keys /\ forall k, In k keys -> maxV < k -> b <= k) \/        (* smallest overshoot *)
               (b < maxV /\ (forall k, In k keys -> k <= maxV) /\ forall k, In k keys -> k <= b))     (* nothing overshoots *)
  | None => keys = []
  end.

Definition dvl (vals : list Z) (i : nat) : Z := nth i vals 0.
Definition total (vals : list Z) (s : list nat) : Z := fold_right (fun i a => dvl vals i + a) 0 s.
(* a selection among the first k items: strictly increasing indices below k (no item twice) *)
Definition dvalid (k : nat) (s : list nat) : Prop := StronglySorted lt s /\ Forall (fun i => (i < k)%nat) s.
Definition attainable (vals : list Z) (k : nat) (t : Z) : Prop := exists s, dvalid k s /\ total vals s = t.
Definition cells_ok (vals : list Z) (k : nat) (dp : list dcell) : Prop :=
  Forall (fun c => dvalid k (snd c) /\ total vals (snd c) = fst c) dp.
(* t is the least attainable total above maxV *)
Definition least_over (vals : list Z) (n : nat) (maxV t : Z) : Prop :=
  attainable vals n t /\ maxV < t /\ forall t', attainable vals n t' -> maxV < t' -> t <= t'.
(* all totals some selection attains (brute force) *)
Definition totals (vals : list Z) : list Z := map (total vals) (subseqs (seq 0 (length vals))).
Definition mem (x : Z) (l : list Z) : bool := existsb (Z.eqb x) l.
Fixpoint nodupb (l : list Z) : bool := match l with [] => true | x :: t => negb (mem x t) && nodupb t end.

(* judge of a returned map (keys distinct; iteration order irrelevant):
   every cell is a selection with exactly its key as total; the keys <= maxV are exactly the attainable totals <= maxV;
   keys above maxV only with allow, and then the least attainable total above maxV (if any) is a key *)
Definition solvers_ok (maxV : Z) (allow : bool) (vals : list Z) (dp : list dcell) : bool :=
  let keys := map fst dp in
  let att := totals vals in
  nodupb keys &&
  forallb (fun c => sel_ok (length vals) (snd c) && (total vals (snd c) =? fst c)) dp &&
  forallb (fun t => (maxV <? t) || mem t keys) att &&
  (allow || forallb (fun k => k <=? maxV) keys) &&
  (negb allow || forallb (fun t => negb (maxV <? t) || existsb (fun k => (maxV <? k) && (k <=? t)) keys) att).

(* what the judge of a returned map means *)
Definition solvers_prop (maxV : Z) (allow : bool) (vals : list Z) (dp : list dcell) : Prop :=
  let n := length vals in
  NoDup (map fst dp) /\ cells_ok vals n dp /\
  (forall t, t <= maxV -> (attainable vals n t <-> has t dp = true)) /\
  (allow = false -> forall t, has t dp = true -> t <= maxV) /\
  (allow = true -> forall t, least_over vals n maxV t -> has t dp = true).

(* the order-independent part of the result: the entries with key <= maxV and the smallest key above it *)
Definition min_over (maxV : Z) (dp : list dcell) : option dcell :=
  fold_left (fun acc c => if maxV <? fst c then
                            match acc with Some (k, _) => if fst c <? k then Some c else acc | None => Some c end
                          else acc) dp None.
Definition stable_part (maxV : Z) (dp : list dcell) : list dcell :=
  filter (fun c => fst c <=? maxV) dp ++ match min_over maxV dp with Some c => [c] | None => [] end.

(* judges of Best / BestAllowMinOverflow against the key set they were called on *)
Definition best_ok (q : Z) (keys : list Z) (r : option Z) : bool :=
  match r with
  | Some b => mem b keys && (b <=? q) && forallb (fun k => negb (k <=? q) || (k <=? b)) keys
  | None => forallb (fun k => q <? k) keys
  end.
Definition best_over_ok (q : Z) (keys : list Z) (r : option Z) : bool :=
  match r with
  | Some b => mem b keys &&
              ((b =? q) ||
               ((q <? b) && negb (mem q keys) && forallb (fun k => negb (q <? k) || (b <=? k)) keys) ||
               ((b <? q) && forallb (fun k => k <=? q) keys && forallb (fun k => k <=? b) keys))
  | None => match keys with [] => true | _ => false end
  end.

(* ================================================================================================ *)
(* FindDpSolvers once more, at the level of buffers: a cell is a Go slice (pointer = buffer identity, length); the
   contents live in a heap of buffers; tmpPool is a stack of recycled slices.  This is the model about which
   "a recycled buffer never aliases a live cell" ([private]) is stated; [herase] maps it onto the value-level model above.
   [grow oldcap need] is Go's append growth policy (any function; the new capacity is at least [need]);
   [pord] is the order in which the commit loop `for v, solver := range dpTmp` meets the replaced cells. *)
Local Open Scope nat_scope.
Record slice := { sid : nat; slen : nat }.
Definition buf := list nat.                               (* the whole capacity window of a buffer; unwritten slots hold 0 *)
Definition hcell := (Z * slice)%type.
Definition content (heap : list buf) (s : slice) : list nat := firstn (slen s) (nth (sid s) heap []).
Fixpoint set_nth {A} (l : list A) (i : nat) (x : A) : list A :=
  match l, i with
  | [], _ => []
  | _ :: t, O => x :: t
  | h :: t, S j => h :: set_nth t j x
  end.

(* append(s, xs...) *)
Definition happend (grow : nat -> nat -> nat) (heap : list buf) (s : slice) (xs : list nat) : list buf * slice :=
  let data := nth (sid s) heap [] in
  let need := slen s + length xs in
  if need <=? length data then
    (set_nth heap (sid s) (firstn (slen s) data ++ xs ++ skipn need data), {| sid := sid s; slen := need |})
  else
    let c := Nat.max (grow (length data) need) need in
    (heap ++ [firstn (slen s) data ++ xs ++ repeat 0 (c - need)], {| sid := length heap; slen := need |}).

(* tmpPool.Get(initCap) / Put: the pool is a stack (head = last entry) *)
Definition hget (heap : list buf) (pool : list slice) (n : nat) : list buf * list slice * slice :=
  match pool with
  | [] => (heap ++ [repeat 0 n], [], {| sid := length heap; slen := 0 |})
  | s :: rest => (heap, rest, {| sid := sid s; slen := 0 |})
  end.

(* newSolver := tmpPool.Get(len(solver)+1); newSolver = append(newSolver, solver...); newSolver = append(newSolver, item)
   with xs = the contents of solver *)
Definition mk (grow : nat -> nat -> nat) (heap : list buf) (pool : list slice) (xs : list nat) (idx : nat) :=
  let '(heap1, pool1, ns) := hget heap pool (length xs + 1) in
  let '(heap2, ns2) := happend grow heap1 ns xs in
  let '(heap3, ns3) := happend grow heap2 ns2 [idx] in (heap3, pool1, ns3).

Definition hhas (k : Z) (dp : list hcell) : bool := existsb (fun c => (fst c =? k)%Z) dp.
Fixpoint hlookup (k : Z) (dp : list hcell) : option slice :=
  match dp with [] => None | (k', s) :: t => if (k' =? k)%Z then Some s else hlookup k t end.

Record hst := { h_heap : list buf; h_tmp : list hcell; h_pool : list slice; h_ovf : Z }.

Fixpoint hround (brk : breaker) (grow : nat -> nat -> nat) (maxV v : Z) (idx : nat) (allow : bool) (dp entries : list hcell)
  (st : hst) : hst :=
  match entries with
  | [] => st
  | (cur, s) :: t =>
      let nv := (cur + v)%Z in
      if ((maxV <? nv) && (negb allow || ((0 <? h_ovf st) && (h_ovf st <? nv))))%Z then hround brk grow maxV v idx allow dp t st
      else
        let ovf' := if (maxV <? nv)%Z then nv else h_ovf st in
        match hlookup nv dp, brk with
        | Some old, None => hround brk grow maxV v idx allow dp t {| h_heap := h_heap st; h_tmp := h_tmp st; h_pool := h_pool st; h_ovf := ovf' |}
        | oldo, _ =>
            let '(heap3, pool1, ns3) := mk grow (h_heap st) (h_pool st) (content (h_heap st) s) idx in
            let keep := match oldo, brk with
                        | Some old, Some f => f (content heap3 old) (content heap3 ns3)
                        | _, _ => true
                        end in
            if keep then hround brk grow maxV v idx allow dp t {| h_heap := heap3; h_tmp := (nv, ns3) :: h_tmp st; h_pool := pool1; h_ovf := ovf' |}
            else hround brk grow maxV v idx allow dp t {| h_heap := heap3; h_tmp := h_tmp st; h_pool := ns3 :: pool1; h_ovf := ovf' |}
        end
  end.

(* for v, solver := range dpTmp { if old, ok := dp[v]; ok { tmpPool.Put(old) }; dp[v] = solver } *)
Definition hmerge (pord : list slice -> list slice) (dp tmp : list hcell) (pool : list slice) : list hcell * list slice :=
  (tmp ++ filter (fun c => negb (hhas (fst c) tmp)) dp,
   pord (map snd (filter (fun c => hhas (fst c) tmp) dp)) ++ pool).

Record hstate := { s_heap : list buf; s_dp : list hcell; s_pool : list slice; s_ovf : Z }.
Fixpoint hsolve (brk : breaker) (grow : nat -> nat -> nat) (maxV : Z) (allow : bool)
  (ord : nat -> list hcell -> list hcell) (pord : list slice -> list slice) (vals : list Z) (n : nat) : hstate :=
  match n with
  | O => {| s_heap := [[]]; s_dp := [(0%Z, {| sid := 0; slen := 0 |})]; s_pool := []; s_ovf := 0%Z |}
  | S k => let st := hsolve brk grow maxV allow ord pord vals k in
           let r := hround brk grow maxV (nth k vals 0%Z) k allow (s_dp st) (ord k (s_dp st))
                      {| h_heap := s_heap st; h_tmp := []; h_pool := s_pool st; h_ovf := s_ovf st |} in
           let (dp', pool') := hmerge pord (s_dp st) (h_tmp r) (h_pool r) in
           {| s_heap := h_heap r; s_dp := dp'; s_pool := pool'; s_ovf := h_ovf r |}
  end.

(* the value-level view of a buffer-level map *)
Definition herase (heap : list buf) (dp : list hcell) : list dcell := map (fun c => (fst c, content heap (snd c))) dp.
(* no two live cells share a buffer, and no recycled buffer is still referenced by a live cell (or recycled twice);
   every slice points into the heap and stays within its buffer's capacity *)
Definition private (heap : list buf) (cells : list hcell) (pool : list slice) : Prop :=
  NoDup (map sid (map snd cells ++ pool)) /\
  Forall (fun s => sid s < length heap /\ slen s <= length (nth (sid s) heap [])) (map snd cells ++ pool).
