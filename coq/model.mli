
val negb : bool -> bool

type nat =
| O
| S of nat

val fst : ('a1 * 'a2) -> 'a1

val snd : ('a1 * 'a2) -> 'a2

val length : 'a1 list -> nat

val app : 'a1 list -> 'a1 list -> 'a1 list

type comparison =
| Eq
| Lt
| Gt

val compOpp : comparison -> comparison

val add : nat -> nat -> nat

val mul : nat -> nat -> nat

val sub : nat -> nat -> nat

module Nat :
 sig
  val eqb : nat -> nat -> bool

  val leb : nat -> nat -> bool

  val ltb : nat -> nat -> bool

  val max : nat -> nat -> nat
 end

val nth : nat -> 'a1 list -> 'a1 -> 'a1

val rev : 'a1 list -> 'a1 list

val concat : 'a1 list list -> 'a1 list

val map : ('a1 -> 'a2) -> 'a1 list -> 'a2 list

val fold_left : ('a1 -> 'a2 -> 'a1) -> 'a2 list -> 'a1 -> 'a1

val existsb : ('a1 -> bool) -> 'a1 list -> bool

val forallb : ('a1 -> bool) -> 'a1 list -> bool

val filter : ('a1 -> bool) -> 'a1 list -> 'a1 list

val firstn : nat -> 'a1 list -> 'a1 list

val skipn : nat -> 'a1 list -> 'a1 list

val seq : nat -> nat -> nat list

val repeat : 'a1 -> nat -> 'a1 list

type positive =
| XI of positive
| XO of positive
| XH

type n =
| N0
| Npos of positive

type z =
| Z0
| Zpos of positive
| Zneg of positive

module Pos :
 sig
  type mask =
  | IsNul
  | IsPos of positive
  | IsNeg
 end

module Coq_Pos :
 sig
  val succ : positive -> positive

  val add : positive -> positive -> positive

  val add_carry : positive -> positive -> positive

  val pred_double : positive -> positive

  val pred_N : positive -> n

  type mask = Pos.mask =
  | IsNul
  | IsPos of positive
  | IsNeg

  val succ_double_mask : mask -> mask

  val double_mask : mask -> mask

  val double_pred_mask : positive -> mask

  val sub_mask : positive -> positive -> mask

  val sub_mask_carry : positive -> positive -> mask

  val mul : positive -> positive -> positive

  val iter : ('a1 -> 'a1) -> 'a1 -> positive -> 'a1

  val compare_cont : comparison -> positive -> positive -> comparison

  val compare : positive -> positive -> comparison

  val eqb : positive -> positive -> bool

  val coq_Nsucc_double : n -> n

  val coq_Ndouble : n -> n

  val coq_lor : positive -> positive -> positive

  val coq_land : positive -> positive -> n

  val ldiff : positive -> positive -> n

  val shiftl : positive -> n -> positive

  val testbit : positive -> n -> bool

  val iter_op : ('a1 -> 'a1 -> 'a1) -> positive -> 'a1 -> 'a1

  val to_nat : positive -> nat

  val of_succ_nat : nat -> positive
 end

module N :
 sig
  val succ_double : n -> n

  val double : n -> n

  val add : n -> n -> n

  val sub : n -> n -> n

  val mul : n -> n -> n

  val compare : n -> n -> comparison

  val eqb : n -> n -> bool

  val leb : n -> n -> bool

  val ltb : n -> n -> bool

  val max : n -> n -> n

  val div2 : n -> n

  val pos_div_eucl : positive -> n -> n * n

  val div_eucl : n -> n -> n * n

  val div : n -> n -> n

  val coq_lor : n -> n -> n

  val coq_land : n -> n -> n

  val ldiff : n -> n -> n

  val shiftl : n -> n -> n

  val shiftr : n -> n -> n

  val testbit : n -> n -> bool

  val to_nat : n -> nat

  val of_nat : nat -> n
 end

module Z :
 sig
  val double : z -> z

  val succ_double : z -> z

  val pred_double : z -> z

  val pos_sub : positive -> positive -> z

  val add : z -> z -> z

  val opp : z -> z

  val sub : z -> z -> z

  val mul : z -> z -> z

  val compare : z -> z -> comparison

  val leb : z -> z -> bool

  val ltb : z -> z -> bool

  val eqb : z -> z -> bool

  val max : z -> z -> z

  val min : z -> z -> z

  val to_nat : z -> nat

  val to_N : z -> n

  val of_nat : nat -> z

  val of_N : n -> z

  val pos_div_eucl : positive -> z -> z * z

  val div_eucl : z -> z -> z * z

  val div : z -> z -> z

  val modulo : z -> z -> z
 end

val pANIC : z

val nOFUEL : z

val bADCASE : z

val zb : bool -> z

val bz : z -> bool

val put_list : z list -> z list

val get_list : z list -> z list * z list

val of_Ns : n list -> z list

val hd0 : z list -> z

val nthz : z list -> nat -> z

val upd : n list -> nat -> n -> n list

val widx : n -> nat

val bidx : n -> n

val mask0 : n -> n

val contains : n list -> n -> bool

val add0 : n list -> n -> n list * bool

val remove : n list -> n -> n list * bool

type iter0 = { wi : nat; bj : n; rd : bool }

val bit_set : n list -> nat -> n -> bool

val scan : nat -> n list -> nat -> n -> (nat * n) option

val next : n list -> iter0 -> iter0 option

val value : iter0 -> n

val drain : nat -> n list -> iter0 -> n list

val diff : n list -> n list -> n list

val inter : n list -> n list -> n list

val merge : n list -> n list -> n list

val bits64 : n list

val popcount : n -> nat

val len : n list -> nat

val mlist : n -> n list -> n list

type bits = { words : n list; cached : z }

val grow : n list -> n -> n list

val cap : n list -> n

val b_add : bits -> n -> bits * bool

val b_remove : bits -> n -> bits * bool

val recount : n list -> bits

val enumerate : n list -> n list

val enumerate_stop : n list -> nat -> n list

type kind =
| KBits
| KBitmap
| KDsz

type op =
| OAdd of bool * n
| ORemove of bool * n
| OContains of bool * n
| OLen of bool
| OCap of bool
| OGrow of bool * n
| OIter of bool
| ORange of bool * nat
| OAll of bool * nat
| ODiff of bool
| OIntersect of bool
| OMerge of bool
| OClone of bool

val sel : bool -> ('a1 * 'a1) -> 'a1

val upd2 : bool -> ('a1 * 'a1) -> 'a1 -> 'a1 * 'a1

val len_of : kind -> bits -> z

val step : kind -> (bits * bits) -> op -> (bits * bits) * z list

val run : kind -> (bits * bits) -> op list -> z list

val empty : bits

val s_insert : n -> n list -> n list

val s_delete : n -> n list -> n list

val s_mem : n -> n list -> bool

val s_diff : n list -> n list -> n list

val s_inter : n list -> n list -> n list

val s_union : n list -> n list -> n list

type sset = { elems : n list; scap : n }

val need : n -> n

val s_step : kind -> (sset * sset) -> op -> (sset * sset) * z list

val s_run : kind -> (sset * sset) -> op list -> z list

val s_empty : sset

val dec_kind : z -> kind

val dec_op : z -> z -> z -> op option

val dec_ops : nat -> z list -> op list option

val entry : z -> z list -> z list

val runeError : z

val encode : z -> z list

val cont : z -> bool

val inr : z -> z -> z -> bool

val decode : z list -> z * nat

val width : z list -> nat

val encode_rune : z -> z list

val decode_all_fuel : nat -> z list -> (z * nat) list

val decode_all : z list -> (z * nat) list

val runes : z list -> z list

val valid_utf8 : z list -> bool

type res =
| Ret of z list
| Panic
| Stuck

val two63 : z

val two64 : z

val maxint : z

val wrap64 : z -> z

val alloc_limit : z

val zlen : z list -> z

val sl : z list -> nat -> nat -> res

val bind : res -> (z list -> res) -> res

val adv : z list -> nat

val chunks_fuel : nat -> z list -> z list list

val chunks : z list -> z list list

val clampn : z -> 'a1 list -> nat

val firstz : z -> 'a1 list -> 'a1 list

val skipz : z -> 'a1 list -> 'a1 list

val count_go : nat -> z list -> z -> z

val rune_count_z : z list -> z

val len0 : z list -> z

val sub_go : z list -> z -> z -> nat -> nat -> z -> z -> res

val sub0 : z list -> z -> z -> res

val spec_sub : z list -> z -> z -> z list

val repeat_str : z list -> z -> res

val idx_go :
  z list -> z -> z -> nat -> nat -> z -> nat -> nat -> (nat * nat) option

val mask1 : z list -> z list -> z -> z -> res

val spec_mask : z list -> z list -> z -> z -> z list

val disp : z -> z

val sbd_go : z list -> z -> nat -> nat -> z -> res

val sub_by_display : z list -> z -> res

val cdisp : z list -> z

val fit : z list list -> z -> z list list

val spec_sub_by_display : z list -> z -> z list

val rev_str : z list -> z list

val spec_rev : z list -> z list

val rr_go : (z -> bool) -> z list -> nat -> nat -> bool -> z list -> res

val remove_runes : (z -> bool) -> z list -> res

val crune : z list -> z

val spec_remove_runes : (z -> bool) -> z list -> z list

val uc_first : z list -> z list

val lc_first : z list -> z list

val wr : z list -> z list -> nat -> nat -> res

val s2c_go : z list -> nat -> nat -> nat -> bool -> z list -> res

val snake_to_camel : z list -> bool -> res

val c2s_go : z list -> nat -> nat -> nat -> z list -> res

val camel_to_snake : z list -> res

val lower : z -> bool

val digit : z -> bool

val ident_go : z list -> bool -> bool

val ident : z list -> bool

val get_int : z list -> z * z list

val enc_res : res -> z list

val pred : z -> z -> z -> bool

val roundtrip : z list -> bool -> res

val run_model : z -> z list -> z list

val run_spec : z -> z list -> z list

val entry0 : z -> z list -> z list

val dispatch : z -> z -> z list -> z list
