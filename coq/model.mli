
val negb : bool -> bool

type nat =
| O
| S of nat

val fst : ('a1 * 'a2) -> 'a1

val snd : ('a1 * 'a2) -> 'a2

val length : 'a1 list -> nat

val app : 'a1 list -> 'a1 list -> 'a1 list

type comparison =
| Eq
| Lt
| Gt

val compOpp : comparison -> comparison

val add : nat -> nat -> nat

val mul : nat -> nat -> nat

val sub : nat -> nat -> nat

val eqb : bool -> bool -> bool

module Nat :
 sig
  val eqb : nat -> nat -> bool

  val leb : nat -> nat -> bool

  val ltb : nat -> nat -> bool
 end

val tl : 'a1 list -> 'a1 list

val nth : nat -> 'a1 list -> 'a1 -> 'a1

val nth_error : 'a1 list -> nat -> 'a1 option

val rev : 'a1 list -> 'a1 list

val rev_append : 'a1 list -> 'a1 list -> 'a1 list

val rev' : 'a1 list -> 'a1 list

val concat : 'a1 list list -> 'a1 list

val map : ('a1 -> 'a2) -> 'a1 list -> 'a2 list

val flat_map : ('a1 -> 'a2 list) -> 'a1 list -> 'a2 list

val fold_left : ('a1 -> 'a2 -> 'a1) -> 'a2 list -> 'a1 -> 'a1

val existsb : ('a1 -> bool) -> 'a1 list -> bool

val forallb : ('a1 -> bool) -> 'a1 list -> bool

val filter : ('a1 -> bool) -> 'a1 list -> 'a1 list

val firstn : nat -> 'a1 list -> 'a1 list

val skipn : nat -> 'a1 list -> 'a1 list

val seq : nat -> nat -> nat list

val repeat : 'a1 -> nat -> 'a1 list

type positive =
| XI of positive
| XO of positive
| XH

type n =
| N0
| Npos of positive

type z =
| Z0
| Zpos of positive
| Zneg of positive

module Pos :
 sig
  type mask =
  | IsNul
  | IsPos of positive
  | IsNeg
 end

module Coq_Pos :
 sig
  val succ : positive -> positive

  val add : positive -> positive -> positive

  val add_carry : positive -> positive -> positive

  val pred_double : positive -> positive

  val pred_N : positive -> n

  type mask = Pos.mask =
  | IsNul
  | IsPos of positive
  | IsNeg

  val succ_double_mask : mask -> mask

  val double_mask : mask -> mask

  val double_pred_mask : positive -> mask

  val sub_mask : positive -> positive -> mask

  val sub_mask_carry : positive -> positive -> mask

  val mul : positive -> positive -> positive

  val iter : ('a1 -> 'a1) -> 'a1 -> positive -> 'a1

  val compare_cont : comparison -> positive -> positive -> comparison

  val compare : positive -> positive -> comparison

  val eqb : positive -> positive -> bool

  val coq_Nsucc_double : n -> n

  val coq_Ndouble : n -> n

  val coq_lor : positive -> positive -> positive

  val coq_land : positive -> positive -> n

  val ldiff : positive -> positive -> n

  val shiftl : positive -> n -> positive

  val testbit : positive -> n -> bool

  val iter_op : ('a1 -> 'a1 -> 'a1) -> positive -> 'a1 -> 'a1

  val to_nat : positive -> nat

  val of_succ_nat : nat -> positive
 end

module N :
 sig
  val succ_double : n -> n

  val double : n -> n

  val add : n -> n -> n

  val sub : n -> n -> n

  val mul : n -> n -> n

  val compare : n -> n -> comparison

  val eqb : n -> n -> bool

  val leb : n -> n -> bool

  val ltb : n -> n -> bool

  val max : n -> n -> n

  val div2 : n -> n

  val pos_div_eucl : positive -> n -> n * n

  val div_eucl : n -> n -> n * n

  val div : n -> n -> n

  val coq_lor : n -> n -> n

  val coq_land : n -> n -> n

  val ldiff : n -> n -> n

  val shiftl : n -> n -> n

  val shiftr : n -> n -> n

  val testbit : n -> n -> bool

  val to_nat : n -> nat

  val of_nat : nat -> n
 end

module Z :
 sig
  val double : z -> z

  val succ_double : z -> z

  val pred_double : z -> z

  val pos_sub : positive -> positive -> z

  val add : z -> z -> z

  val opp : z -> z

  val sub : z -> z -> z

  val mul : z -> z -> z

  val pow_pos : z -> positive -> z

  val pow : z -> z -> z

  val compare : z -> z -> comparison

  val leb : z -> z -> bool

  val ltb : z -> z -> bool

  val eqb : z -> z -> bool

  val to_nat : z -> nat

  val to_N : z -> n

  val of_nat : nat -> z

  val of_N : n -> z

  val pos_div_eucl : positive -> z -> z * z

  val div_eucl : z -> z -> z * z

  val modulo : z -> z -> z
 end

val pANIC : z

val bADCASE : z

val zb : bool -> z

val bz : z -> bool

val put_list : z list -> z list

val get_list : z list -> z list * z list

val get_lists : nat -> z list -> z list list * z list

val of_Ns : n list -> z list

val list_eqb : z list -> z list -> bool

val m32 : z

val u32 : z -> z

val upd : 'a1 list -> nat -> 'a1 -> 'a1 list

type phase =
| Free of z
| PushOwned of z
| Published of z
| PopOwned of z

type lin_ev =
| LPush of z
| LPop of z

type shared = { slots : (z option * z) list; hd : z; tl0 : z; cap : z;
                q : z list; ph : phase list; lin : lin_ev list }

type pc =
| Idle
| PuLoadTail of z
| PuLoadSeq of z * z * z
| PuCas of z * z * z * z
| PuWrite of z * z * z * z
| PuPublish of z * z * z * z
| PoLoadHead
| PoLoadSeq of z * z
| PoCas of z * z * z
| PoRead of z * z * z * z
| PoClear of z * z * z * z * z option
| PoRelease of z * z * z * z * z option

type op =
| OpPush of z
| OpPop

type res =
| RPush of bool
| RPop of z option * z option

val sidx : shared -> z -> nat

val set_slot : shared -> nat -> (z option * z) -> phase -> shared

val tstep : shared -> pc -> op -> ((shared * pc) * res option) option

type config = { sh : shared; ths : pc list; hist : (nat * res) list }

val step : config -> (nat * op) -> config option

type oprec = { o_push : bool; o_val : z; o_lp : bool; o_got : z;
               o_excuse : bool }

type tstate = { t_next : nat; t_cur : oprec option; t_done : oprec list }

type jstate = { j_q : z list; j_ths : tstate list; j_ok : bool }

val updn : 'a1 list -> nat -> 'a1 -> 'a1 list

val set_excuse : oprec -> oprec

val boundary_now : z -> z list -> oprec -> bool

val look : z -> z list -> tstate -> tstate

val in_flight : tstate -> bool

val excuse_all : tstate -> tstate

val finish : tstate -> tstate

val j_start : z -> z list list -> jstate -> nat -> jstate

val j_lp : z -> jstate -> nat -> bool -> jstate

val check_results : oprec list -> z list -> bool

val evLoadU32 : z

val evStoreU32 : z

val evCasU32 : z

val locHead : z

val locTail : z

val loc_slot : shared -> z -> z

val slot_seq : shared -> z -> z

val observe : shared -> pc -> z list

val dec_op : z -> op

val updl : 'a1 list -> nat -> 'a1 -> 'a1 list

val all_free : shared -> bool

val warp : config -> z -> config

val go : config -> z list list -> z list -> z list -> (config * z list) option

val fill_val : z -> z

val seq_state : z -> z -> z -> nat -> config

val enc_res : res -> z list

val results_of : (nat * res) list -> nat -> z list

val enc_slot : (z option * z) -> z list

val completion : nat -> z list list -> z list

val run_case : z list -> z list

val entry0 : z -> z list -> z list

val judge_steps :
  nat -> z -> z list list -> jstate -> z list -> jstate * z list

val check_threads : tstate list -> z list -> bool * z list

val slot_vals : z list -> z list

val check_final : z -> z list -> z list -> bool

val judge : z list -> z list

val entry : z -> z list -> z list

type lin_ev0 =
| LPush0 of z
| LPop0 of z
| LEmpty

type shared0 = { vals : z option list; head : nat; tail : nat; len : 
                 z; q0 : z list; lin0 : lin_ev0 list }

type pc0 =
| Idle0
| PushLoadTail of z
| PushLoadNext of z * nat
| PushCas of z * nat * nat option
| PushAdd of nat * z
| PushStoreTail of nat * z
| PushYield of z
| PopLoadHead
| PopLoadTail of nat
| PopLoadNext of nat
| PopCas of nat * nat option
| PopRead of nat * z
| PopClear of nat * z * z option
| PopDec of nat * z * z option
| LenLoad

type op0 =
| OpPush0 of z
| OpPop0
| OpLen

type res0 =
| RPush0
| RPop0 of z option * z
| RPopEmpty
| RPopBusy
| RLen of z * z

val next_of : shared0 -> nat -> nat option

val upd0 : 'a1 list -> nat -> 'a1 -> 'a1 list

val tstep0 : shared0 -> pc0 -> op0 -> (shared0 * pc0) * res0 option

type config0 = { sh0 : shared0; ths0 : pc0 list; hist0 : (nat * res0) list }

val step0 : config0 -> (nat * op0) -> config0

val evLoadI64 : z

val evAddI64 : z

val evLoadPtr : z

val evStorePtr : z

val evCasPtr : z

val evGosched : z

val locLen : z

val locHead0 : z

val locTail0 : z

val loc_next : nat -> z

val ptr : nat option -> z

val observe0 : shared0 -> pc0 -> z list

val dec_op0 : z -> op0

val updl0 : 'a1 list -> nat -> 'a1 -> 'a1 list

val go0 : config0 -> z list list -> z list -> z list -> config0 * z list

val pre_val : nat -> z

val seq_state0 : nat -> nat -> config0

val enc_res0 : res0 -> z list

val results_of0 : (nat * res0) list -> nat -> z list

val stored : shared0 -> z list

val completion0 : nat -> z list list -> z list

val run_case0 : z list -> z list

type oprec0 = { o_kind : z; o_val0 : z; o_lp0 : bool; o_got0 : z;
                o_excuse0 : bool; o_lenmin : z }

type tstate0 = { t_next0 : nat; t_cur0 : oprec0 option;
                 t_done0 : oprec0 list; t_lasthead : z }

type jstate0 = { j_q0 : z list; j_ths0 : tstate0 list; j_ok0 : bool }

val bad : jstate0 -> jstate0

val in_flight0 : tstate0 -> bool

val with_cur : tstate0 -> oprec0 option -> tstate0

val excuse : oprec0 -> oprec0

val excuse_all0 : tstate0 -> tstate0

val look0 : z list -> tstate0 -> tstate0

val finish0 : tstate0 -> tstate0

val j_start0 : z list list -> jstate0 -> nat -> jstate0

val set_rec : jstate0 -> nat -> tstate0 -> oprec0 -> z list -> bool -> jstate0

val j_event : jstate0 -> nat -> z -> z -> z -> z -> z -> jstate0

val judge_steps0 : nat -> z list list -> jstate0 -> z list -> jstate0 * z list

val check_results0 : oprec0 list -> z list -> bool

val check_threads0 : tstate0 list -> z list -> bool * z list

val judge0 : z list -> z list

val entry1 : z -> z list -> z list

val upd1 : n list -> nat -> n -> n list

val widx : n -> nat

val bidx : n -> n

val mask0 : n -> n

val contains : n list -> n -> bool

val add0 : n list -> n -> n list * bool

val remove : n list -> n -> n list * bool

type iter0 = { wi : nat; bj : n; rd : bool }

val bit_set : n list -> nat -> n -> bool

val scan : nat -> n list -> nat -> n -> (nat * n) option

val next : n list -> iter0 -> iter0 option

val value : iter0 -> n

val drain : nat -> n list -> iter0 -> n list

val diff : n list -> n list -> n list

val inter : n list -> n list -> n list

val merge : n list -> n list -> n list

val bits64 : n list

val popcount : n -> nat

val len0 : n list -> nat

val mlist : n -> n list -> n list

type bits = { words : n list; cached : z }

val grow : n list -> n -> n list

val cap0 : n list -> n

val b_add : bits -> n -> bits * bool

val b_remove : bits -> n -> bits * bool

val recount : n list -> bits

val enumerate : n list -> n list

val enumerate_stop : n list -> nat -> n list

type kind =
| KBits
| KBitmap
| KDsz

type op1 =
| OAdd of bool * n
| ORemove of bool * n
| OContains of bool * n
| OLen of bool
| OCap of bool
| OGrow of bool * n
| OIter of bool
| ORange of bool * nat
| OAll of bool * nat
| ODiff of bool
| OIntersect of bool
| OMerge of bool
| OClone of bool

val sel : bool -> ('a1 * 'a1) -> 'a1

val upd2 : bool -> ('a1 * 'a1) -> 'a1 -> 'a1 * 'a1

val len_of : kind -> bits -> z

val step1 : kind -> (bits * bits) -> op1 -> (bits * bits) * z list

val run : kind -> (bits * bits) -> op1 list -> z list

val empty : bits

val s_insert : n -> n list -> n list

val s_delete : n -> n list -> n list

val s_mem : n -> n list -> bool

val s_diff : n list -> n list -> n list

val s_inter : n list -> n list -> n list

val s_union : n list -> n list -> n list

type sset = { elems : n list; scap : n }

val need : n -> n

val s_step : kind -> (sset * sset) -> op1 -> (sset * sset) * z list

val s_run : kind -> (sset * sset) -> op1 list -> z list

val s_empty : sset

val dec_kind : z -> kind

val dec_op1 : z -> z -> z -> op1 option

val dec_ops : nat -> z list -> op1 list option

val entry2 : z -> z list -> z list

val dispatch : z -> z -> z list -> z list
