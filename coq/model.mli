
val negb : bool -> bool

type nat =
| O
| S of nat

val fst : ('a1 * 'a2) -> 'a1

val snd : ('a1 * 'a2) -> 'a2

val length : 'a1 list -> nat

val app : 'a1 list -> 'a1 list -> 'a1 list

type comparison =
| Eq
| Lt
| Gt

val add : nat -> nat -> nat

val mul : nat -> nat -> nat

val sub : nat -> nat -> nat

module Nat :
 sig
  val leb : nat -> nat -> bool

  val ltb : nat -> nat -> bool
 end

val nth : nat -> 'a1 list -> 'a1 -> 'a1

val map : ('a1 -> 'a2) -> 'a1 list -> 'a2 list

val fold_left : ('a1 -> 'a2 -> 'a1) -> 'a2 list -> 'a1 -> 'a1

val existsb : ('a1 -> bool) -> 'a1 list -> bool

val filter : ('a1 -> bool) -> 'a1 list -> 'a1 list

val firstn : nat -> 'a1 list -> 'a1 list

val seq : nat -> nat -> nat list

val repeat : 'a1 -> nat -> 'a1 list

type positive =
| XI of positive
| XO of positive
| XH

type n =
| N0
| Npos of positive

type z =
| Z0
| Zpos of positive
| Zneg of positive

module Pos :
 sig
  type mask =
  | IsNul
  | IsPos of positive
  | IsNeg
 end

module Coq_Pos :
 sig
  val succ : positive -> positive

  val add : positive -> positive -> positive

  val add_carry : positive -> positive -> positive

  val pred_double : positive -> positive

  val pred_N : positive -> n

  type mask = Pos.mask =
  | IsNul
  | IsPos of positive
  | IsNeg

  val succ_double_mask : mask -> mask

  val double_mask : mask -> mask

  val double_pred_mask : positive -> mask

  val sub_mask : positive -> positive -> mask

  val sub_mask_carry : positive -> positive -> mask

  val mul : positive -> positive -> positive

  val iter : ('a1 -> 'a1) -> 'a1 -> positive -> 'a1

  val compare_cont : comparison -> positive -> positive -> comparison

  val compare : positive -> positive -> comparison

  val eqb : positive -> positive -> bool

  val coq_Nsucc_double : n -> n

  val coq_Ndouble : n -> n

  val coq_lor : positive -> positive -> positive

  val coq_land : positive -> positive -> n

  val ldiff : positive -> positive -> n

  val shiftl : positive -> n -> positive

  val testbit : positive -> n -> bool

  val iter_op : ('a1 -> 'a1 -> 'a1) -> positive -> 'a1 -> 'a1

  val to_nat : positive -> nat

  val of_succ_nat : nat -> positive
 end

module N :
 sig
  val succ_double : n -> n

  val double : n -> n

  val add : n -> n -> n

  val sub : n -> n -> n

  val mul : n -> n -> n

  val compare : n -> n -> comparison

  val eqb : n -> n -> bool

  val leb : n -> n -> bool

  val ltb : n -> n -> bool

  val max : n -> n -> n

  val div2 : n -> n

  val pos_div_eucl : positive -> n -> n * n

  val div_eucl : n -> n -> n * n

  val div : n -> n -> n

  val coq_lor : n -> n -> n

  val coq_land : n -> n -> n

  val ldiff : n -> n -> n

  val shiftl : n -> n -> n

  val shiftr : n -> n -> n

  val testbit : n -> n -> bool

  val to_nat : n -> nat

  val of_nat : nat -> n
 end

module Z :
 sig
  val double : z -> z

  val succ_double : z -> z

  val pred_double : z -> z

  val pos_sub : positive -> positive -> z

  val add : z -> z -> z

  val opp : z -> z

  val sub : z -> z -> z

  val eqb : z -> z -> bool

  val to_nat : z -> nat

  val to_N : z -> n

  val of_nat : nat -> z

  val of_N : n -> z
 end

val bADCASE : z

val zb : bool -> z

val bz : z -> bool

val put_list : z list -> z list

val of_Ns : n list -> z list

val upd : n list -> nat -> n -> n list

val widx : n -> nat

val bidx : n -> n

val mask0 : n -> n

val contains : n list -> n -> bool

val add0 : n list -> n -> n list * bool

val remove : n list -> n -> n list * bool

type iter0 = { wi : nat; bj : n; rd : bool }

val bit_set : n list -> nat -> n -> bool

val scan : nat -> n list -> nat -> n -> (nat * n) option

val next : n list -> iter0 -> iter0 option

val value : iter0 -> n

val drain : nat -> n list -> iter0 -> n list

val diff : n list -> n list -> n list

val inter : n list -> n list -> n list

val merge : n list -> n list -> n list

val bits64 : n list

val popcount : n -> nat

val len : n list -> nat

val mlist : n -> n list -> n list

type bits = { words : n list; cached : z }

val grow : n list -> n -> n list

val cap : n list -> n

val b_add : bits -> n -> bits * bool

val b_remove : bits -> n -> bits * bool

val recount : n list -> bits

val enumerate : n list -> n list

val enumerate_stop : n list -> nat -> n list

type kind =
| KBits
| KBitmap
| KDsz

type op =
| OAdd of bool * n
| ORemove of bool * n
| OContains of bool * n
| OLen of bool
| OCap of bool
| OGrow of bool * n
| OIter of bool
| ORange of bool * nat
| OAll of bool * nat
| ODiff of bool
| OIntersect of bool
| OMerge of bool
| OClone of bool

val sel : bool -> ('a1 * 'a1) -> 'a1

val upd2 : bool -> ('a1 * 'a1) -> 'a1 -> 'a1 * 'a1

val len_of : kind -> bits -> z

val step : kind -> (bits * bits) -> op -> (bits * bits) * z list

val run : kind -> (bits * bits) -> op list -> z list

val empty : bits

val s_insert : n -> n list -> n list

val s_delete : n -> n list -> n list

val s_mem : n -> n list -> bool

val s_diff : n list -> n list -> n list

val s_inter : n list -> n list -> n list

val s_union : n list -> n list -> n list

type sset = { elems : n list; scap : n }

val need : n -> n

val s_step : kind -> (sset * sset) -> op -> (sset * sset) * z list

val s_run : kind -> (sset * sset) -> op list -> z list

val s_empty : sset

val dec_kind : z -> kind

val dec_op : z -> z -> z -> op option

val dec_ops : nat -> z list -> op list option

val entry : z -> z list -> z list

val dispatch : z -> z -> z list -> z list
