(* C16: case encoding for the correspondence run.
   input  = kind :: ops, each op = [code; target; arg]  (arg = 0 where unused)
   sub 0  = model output;  sub 1 = spec output (set-of-N reference), both on the same input. *)
From Coq Require Import List ZArith NArith Bool.
From V Require Import Lib.Enc Model.Bits.
Import ListNotations.
Local Open Scope Z_scope.

Definition dec_kind (z : Z) : kind := if z =? 0 then KBits else if z =? 1 then KBitmap else KDsz.
Definition dec_op (c t a : Z) : option op :=
  let tb := bz t in let n := Z.to_N a in   (* no unary `Z.to_nat a` here: extraction is strict and a may be 2^60 *)
  (* Remove / Contains take the argument as the Go harness converts it: uint(a), i.e. a negative token stands for
     2^64 + a (values with the top bit set: an argument converted to a signed type would go negative) *)
  let au := if a <? 0 then 2 ^ 64 + a else a in
  (* the model indexes words by a unary nat: an argument beyond 2^20 is replaced by the representative 2^20 + (au mod 64),
     which lies beyond the capacity of every set a case can build (Add / Grow arguments are at most 2^18) and has the
     same bit index, so Remove / Contains answer the same (false, set unchanged) *)
  let nu := Z.to_N (if 2 ^ 20 <=? au then 2 ^ 20 + au mod 64 else au) in
  if c =? 0 then Some (OAdd tb n) else if c =? 1 then Some (ORemove tb nu) else
  if c =? 2 then Some (OContains tb nu) else if c =? 3 then Some (OLen tb) else
  if c =? 4 then Some (OCap tb) else if c =? 5 then Some (OGrow tb n) else
  if c =? 6 then Some (OIter tb) else if c =? 7 then Some (ORange tb (Z.to_nat a)) else
  if c =? 8 then Some (OAll tb (Z.to_nat a)) else if c =? 9 then Some (ODiff tb) else
  if c =? 10 then Some (OIntersect tb) else if c =? 11 then Some (OMerge tb) else
  if c =? 12 then Some (OClone tb) else None.
Fixpoint dec_ops (fuel : nat) (l : list Z) : option (list op) :=
  match fuel, l with
  | _, [] => Some []
  | S f, c :: t :: a :: r =>
      match dec_op c t a, dec_ops f r with Some o, Some os => Some (o :: os) | _, _ => None end
  | _, _ => None
  end.

Definition entry (sub : Z) (args : list Z) : list Z :=
  match args with
  | k :: r =>
      match dec_ops (length r) r with
      | Some ops =>
          if sub =? 0 then run (dec_kind k) (empty, empty) ops
          else if sub =? 1 then s_run (dec_kind k) (s_empty, s_empty) ops
          else [BADCASE]
      | None => [BADCASE]
      end
  | [] => [BADCASE]
  end.

(* in-kernel anchors: the same cases are the first lines of corpus/C16.txt *)
Example anchor1 : entry 0 [0; 0;0;5; 0;0;5; 0;0;64; 3;0;0; 4;0;0; 6;0;0] = [1; 0; 1; 2; 128; 2; 5; 64].
Proof. vm_compute. reflexivity. Qed.
Example anchor1s : entry 1 [0; 0;0;5; 0;0;5; 0;0;64; 3;0;0; 4;0;0; 6;0;0] = [1; 0; 1; 2; 128; 2; 5; 64].
Proof. vm_compute. reflexivity. Qed.
