(* C15: the case interpreter of Run/C15.v, kinds 0 (ParseUint), 1 (HexEncode) and 2 (HexDecode), executed through the
   GENERATED functions of Gen/StrconvCode.v (translated from strz/std_strconv.go, strz/std_hex.go and strz/enc.go by
   gen/trans.go + gen/trans_ext15.go) instead of the hand-written model.
   Proofs/StrconvCode.v proves  entry_code sub args = Run.C15.entry sub args  for all arguments, so the differential run of
   `entry 0` against the compiled package is, for these kinds, a run of the generated code.  (Not extracted: Run/C15.v does
   not depend on the generated file, so the differential run survives a translation that no longer compiles.)
   Outside the domain on which generated HexEncode and the model are proved equal (tokens that are not bytes, which the
   harness never sends) entry_code falls back to the model. *)
From Coq Require Import List ZArith Bool.
From V Require Import Lib.Enc Lib.GoSem Gen.StrzStd Gen.StrconvCode Model.Strconv Model.Hex Model.StrconvGrammar Run.C15.
Import ListNotations.
Local Open Scope Z_scope.

Definition is_byteb (c : Z) : bool := (0 <=? c) && (c <? 256).

Definition enc_m {A} (f : A -> list Z) (o : M A) : list Z :=
  match o with Ret a => f a | Panic => [PANIC] | NoFuel => [NOFUEL] end.

(* the error value of the generated code for the model's error: nil = 0, the kinds of gen/strconv_code.go *)
Definition herr_code (e : herr) : Z :=
  match e with NoErr => 0 | InvalidByte c => errk_InvalidByte c | ErrLength => errk_ErrLength end.

(* the error value of the generated hexDecode -> [kind; byte] as Run/C15.v prints the model's error *)
Definition herr_tokens_of_code (e : Z) : list Z :=
  if e =? 0 then [0; 0] else if e =? errk_ErrLength then [2; 0] else [1; (e - 5) / 16].

Definition run_code (k a b : Z) (l1 l2 : list Z) (tbl : list (list Z * list Z)) : list Z :=
  if k =? 0 then enc_m (fun '(v, e) => [e; hi32 v; lo32 v] ++ flags) (g_ParseUint (S (length l1)) l1 a b)
  else if k =? 1 then
    (if forallb is_byteb l1 then enc_m (fun t => put_list t ++ flags) (g_HexEncode (S (length l1)) l1) else run false k a b l1 l2 tbl)
  else if k =? 2 then enc_m (fun '(p, e) => put_list p ++ herr_tokens_of_code e ++ flags) (g_HexDecode (S (length l1)) l1)
  else run false k a b l1 l2 tbl.

Definition entry_code (sub : Z) (args : list Z) : list Z :=
  if sub =? 0 then
    match args with
    | k :: a :: b :: r =>
        let (l1, r1) := get_list r in
        let (l2, r2) := get_list r1 in
        let tbl := match r2 with n :: t => fst (get_table (Z.to_nat n) t) | [] => [] end in
        run_code k a b l1 l2 tbl
    | _ => entry sub args
    end
  else entry sub args.
