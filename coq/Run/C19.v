(* C19: case encoding for the correspondence run.
   family 0  [0; n; ops...]                      deterministic script (op = [code; arg], see Model/Limiter.v)
             sub 0 = predicted observation: put_list(trace as (code,id,value) triples) ++ [tasks; handler calls; max inside]
   family 1  [1; n; s; m; seed; pk; maxin; trace...]   stress run, the observed trace and the largest number of bodies inside are
             part of the case;  sub 0 = [finished; handler calls; 1] if the event model accepts the trace step by step, else [0; index]
   family 2  [2; hnil; fn; c1..ck]               goz.Recover with fn / cleanups that return (0) or panic with the value (> 0)
             sub 0 = what runs, as (code, a, b) triples: 1 fn, 2 handler(a), 3 cleanup a, 4 handler("cleanup panic: b, index: a")
   family 3  [3; n; s; m]                       bulk stress, s submitters x m empty tasks, then Wait: [bodies run; handler calls; Wait returned]
   family 4  [4; n; hk; vk; k]                 hostile panic values in a child process: [survived; reports; inside at once afterwards; Wait returned]
   family 5  [5; n; rounds; extra]             one limiter re-used after Wait(): rounds x (limit tasks ending together, Wait, limit+extra short tasks, Wait):
             [bodies run; peak concurrency of the second half <= limit; Wait returned]
   sub 2 = relational judge on put_list case ++ put_list implementation-output -> [1] / [0]. *)
From Coq Require Import List ZArith Bool Arith.
From V Require Import Lib.Enc Gen.ConstsGoz Model.Limiter.
Import ListNotations.
Local Open Scope Z_scope.

Definition outcome (z : Z) : option nat := if z <=? 0 then None else Some (Z.to_nat z).
Definition enc_rev (e : rcev) : list Z :=
  match e with
  | RanFn => [1; 0; 0]
  | Handler v => [2; Z.of_nat v; 0]
  | CleanupRan i => [3; Z.of_nat i; 0]
  | HandlerCleanup i v => [4; Z.of_nat i; Z.of_nat v]
  end.
Definition recover_out (hnil : bool) (fn : Z) (cs : list Z) : list Z :=
  flat_map enc_rev (filter (fun e => negb (hnil && is_handler e)) (recover_ (outcome fn) (map outcome cs))).

(* independent statement of what Recover must do *)
Fixpoint first_panic (i : nat) (cs : list Z) : option (nat * Z) :=
  match cs with [] => None | c :: t => if c <=? 0 then first_panic (S i) t else Some (i, c) end.
Definition recover_spec_out (hnil : bool) (fn : Z) (cs : list Z) : list Z :=
  let ran := match first_panic 0 cs with Some (j, _) => S j | None => length cs end in
  [1; 0; 0] ++ (if (0 <? fn) && negb hnil then [2; fn; 0] else []) ++
  flat_map (fun i => [3; Z.of_nat i; 0]) (seq 0 ran) ++
  match first_panic 0 cs with Some (j, w) => if hnil then [] else [4; Z.of_nat j; w] | None => [] end.

(* family 4: k tasks panic with a value that is hostile to its printer (kind vk), handler hk (0 none, 1 goz.LogPanic, 2 func):
   the process survives, every panic is reported once to a configured handler, the limit is available again in full and the
   final Wait returns - whatever the value is (vk does not occur on the right). *)
Definition hostile_out (n hk k : Z) : list Z := [1; (if hk mod 4 =? 0 then 0 else k); Z.of_nat (eff_limit n); 1].

(* family 5: every round runs 2*limit+extra bodies; the bound holds (c19_bound) and every Wait returns (c19_wait_after_all) *)
Definition reuse_out (n rounds extra : Z) : list Z := [rounds * (2 * Z.of_nat (eff_limit n) + extra); 1; 1].

Definition entry (sub : Z) (args : list Z) : list Z :=
  if sub =? 0 then
    match args with
    | 0 :: n :: ops => simulate n ops
    | 1 :: n :: s :: m :: seed :: pk :: maxin :: tr => stress_model n (s * m) maxin (dec_trace tr)
    | 2 :: hnil :: fn :: cs => recover_out (bz hnil) fn cs
    | [3; n; s; m] => [s * m; 0; 1]
    | [4; n; hk; vk; k] => hostile_out n hk k
    | [5; n; rounds; extra] => reuse_out n rounds extra
    | _ => [BADCASE]
    end
  else if sub =? 2 then
    let (case, rest) := get_list args in
    let (out, _) := get_list rest in
    match case with
    | 0 :: n :: ops => [zb (spec_script n out)]
    | 1 :: n :: s :: m :: seed :: pk :: maxin :: tr => [zb (stress_spec n (s * m) seed pk maxin (dec_trace tr) out)]
    | 2 :: hnil :: fn :: cs => [zb (list_eqb out (recover_spec_out (bz hnil) fn cs))]
    | [3; n; s; m] => [zb (list_eqb out [s * m; 0; 1])]
    | [5; n; rounds; extra] => [zb (list_eqb out [rounds * (2 * Z.of_nat (eff_limit n) + extra); 1; 1])]
    | [4; n; hk; vk; k] => [zb (list_eqb out [1; (if hk mod 4 =? 0 then 0 else k); Z.of_nat (eff_limit n); 1])]
    | _ => [BADCASE]
    end
  else [BADCASE].

(* in-kernel anchors *)
Example anchor_script : entry 0 [0; 1; 1;0; 1;1; 3;0; 2;0] =
  [27; 1;0;0; 2;0;0; 3;0;0; 1;1;0; 2;1;0; 8;1;1001; 4;1;1001; 6;0;0; 5;0;0; 2; 1; 1].
Proof. vm_compute. reflexivity. Qed.
Example anchor_fallback : entry 0 [0; 0; 1;0; 1;0; 1;0; 1;0] =
  [42; 1;0;0; 2;0;0; 1;1;0; 2;1;0; 1;2;0; 2;2;0; 3;0;0; 1;3;0; 2;3;0; 3;1;0; 3;2;0; 3;3;0; 6;0;0; 5;0;0; 4; 0; 3].
Proof. vm_compute. reflexivity. Qed.
Example anchor_recover : entry 0 [2; 0; 7; 0; 9; 0] = [1;0;0; 2;7;0; 3;0;0; 3;1;0; 4;1;9].
Proof. vm_compute. reflexivity. Qed.
