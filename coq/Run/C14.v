(* C14: case encoding for the correspondence run (slicez/slices.go, slicez/flex.go).

   slices.go case   = f :: k :: put_list a_1 .. put_list a_k :: nsl :: (arr off len cap) x nsl ++ args        (f = 1..21)
       arrays a_1..a_k are the heap (array id 0 is nil); slices are windows on them in the order the function takes
       them (dst, s1, s2 / s1, s2 / s ...); args are the remaining integer arguments (see Model/Slices.v run_case).
   output           = [PANIC]  |  nres :: (nil? :: put_list vals ++ [where]) x nres ++ put_list scalars ++ put_list a_1' .. a_k'
   FlexSlice case   = 22 :: put_list buffer :: len :: nops :: put_list op x nops
       op = [0; ocap; vs..] Append | [1; vs..] Prepend | [2; i] Get | [3; i] Remove | [4; a; b] SubSlice (replaces f)
            | [5] Pop | [6] Shift | [7] Len
   output           = [PANIC]  |  (put_list results ++ put_list f.Values ++ [cap]) per op

   sub 0 = model output;  sub 2 = judge on put_list case ++ put_list implementation-output -> [1] / [0]. *)
From Coq Require Import List ZArith Bool Arith.
From V Require Import Lib.Enc Model.Slices Model.Flex.
Import ListNotations.
Local Open Scope Z_scope.

(* ---- slices.go cases *)
Fixpoint dec_slices (n : nat) (l : list Z) : list slice * list Z :=
  match n, l with
  | S k, a :: o :: ln :: c :: r =>
      let (ss, r') := dec_slices k r in (mkS (Z.to_nat a) (Z.to_nat o) (Z.to_nat ln) (Z.to_nat c) :: ss, r')
  | _, _ => ([], l)
  end.
Definition enc_slice (s : slice) : list Z := [Z.of_nat (arr s); Z.of_nat (off s); Z.of_nat (len s); Z.of_nat (cap s)].
Definition enc_case (c : case) : list Z :=
  c_f c :: Z.of_nat (Nat.pred (length (c_mem c))) :: put_lists (skipn 1 (c_mem c)) ++
  Z.of_nat (length (c_sl c)) :: flat_map enc_slice (c_sl c) ++ c_args c.
(* strict: a case decodes only if re-encoding it gives the same integers back *)
Definition dec_case (l : list Z) : option case :=
  match l with
  | f :: k :: r =>
      let (arrs, r1) := get_lists (Z.to_nat k) r in
      match r1 with
      | nsl :: r2 =>
          let (ss, r3) := dec_slices (Z.to_nat nsl) r2 in
          let c := mkCase f ([] :: arrs) ss r3 in
          if list_eqb (enc_case c) l && wf_case c then Some c else None
      | [] => None
      end
  | _ => None
  end.

Definition enc_rs (r : rs) : list Z := Slices.zb (r_nil r) :: put_list (r_vals r) ++ [r_where r].
Definition enc_out (o : out) : list Z :=
  if o_panic o then [PANIC]
  else Z.of_nat (length (o_res o)) :: flat_map enc_rs (o_res o) ++ put_list (o_scal o) ++ put_lists (o_arrs o).
Fixpoint dec_rss (n : nat) (l : list Z) : list rs * list Z :=
  match n, l with
  | S k, nl :: r =>
      let (vs, r1) := get_list r in
      match r1 with
      | w :: r2 => let (rss, r3) := dec_rss k r2 in (mkRs (bz nl) vs w :: rss, r3)
      | [] => ([], l)
      end
  | _, _ => ([], l)
  end.
(* k = number of arrays of the case.  Anything that is not a well-formed outcome counts as a panic (judge: false) *)
Definition dec_out (k : nat) (l : list Z) : out :=
  match l with
  | nres :: r =>
      let (rss, r1) := dec_rss (Z.to_nat nres) r in
      let (sc, r2) := get_list r1 in
      let (arrs, r3) := get_lists k r2 in
      let o := mkOut false rss sc arrs in
      if list_eqb (enc_out o) l && (length arrs =? k)%nat then o else out_panic
  | [] => out_panic
  end.

(* ---- FlexSlice cases *)
Definition dec_fop (l : list Z) : option fop :=
  match l with
  | 0 :: oc :: vs => Some (FAppend vs oc)
  | 1 :: vs => Some (FPrepend vs)
  | [2; i] => Some (FGet i)
  | [3; i] => Some (FRemove i)
  | [4; a; b] => Some (FSubSlice a b)
  | [5] => Some FPop
  | [6] => Some FShift
  | [7] => Some FLen
  | _ => None
  end.
Fixpoint dec_fops (n : nat) (l : list Z) : option (list fop) :=
  match n with
  | O => match l with [] => Some [] | _ => None end
  | S k =>
      match l with
      | [] => None
      | cnt :: _ =>
          if (cnt <? 0) || (Z.of_nat (length l) - 1 <? cnt) then None else
          let (o, r) := get_list l in
          match dec_fop o, dec_fops k r with
          | Some x, Some xs => Some (x :: xs)
          | _, _ => None
          end
      end
  end.
Definition dec_flex (l : list Z) : option (flex * list fop) :=
  match l with
  | cnt :: _ =>
      if (cnt <? 0) || (Z.of_nat (length l) - 1 <? cnt) then None else
      let (buf, r) := get_list l in
      match r with
      | n :: nops :: r' =>
          if (0 <=? n) && (n <=? Z.of_nat (length buf)) && (0 <=? nops) then
            match dec_fops (Z.to_nat nops) r' with
            | Some ops => Some (mkF buf (Z.to_nat n), ops)
            | None => None
            end
          else None
      | _ => None
      end
  | [] => None
  end.
Definition enc_obs (g : fobs) : list Z := put_list (ob_res g) ++ put_list (ob_vals g) ++ [ob_cap g].
Definition enc_fout (r : option (list fobs)) : list Z :=
  match r with None => [PANIC] | Some g => flat_map enc_obs g end.
Fixpoint dec_obs (n : nat) (l : list Z) : option (list fobs) :=
  match n with
  | O => match l with [] => Some [] | _ => None end
  | S k =>
      let (res, r1) := get_list l in
      let (vs, r2) := get_list r1 in
      match r2 with
      | c :: r3 => match dec_obs k r3 with Some t => Some (mkObs res vs c :: t) | None => None end
      | [] => None
      end
  end.
Definition dec_fout (nops : nat) (l : list Z) : option (list fobs) :=
  match dec_obs nops l with
  | Some g => if list_eqb (enc_fout (Some g)) l then Some g else None
  | None => None
  end.

Definition F_FLEX := 22.

Definition entry (sub : Z) (args : list Z) : list Z :=
  if sub =? 0 then
    match args with
    | f :: r =>
        if f =? F_FLEX then
          match dec_flex r with Some (f0, ops) => enc_fout (f_run f0 ops) | None => [BADCASE] end
        else match dec_case args with Some c => enc_out (run_case c) | None => [BADCASE] end
    | [] => [BADCASE]
    end
  else if sub =? 2 then
    let (cs, r) := get_list args in
    let (impl, _) := get_list r in
    match cs with
    | f :: r =>
        if f =? F_FLEX then
          match dec_flex r with
          | Some (f0, ops) => [Slices.zb (flex_judge f0 ops (dec_fout (length ops) impl))]
          | None => [BADCASE]
          end
        else
          match dec_case cs with
          | Some c => [Slices.zb (judge c (dec_out (Nat.pred (length (c_mem c))) impl))]
          | None => [BADCASE]
          end
    | [] => [BADCASE]
    end
  else [BADCASE].

(* in-kernel anchors *)
(* Filter(dst = s[:0], s = [1;2;3;2] , keep bits {2}) *)
Example anchor_filter_alias :
  entry 0 [9; 1; 4;1;2;3;2; 2; 1;0;0;4; 1;0;4;4; 4] = [1; 0; 2;2;2; 1000; 0; 4;2;2;3;2].
Proof. vm_compute. reflexivity. Qed.
(* FilterInPlace(s = [1;2;3;2], keep {2}) *)
Example anchor_filter_ip :
  entry 0 [10; 1; 4;1;2;3;2; 1; 1;0;4;4; 4] = [1; 0; 2;2;2; 1000; 0; 4;2;2;3;1].
Proof. vm_compute. reflexivity. Qed.
(* Chunk(s = [1;2;3;4;0], 2): three windows on s, outer capacity 3 *)
Example anchor_chunk :
  entry 0 [17; 1; 5;1;2;3;4;0; 1; 1;0;5;5; 2] = [3; 0;2;1;2;1000; 0;2;3;4;1002; 0;1;0;1004; 2;0;3; 5;1;2;3;4;0].
Proof. vm_compute. reflexivity. Qed.
(* Remove(s = [3;1;2;0], 1) = ([3;2;0], 1, true); the array ends with the zeroed slot *)
Example anchor_remove :
  entry 0 [21; 1; 4;3;1;2;0; 1; 1;0;4;4; 1] = [1; 0;3;3;2;0;1000; 2;1;1; 4;3;2;0;0].
Proof. vm_compute. reflexivity. Qed.
(* FlexSlice{}: Append(1,2,3) (Go reported cap 3), Prepend of 9 values (cap 3 -> exactly 12), Remove(3), Shift *)
Example anchor_flex :
  entry 0 [22; 0; 0; 4; 5;0;3;1;2;3; 10;1;7;6;5;4;3;2;1;0;9; 2;3;3; 1;6] =
  [0; 3;1;2;3; 3;  0; 12;7;6;5;4;3;2;1;0;9;1;2;3; 12;  2;4;1; 11;7;6;5;3;2;1;0;9;1;2;3; 12;  2;7;1; 10;6;5;3;2;1;0;9;1;2;3; 12].
Proof. vm_compute. reflexivity. Qed.
(* the judge rejects FilterInPlace losing an element: [0;1] keep {1} -> array [1;1] *)
Example anchor_judge_rejects :
  entry 2 (put_list [10; 1; 2;0;1; 1; 1;0;2;2; 2] ++ put_list [1; 0;1;1;1000; 0; 2;1;1]) = [0].
Proof. vm_compute. reflexivity. Qed.
Example anchor_judge_accepts :
  entry 2 (put_list [10; 1; 2;0;1; 1; 1;0;2;2; 2] ++ put_list [1; 0;1;1;1000; 0; 2;1;0]) = [1].
Proof. vm_compute. reflexivity. Qed.
