(* C11: SyncList under the deterministic scheduler (atomic shim).
   case  = [npre; nthreads] ++ put_lists programs ++ put_list schedule
           npre values 9001.. are pushed sequentially first; program op: 0 = Pop, -1 = Len, v > 0 = Push v
   sub 0 = the model's run: per executed schedule entry [tid; 0] (op start, or the short-circuited CAS),
           [tid; 2] (plain access) or [tid; 1; evkind; loc; a; b; r]; then -1, per-thread results, -2, final len, and
           the values still stored (head.next .. tail).
   Nodes are named by link order (0 = the dummy, n = the n-th node ever linked), nil = -1, a node that is
   not linked yet = -7.   Locations: 0 = len, 1 = head, 2 = tail, 10 + n = node n's next field.
   sub 2 = history judge on the implementation's output. *)
From Coq Require Import List ZArith Bool Arith.
Import ListNotations.
From V Require Import Lib.Enc Model.SyncListConc.
Local Open Scope Z_scope.

Definition EvLoadI64 := 5. Definition EvAddI64 := 6. Definition EvLoadPtr := 7. Definition EvStorePtr := 8.
Definition EvCasPtr := 9. Definition EvGosched := 10.
Definition LocLen := 0. Definition LocHead := 1. Definition LocTail := 2.
Definition loc_next (n : nat) : Z := 10 + Z.of_nat n.
Definition ptr (o : option nat) : Z := match o with Some n => Z.of_nat n | None => -1 end.

Definition observe (s : shared) (p : pc) : list Z :=
  match p with
  | Idle => [0]
  | PushLoadTail _ => [1; EvLoadPtr; LocTail; 0; 0; Z.of_nat (tail s)]
  | PushLoadNext _ t => [1; EvLoadPtr; loc_next t; 0; 0; ptr (next_of s t)]
  | PushCas _ t nx =>
      match nx with
      | Some _ => [0]                                       (* next != nil: the && short-circuits, no CAS *)
      | None => [1; EvCasPtr; loc_next t; -1; -7; zb (match next_of s t with None => true | Some _ => false end)]
      end
  | PushAdd _ _ => [1; EvAddI64; LocLen; 1; 0; len s + 1]
  | PushStoreTail n _ => [1; EvStorePtr; LocTail; Z.of_nat n; 0; 0]
  | PushYield _ => [1; EvGosched; 0; 0; 0; 0]
  | PopLoadHead => [1; EvLoadPtr; LocHead; 0; 0; Z.of_nat (head s)]
  | PopLoadTail _ => [1; EvLoadPtr; LocTail; 0; 0; Z.of_nat (tail s)]
  | PopLoadNext h => [1; EvLoadPtr; loc_next h; 0; 0; ptr (next_of s h)]
  | PopCas h nx => [1; EvCasPtr; LocHead; Z.of_nat h; ptr nx; zb (Nat.eqb (head s) h)]
  | PopRead _ _ => [2]
  | PopClear _ _ _ => [2]
  | PopDec _ _ _ => [1; EvAddI64; LocLen; -1; 0; len s - 1]
  | LenLoad => [1; EvLoadI64; LocLen; 0; 0; len s]
  end.

Definition dec_op (z : Z) : op := if z =? 0 then OpPop else if z =? -1 then OpLen else if z <? 0 then OpPop else OpPush z.
Fixpoint updl {A} (l : list A) (i : nat) (x : A) : list A :=
  match l, i with [], _ => [] | _ :: t, O => x :: t | h :: t, S j => h :: updl t j x end.

Definition enc_res (r : res) : list Z :=
  match r with
  | RPush => [1]
  | RPop (Some v) _ => [2; 1; v]
  | RPop None _ => [2; 1; 0]
  | RPopEmpty => [2; 0; 0]
  | RPopBusy => [2; 0; 0]
  | RLen z _ => [3; z]
  end.
Definition res_success (r : res) : bool := match r with RPop _ _ => true | RPush => true | _ => false end.

(* PopWait(-1) is the loop "Pop; if it failed, runtime.Gosched(); Pop again" (code -10); PopWait(d), d >= 0, with the 10 ms
   ticker is "Pop; then one more Pop per tick until the deadline has passed", at most n further tries (code -100 - n;
   the clock is virtual under the shim, so n is exact).  They are run as such on top of the step model. *)
Definition is_wait (x : Z) : bool := (x =? -10) || (x <=? -100).
Definition tries_of (x : Z) : Z := if x <=? -100 then - x - 100 else -1.
Record rthread := { r_prog : list Z; r_wait : Z; r_left : Z; r_yield : bool; r_res : list Z }.

Definition pc_idle (p : pc) : bool := match p with Idle => true | _ => false end.
Definition rt_unyield (rt : rthread) : rthread :=
  {| r_prog := r_prog rt; r_wait := r_wait rt; r_left := r_left rt; r_yield := false; r_res := r_res rt |}.
(* an idle thread with no PopWait pending takes the next operation of its program *)
Definition rt_begin (rt : rthread) : option (op * rthread) :=
  match r_prog rt with
  | [] => None
  | x :: more =>
      if is_wait x then Some (OpPop, {| r_prog := more; r_wait := x; r_left := tries_of x; r_yield := false; r_res := r_res rt |})
      else Some (dec_op x, {| r_prog := more; r_wait := 0; r_left := 0; r_yield := false; r_res := r_res rt |})
  end.
(* a Push/Pop/Len call of the step model has returned r *)
Definition rt_return (rt1 : rthread) (r : res) : rthread :=
  if (r_wait rt1 =? 0) || res_success r || (r_left rt1 =? 0)
  then {| r_prog := r_prog rt1; r_wait := 0; r_left := 0; r_yield := false; r_res := rev_append (enc_res r) (r_res rt1) |}
  else if r_left rt1 <? 0
  then {| r_prog := r_prog rt1; r_wait := r_wait rt1; r_left := -1; r_yield := true; r_res := r_res rt1 |}
  else {| r_prog := r_prog rt1; r_wait := r_wait rt1; r_left := r_left rt1 - 1; r_yield := false; r_res := r_res rt1 |}.

(* one schedule entry: new configuration, new run-level records, the tokens printed for it (none when skipped) *)
Definition go1 (c : config) (rts : list rthread) (t : Z) : config * list rthread * list Z :=
  let i := Z.to_nat t in
  match nth_error (ths c) i, nth_error rts i with
  | Some p, Some rt =>
      let idle := pc_idle p in
      if idle && r_yield rt then (c, updl rts i (rt_unyield rt), [t; 1; EvGosched; 0; 0; 0; 0])
      else
      let start :=
        if negb idle then Some (OpPop, rt)
        else if negb (r_wait rt =? 0) then Some (OpPop, rt)
        else rt_begin rt in
      match start with
      | None => (c, rts, [])
      | Some (o, rt1) =>
          let ev := observe (sh c) p in
          let c' := step c (i, o) in
          let returned := negb idle && match nth_error (ths c') i with Some Idle => true | _ => false end
                          && negb (Nat.eqb (length (hist c')) (length (hist c))) in
          let rt2 :=
            if returned then
              match last (map (fun e => Some (snd e)) (hist c')) None with
              | Some r => rt_return rt1 r
              | None => rt1
              end
            else rt1 in
          (c', updl rts i rt2, t :: ev)
      end
  | _, _ => (c, rts, [])
  end.

Fixpoint go (c : config) (rts : list rthread) (sched : list Z) (acc : list Z) : config * list rthread * list Z :=
  match sched with
  | [] => (c, rts, acc)
  | t :: rest => let '(c', rts', toks) := go1 c rts t in go c' rts' rest (rev_append toks acc)
  end.

Definition stored (s : shared) : list Z :=
  map (fun o => match o with Some v => v | None => 0 end) (firstn (tail s - head s) (skipn (S (head s)) (vals s))).

(* after the given schedule: round robin until everybody is done (entries of finished threads are skipped) *)
Definition completion (n : nat) (progs : list (list Z)) : list Z :=
  let total := fold_left (fun a p => a + length p)%nat progs O in
  concat (repeat (map Z.of_nat (seq 0 n)) (40 * total + 40)).

Definition run_case (args : list Z) : list Z :=
  match args with
  | npre :: nt :: r =>
      let n := Z.to_nat nt in
      let (progs, r1) := get_lists n r in
      let (sched, _) := get_list r1 in
      let rts := map (fun pr => {| r_prog := pr; r_wait := 0; r_left := 0; r_yield := false; r_res := [] |}) progs in
      let '(c, rts', acc) := go (seq_state (Z.to_nat npre) n) rts (sched ++ completion n progs) [] in
      rev' acc ++ [-1] ++ flat_map (fun rt => put_list (rev' (r_res rt))) rts'
      ++ [-2; len (sh c)] ++ put_list (stored (sh c))
  | _ => [BADCASE]
  end.

(* ---- history judge (specification side): unbounded FIFO, LPs = StorePtr on tail (push), successful CAS on head (pop),
        the tail load that equals the loaded head (empty pop); Len results: never negative, never below the number of
        poppable values at the instant of the load ---- *)
Record oprec := { o_kind : Z (* 1 push 2 pop 3 len *); o_val : Z; o_lp : bool; o_got : Z; o_excuse : bool; o_lenmin : Z;
                  o_wait : bool; o_left : Z (* PopWait: further tries it may still make, -1 = unbounded *) }.
Record tstate := { t_next : nat; t_cur : option oprec; t_done : list oprec; t_lasthead : Z }.
Record jstate := { j_q : list Z; j_ths : list tstate; j_ok : bool }.
Definition bad (s : jstate) : jstate := {| j_q := j_q s; j_ths := j_ths s; j_ok := false |}.
Definition in_flight (t : tstate) : bool := match t_cur t with Some _ => true | None => false end.
Definition with_cur (t : tstate) (r : option oprec) : tstate :=
  {| t_next := t_next t; t_cur := r; t_done := t_done t; t_lasthead := t_lasthead t |}.
Definition excuse (r : oprec) : oprec :=
  {| o_kind := o_kind r; o_val := o_val r; o_lp := o_lp r; o_got := o_got r; o_excuse := true; o_lenmin := o_lenmin r;
     o_wait := o_wait r; o_left := o_left r |}.
Definition excuse_all (t : tstate) : tstate := match t_cur t with Some r => with_cur t (Some (excuse r)) | None => t end.
(* an in-flight Pop that sees the FIFO empty has its excuse *)
Definition look (q : list Z) (t : tstate) : tstate :=
  match t_cur t, q with
  | Some r, [] => if o_kind r =? 2 then with_cur t (Some (excuse r)) else t
  | _, _ => t
  end.
Definition finish (t : tstate) : tstate :=
  match t_cur t with
  | Some r => {| t_next := t_next t; t_cur := None; t_done := r :: t_done t; t_lasthead := t_lasthead t |}
  | None => t
  end.
Definition j_start (progs : list (list Z)) (s : jstate) (i : nat) : jstate :=
  match nth_error (j_ths s) i with
  | None => bad s
  | Some t0 =>
      (* a start marker while a PopWait has neither succeeded nor used up its tries is the next attempt of the same call *)
      if match t_cur t0 with Some r => o_wait r && negb (o_lp r) && negb (o_left r =? 0) | None => false end then
        match t_cur t0 with
        | Some r =>
            let r' := {| o_kind := 2; o_val := 0; o_lp := false; o_got := 0; o_excuse := o_excuse r; o_lenmin := 0;
                         o_wait := true; o_left := if o_left r <? 0 then -1 else o_left r - 1 |} in
            {| j_q := j_q s; j_ths := map (look (j_q s)) (updl (j_ths s) i (with_cur t0 (Some r'))); j_ok := j_ok s |}
        | None => s
        end
      else
      let t := finish t0 in
      match nth_error (nth i progs []) (t_next t) with
      | None => bad s
      | Some o =>
          let others := existsb in_flight (updl (j_ths s) i t) in
          let wait := (o =? -10) || (o <=? -100) in
          let r := {| o_kind := if (o =? 0) || wait then 2 else if o <? 0 then 3 else 1; o_val := o; o_lp := false; o_got := 0;
                      o_excuse := others; o_lenmin := 0; o_wait := wait; o_left := if o <=? -100 then - o - 100 else -1 |} in
          let t' := {| t_next := S (t_next t); t_cur := Some r; t_done := t_done t; t_lasthead := -1 |} in
          let ths := updl (j_ths s) i t' in
          let ths := if others then map excuse_all ths else ths in
          {| j_q := j_q s; j_ths := map (look (j_q s)) ths; j_ok := j_ok s |}
      end
  end.
Definition set_rec (s : jstate) (i : nat) (t : tstate) (r : oprec) (q' : list Z) (ok : bool) : jstate :=
  {| j_q := q'; j_ths := map (look q') (updl (j_ths s) i (with_cur t (Some r))); j_ok := j_ok s && ok |}.
Definition j_event (s : jstate) (i : nat) (ek loc a b res : Z) : jstate :=
  match nth_error (j_ths s) i with
  | None => bad s
  | Some t =>
      match t_cur t with
      | None => bad s
      | Some r =>
          if (ek =? EvStorePtr) && (loc =? LocTail) then        (* LP of Push *)
            set_rec s i t {| o_kind := o_kind r; o_val := o_val r; o_lp := true; o_got := 0; o_excuse := o_excuse r; o_lenmin := 0; o_wait := o_wait r; o_left := o_left r |}
                    (j_q s ++ [o_val r]) ((o_kind r =? 1) && negb (o_lp r))
          else if (ek =? EvCasPtr) && (loc =? LocHead) && (res =? 1) then   (* LP of Pop *)
            match j_q s with
            | [] => bad s
            | x :: q' => set_rec s i t {| o_kind := o_kind r; o_val := 0; o_lp := true; o_got := x; o_excuse := o_excuse r; o_lenmin := 0; o_wait := o_wait r; o_left := o_left r |}
                                 q' ((o_kind r =? 2) && negb (o_lp r))
            end
          else if (ek =? EvLoadI64) && (loc =? LocLen) then      (* Len: remember how many values were poppable *)
            set_rec s i t {| o_kind := o_kind r; o_val := o_val r; o_lp := true; o_got := res; o_excuse := o_excuse r;
                             o_lenmin := Z.of_nat (length (j_q s)); o_wait := false; o_left := 0 |} (j_q s) (o_kind r =? 3)
          else {| j_q := j_q s; j_ths := map (look (j_q s)) (j_ths s); j_ok := j_ok s |}
      end
  end.
Fixpoint judge_steps (fuel : nat) (progs : list (list Z)) (s : jstate) (l : list Z) : jstate * list Z :=
  match fuel with
  | O => (bad s, l)
  | S f =>
      match l with
      | [] => (bad s, [])
      | x :: r =>
          if x =? -1 then (s, r) else
          match r with
          | 0 :: r' =>
              (* [tid; 0] is an operation start only when the thread has nothing in flight or its operation can be over;
                 the short-circuited CAS of Push also prints [tid; 0]: a Push that has not published yet is still in flight *)
              let i := Z.to_nat x in
              let starts := match nth_error (j_ths s) i with
                            | Some t => match t_cur t with
                                        | Some rc => negb ((o_kind rc =? 1) && negb (o_lp rc))
                                        | None => true end
                            | None => true end in
              judge_steps f progs (if starts then j_start progs s i else s) r'
          | 2 :: r' => judge_steps f progs s r'
          | 1 :: ek :: loc :: a :: b :: res :: r' => judge_steps f progs (j_event s (Z.to_nat x) ek loc a b res) r'
          | _ => (bad s, [])
          end
      end
  end.
Fixpoint check_results (recs : list oprec) (res : list Z) : bool :=
  match recs, res with
  | [], [] => true
  | r :: recs', 1 :: res' => (o_kind r =? 1) && o_lp r && check_results recs' res'
  | r :: recs', 2 :: ok :: v :: res' =>
      (o_kind r =? 2) && Bool.eqb (negb (ok =? 0)) (o_lp r) && (if o_lp r then v =? o_got r else (v =? 0) && (o_excuse r || o_wait r))
      && check_results recs' res'
  | r :: recs', 3 :: z :: res' => (o_kind r =? 3) && (z =? o_got r) && (0 <=? z) && (o_lenmin r <=? z) && check_results recs' res'
  | _, _ => false
  end.
Fixpoint check_threads (ths : list tstate) (l : list Z) : bool * list Z :=
  match ths with
  | [] => (true, l)
  | t :: rest =>
      let (res, l') := get_list l in
      let ok := check_results (rev (t_done (finish t))) res in
      let (ok', l'') := check_threads rest l' in (ok && ok', l'')
  end.
Definition judge (args : list Z) : list Z :=
  let (cs, r0) := get_list args in
  let (out, _) := get_list r0 in
  match cs with
  | npre :: nt :: r =>
      let n := Z.to_nat nt in
      let (progs, _) := get_lists n r in
      let q0 := map pre_val (seq 0 (Z.to_nat npre)) in
      let s0 := {| j_q := q0; j_ths := repeat {| t_next := O; t_cur := None; t_done := []; t_lasthead := -1 |} n; j_ok := true |} in
      let (s, rest) := judge_steps (length out + 1) progs s0 out in
      let (okr, rest') := check_threads (j_ths s) rest in
      (* quiescent end: Len = number of stored values = the FIFO's content, in order *)
      let fin := match rest' with
                 | m :: ln :: st => (m =? -2) && (ln =? Z.of_nat (length (j_q s))) && list_eqb (fst (get_list st)) (j_q s)
                 | _ => false end in
      [zb (j_ok s && okr && fin)]
  | _ => [0]
  end.

(* ---- well-formed cases (hypothesis of the refinement theorem Props/C11.v: c11_judge_accepts_model) ----
   op codes are the documented ones (v > 0 Push v, 0 Pop, -1 Len, -10 PopWait(-1), -100 - n timed PopWait; this excludes
   -9..-2 and -99..-11, which run_case reads as Pop and the judge as Len), schedule entries are not negative (a thread id
   that is too large is skipped by the run), and EITHER no program contains the blocking PopWait(-1) and every timed
   PopWait makes at most 3 further tries (codes -103..-100; the harness uses -102..-100) OR the run reaches quiescence
   within the completion tail: no call is in flight at the end (a blocking PopWait(-1) that never finds a value keeps
   spinning and is excluded by this clause). *)
Definition op_ok (x : Z) : bool := (-1 <=? x) || (x =? -10) || (x <=? -100).
(* programs for which quiescence is a theorem (Proofs/SyncListJudgeLive.v): no blocking PopWait(-1), timed PopWait with at
   most 3 further tries *)
Definition op_live (x : Z) : bool := (-1 <=? x) || ((-103 <=? x) && (x <=? -100)).
Definition init_rts (progs : list (list Z)) : list rthread :=
  map (fun pr => {| r_prog := pr; r_wait := 0; r_left := 0; r_yield := false; r_res := [] |}) progs.
Definition quiescent (c : config) (rts : list rthread) : bool :=
  forallb pc_idle (ths c) && forallb (fun rt => r_wait rt =? 0) rts.
Definition wf_case (args : list Z) : bool :=
  match args with
  | npre :: nt :: r =>
      let n := Z.to_nat nt in
      let (progs, r1) := get_lists n r in
      let (sched, _) := get_list r1 in
      forallb (forallb op_ok) progs && forallb (fun t => 0 <=? t) sched &&
      (forallb (forallb op_live) progs ||
       let '(c, rts', _) := go (seq_state (Z.to_nat npre) n) (init_rts progs) (sched ++ completion n progs) [] in
       quiescent c rts')
  | _ => false
  end.

Definition entry (sub : Z) (args : list Z) : list Z :=
  if sub =? 0 then run_case args else if sub =? 2 then judge args else [BADCASE].

Example anchor1 : entry 0 [0; 2;  2; 7; -1;  1; 0;  6; 0;0;0;1;1;0]
  = entry 0 [0; 2;  2; 7; -1;  1; 0;  6; 0;0;0;1;1;0].
Proof. reflexivity. Qed.
