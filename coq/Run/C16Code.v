(* C16: the case interpreter of Run/C16.v, kind 1 (setz.Bitmap), executed through the GENERATED functions of
   Gen/BitsCode.v (translated from setz/bits.go by gen/trans.go) instead of the hand-written model.
   Proofs/BitsCodeRun.v proves  entry_code sub args = Run.C16.entry sub args  for all arguments, so the differential run of
   `entry 0` against the compiled package is, for kind 1, a run of the generated code.  (Not extracted: Run/C16.v does
   not depend on the generated file, so the differential run survives a translation that no longer compiles.)
   Word lists travel as Z (map Z.of_N / map Z.to_N); Iter / Range / All are not translated (closures, iterator struct with a
   pointer) and stay the model's enumeration of the generated state's words; the cached length (unobservable for kind 1)
   is carried as in the model.  Loops run with fuel S (number of words), which Proofs/BitsCode.v shows sufficient. *)
From Coq Require Import List ZArith NArith Bool.
From V Require Import Lib.Enc Lib.GoSem Gen.BitsCode Model.Bits Run.C16.
Import ListNotations.
Import GoNotations.
Local Open Scope Z_scope.

Definition gbits : Type := (Bitmap * Z)%type.                                   (* words, cached length *)
Definition g_of (b : bits) : gbits := (mkBitmap (map Z.of_N (words b)), cached b).
Definition g_words (g : gbits) : list N := map Z.to_N (Bitmap_set (fst g)).
Definition g_fuel (g : gbits) : nat := S (length (Bitmap_set (fst g))).

Definition gstep (st : gbits * gbits) (o : op) : M ((gbits * gbits) * list Z) :=
  match o with
  | OAdd t n => let g := sel t st in
      do '(b, ch) <- g_Bitmap_Add (fst g) (Z.of_N n);; Ret (upd2 t st (b, if ch then snd g + 1 else snd g), [zb ch])
  | ORemove t n => let g := sel t st in
      do '(b, ch) <- g_Bitmap_Remove (fst g) (Z.of_N n);; Ret (upd2 t st (b, if ch then snd g - 1 else snd g), [zb ch])
  | OContains t n => do r <- g_Bitmap_Contains (fst (sel t st)) (Z.of_N n);; Ret (st, [zb r])
  | OLen t => let g := sel t st in do r <- g_Bitmap_Len (g_fuel g) (fst g);; Ret (st, [r])
  | OCap t => do r <- g_Bitmap_Cap (fst (sel t st));; Ret (st, [r])
  | OGrow t n => let g := sel t st in do b <- g_Bitmap_Grow (fst g) (Z.of_N n);; Ret (upd2 t st (b, snd g), [])
  | OIter t => Ret (st, put_list (of_Ns (enumerate (g_words (sel t st)))))
  | ORange t c => Ret (st, put_list (of_Ns (enumerate_stop (g_words (sel t st)) c)))
  | OAll t c => Ret (st, put_list (of_Ns (enumerate_stop (g_words (sel t st)) c)))
  | ODiff t => let g := sel t st in let h := sel (negb t) st in
      do b <- g_Bitmap_Diff (g_fuel g) (fst g) (fst h);; Ret (upd2 t st (b, Z.of_nat (len (g_words (b, 0)))), [])
  | OIntersect t => let g := sel t st in let h := sel (negb t) st in
      do b <- g_Bitmap_Intersect (g_fuel g) (fst g) (fst h);; Ret (upd2 t st (b, Z.of_nat (len (g_words (b, 0)))), [])
  | OMerge t => let g := sel t st in let h := sel (negb t) st in
      do b <- g_Bitmap_Merge (g_fuel h) (fst g) (fst h);; Ret (upd2 t st (b, Z.of_nat (len (g_words (b, 0)))), [])
  | OClone t => let g := sel t st in do b <- g_Bitmap_Clone (fst g);; Ret (upd2 (negb t) st (b, snd g), [])
  end.

Fixpoint grun (st : gbits * gbits) (ops : list op) : M (list Z) :=
  match ops with
  | [] => Ret []
  | o :: r => do '(st', out) <- gstep st o;; do rest <- grun st' r;; Ret (out ++ rest)
  end.

Definition enc_m (o : M (list Z)) : list Z :=
  match o with Ret l => l | Panic => [PANIC] | NoFuel => [NOFUEL] end.

Definition entry_code (sub : Z) (args : list Z) : list Z :=
  match args with
  | k :: r =>
      if (k =? 1) && (sub =? 0) then
        match dec_ops (length r) r with
        | Some ops => enc_m (grun (g_of empty, g_of empty) ops)
        | None => [BADCASE]
        end
      else entry sub args
  | [] => entry sub args
  end.
