(* C04: the case interpreter of Run/C04.v, kind 0 (heapz.Slice), executed through the GENERATED functions of
   Gen/HeapCode.v (translated from heapz/adjustment.go and heapz/slice.go by gen/trans*.go) instead of the hand-written
   model.  Proofs/HeapCode.v proves  entry_code sub args = Run.C04.entry sub args  for all arguments, so the differential
   run of `entry 0` against the compiled package is, for Slice cases, a run of the generated code.  (Not extracted:
   Run/C04.v does not depend on the generated file, so the differential run survives a translation that no longer
   compiles.)  FromSlice itself (a composite literal that keeps the caller's slice) is outside the translated subset:
   a case starts with the generated heapify loop g_build on the initial values, which is what FromSlice runs.
   Loops get the model's own fuel, fuelL s = S (length s). *)
From Coq Require Import List ZArith Bool.
From V Require Import Lib.Enc Model.Heap Run.C04.
From V Require Import Lib.GoSem Gen.HeapCode.
Import ListNotations.
Import GoNotations.
Local Open Scope Z_scope.

Definition gslice (v : list Z) : Slice := mkSlice v ltv.
Definition opt_of (p : Z * bool) : option Z := if snd p then Some (fst p) else None.

Fixpoint gpopall (fuel : nat) (s : Slice) (k : Z) (acc : list Z) : M (Slice * list Z) :=
  match fuel with
  | O => NoFuel
  | S f =>
      do '(s', r) <- g_Slice_Pop (fuelL Z (Slice_Values s)) s;;
      match opt_of r with
      | None => Ret (s', rev acc)
      | Some x => if k =? 1 then Ret (s', rev (x :: acc)) else gpopall f s' (k - 1) (x :: acc)
      end
  end.

Definition gstep (s : Slice) (o : lop Z) : M (Slice * lobs Z) :=
  let vals := Slice_Values s in
  match o with
  | LPush _ x => do s' <- g_Slice_Push (fuelL Z (vals ++ [x])) s x;; Ret (s', ONone Z)
  | LPop _ => do '(s', r) <- g_Slice_Pop (fuelL Z vals) s;; Ret (s', OOpt Z (opt_of r))
  | LPeek _ => do r <- g_Slice_Peek s;; Ret (s, OOpt Z (opt_of r))
  | LLen _ => do n <- g_Slice_Len s;; Ret (s, OInt Z n)
  | LRemove _ i => do '(s', r) <- g_Slice_Remove (fuelL Z vals) s i;; Ret (s', OOpt Z (opt_of r))
  | LFix _ i => do s' <- g_Slice_Fix (fuelL Z vals) s i;; Ret (s', ONone Z)
  | LSetFix _ i x => let v1 := Heap.set_at Z vals i x in
                     do s' <- g_Slice_Fix (fuelL Z v1) (gslice v1) i;; Ret (s', ONone Z)
  | LReInit _ i x => let v1 := Heap.set_at Z vals i x in
                     do v <- g_build (fuelL Z v1) v1 ltv g_swap;; Ret (gslice v, ONone Z)
  | LPopAll _ k => do '(s', l) <- gpopall (S (length vals)) s k [];; Ret (s', OList Z l)
  end.

Fixpoint grun (s : Slice) (ops : list (lop Z)) : M (ltrace Z) :=
  match ops with
  | [] => Ret []
  | o :: t => do '(s', r) <- gstep s o;; do tr <- grun s' t;; Ret ((r, Slice_Values s') :: tr)
  end.

(* FromSlice(init) = the heapify loop on init, then the operations *)
Definition gcase (init : list Z) (ops : list (lop Z)) : M (ltrace Z) :=
  do v <- g_build (fuelL Z init) init ltv g_swap;; do tr <- grun (gslice v) ops;; Ret ((ONone Z, v) :: tr).

Definition enc_m (o : M (ltrace Z)) : list Z :=
  match o with Ret tr => enc_ltrace tr | Panic => [PANIC] | NoFuel => [NOFUEL] end.

Definition entry_code (sub : Z) (args : list Z) : list Z :=
  if sub =? 0 then
    match dec_case args with
    | Some (CList false init ops) => enc_m (gcase init ops)
    | _ => entry sub args
    end
  else entry sub args.
