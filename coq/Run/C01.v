(* C01: SyncRing under a deterministic scheduler (atomic shim).
   case  = [k; base_hi; base_lo; fill; nthreads] ++ put_lists programs ++ put_list schedule
           program op: 0 = Pop, v > 0 = Push v;   schedule entry = thread id
           initial state = the sequential state after (base_hi*2^32 + base_lo) push/pop pairs followed by
           [fill] pushes of the values 9001, 9002, ... (closed form [seq_state], licensed by pairs_reach)
   sub 0 = the model's run: for every executed schedule entry  [tid; kind] (kind 0 = op start, 2 = plain
           local access) or [tid; 1; evkind; loc; a; b; r] (an atomic operation and what it returned),
           then -1, per-thread results, -2, final head, tail, slots.
   sub 2 = history judge applied to the implementation's output (linearizability with the successful
           CAS as linearisation points, capacity bound, excuse for every false). *)
From Coq Require Import List ZArith Bool Arith.
Import ListNotations.
From V Require Import Lib.Enc Model.SyncRingConc.
Local Open Scope Z_scope.

Definition EvLoadU32 := 1. Definition EvStoreU32 := 2. Definition EvCasU32 := 3.
Definition LocHead := 0. Definition LocTail := 1.
Definition loc_slot (s : shared) (pos : Z) : Z := 2 + Z.of_nat (sidx s pos).

Definition slot_seq (s : shared) (pos : Z) : Z :=
  match nth_error (slots s) (sidx s pos) with Some (_, sq) => sq | None => -1 end.

(* what the thread at pc p is about to do, seen from outside: kind (0 none / 1 atomic / 2 plain) and the event *)
Definition observe (s : shared) (p : pc) : list Z :=
  match p with
  | Idle => [0]
  | PuLoadTail _ => [1; EvLoadU32; LocTail; 0; 0; u32 (tl s)]
  | PuLoadSeq _ pos _ => [1; EvLoadU32; loc_slot s pos; 0; 0; slot_seq s pos]
  | PuCas _ pos _ _ => [1; EvCasU32; LocTail; pos; u32 (pos + 1); zb (u32 (tl s) =? pos)]
  | PuWrite _ _ _ _ => [2]
  | PuPublish _ pos seq _ => [1; EvStoreU32; loc_slot s pos; u32 (seq + 1); 0; 0]
  | PoLoadHead => [1; EvLoadU32; LocHead; 0; 0; u32 (hd s)]
  | PoLoadSeq pos _ => [1; EvLoadU32; loc_slot s pos; 0; 0; slot_seq s pos]
  | PoCas pos _ _ => [1; EvCasU32; LocHead; pos; u32 (pos + 1); zb (u32 (hd s) =? pos)]
  | PoRead _ _ _ _ => [2]
  | PoClear _ _ _ _ _ => [2]
  | PoRelease pos seq _ _ _ => [1; EvStoreU32; loc_slot s pos; u32 (seq + (cap s - 1)); 0; 0]
  | ObsFirst KIsEmpty => [1; EvLoadU32; LocHead; 0; 0; u32 (hd s)]
  | ObsFirst _ => [1; EvLoadU32; LocTail; 0; 0; u32 (tl s)]
  | ObsSecond KIsEmpty _ => [1; EvLoadU32; LocTail; 0; 0; u32 (tl s)]
  | ObsSecond _ _ => [1; EvLoadU32; LocHead; 0; 0; u32 (hd s)]
  end.

(* 0 = Pop, v > 0 = Push v, -1 = Len, -2 = IsEmpty, -3 = IsFull *)
Definition dec_op (z : Z) : op :=
  if z =? 0 then OpPop else if z =? -1 then OpObs KLen else if z =? -2 then OpObs KIsEmpty else if z =? -3 then OpObs KIsFull
  else OpPush z.

Fixpoint updl {A} (l : list A) (i : nat) (x : A) : list A :=
  match l, i with [], _ => [] | _ :: t, O => x :: t | h :: t, S j => h :: updl t j x end.

(* a negative schedule entry t stands for 2^32 + t push/pop pairs performed by one extra goroutine while the ring is
   empty and every slot is free: their net effect (pairs_reach) is that both counters and every slot's sequence
   number advance; used only to replay the known finding F10 (an operation parked across a 2^32 advance) *)
Definition all_free (s : shared) : bool := forallb (fun f => match f with Free _ => true | _ => false end) (ph s).
Definition warp (c : config) (n : Z) : config :=
  let s := sh c in
  match q s with
  | [] =>
      if all_free s then
        let h' := hd s + n in
        let p i := h' + ((i - h') mod cap s) in
        let idx := map Z.of_nat (seq 0 (length (slots s))) in
        {| sh := {| slots := map (fun i => (None, u32 (p i))) idx; hd := h'; tl := tl s + n; cap := cap s; q := [];
                    ph := map (fun i => Free (p i)) idx; lin := lin s |};
           ths := ths c; hist := hist c |}
      else c
  | _ => c
  end.

Definition enc_res (r : res) : list Z :=
  match r with
  | RPush b => [1; zb b]
  | RPop (Some v) _ => [2; 1; v]
  | RPop None _ => [2; 0; 0]
  | RObs _ z _ => [3; z]
  end.
Definition res_success (r : res) : bool :=
  match r with RPush b => b | RPop (Some _) _ => true | _ => false end.
Definition enc_slot (x : option Z * Z) : list Z := [match fst x with Some v => v | None => 0 end; snd x].

(* PushWait(v, -1) and PopWait(-1) are the loops "try; if it failed, runtime.Gosched(); try again" around Push / Pop:
   they are run as such on top of the step model (program codes 1000000 + v and -10). *)
(* timed forms PushWait(v, d) / PopWait(d), d >= 0, with the 10 ms ticker: one try, then one more try per tick until
   the deadline has passed, i.e. at most n further tries for d in ((n-1)*10ms, n*10ms]; codes 2000000 + 10000*n + v
   and -100 - n (the clock is virtual under the shim, so n is exact) *)
Definition is_wait (x : Z) : bool := (1000000 <=? x) || (x =? -10) || (x <=? -100).
Definition attempt_of (x : Z) : op :=
  if x <? 0 then OpPop else if x <? 2000000 then OpPush (x - 1000000) else OpPush ((x - 2000000) mod 10000).
Definition tries_of (x : Z) : Z :=      (* further tries allowed after a failed one; -1 = unbounded (with Gosched) *)
  if x <=? -100 then - x - 100 else if 2000000 <=? x then (x - 2000000) / 10000 else -1.
Record rthread := { r_prog : list Z; r_wait : Z; r_left : Z; r_yield : bool; r_res : list Z }.
Definition EvGosched := 10.

(* run the schedule; programs are consumed when an idle thread is scheduled; entries for a thread with
   nothing left to do are skipped.  The trace is accumulated in reverse. *)
Fixpoint go (c : config) (rts : list rthread) (sched : list Z) (acc : list Z) : option (config * list rthread * list Z) :=
  match sched with
  | [] => Some (c, rts, acc)
  | t :: rest =>
      if t <? 0 then go (warp c (2 ^ 32 + t)) rts rest (t :: acc) else
      let i := Z.to_nat t in
      match nth_error (ths c) i, nth_error rts i with
      | Some p, Some rt =>
          let idle := match p with Idle => true | _ => false end in
          if idle && r_yield rt then
            go c (updl rts i {| r_prog := r_prog rt; r_wait := r_wait rt; r_left := r_left rt; r_yield := false; r_res := r_res rt |}) rest
               (rev_append [t; 1; EvGosched; 0; 0; 0; 0] acc)
          else
          (* which operation does an idle thread start, and what is left of its program *)
          let start :=
            if negb idle then Some (OpPop, rt)
            else if negb (r_wait rt =? 0) then Some (attempt_of (r_wait rt), rt)
            else match r_prog rt with
                 | [] => None
                 | x :: more =>
                     if is_wait x then Some (attempt_of x, {| r_prog := more; r_wait := x; r_left := tries_of x; r_yield := false; r_res := r_res rt |})
                     else Some (dec_op x, {| r_prog := more; r_wait := 0; r_left := 0; r_yield := false; r_res := r_res rt |})
                 end in
          match start with
          | None => go c rts rest acc
          | Some (o, rt1) =>
              let ev := observe (sh c) p in
              match step c (i, o) with
              | None => None
              | Some c' =>
                  (* did the operation return at this step? *)
                  let returned := negb idle && match nth_error (ths c') i with Some Idle => true | _ => false end in
                  let rt2 :=
                    if returned then
                      match last (map (fun e => Some (snd e)) (hist c')) None with
                      | Some r =>
                          if (r_wait rt1 =? 0) || res_success r || (r_left rt1 =? 0)
                          then {| r_prog := r_prog rt1; r_wait := 0; r_left := 0; r_yield := false; r_res := rev_append (enc_res r) (r_res rt1) |}
                          else if r_left rt1 <? 0     (* unbounded: Gosched, then try again *)
                          then {| r_prog := r_prog rt1; r_wait := r_wait rt1; r_left := -1; r_yield := true; r_res := r_res rt1 |}
                          else {| r_prog := r_prog rt1; r_wait := r_wait rt1; r_left := r_left rt1 - 1; r_yield := false; r_res := r_res rt1 |}
                      | None => rt1
                      end
                    else rt1 in
                  go c' (updl rts i rt2) rest (rev_append (t :: ev) acc)
              end
          end
      | _, _ => go c rts rest acc
      end
  end.

(* after the given schedule: round robin until everybody is done (entries of finished threads are skipped) *)
Definition completion (n : nat) (progs : list (list Z)) : list Z :=
  let total := fold_left (fun a p => a + length p)%nat progs O in
  concat (repeat (map Z.of_nat (seq 0 n)) (40 * total + 40)).

Definition run_case (args : list Z) : list Z :=
  match args with
  | k :: bh :: bl :: fill :: nt :: r =>
      let n := Z.to_nat nt in
      let (progs, r1) := get_lists n r in
      let (sched, _) := get_list r1 in
      let c0 := seq_state k (bh * 2 ^ 32 + bl) fill n in
      let rts := map (fun pr => {| r_prog := pr; r_wait := 0; r_left := 0; r_yield := false; r_res := [] |}) progs in
      match go c0 rts (sched ++ completion n progs) [] with
      | None => [PANIC]
      | Some (c, rts', acc) =>
          rev' acc ++ [-1] ++ flat_map (fun rt => put_list (rev' (r_res rt))) rts'
          ++ [-2; u32 (hd (sh c)); u32 (tl (sh c))] ++ flat_map enc_slot (slots (sh c))
      end
  | _ => [BADCASE]
  end.

Definition entry0 (sub : Z) (args : list Z) : list Z :=
  if sub =? 0 then run_case args else [BADCASE].

(* anchor: cap 2, two threads, push 7 || pop *)
Example anchor1 :
  entry0 0 [1; 0; 0; 0; 2;  1; 7;  1; 0;  12; 0;0;0;0; 1;1;1; 0;0; 1;1;1]
  = [0; 0; 0; 1; 1; 1; 0; 0; 0; 0; 1; 1; 2; 0; 0; 0; 0; 1; 3; 1; 0; 1; 1; 1; 0;
     1; 1; 1; 0; 0; 0; 0; 1; 1; 1; 2; 0; 0; 0; 0; 2; 0; 1; 2; 2; 1; 0; 0; -1;
     2; 1; 1; 3; 2; 0; 0; -2; 0; 1; 7; 1; 0; 1].
Proof. vm_compute. reflexivity. Qed.

(* ---- sub 2: the history judge on the implementation's output ---- *)
From V Require Import Model.SyncRingJudge.

(* walk the observed steps up to the -1 marker *)
Fixpoint judge_steps (fuel : nat) (cap : Z) (progs : list (list Z)) (s : jstate) (l : list Z) : jstate * list Z :=
  match fuel with
  | O => ({| j_q := j_q s; j_ths := j_ths s; j_ok := false |}, l)
  | S f =>
      match l with
      | [] => ({| j_q := j_q s; j_ths := j_ths s; j_ok := false |}, [])
      | x :: r =>
          if x =? -1 then (s, r)
          else if x <? -1 then      (* warp: 2^32 + x push/pop pairs by a ghost thread: content unchanged *)
            judge_steps f cap progs s r
          else
            match r with
            | 0 :: r' => judge_steps f cap progs (j_start cap progs s (Z.to_nat x)) r'
            | 2 :: r' => judge_steps f cap progs s r'
            | 1 :: ek :: loc :: a :: b :: res :: r' =>
                let s1 := {| j_q := j_q s; j_ths := map (look cap (j_q s)) (j_ths s); j_ok := j_ok s |} in
                if (ek =? EvCasU32) && (res =? 1) && (loc =? LocTail) then judge_steps f cap progs (j_lp cap s1 (Z.to_nat x) true) r'
                else if (ek =? EvCasU32) && (res =? 1) && (loc =? LocHead) then judge_steps f cap progs (j_lp cap s1 (Z.to_nat x) false) r'
                else judge_steps f cap progs s1 r'
            | _ => ({| j_q := j_q s; j_ths := j_ths s; j_ok := false |}, [])
            end
      end
  end.

Fixpoint check_threads (cap : Z) (ths : list tstate) (l : list Z) : bool * list Z :=
  match ths with
  | [] => (true, l)
  | t :: rest =>
      let (res, l') := get_list l in
      let ok := check_results cap (rev (t_done (finish t))) res in
      let (ok', l'') := check_threads cap rest l' in (ok && ok', l'')
  end.

(* final quiescent state: counters differ by the content's length and the slots hold it in order *)
Fixpoint slot_vals (l : list Z) : list Z := match l with v :: _ :: r => v :: slot_vals r | _ => [] end.
Definition check_final (cap : Z) (q : list Z) (l : list Z) : bool :=
  match l with
  | m :: h :: t :: slots =>
      let vs := slot_vals slots in
      (m =? -2) && (u32 (t - h) =? Z.of_nat (length q)) &&
      list_eqb (map (fun j => nth (Z.to_nat ((h + Z.of_nat j) mod cap)) vs (-1)) (seq 0 (length q))) q
  | _ => false
  end.

Definition judge (args : list Z) : list Z :=
  let (cs, r0) := get_list args in
  let (out, _) := get_list r0 in
  match cs with
  | k :: bh :: bl :: fill :: nt :: r =>
      let n := Z.to_nat nt in
      let (progs, _) := get_lists n r in
      let cap := 2 ^ k in
      let q0 := map fill_val (map Z.of_nat (seq 0 (Z.to_nat fill))) in
      let s0 := {| j_q := q0; j_ths := repeat {| t_next := O; t_cur := None; t_done := [] |} n; j_ok := true |} in
      let (s, rest) := judge_steps (length out + 1) cap progs s0 out in
      let (okr, rest') := check_threads cap (j_ths s) rest in
      [zb (j_ok s && okr && check_final cap (j_q s) rest')]
  | _ => [0]
  end.

Definition entry (sub : Z) (args : list Z) : list Z :=
  if sub =? 2 then judge args else entry0 sub args.

(* ---- well-formed cases: the domain of the refinement theorem  judge (case ++ run_case case) = [1]  (Props/C01.v) ----
   Syntactic part: 1 <= k <= 31, counter base >= 0, 0 <= fill <= 2^k, every program entry is one of the documented
   operation codes, every schedule entry is >= 0 (a thread id; ids beyond the thread count are skipped by the run;
   the negative "warp" pseudo-steps that replay the known finding F10 are EXCLUDED), and the schedule including the
   completion tail has at most 2^32 entries (so that no counter can advance by 2^32 under a parked operation).
   Termination part: every operation that was started must have returned by the end of the schedule, otherwise a result
   is missing and the judge (rightly) rejects the history.  For programs without the unbounded loops PushWait(v,-1) /
   PopWait(-1) and with at most 4 timed retries this is a theorem (the completion tail is long enough); for the
   unbounded loops it depends on the schedule and is decided by running the model ([finishes]). *)
Definition wf_op (x : Z) : bool :=
  (x =? 0) || ((0 <? x) && (x <? 1000000)) || ((-3 <=? x) && (x <=? -1)) || (x =? -10) || (x <=? -100)
  || ((1000000 <? x) && (x <? 2000000)) || ((2000000 <=? x) && (0 <? (x - 2000000) mod 10000)).
Definition bounded_op (x : Z) : bool :=
  negb (x =? -10) && negb ((1000000 <=? x) && (x <? 2000000)) && (tries_of x <=? 4).
Definition finished (c : config) (rts : list rthread) : bool :=
  forallb (fun p => match p with Idle => true | _ => false end) (ths c) && forallb (fun rt => r_wait rt =? 0) rts.
Definition start_rts (progs : list (list Z)) : list rthread :=
  map (fun pr => {| r_prog := pr; r_wait := 0; r_left := 0; r_yield := false; r_res := [] |}) progs.
Definition finishes (args : list Z) : bool :=
  match args with
  | k :: bh :: bl :: fill :: nt :: r =>
      let n := Z.to_nat nt in
      let (progs, r1) := get_lists n r in
      let (sched, _) := get_list r1 in
      match go (seq_state k (bh * 2 ^ 32 + bl) fill n) (start_rts progs) (sched ++ completion n progs) [] with
      | Some (c, rts', _) => finished c rts'
      | None => false
      end
  | _ => false
  end.
Definition wf_syntax (args : list Z) : bool :=
  match args with
  | k :: bh :: bl :: fill :: nt :: r =>
      let n := Z.to_nat nt in
      let (progs, r1) := get_lists n r in
      let (sched, _) := get_list r1 in
      (1 <=? k) && (k <=? 31) && (0 <=? bh * 2 ^ 32 + bl) && (0 <=? fill) && (fill <=? 2 ^ k)
      && forallb (forallb wf_op) progs && forallb (fun t => 0 <=? t) sched
      && (Z.of_nat (length (sched ++ completion n progs)) <=? 2 ^ 32)
  | _ => false
  end.
Definition all_bounded (args : list Z) : bool :=
  match args with
  | _ :: _ :: _ :: _ :: nt :: r => let (progs, _) := get_lists (Z.to_nat nt) r in forallb (forallb bounded_op) progs
  | _ => false
  end.
Definition wf_case (args : list Z) : bool := wf_syntax args && (all_bounded args || finishes args).
