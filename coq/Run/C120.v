(* C20, families "one generator, several calls" (dispatch number 120 through Prop.NumOf; Run/C20.v is untouched).
   case = 5 :: k :: n_1..n_k :: put_list charset ++ (hi,lo)*   ONE StrGenerator, k Generate calls of lengths n_i >= 0 in a row
                                                  on it (the scripted source runs on across the calls); output = per call
                                                  put_list text ++ [Int63 calls of that call]
          6 :: k :: n_1..n_k :: put_list charset       k calls of the package-level randz.String (one shared default generator
                                                  over `charset` = randz.CHAR_SET, real random source): output = per call
                                                  put_list text; the model predicts the rune counts only (harness: XProj),
                                                  the judge sees the texts
   Evaluated at Run level as chains of Model.Randz.generate / ok_str: a generator has no state besides its source, so
   call i must answer exactly as a first call on what is left of the script.
   sub 0 = model output; sub 2 = judge on put_list case ++ put_list impl_output. *)
From Coq Require Import List ZArith Bool.
From V Require Import Lib.Enc Lib.Utf8 Gen.Randz Model.Randz.
Import ListNotations.
Local Open Scope Z_scope.

Fixpoint take_ns (k : nat) (l : list Z) : option (list Z * list Z) :=
  match k, l with
  | O, _ => Some ([], l)
  | S k', n :: t => match take_ns k' t with Some (ns, r) => Some (n :: ns, r) | None => None end
  | _, [] => None
  end.
Fixpoint multi_run (g : sgen) (ns ws : list Z) : option (list Z) :=
  match ns with
  | [] => Some []
  | n :: t =>
      match generate g (ws ++ repeat 0 (S (Z.to_nat n))) (Z.to_nat n) with
      | Some (rs, used) =>
          match multi_run g t (skipn used ws) with
          | Some r => Some (put_list (runes_to_bytes rs) ++ [Z.of_nat used] ++ r)
          | None => None
          end
      | None => None
      end
  end.
Fixpoint multi_ok (counted : bool) (cs ns out : list Z) : bool :=
  match ns with
  | [] => match out with [] => true | _ => false end
  | n :: t =>
      let (bytes, r) := get_list out in
      if counted then match r with u :: r' => ok_str n cs (put_list bytes ++ [u]) && multi_ok counted cs t r' | [] => false end
      else ok_str n cs (put_list bytes ++ [0]) && (Z.of_nat (length out) =? 1 + Z.of_nat (length bytes) + Z.of_nat (length r))
           && multi_ok counted cs t r
  end.
Definition multi_dec (r : list Z) : option (list Z * list Z * list Z) :=
  match r with
  | k :: r1 =>
      if (k <? 0) || (64 <? k) then None else
      match take_ns (Z.to_nat k) r1 with
      | Some (ns, r2) => if existsb (fun n => n <? 0) ns then None else let (cs, ws) := get_list r2 in Some (ns, cs, ws)
      | None => None
      end
  | [] => None
  end.
Definition model (args : list Z) : list Z :=
  match args with
  | kind :: r =>
      match multi_dec r with
      | Some (ns, cs, ws) =>
          if kind =? 5 then
            match new_sgen cs with
            | Some g => match multi_run g ns (words_of ws) with Some o => o | None => [NOFUEL] end
            | None => [PANIC]
            end
          else if kind =? 6 then ns else [BADCASE]
      | None => [BADCASE]
      end
  | [] => [BADCASE]
  end.
Definition spec_ok (args out : list Z) : bool :=
  match args with
  | kind :: r =>
      match multi_dec r with
      | Some (ns, cs, _) =>
          match Utf8.runes cs with
          | [] => kind =? 5           (* NewStrGenerator panics on an empty set: outside the property *)
          | _ => if kind =? 5 then multi_ok true cs ns out else if kind =? 6 then multi_ok false cs ns out else false
          end
      | None => false
      end
  | [] => false
  end.
Definition entry (sub : Z) (args : list Z) : list Z :=
  if sub =? 0 then model args
  else if sub =? 2 then let (c, r) := get_list args in let (o, _) := get_list r in [zb (spec_ok c o)]
  else [BADCASE].

Example anchor_str_multi : (* charset abc, words 27, 1, 2: Generate(3), Generate(0), Generate(1) on one generator *)
  entry 0 [5; 3; 3; 0; 1; 3; 97; 98; 99; 0; 27; 0; 1; 0; 2] = [3; 99; 98; 97; 1;  0; 1;  1; 99; 1].
Proof. vm_compute. reflexivity. Qed.
Example anchor_str_multi_ok : entry 2 ([15; 5; 3; 3; 0; 1; 3; 97; 98; 99; 0; 27; 0; 1; 0; 2] ++ [10; 3; 99; 98; 97; 1;  0; 1;  1; 99; 1]) = [1].
Proof. vm_compute. reflexivity. Qed.
Example anchor_str_multi_stale : (* the second call hands back three runes: rejected *)
  entry 2 ([9; 5; 2; 3; 1; 3; 97; 98; 99] ++ [10; 3; 97; 97; 97; 1;  3; 97; 97; 97; 1]) = [0].
Proof. vm_compute. reflexivity. Qed.
Example anchor_string_twice : entry 2 ([7; 6; 2; 2; 1; 2; 65; 66] ++ [5; 2; 65; 66; 1; 66]) = [1].
Proof. vm_compute. reflexivity. Qed.
Example anchor_string_twice_stale : entry 2 ([7; 6; 2; 2; 1; 2; 65; 66] ++ [6; 2; 65; 66; 2; 66; 66]) = [0].
Proof. vm_compute. reflexivity. Qed.
Example anchor_string_model : entry 0 [6; 2; 2; 1; 2; 65; 66] = [2; 1].
Proof. vm_compute. reflexivity. Qed.
