(* C08 — the case interpreter of Run/C08.v run through the code GENERATED from cryptz/aes.go (coq/Gen/AesCode.v, written by
   gen/trans.go + gen/trans_ext08.go on every run).  NOT extracted and never imported by Run/C08.v or Model/: the
   correspondence run must survive a translation that breaks.

   The generated functions take the Go standard library as a parameter [ext' : Foreign].  [std E D seal open] is the
   instance that says about the library exactly what the hand model Model/Aes.v says about it (functional level: every
   buffer is a value of its own, cap = len), with the AES block functions E D and the AEAD seal / open as variables:
     bytes.Repeat b n            n < 0 panics, else n copies of b          bytes.Equal = beq
     aes.NewCipher key           the handle is the key; error E_NEWCIPHER unless the key has 16 / 24 / 32 bytes
     cipher.NewCBCEncrypter/Decrypter blk iv   panics unless len(iv) = BlockSize; the handle is (direction, key, iv)
     BlockMode.CryptBlocks dst src   panics when src is not a whole number of blocks or dst is shorter than src; writes the
                                 SP 800-38A chain (Model.Aes.cbc_enc_bytes / cbc_dec_bytes over E / D) over the front of dst
     cipher.NewGCMWithNonceSize blk size   error E_NEWGCM for size 0; the handle is the key
     AEAD.Seal dst[:n] nonce p ad    appends seal key nonce p ad to dst[:n]: inside dst's own array when n + len p + 16 <= len
                                 (= cap) dst, otherwise in fresh memory (dst untouched)
     AEAD.Open dst[:n] nonce c ad    error E_OPEN when open says None, else appends the plaintext the same way. *)
From Coq Require Import List ZArith Bool Arith.
From V Require Import Lib.Enc Lib.GoSem Lib.GoSemRec Gen.Cryptz Gen.AesCode Model.Aes Run.C08.
Import ListNotations.
Local Open Scope Z_scope.

Section Std.
Variable E D : bytes -> bytes -> bytes.
Variable seal : bytes -> bytes -> bytes -> bytes -> bytes.
Variable open : bytes -> bytes -> bytes -> bytes -> option bytes.

Definition std_Repeat (b : bytes) (n : Z) : M bytes :=
  if n <? 0 then GoSem.Panic else Ret (concat (repeat b (Z.to_nat n))).
Definition std_Equal (a b : bytes) : M bool := Ret (beq a b).
Definition std_NewCipher (key : bytes) : M (bytes * Z) := Ret (key, if good_key key then 0 else E_NEWCIPHER).
Definition std_NewCBC (enc : bool) (key iv : bytes) : M (bool * bytes * bytes) :=
  if (length iv =? BS)%nat then Ret (enc, key, iv) else GoSem.Panic.
Definition std_CryptBlocks (h : bool * bytes * bytes) (buf : bytes) (n : Z) (src : bytes) : M bytes :=
  let '(enc, key, iv) := h in
  if negb (length src mod BS =? 0)%nat then GoSem.Panic else
  if n <? zlen src then GoSem.Panic else
  Ret (copy_into buf (if enc then cbc_enc_bytes E key iv src else cbc_dec_bytes D key iv src)).
Definition std_NewGCM (key : bytes) (size : Z) : M (bytes * Z) := Ret (key, if size =? 0 then E_NEWGCM else 0).
(* append out to buf[:n] where cap(buf) = len(buf): the new buffer content and the slice returned *)
Definition append_into (buf : bytes) (n : nat) (need : nat) (out : bytes) : bytes * bytes :=
  (if (n + need <=? length buf)%nat then firstn n buf ++ copy_into (skipn n buf) out else buf, firstn n buf ++ out).
Definition std_Seal (key buf : bytes) (n : Z) (nonce plain ad : bytes) : M (bytes * bytes) :=
  Ret (append_into buf (Z.to_nat n) (length plain + TAG) (seal key nonce plain ad)).
Definition std_Open (key buf : bytes) (n : Z) (nonce ct ad : bytes) : M (bytes * (bytes * Z)) :=
  match open key nonce ct ad with
  | None => Ret (buf, ([], E_OPEN))
  | Some p => let '(b, r) := append_into buf (Z.to_nat n) (length ct - TAG) p in Ret (b, (r, 0))
  end.

Definition std : Foreign :=
  mkForeign bytes (bool * bytes * bytes)%type bytes
    std_Repeat std_Equal std_NewCipher (std_NewCBC true) (std_NewCBC false) std_CryptBlocks std_NewGCM std_Seal std_Open.
End Std.

(* ---- the explicit, total conversions between the model's results and what the Go functions return *)
Definition m_res {A B : Type} (ok : A -> B) (err : Z -> B) (r : res A) : M B :=
  match r with Ok a => Ret (ok a) | Err e => Ret (err e) | Aes.Panic => GoSem.Panic end.
(* ([]byte, error): (value, nil) or (nil, err) *)
Definition bytes_res (r : res bytes) : M (bytes * Z) := m_res (fun l => (l, 0)) (fun e => ([], e)) r.
(* (int, error): (n, nil) or (0, err) *)
Definition int_res (r : res nat) : M (Z * Z) := m_res (fun n => (Z.of_nat n, 0)) (fun e => (0, e)) r.
(* functions with an output buffer return (final dst, results): the model does not say what dst holds after an error
   return, so the buffer is compared on success only *)
Definition view_dst (x : bytes * Z) : bytes + Z := let '(d, e) := x in if e =? 0 then inl d else inr e.
Definition view_dst_n (x : bytes * (Z * Z)) : Z * bytes + Z * Z := let '(d, (n, e)) := x in if e =? 0 then inl (n, d) else inr (n, e).
Definition dst_res (r : res bytes) : M (bytes + Z) := m_res inl inr r.
Definition dst_n_res (r : res (nat * bytes)) : M (Z * bytes + Z * Z) :=
  m_res (fun x => inl (Z.of_nat (fst x), snd x)) (fun e => inr (0, e)) r.

(* ---- the operations of Run/C08 that work on values (length helpers, standalone padding) through the generated code;
        the four buffer operations are run on the memory-level model there (views into one array), which the generated code
        - functional level - is tied to through Props/C08.v c08_alias_*: they stay on the hand model here *)
Definition enc_m (m : M (bytes * Z)) : list Z :=
  match m with Ret (l, e) => if e =? 0 then 0 :: l else [1; e] | GoSem.Panic => [PANIC] | NoFuel => [NOFUEL] end.
Definition enc_z (m : M Z) : list Z := match m with Ret z => [z] | GoSem.Panic => [PANIC] | NoFuel => [NOFUEL] end.

Section OpsCode.
Variable E D : bytes -> bytes -> bytes.
Variable seal : bytes -> bytes -> bytes -> bytes -> bytes.
Variable open : bytes -> bytes -> bytes -> bytes -> option bytes.
Let X := std E D seal open.

Definition run_op_code (o : op) : list Z :=
  match o with
  | OLen w n =>
      let p := repeat 0 n in
      enc_z (if w =? 0 then g_AESCBCEncryptLen p else if w =? 1 then g_AESCBCDecryptLen p
             else if w =? 2 then g_AESGCMEncryptLen p else g_AESGCMDecryptLen p)
  | OPad d bs => enc_m (g_PKCS7Padding X d bs)
  | OUnpad d bs => enc_m (g_PKCS7UnPadding X d bs)
  | OPad5 d => enc_m (g_PKCS5Padding X d)
  | OUnpad5 d => enc_m (g_PKCS5UnPadding X d)
  | _ => run_op E D seal open o
  end.
End OpsCode.

Definition entry_code (sub : Z) (args : list Z) : list Z :=
  if sub =? 2 then entry sub args else
    let (oo, rest) := dec_op args in
    let tbl := get_tbl rest in
    match oo with
    | None => [BADCASE]
    | Some o =>
        match first_missing tbl (queries tbl 0 o) with
        | Some q => ASK :: q
        | None => run_op_code (E_t tbl) (D_t tbl) (seal_t tbl) (open_t tbl) o
        end
    end.
