(* C06: case encoding for the correspondence run (see Model/TrieCase.v for the format).
   sub 0 = model output (Replace, ReplaceWithMask); sub 1 = canonical specification output (one copy per maximal
   region); sub 2 = relational judge on put_list case ++ put_list implementation-output. *)
From Coq Require Import List ZArith Bool.
From V Require Import Lib.Enc Model.Trie Model.TrieCase.
Import ListNotations.
Local Open Scope Z_scope.

Definition dec_case (args : list Z) : option (list op * bytes * bytes * Z) :=
  match args with
  | n :: r => match get_ops (Z.to_nat n) r with
              | Some (ops, q) => let (text, r1) := get_list q in
                                 let (repl, r2) := get_list r1 in
                                 match r2 with [mask] => Some (ops, text, repl, mask) | _ => None end
              | None => None
              end
  | [] => None
  end.

Definition entry (sub : Z) (args : list Z) : list Z :=
  if sub =? 2 then
    let (cs, r) := get_list args in
    let (out, _) := get_list r in
    match dec_case cs with
    | Some (ops, text, repl, mask) => [zb (c06_ok ops text repl mask out)]
    | None => [BADCASE]
    end
  else
    match dec_case args with
    | Some (ops, text, repl, mask) =>
        if sub =? 0 then c06_model ops text repl mask else if sub =? 1 then c06_spec ops text repl mask else [BADCASE]
    | None => [BADCASE]
    end.

(* in-kernel anchors: the F5 witness — patterns a, c, abcde; text abcde; repl "*"; mask '*' *)
Example anchor1 : entry 0 [4; 0;1;97; 0;1;99; 0;5;97;98;99;100;101; 1;0; 5;97;98;99;100;101; 1;42; 42]
  = [1;42; 5;42;42;42;42;42].
Proof. vm_compute. reflexivity. Qed.
Example anchor1s : entry 1 [4; 0;1;97; 0;1;99; 0;5;97;98;99;100;101; 1;0; 5;97;98;99;100;101; 1;42; 42]
  = [1;42; 5;42;42;42;42;42].
Proof. vm_compute. reflexivity. Qed.
