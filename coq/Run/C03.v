(* C03: case encoding for the correspondence run.
   input = ops, each op = [code; a; b; c; d; e]:
     0 Add a | 1 Remove a | 2 Contains a | 3 Len | 4 Iter | 5 Range (callback false at its a-th call; 0 = never) | 6 All (same)
     7 AddRun | 8 RemoveRun | 9 ContainsRun : a = high key, b = first low, c = count, d = step, e = modulus (>= 1);
       the i-th value is  (a * 65536 + ((b + i*d) mod e)) mod 2^32  -- expands to c single operations
     10 Buckets (number of containers in the map)
   every value is reduced mod 2^32 (the API takes uint32).
   sub 0 = model output; sub 1 = set-of-N specification output, both on the same expanded operation list. *)
From Coq Require Import List ZArith NArith Bool.
From V Require Import Lib.Enc Gen.Roaring Model.Bits Model.Roaring.
Import ListNotations.
Local Open Scope Z_scope.

Definition u32 (z : Z) : N := Z.to_N (z mod 4294967296).
Fixpoint run_vals (n : nat) (h cur d m : Z) : list N :=
  match n with
  | O => []
  | S k => u32 (h * 65536 + cur mod m) :: run_vals k h (cur + d) d m
  end.
Definition dec_op (c a b n d e : Z) : option (list rop) :=
  let m := if e <=? 0 then 1 else e in
  if c =? 0 then Some [RAdd (u32 a)] else if c =? 1 then Some [RRemove (u32 a)] else
  if c =? 2 then Some [RContains (u32 a)] else if c =? 3 then Some [RLen] else
  if c =? 4 then Some [RIter] else if c =? 5 then Some [RRange (Z.to_nat a)] else
  if c =? 6 then Some [RAll (Z.to_nat a)] else
  if c =? 7 then Some (map RAdd (run_vals (Z.to_nat n) a b d m)) else
  if c =? 8 then Some (map RRemove (run_vals (Z.to_nat n) a b d m)) else
  if c =? 9 then Some (map RContains (run_vals (Z.to_nat n) a b d m)) else
  if c =? 10 then Some [RBuckets] else None.
Fixpoint dec_ops (fuel : nat) (l : list Z) : option (list rop) :=
  match fuel, l with
  | _, [] => Some []
  | S f, c :: a :: b :: n :: d :: e :: r =>
      match dec_op c a b n d e, dec_ops f r with Some o, Some os => Some (o ++ os) | _, _ => None end
  | _, _ => None
  end.

Definition entry (sub : Z) (args : list Z) : list Z :=
  match dec_ops (length args) args with
  | Some ops =>
      if sub =? 0 then r_run r_empty ops
      else if sub =? 1 then sr_run [] ops
      else [BADCASE]
  | None => [BADCASE]
  end.

(* in-kernel anchors (DESIGN §6 F3: {1, 70000, 140000} must enumerate completely) *)
Example anchor1 : entry 0 [0;1;0;0;0;0; 0;70000;0;0;0;0; 0;140000;0;0;0;0; 0;1;0;0;0;0; 3;0;0;0;0;0; 4;0;0;0;0;0; 5;2;0;0;0;0; 10;0;0;0;0;0]
  = [1; 1; 1; 0; 3; 3; 1; 70000; 140000; 2; 1; 70000; 3].
Proof. vm_compute. reflexivity. Qed.
Example anchor1s : entry 1 [0;1;0;0;0;0; 0;70000;0;0;0;0; 0;140000;0;0;0;0; 0;1;0;0;0;0; 3;0;0;0;0;0; 4;0;0;0;0;0; 5;2;0;0;0;0; 10;0;0;0;0;0]
  = [1; 1; 1; 0; 3; 3; 1; 70000; 140000; 2; 1; 70000; 3].
Proof. vm_compute. reflexivity. Qed.
(* 20 values 0,3,..,57 into bucket 2, remove them all, the bucket disappears and is re-created *)
Example anchor2 : entry 0 [7;2;0;20;3;64; 3;0;0;0;0;0; 8;2;0;20;3;64; 10;0;0;0;0;0; 0;131073;0;0;0;0; 4;0;0;0;0;0]
  = [1;1;1;1;1;1;1;1;1;1;1;1;1;1;1;1;1;1;1;1; 20; 1;1;1;1;1;1;1;1;1;1;1;1;1;1;1;1;1;1;1;1; 0; 1; 1; 131073].
Proof. vm_compute. reflexivity. Qed.
