(* C05 / C06, family "wide": tries too large for the table-based model (one level of tens of thousands of nodes, or more
   than 2^16 nodes in all), judged by the CLOSED FORM of the specification for two regular pattern sets over an
   alphabet A = the runes lo .. lo+n-1 (all valid, none a surrogate; the harness guarantees it):
     width 1: the patterns are the n one-rune strings over A;
     width 2: the patterns are the n^2 two-rune strings over A.
   case = [kind; lo; n; width] ++ put_list(text as runes) ++ put_list(repl bytes) ++ [mask rune]
   kind -6 (C06): output = put_list(Replace text repl) ++ put_list(ReplaceWithMask text mask)
     width 1: occurrences are the single A-runes; touching occurrences are not merged, each is replaced on its own;
     width 2: occurrences are the adjacent A-pairs; they overlap inside a run of A-runes, so every maximal run of length
              >= 2 is one region (replaced by one repl / masked rune by rune), a run of length 1 is no occurrence.
   kind -5 (C05): output = [Match] ++ n :: put_list(occurrence) ... (FindAll, in order of the end position)
   No model is run for these cases: sub 0 = sub 1 = the closed form, sub 2 compares with it. *)
From Coq Require Import List ZArith Bool.
From V Require Import Lib.Enc Lib.Utf8.
Import ListNotations.
Local Open Scope Z_scope.

Definition inA (lo n r : Z) : bool := (lo <=? r) && (r <? lo + n).

(* maximal runs: a list of (is_A, runes) *)
Fixpoint runs (lo n : Z) (t : list Z) : list (bool * list Z) :=
  match t with
  | [] => []
  | r :: t' =>
      let b := inA lo n r in
      match runs lo n t' with
      | (b', l) :: rest => if Bool.eqb b b' then (b, r :: l) :: rest else (b, [r]) :: (b', l) :: rest
      | [] => [(b, [r])]
      end
  end.

Definition enc_runes (l : list Z) : list Z := flat_map encode_rune l.

Definition replace_w (lo n w : Z) (text repl : list Z) : list Z :=
  if w =? 1 then flat_map (fun r => if inA lo n r then repl else encode_rune r) text
  else flat_map (fun p => let '(b, l) := p in if b && (2 <=? Z.of_nat (length l)) then repl else enc_runes l) (runs lo n text).
Definition mask_w (lo n w : Z) (text : list Z) (mask : Z) : list Z :=
  if w =? 1 then flat_map (fun r => encode_rune (if inA lo n r then mask else r)) text
  else flat_map (fun p => let '(b, l) := p in if b && (2 <=? Z.of_nat (length l)) then enc_runes (map (fun _ => mask) l) else enc_runes l) (runs lo n text).

(* FindAll: width 1 -> every A-rune; width 2 -> every adjacent A-pair, left to right *)
Fixpoint pairs (lo n : Z) (t : list Z) : list (list Z) :=
  match t with
  | a :: ((b :: _) as t') => (if inA lo n a && inA lo n b then [encode_rune a ++ encode_rune b] else []) ++ pairs lo n t'
  | _ => []
  end.
Definition findall_w (lo n w : Z) (text : list Z) : list (list Z) :=
  if w =? 1 then map encode_rune (filter (inA lo n) text) else pairs lo n text.

Definition closed (kind lo n w : Z) (r : list Z) : list Z :=
  let (text, r1) := get_list r in
  let (repl, r2) := get_list r1 in
  let mask := match r2 with m :: _ => m | [] => 42 end in
  if kind =? -6 then put_list (replace_w lo n w text repl) ++ put_list (mask_w lo n w text mask)
  else let occ := findall_w lo n w text in
       [zb (negb (match occ with [] => true | _ => false end)); Z.of_nat (length occ)] ++ flat_map put_list occ.

Definition entry (sub : Z) (args : list Z) : list Z :=
  if sub =? 2 then
    let (cs, r) := get_list args in
    let (out, _) := get_list r in
    match cs with
    | kind :: lo :: n :: w :: rest => [zb (list_eqb out (closed kind lo n w rest))]
    | _ => [BADCASE]
    end
  else
    match args with
    | kind :: lo :: n :: w :: rest => closed kind lo n w rest
    | _ => [BADCASE]
    end.

Example anchor_w1 : entry 0 [-6; 256; 300; 1; 4; 97; 256; 257; 98; 1; 35; 42] = [4; 97; 35; 35; 98; 4; 97; 42; 42; 98].
Proof. vm_compute. reflexivity. Qed.
Example anchor_w2 : entry 0 [-6; 256; 300; 2; 6; 256; 97; 257; 258; 259; 98; 1; 35; 42] = [5; 196; 128; 97; 35; 98; 7; 196; 128; 97; 42; 42; 42; 98].
Proof. vm_compute. reflexivity. Qed.
