(* C18: case encoding for the correspondence run.
   0 Knapsack:        [0; W; bk; salt; n; w1; v1; ...; wn; vn]           -> indices of the returned items | [PANIC]
   1 FindDpSolvers:   [1; maxV; allow; bk; salt; n; v1..vn; q; query1..queryq]
        implementation's output: [m; (key; len; idx...) x m ascending by key; per query: (len; idx...) of Best(query),
        (len; idx...) of BestAllowMinOverflow(query)]
        model output (sub 0) = the projection of that output that does not depend on Go's map order ([proj]): entries with
        key <= maxV and the smallest key above it; a query's answers only when the query is <= that smallest key (or no
        key exceeds maxV), else the single token -7.
   2 Best/BestAllowMinOverflow on a hand-made map with the given distinct keys (cell of key k = [position of k]):
        [2; n; k1..kn; q; query1..queryq] -> per query: bflag; bpos; oflag; opos
   3 GetMaximalCliques: [3; n; one token 0/1 per pair i<j in the order (0,1) (0,2) .. (n-2,n-1)]
        -> [c; (len; v...) x c], each clique ascending, cliques in lexicographic order
   bk/salt = the tie-breaker: 0 none, 1 always replace, 2 never, 3 replace when the new selection is shorter,
   4 pseudo-random on (old, new, salt).
   sub 0 = model; sub 2 = judge of the implementation's (whole) output. *)
From Coq Require Import List ZArith Bool Arith.
From V Require Import Lib.Enc Model.Dp Model.Clique.
Import ListNotations.
Local Open Scope Z_scope.

Definition hashl (l : list nat) : Z := fold_left (fun a i => (a * 31 + Z.of_nat i + 1) mod 1000003) l 7.
Definition mk_brk (kind salt : Z) : breaker :=
  if kind =? 0 then None
  else if kind =? 1 then Some (fun _ _ => true)
  else if kind =? 2 then Some (fun _ _ => false)
  else if kind =? 3 then Some (fun old new => (length new <? length old)%nat)
  else Some (fun old new => ((hashl old * 17 + hashl new + salt) mod 2) =? 1).

Fixpoint pairs_of (l : list Z) : list (Z * Z) :=
  match l with a :: b :: t => (a, b) :: pairs_of t | _ => [] end.

(* ---- op 1 helpers ---- *)
Fixpoint insert_cell (c : dcell) (l : list dcell) : list dcell :=
  match l with [] => [c] | d :: t => if fst c <=? fst d then c :: l else d :: insert_cell c t end.
Definition sort_cells (l : list dcell) : list dcell := fold_right insert_cell [] l.
Definition put_cell (c : dcell) : list Z := fst c :: put_list (of_nats (snd c)).
Fixpoint put_cells (l : list dcell) : list Z := match l with [] => [] | c :: t => put_cell c ++ put_cells t end.
Fixpoint get_cells (m : nat) (l : list Z) : list dcell * list Z :=
  match m with
  | O => ([], l)
  | S k => match l with
           | key :: r => let (s, r1) := get_list r in let (cs, r2) := get_cells k r1 in ((key, nats_of s) :: cs, r2)
           | [] => ([], [])
           end
  end.
Definition cell_of (dp : list dcell) (k : option Z) : list nat :=
  match k with Some k' => match lookup k' dp with Some s => s | None => [] end | None => [] end.
(* which queries have map-order-independent answers *)
Definition query_stable (maxV : Z) (dp : list dcell) (q : Z) : bool :=
  match min_over maxV dp with Some c => q <=? fst c | None => true end.
Definition put_query (maxV : Z) (dp : list dcell) (q : Z) : list Z :=
  if query_stable maxV dp q then
    let keys := map fst dp in
    put_list (of_nats (cell_of dp (best q keys))) ++ put_list (of_nats (cell_of dp (best_over q keys)))
  else [-7].
Definition id_ord (k : nat) (dp : list dcell) : list dcell := dp.

Definition run_solvers (r : list Z) : list Z :=
  match r with
  | maxV :: allow :: bk :: salt :: n :: r1 =>
      let vals := firstn (Z.to_nat n) r1 in
      let (qs, _) := get_list (skipn (Z.to_nat n) r1) in
      let dp := find_dp_solvers (mk_brk bk salt) maxV (bz allow) id_ord vals in
      let st := sort_cells (stable_part maxV dp) in
      Z.of_nat (length st) :: put_cells st ++ flat_map (put_query maxV dp) qs
  | _ => [BADCASE]
  end.

(* judge of the implementation's whole output for op 1 *)
Fixpoint nat_list_eqb (a b : list nat) : bool :=
  match a, b with [], [] => true | x :: a', y :: b' => Nat.eqb x y && nat_list_eqb a' b' | _, _ => false end.
Fixpoint judge_queries (vals : list Z) (dp : list dcell) (qs : list Z) (l : list Z) : bool :=
  match qs with
  | [] => match l with [] => true | _ => false end
  | q :: qt =>
      let keys := map fst dp in
      let (b, r1) := get_list l in let (o, r2) := get_list r1 in
      let bc := nats_of b in let oc := nats_of o in
      let bk := total vals bc in let ok := total vals oc in
      (if existsb (fun k => k <=? q) keys
       then best_ok q keys (Some bk) && nat_list_eqb (cell_of dp (Some bk)) bc
       else match bc with [] => true | _ => false end) &&
      best_over_ok q keys (Some ok) && nat_list_eqb (cell_of dp (Some ok)) oc &&
      judge_queries vals dp qt r2
  end.
Definition judge_solvers (r impl : list Z) : bool :=
  match r, impl with
  | maxV :: allow :: bk :: salt :: n :: r1, m :: i1 =>
      let vals := firstn (Z.to_nat n) r1 in
      let (qs, _) := get_list (skipn (Z.to_nat n) r1) in
      let (dp, i2) := get_cells (Z.to_nat m) i1 in
      Nat.eqb (length dp) (Z.to_nat m) && solvers_ok maxV (bz allow) vals dp && judge_queries vals dp qs i2
  | _, _ => false
  end.

(* ---- op 2 ---- *)
Fixpoint pos_of (k : Z) (keys : list Z) (i : Z) : Z :=
  match keys with [] => -1 | x :: t => if x =? k then i else pos_of k t (i + 1) end.
Definition put_opt (keys : list Z) (r : option Z) : list Z :=
  match r with Some k => [1; pos_of k keys 0] | None => [0; 0] end.
Definition run_best (r : list Z) : list Z :=
  let (keys, r1) := get_list r in let (qs, _) := get_list r1 in
  flat_map (fun q => put_opt keys (best q keys) ++ put_opt keys (best_over q keys)) qs.
Definition get_opt (keys : list Z) (f p : Z) : option Z := if f =? 0 then None else Some (nthz keys (Z.to_nat p)).
Fixpoint judge_best_list (keys qs l : list Z) : bool :=
  match qs with
  | [] => match l with [] => true | _ => false end
  | q :: qt => match l with
               | bf :: bp :: off :: op :: r =>
                   ((bf =? 0) || ((0 <=? bp) && (bp <? Z.of_nat (length keys)))) &&
                   ((off =? 0) || ((0 <=? op) && (op <? Z.of_nat (length keys)))) &&
                   best_ok q keys (get_opt keys bf bp) && best_over_ok q keys (get_opt keys off op) && judge_best_list keys qt r
               | _ => false
               end
  end.
Definition judge_best (r impl : list Z) : bool :=
  let (keys, r1) := get_list r in let (qs, _) := get_list r1 in judge_best_list keys qs impl.

(* ---- op 3 ---- *)
(* adjacency bits -> neighbour lists *)
Fixpoint edges_row (i j : nat) (cnt : nat) (bits : list Z) : list (nat * nat) * list Z :=
  match cnt with
  | O => ([], bits)
  | S c => match bits with
           | b :: t => let (es, r) := edges_row i (S j) c t in ((if b =? 0 then es else (i, j) :: es), r)
           | [] => ([], [])
           end
  end.
Fixpoint edges_all (n i : nat) (rows : nat) (bits : list Z) : list (nat * nat) :=
  match rows with
  | O => []
  | S r => let (es, rest) := edges_row i (S i) (n - S i) bits in es ++ edges_all n (S i) r rest
  end.
Definition graph_of (n : nat) (bits : list Z) : graph :=
  let es := edges_all n 0 n bits in
  map (fun v => flat_map (fun e => if Nat.eqb (fst e) v then [snd e] else if Nat.eqb (snd e) v then [fst e] else []) es) (seq 0 n).
Definition put_cliques (cs : list (list nat)) : list Z :=
  Z.of_nat (length cs) :: flat_map (fun c => put_list (of_nats c)) cs.
Definition run_cliques (r : list Z) : list Z :=
  match r with
  | n :: bits =>
      let n' := Z.to_nat n in let g := graph_of n' bits in
      match max_cliques g (seq 0 n') with
      | Some cs => put_cliques (canon cs)
      | None => [NOFUEL]
      end
  | [] => [BADCASE]
  end.
Definition spec_cliques_out (r : list Z) : list Z :=
  match r with
  | n :: bits => let n' := Z.to_nat n in put_cliques (canon (spec_cliques (graph_of n' bits) n'))
  | [] => [BADCASE]
  end.

(* ---- op 0 ---- *)
Definition run_knapsack (r : list Z) : list Z :=
  match r with
  | W :: bk :: salt :: n :: r1 =>
      match knapsack_z (mk_brk bk salt) W (pairs_of (firstn (2 * Z.to_nat n) r1)) with
      | Some s => of_nats s
      | None => [PANIC]
      end
  | _ => [BADCASE]
  end.
Definition judge_knapsack (r impl : list Z) : bool :=
  match r with
  | W :: bk :: salt :: n :: r1 =>
      let its := pairs_of (firstn (2 * Z.to_nat n) r1) in
      if (W <? 0) || existsb (fun it => fst it <? 0) its then true      (* outside the property: negative limit / weight *)
      else if existsb (fun z => z <? 0) impl then false                 (* PANIC or garbage *)
      else knap_ok (Z.to_nat W) (map (fun it => (Z.to_nat (fst it), snd it)) its) (nats_of impl)
  | _ => false
  end.

Definition entry (sub : Z) (args : list Z) : list Z :=
  if sub =? 2 then
    let (c, r) := get_list args in let (impl, _) := get_list r in
    match c with
    | op :: a =>
        [zb (if op =? 0 then judge_knapsack a impl else if op =? 1 then judge_solvers a impl
             else if op =? 2 then judge_best a impl else if op =? 3 then list_eqb impl (spec_cliques_out a) else false)]
    | [] => [BADCASE]
    end
  else match args with
       | op :: r =>
           if sub =? 0 then
             (if op =? 0 then run_knapsack r else if op =? 1 then run_solvers r else if op =? 2 then run_best r
              else if op =? 3 then run_cliques r else [BADCASE])
           else if sub =? 1 then (if op =? 3 then spec_cliques_out r else [BADCASE])
           else [BADCASE]
       | [] => [BADCASE]
       end.

(* in-kernel anchors *)
(* Knapsack(5, [(2,3) (3,4) (4,5)]) = items 0 and 1 *)
Example anchor_knap : entry 0 [0; 5; 0; 0; 3; 2; 3; 3; 4; 4; 5] = [0; 1].
Proof. vm_compute. reflexivity. Qed.
(* FindDpSolvers(4, [2,3], allow): keys 0, 2, 3 and the overshoot 5; Best(4) = cell of 3; BestAllowMinOverflow(4) = cell of 5 *)
Example anchor_solvers : entry 0 [1; 4; 1; 0; 0; 2; 2; 3; 1; 4] = [4; 0; 0; 2; 1; 0; 3; 1; 1; 5; 2; 0; 1; 1; 1; 2; 0; 1].
Proof. vm_compute. reflexivity. Qed.
(* path 0-1-2: maximal cliques {0,1} {1,2} *)
Example anchor_cliques : entry 0 [3; 3; 1; 0; 1] = [2; 2; 0; 1; 2; 1; 2] /\ entry 1 [3; 3; 1; 0; 1] = [2; 2; 0; 1; 2; 1; 2].
Proof. vm_compute. split; reflexivity. Qed.
