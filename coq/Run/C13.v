(* C13: case encoding for the correspondence run.
   input  = kind :: z0 :: z1 :: ops,   each op = [code; L; a; b]   (unused fields 0)
     kind 0: listz.DList, two lists L = 0, 1 (zL = 1: zero value `var l DList[int]`, 0: NewDoubly()); node handles
             are ids >= 2 in allocation order.
             0 Init 1 Len 2 Front 3 Back 4 Next(a) 5 Prev(a) 6 Value(a) 7 Remove(a) 8 PushFront(v=a) 9 PushBack(v=a)
             10 InsertBefore(v=a, mark=b) 11 InsertAfter(v=a, mark=b) 12 PushFrontNode(e=a) 13 PushBackNode(e=a)
             14 InsertNodeBefore(e=a, mark=b) 15 InsertNodeAfter(e=a, mark=b) 16 MoveToFront(a) 17 MoveToBack(a)
             18 MoveBefore(e=a, mark=b) 19 MoveAfter(e=a, mark=b) 20 PushBackDList(other=a) 21 PushFrontDList(other=a)
             22 Front/Next traversal (id, value)* 23 Back/Prev traversal 24 All() stopping after a values (0: never)
             25 &DNode{Value: a}
             the output ends with the token 1 ("container/list gave the same observations", computed by the harness)
     kind 1: listz.SList (one list, zero value)
             0 Len 1 Front 2 Back 3 Get(a) 4 Remove(a) 5 RemoveFront 6 PushFront(v=a) 7 PushBack(v=a) 8 InsertAt(i=a, v=b)
             9 PushFrontNode(e=a) 10 PushBackNode(e=a) 11 InsertNodeAt(i=a, e=b) 12 Swap(a, b) 13 Next(a) 14 Value(a)
             15 Front/Next traversal 16 All() stopping after a values 17 &SNode{Value: a}
   output = Len/Value/Remove(DList) [n]; handles [id] or [-1] for nil; traversals length-prefixed; [PANIC] when the code panics.
   sub 0  = model;  sub 1 = sequence specification ([BADCASE] when the case is outside the specification). *)
From Coq Require Import List ZArith Bool Arith.
From V Require Import Lib.Enc Model.DList Model.SList.
Import ListNotations.
Local Open Scope Z_scope.

Definition enc_res (r : res) : list Z :=
  match r with
  | RInt z => [z]
  | RHandle None => [-1]
  | RHandle (Some e) => [Z.of_nat e]
  | RList l => put_list l
  | RUnit => []
  end.
Definition enc_out (l : list res) : list Z := flat_map enc_res l.

Definition nn (z : Z) : bool := 0 <=? z.
Definition tn (z : Z) : nat := Z.to_nat z.

Definition dec_dop (c L a b : Z) : option op :=
  if negb (nn L && nn c) then None else
  let l := tn L in
  match tn c with
  | 0 => Some (OInit l) | 1 => Some (OLen l) | 2 => Some (OFront l) | 3 => Some (OBack l)
  | 4 => if nn a then Some (ONext (tn a)) else None
  | 5 => if nn a then Some (OPrev (tn a)) else None
  | 6 => if nn a then Some (OValue (tn a)) else None
  | 7 => if nn a then Some (ORemove l (tn a)) else None
  | 8 => Some (OPushFront l a) | 9 => Some (OPushBack l a)
  | 10 => if nn b then Some (OInsertBefore l a (tn b)) else None
  | 11 => if nn b then Some (OInsertAfter l a (tn b)) else None
  | 12 => if nn a then Some (OPushFrontNode l (tn a)) else None
  | 13 => if nn a then Some (OPushBackNode l (tn a)) else None
  | 14 => if nn a && nn b then Some (OInsertNodeBefore l (tn a) (tn b)) else None
  | 15 => if nn a && nn b then Some (OInsertNodeAfter l (tn a) (tn b)) else None
  | 16 => if nn a then Some (OMoveToFront l (tn a)) else None
  | 17 => if nn a then Some (OMoveToBack l (tn a)) else None
  | 18 => if nn a && nn b then Some (OMoveBefore l (tn a) (tn b)) else None
  | 19 => if nn a && nn b then Some (OMoveAfter l (tn a) (tn b)) else None
  | 20 => if nn a then Some (OPushBackDList l (tn a)) else None
  | 21 => if nn a then Some (OPushFrontDList l (tn a)) else None
  | 22 => Some (OFwd l) | 23 => Some (OBwd l)
  | 24 => if nn a then Some (OAll l (tn a)) else None
  | 25 => Some (ONewNode a)
  | _ => None
  end%nat.

Definition dec_sop (c L a b : Z) : option sop :=
  if negb (nn c) then None else
  match tn c with
  | 0 => Some SLen | 1 => Some SFront | 2 => Some SBack | 3 => Some (SGet a) | 4 => Some (SRemove a) | 5 => Some SRemoveFront
  | 6 => Some (SPushFront a) | 7 => Some (SPushBack a) | 8 => Some (SInsertAt a b)
  | 9 => if nn a then Some (SPushFrontNode (tn a)) else None
  | 10 => if nn a then Some (SPushBackNode (tn a)) else None
  | 11 => if nn b then Some (SInsertNodeAt a (tn b)) else None
  | 12 => Some (SSwap a b)
  | 13 => if nn a then Some (SNext (tn a)) else None
  | 14 => if nn a then Some (SValue (tn a)) else None
  | 15 => Some SFwd
  | 16 => if nn a then Some (SAll (tn a)) else None
  | 17 => Some (SNewNode a)
  | _ => None
  end%nat.

Fixpoint dec_ops {A} (d : Z -> Z -> Z -> Z -> option A) (l : list Z) (acc : list A) : option (list A) :=
  match l with
  | [] => Some (rev acc)
  | c :: L :: a :: b :: r => match d c L a b with Some o => dec_ops d r (o :: acc) | None => None end
  | _ => None
  end.

Definition enc_result (tail : list Z) (r : result) : list Z :=
  match r with RPanic => [PANIC] | RNoFuel => [NOFUEL] | RBad => [BADCASE] | ROut l => enc_out l ++ tail end.
Definition enc_spec (tail : list Z) (o : option (list res)) : list Z :=
  match o with None => [BADCASE] | Some l => enc_out l ++ tail end.

Definition entry (sub : Z) (args : list Z) : list Z :=
  match args with
  | k :: z0 :: z1 :: r =>
      if k =? 0 then
        match dec_ops dec_dop r [] with
        | Some ops => if sub =? 0 then enc_result [1] (dlist_case (bz z0) (bz z1) ops)
                      else if sub =? 1 then enc_spec [1] (dspec_case ops) else [BADCASE]
        | None => [BADCASE]
        end
      else if k =? 1 then
        match dec_ops dec_sop r [] with
        | Some ops => if sub =? 0 then enc_result [] (slist_case ops)
                      else if sub =? 1 then enc_spec [] (sspec_case ops) else [BADCASE]
        | None => [BADCASE]
        end
      else [BADCASE]
  | _ => [BADCASE]
  end.

(* in-kernel anchors *)
(* zero-value list 0: PushBack 5, PushBack 6, PushFront 7, MoveToBack(node 4), Remove(node 2), self-copy at the back, traversal *)
Example anchor_dlist : entry 0 [0; 1; 0;  9;0;5;0; 9;0;6;0; 8;0;7;0; 17;0;4;0; 7;0;2;0; 20;0;0;0; 22;0;0;0; 1;0;0;0; 4;0;2;0]
  = [2; 3; 4; 5; 8; 3;6; 4;7; 5;6; 6;7; 4; -1; 1].
Proof. vm_compute. reflexivity. Qed.
Example anchor_dlist_spec : entry 1 [0; 1; 0;  9;0;5;0; 9;0;6;0; 8;0;7;0; 17;0;4;0; 7;0;2;0; 20;0;0;0; 22;0;0;0; 1;0;0;0; 4;0;2;0]
  = [2; 3; 4; 5; 8; 3;6; 4;7; 5;6; 6;7; 4; -1; 1].
Proof. vm_compute. reflexivity. Qed.
Example anchor_slist : entry 0 [1; 0; 0;  7;0;5;0; 7;0;6;0; 6;0;7;0; 8;0;1;9; 12;0;0;3; 4;0;2;0; 15;0;0;0; 2;0;0;0]
  = [2; 6; 4;6; 5;9; 3;7; 3] /\ entry 1 [1; 0; 0;  7;0;5;0; 7;0;6;0; 6;0;7;0; 8;0;1;9; 12;0;0;3; 4;0;2;0; 15;0;0;0; 2;0;0;0]
  = [2; 6; 4;6; 5;9; 3;7; 3].
Proof. vm_compute. split; reflexivity. Qed.
