(* C15: case encoding for the correspondence run.
   case = kind :: a :: b :: put_list l1 ++ put_list l2 ++ [n; oracle table ...]
     0  ParseUint(l1, base a, bitSize b)            -> [kind; hi; lo]            (value as two 32-bit halves)
     1  HexEncode(l1)                               -> put_list text
     2  HexDecode(l1)                               -> put_list prefix ++ [errkind; byte]
     3  HexDecodeInPlace(l1)                        -> put_list buffer_after ++ [n; errkind; byte]
     4  digest helper a (0 md5 1 sha1 2 sha224 3 sha256 4 sha384 5 sha512 6 sha512/224 7 sha512/256) of l1 -> put_list hex
     5  Hmac(key l1, data l2, hash a)               -> put_list hex
     6  XxxStream a over l1 read in chunks l2, reader error iff b odd (b / 2 = reader style) -> [0] ++ put_list hex | [1]
     7  Base64Encode(l1, encoding a)                -> put_list text
     8  Base64Decode(l1, encoding a)                -> put_list bytes ++ [err]
     9  IPv4ToLong(l1)                              -> [value]
     10 LongToIPv4(a) and back                      -> put_list text ++ [IPv4ToLong text]
   every output ends with three flags the Go side computes: agrees-with-the-standard-library, string and []byte
   instantiations agree, input unchanged afterwards — the model and the specification say [1; 1; 1].
   sub 0 = model; sub 1 = specification (the DECLARATIVE Go-literal grammar Model/StrconvGrammar.v go_parse_uint for
   ParseUint, positional definition for hex, x itself for the IPv4 round trip; for kinds 4-8 the standard-library primitive IS the specification: same as the model).
   sub 3 = the intermediate specification of ParseUint (spec_parse_uint: the model's grammar layer around an unbounded
   scan; other kinds as sub 1);  sub 4 = [underscoreOK state machine on l1; its declarative token-level reading on l1]
   (all proved equal in Proofs/Strconv*.v; runnable so that each layer can be compared with the real strconv).
   Standard-library primitives are looked up in the oracle table; a missing entry yields [ASK; query]. *)
From Coq Require Import List ZArith Bool.
From V Require Import Lib.Enc Gen.StrzStd Model.Strconv Model.Hex Model.StrconvGrammar.
Import ListNotations.
Local Open Scope Z_scope.

Definition flags : list Z := [1; 1; 1].
Definition hi32 (x : Z) : Z := x / 2 ^ 32.
Definition lo32 (x : Z) : Z := x mod 2 ^ 32.
Definition presult_tokens (r : presult) : list Z := [presult_kind r; hi32 (presult_val r); lo32 (presult_val r)].

Definition ask (tbl : list (list Z * list Z)) (q : list Z) (k : list Z -> list Z) : list Z :=
  match lookup q tbl with Some a => k a | None => ASK :: q end.

Definition spec_hex_encode (src : list Z) : list Z :=
  flat_map (fun b => [hexchar (b / 16); hexchar (b mod 16)]) src.

Definition run (spec : bool) (k a b : Z) (l1 l2 : list Z) (tbl : list (list Z * list Z)) : list Z :=
  if k =? 0 then presult_tokens ((if spec then go_parse_uint else parse_uint) l1 a b) ++ flags
  else if k =? 1 then put_list ((if spec then spec_hex_encode else hex_encode) l1) ++ flags
  else if k =? 2 then let (p, e) := if spec then hex_spec l1 else hex_decode l1 [] in put_list p ++ herr_tokens e ++ flags
  else if k =? 3 then
    (if spec then let (p, e) := hex_spec l1 in put_list (p ++ skipn (length p) l1) ++ [Z.of_nat (length p)] ++ herr_tokens e
     else let '(buf, n, e) := hex_decode_inplace l1 in put_list buf ++ [Z.of_nat n] ++ herr_tokens e) ++ flags
  else if k =? 4 then ask tbl (1 :: a :: l1) (fun d => put_list (digest_helper (fun _ _ => d) a l1) ++ flags)
  else if k =? 5 then ask tbl (2 :: a :: Z.of_nat (length l1) :: l1 ++ l2)
                          (fun d => put_list (hmac_helper (fun _ _ _ => d) a l1 l2) ++ flags)
  else if k =? 6 then
    let data := concat (chunks_of l2 l1) in
    if negb (b mod 2 =? 0) then [1] ++ flags
    else ask tbl (1 :: a :: data)
             (fun d => match digest_stream (fun _ _ => d) a (chunks_of l2 l1) false with
                       | Some h => [0] ++ put_list h ++ flags | None => [1] ++ flags end)
  else if k =? 7 then ask tbl (3 :: a :: l1) (fun d => put_list (base64_encode (fun _ _ => d) a l1) ++ flags)
  else if k =? 8 then ask tbl (4 :: a :: l1)
                          (fun d => let (bytes, e) := base64_decode (fun _ _ => (tl d, hd0 d)) a l1 in put_list bytes ++ [e] ++ flags)
  else if k =? 9 then [ipv4_to_long l1] ++ flags
  else if k =? 10 then put_list (long_to_ipv4 a) ++ [if spec then a else ipv4_to_long (long_to_ipv4 a)] ++ flags
  else [BADCASE].

Definition entry (sub : Z) (args : list Z) : list Z :=
  match args with
  | k :: a :: b :: r =>
      let (l1, r1) := get_list r in
      let (l2, r2) := get_list r1 in
      let tbl := match r2 with n :: t => fst (get_table (Z.to_nat n) t) | [] => [] end in
      if sub =? 0 then run false k a b l1 l2 tbl
      else if sub =? 1 then run true k a b l1 l2 tbl
      else if sub =? 3 then (if k =? 0 then presult_tokens (spec_parse_uint l1 a b) ++ flags else run true k a b l1 l2 tbl)
      else if sub =? 4 then [if underscore_ok l1 then 1 else 0; if go_underscore_ok l1 then 1 else 0]
      else [BADCASE]
  | _ => [BADCASE]
  end.

(* in-kernel anchors *)
Example anchor_parse : entry 0 [0; 16; 8; 2; 102; 70; 0; 0] = [0; 0; 255; 1; 1; 1].                 (* ParseUint("fF",16,8) *)
Proof. vm_compute. reflexivity. Qed.
Example anchor_range : entry 0 [0; 10; 8; 3; 50; 53; 54; 0; 0] = [2; 0; 255; 1; 1; 1].             (* "256", 8 bits *)
Proof. vm_compute. reflexivity. Qed.
Example anchor_base0 : entry 1 [0; 0; 64; 5; 48; 120; 95; 49; 102; 0; 0] = [0; 0; 31; 1; 1; 1].      (* "0x_1f" *)
Proof. vm_compute. reflexivity. Qed.
Example anchor_base0_scan : entry 3 [0; 0; 64; 5; 48; 120; 95; 49; 102; 0; 0] = [0; 0; 31; 1; 1; 1].
Proof. vm_compute. reflexivity. Qed.
Example anchor_grammar_sep : entry 1 [0; 0; 64; 4; 49; 95; 95; 48; 0; 0] = [1; 0; 0; 1; 1; 1]                       (* "1__0" *)
  /\ entry 1 [0; 0; 8; 4; 57; 57; 57; 120; 0; 0] = [2; 0; 255; 1; 1; 1].                                             (* "999x", 8 bits: range first *)
Proof. split; vm_compute; reflexivity. Qed.
Example anchor_hexdec : entry 0 [2; 0; 0; 5; 52; 49; 103; 52; 50; 0; 0] = [1; 65; 1; 103; 1; 1; 1].  (* "41g42" *)
Proof. vm_compute. reflexivity. Qed.
Example anchor_inplace : entry 0 [3; 0; 0; 4; 52; 49; 52; 50; 0; 0] = [4; 65; 66; 52; 50; 2; 0; 0; 1; 1; 1].
Proof. vm_compute. reflexivity. Qed.
Example anchor_ip : entry 0 [10; 3232235777; 0; 0; 0; 0] =
  [11; 49;57;50;46;49;54;56;46;49;46;49; 3232235777; 1; 1; 1].                                        (* 192.168.1.1 *)
Proof. vm_compute. reflexivity. Qed.
Example anchor_ask : entry 0 [4; 0; 0; 1; 97; 0; 0] = [ASK; 1; 0; 97].
Proof. vm_compute. reflexivity. Qed.
Example anchor_digest : entry 0 [4; 0; 0; 1; 97; 0; 1; 3; 1; 0; 97; 2; 171; 205] = [4; 97; 98; 99; 100; 1; 1; 1].
Proof. vm_compute. reflexivity. Qed.
