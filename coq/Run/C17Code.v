(* C17: the case interpreter of Run/C17.v, ops 0 (Mask), 1 (Sub), 2 (SubByDisplay), 3 (Rev), 4 (Len), 8 (UcFirst) and
   9 (LcFirst), executed through the GENERATED functions of Gen/StrsCode.v (translated from strz/strs.go by gen/trans.go +
   gen/trans_ext17.go) instead of the hand-written model.  Proofs/StrsCodeRun.v proves
   entry_code sub args = Run.C17.entry sub args  for all arguments, so the differential run of `entry 0` against the
   compiled package is, for these ops, a run of the generated code.  (Not extracted: Run/C17.v does not depend on the
   generated file, so the differential run survives a translation that no longer compiles.)
   Go's int is an unbounded Z in the translation: where an int expression of Mask / Sub would leave the int64 range (the
   hand model wraps there) entry_code falls back to the model. *)
From Coq Require Import List ZArith Bool.
From V Require Import Lib.Enc Lib.Utf8 Model.Strs Run.C17.
From V Require Import Lib.GoSem Gen.StrsCode.
Import ListNotations.
Local Open Scope Z_scope.

Definition enc_m (o : M (list Z)) : list Z :=
  match o with GoSem.Ret b => b | GoSem.Panic => [PANIC] | NoFuel => [NOFUEL] end.

(* decidable forms of Proofs/StrsCode.v sub_no_wrap / mask_no_wrap *)
Definition sub_no_wrapb (st ln : Z) : bool := wrap64 (st + ln) =? st + ln.
Definition mask_no_wrapb (s : list Z) (st en : Z) : bool :=
  let l := rune_count_z s in
  (l <? st) || (l <? en) ||
  ((wrap64 (l - st) =? l - st) && (wrap64 (l - st - en) =? l - st - en) && (wrap64 (l - en) =? l - en)).

Definition run_code (op : Z) (r : list Z) : list Z :=
  let (s, r1) := get_list r in
  if op =? 0 then
    let (m, r2) := get_list r1 in let (st, r3) := get_int r2 in let (en, _) := get_int r3 in
    if mask_no_wrapb s st en then enc_m (g_Mask (S (length s)) s m st en) else run_model op r
  else if op =? 1 then
    let (st, r2) := get_int r1 in let (ln, _) := get_int r2 in
    if sub_no_wrapb st ln then enc_m (g_Sub (S (length s)) s st ln) else run_model op r
  else if op =? 2 then let (lim, _) := get_int r1 in enc_m (g_SubByDisplay (S (length s)) s lim)
  else if op =? 3 then enc_m (g_Rev (S (length s)) s)
  else if op =? 4 then match g_Len s with GoSem.Ret n => [n] | GoSem.Panic => [PANIC] | NoFuel => [NOFUEL] end
  else if op =? 8 then enc_m (g_UcFirst s)
  else if op =? 9 then enc_m (g_LcFirst s)
  else run_model op r.

Definition entry_code (sub : Z) (args : list Z) : list Z :=
  if sub =? 0 then match args with op :: r => run_code op r | [] => entry sub args end
  else entry sub args.

(* the anchors of Run/C17.v, through the generated code *)
Example anchor_code_sub : entry_code 0 [1; 5; 97; 226; 130; 172; 98; 0; 1; 0; 1] = [226; 130; 172].
Proof. vm_compute. reflexivity. Qed.
Example anchor_code_mask : entry_code 0 [0; 4; 97; 98; 99; 100; 1; 42; 0; 1; 0; 1] = [97; 42; 42; 100].
Proof. vm_compute. reflexivity. Qed.
Example anchor_code_sbd : entry_code 0 [2; 5; 255; 255; 255; 255; 255; 0; 4] = [255; 255].
Proof. vm_compute. reflexivity. Qed.
Example anchor_code_rev : entry_code 0 [3; 5; 97; 226; 130; 172; 98] = [98; 226; 130; 172; 97].
Proof. vm_compute. reflexivity. Qed.
