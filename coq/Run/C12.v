(* C12: case encoding for the correspondence run.
   mode 0  [0; cap; ops...]     sequential operation sequence on NewSafeKV(cap); op = [code; a; b; c]:
             0 Get a | 1 Set a b | 2 SetNx a b | 3 SetX a b | 4 Delete (first c of [a; b]) | 5 Has a | 6 Contains a | 7 Len
             8 Keys | 9 Values | 10 Range (stop after a callbacks, 0 = never) | 11 All (same) | 12 GetWithMap (first c of [a; b])
             13 GetWithLock a | 14 Clear | 15 Map (callback kind a, arguments b c)
           sub 0 = the generated skeletons interpreted with the effect table (exec_call); sub 1 = the plain-map specification (sem)
   mode 1  [1; nthreads; hist...]   an observed concurrent history; one completed call = [inv; resp; code; a; b; c; rlen; r...]
           sub 0 = sub 1 = [linearisable w.r.t. the specification sem from the empty map ? 1 : 0; number of calls]
           (the judge of a history IS the specification; the implementation's output is [1; number of calls])
   mode 2  [2; a; b; iters]     race-detector stress of the method pair (a, b): no model content, both subs = [0] (no report) *)
From Coq Require Import List ZArith Bool Arith.
From V Require Import Lib.Enc Gen.SafeKVSkel Model.SafeKV.
Import ListNotations.
Local Open Scope Z_scope.

Definition dec_call (code a b c : Z) : option call :=
  let ks := firstn (Z.to_nat c) [a; b] in
  if code =? 0 then Some (CGet a) else if code =? 1 then Some (CSet a b) else if code =? 2 then Some (CSetNx a b) else
  if code =? 3 then Some (CSetX a b) else if code =? 4 then Some (CDelete ks) else if code =? 5 then Some (CHas a) else
  if code =? 6 then Some (CContains a) else if code =? 7 then Some CLen else if code =? 8 then Some CKeys else
  if code =? 9 then Some CValues else if code =? 10 then Some (CRange (Z.to_nat a)) else if code =? 11 then Some (CAll (Z.to_nat a)) else
  if code =? 12 then Some (CGetWithMap ks) else if code =? 13 then Some (CGetWithLock a) else if code =? 14 then Some CClear else
  if code =? 15 then Some (CMap a b c) else None.

Fixpoint dec_calls (fuel : nat) (l : list Z) : option (list call) :=
  match fuel, l with
  | _, [] => Some []
  | S f, code :: a :: b :: c :: r =>
      match dec_call code a b c, dec_calls f r with Some x, Some xs => Some (x :: xs) | _, _ => None end
  | _, _ => None
  end.

Fixpoint dec_hist (fuel : nat) (l : list Z) : option (list hop) :=
  match fuel, l with
  | _, [] => Some []
  | S f, inv :: resp :: code :: a :: b :: c :: rl :: r =>
      match dec_call code a b c, dec_hist f (skipn (Z.to_nat rl) r) with
      | Some x, Some hs => Some ({| h_inv := inv; h_resp := resp; h_call := x; h_res := firstn (Z.to_nat rl) r |} :: hs)
      | _, _ => None
      end
  | _, _ => None
  end.

(* mode 3: sizes observed by readers polling during ONE bulk call that takes the map from `before` to `after` entries
   (-1 ends a reader): atomicity of the call = every observation is one of the two sizes and, per reader, never goes back *)
Fixpoint bulk_ok (before after : Z) (seen_after : bool) (l : list Z) : bool :=
  match l with
  | [] => true
  | x :: t =>
      if x =? -1 then bulk_ok before after false t
      else if x =? after then bulk_ok before after true t
      else if x =? before then negb seen_after && bulk_ok before after seen_after t
      else false
  end.

Definition entry (sub : Z) (args : list Z) : list Z :=
  match args with
  | 0 :: cap :: ops =>
      match dec_calls (length ops) ops with
      | Some cs => if sub =? 0 then run_model cs [] else if sub =? 1 then run_spec cs [] else [BADCASE]
      | None => [BADCASE]
      end
  | 1 :: nth :: hist =>
      match dec_hist (length hist) hist with
      | Some hs => if (sub =? 0) || (sub =? 1) then [zb (linearizable hs []); Z.of_nat (length hs)] else [BADCASE]
      | None => [BADCASE]
      end
  | [2; a; b; iters] => [0]
  | 3 :: before :: after :: obs => [zb (bulk_ok before after false obs)]
  | _ => [BADCASE]
  end.

(* in-kernel anchors *)
Example anchor_seq : entry 0 [0; 4; 1;3;30;0; 2;3;31;0; 2;5;50;0; 3;7;70;0; 8;0;0;0; 9;0;0;0; 4;3;9;2; 7;0;0;0; 10;0;0;0; 10;5;0;0]
  = [0; 1; 0; 2; 3; 5; 2; 30; 50; 1; 2; 5; 50; 1; 1].
Proof. vm_compute. reflexivity. Qed.
Example anchor_seq_spec : entry 1 [0; 4; 1;3;30;0; 2;3;31;0; 2;5;50;0; 3;7;70;0; 8;0;0;0; 9;0;0;0; 4;3;9;2; 7;0;0;0; 10;0;0;0; 10;5;0;0]
  = [0; 1; 0; 2; 3; 5; 2; 30; 50; 1; 2; 5; 50; 1; 1].
Proof. vm_compute. reflexivity. Qed.
(* two overlapping SetNx on the same key: both returning true has no linearisation, one true one false has *)
Example anchor_hist_bad : entry 0 [1; 2; 1;4;2;7;1;0;1;1; 2;3;2;7;2;0;1;1] = [0; 2].
Proof. vm_compute. reflexivity. Qed.
Example anchor_hist_ok : entry 0 [1; 2; 1;4;2;7;1;0;1;1; 2;3;2;7;2;0;1;0] = [1; 2].
Proof. vm_compute. reflexivity. Qed.
