(* C05: case encoding for the correspondence run (see Model/TrieCase.v for the format).
   sub 0 = model output; sub 1 = canonical specification output (informative; FuzzySearch = WILD);
   sub 2 = relational judge on put_list case ++ put_list implementation-output.
   A case with a trailing 1 after the text asks for the Dump observation as well (Model/TrieDump.v): the output is the
   output of the same case without the flag, followed by the built structure (node table in pre-order); the judge
   compares that part with the automaton of the inserted patterns computed from the byte strings alone. *)
From Coq Require Import List ZArith Bool.
From V Require Import Lib.Enc Model.Trie Model.TrieCase Model.TrieDump.
Import ListNotations.
Local Open Scope Z_scope.

Definition dec_case (args : list Z) : option (list op * bytes) :=
  match args with
  | n :: r => match get_ops (Z.to_nat n) r with
              | Some (ops, q) => let (text, rest) := get_list q in
                                 match rest with [] => Some (ops, text) | _ => None end
              | None => None
              end
  | [] => None
  end.

(* the same case followed by the Dump flag *)
Definition dec_case_dump (args : list Z) : option (list op * bytes) :=
  match args with
  | n :: r => match get_ops (Z.to_nat n) r with
              | Some (ops, q) => let (text, rest) := get_list q in
                                 match rest with [1] => Some (ops, text) | _ => None end
              | None => None
              end
  | [] => None
  end.

Definition entry (sub : Z) (args : list Z) : list Z :=
  if sub =? 2 then
    let (cs, r) := get_list args in
    let (out, _) := get_list r in
    match dec_case cs with
    | Some (ops, text) => [zb (c05_ok ops text out)]
    | None => match dec_case_dump cs with
              | Some (ops, text) => [zb (c05_ok_dump ops text out)]
              | None => [BADCASE]
              end
    end
  else
    match dec_case args with
    | Some (ops, text) => if sub =? 0 then c05_model ops text else if sub =? 1 then c05_spec ops text else [BADCASE]
    | None => match dec_case_dump args with
              | Some (ops, text) =>
                  if sub =? 0 then c05_model_dump ops text
                  else if sub =? 1 then c05_spec ops text ++ enc_dump (spec_dump (inserted ops))
                  else [BADCASE]
              | None => [BADCASE]
              end
    end.

(* in-kernel anchors *)
(* patterns "a", "ab", "bc"; text "abc": Match true; FindAll a, ab, bc; PrefixSearch("abc") none; FuzzySearch("abc") = [bc] *)
Example anchor1 : entry 0 [4; 0;1;97; 0;2;97;98; 0;2;98;99; 1;0; 3;97;98;99]
  = [1; 3; 1;97; 2;97;98; 2;98;99; 0; 1; 2;98;99].
Proof. vm_compute. reflexivity. Qed.
Example anchor1s : entry 2 ([18; 4; 0;1;97; 0;2;97;98; 0;2;98;99; 1;0; 3;97;98;99] ++ [15; 1; 3; 1;97; 2;97;98; 2;98;99; 0; 1; 2;98;99]) = [1].
Proof. vm_compute. reflexivity. Qed.
(* the same case with the Dump flag: the same output, then the structure.  Pre-order: root, a, ab, b, bc;
   node = word, isEnd, size, number of children, fail (-1 = nil, 0 = the root, 1 98 = node "b") *)
Example anchor1d : entry 0 [4; 0;1;97; 0;2;97;98; 0;2;98;99; 1;0; 3;97;98;99; 1]
  = [1; 3; 1;97; 2;97;98; 2;98;99; 0; 1; 2;98;99] ++
    [-1000020; 5;  0; 0;0;2; -1;   1;97; 1;1;1; 0;   2;97;98; 1;2;0; 1;98;   1;98; 0;1;1; 0;   2;98;99; 1;2;0; 0].
Proof. vm_compute. reflexivity. Qed.
(* the specification side computes the same structure from the byte strings alone, and the judge accepts it *)
Example anchor1ds : entry 1 [4; 0;1;97; 0;2;97;98; 0;2;98;99; 1;0; 3;97;98;99; 1]
  = [1; 3; 1;97; 2;97;98; 2;98;99; 0; -1000006] ++
    [-1000020; 5;  0; 0;0;2; -1;   1;97; 1;1;1; 0;   2;97;98; 1;2;0; 1;98;   1;98; 0;1;1; 0;   2;98;99; 1;2;0; 0].
Proof. vm_compute. reflexivity. Qed.
Example anchor1dj : entry 2 (put_list [4; 0;1;97; 0;2;97;98; 0;2;98;99; 1;0; 3;97;98;99; 1] ++
   put_list (entry 0 [4; 0;1;97; 0;2;97;98; 0;2;98;99; 1;0; 3;97;98;99; 1])) = [1].
Proof. vm_compute. reflexivity. Qed.
(* a wrong fail link ("ab" -> root instead of "b") is rejected *)
Example anchor1dj_bad : entry 2 (put_list [4; 0;1;97; 0;2;97;98; 0;2;98;99; 1;0; 3;97;98;99; 1] ++
   put_list ([1; 3; 1;97; 2;97;98; 2;98;99; 0; 1; 2;98;99] ++
    [-1000020; 5;  0; 0;0;2; -1;   1;97; 1;1;1; 0;   2;97;98; 1;2;0; 0;   1;98; 0;1;1; 0;   2;98;99; 1;2;0; 0])) = [0].
Proof. vm_compute. reflexivity. Qed.
(* multi-byte runes and an invalid byte (value invalidByteBase + 0xff = 1114367), an insert after the build (nil links) *)
Example anchor2d : entry 0 [4; 0;3;228;184;173; 0;1;255; 1;0; 0;2;255;97; 0; 1]
  = [0; 0; 3; 1;255; 2;255;97; 3;228;184;173; 3; 1;255; 2;255;97; 3;228;184;173] ++
    [-1000020; 4;  0; 0;0;2; -1;   1;20013; 1;3;0; 0;   1;1114367; 1;1;1; 0;   2;1114367;97; 1;2;0; -1].
Proof. vm_compute. reflexivity. Qed.
