(* C05: case encoding for the correspondence run (see Model/TrieCase.v for the format).
   sub 0 = model output; sub 1 = canonical specification output (informative; FuzzySearch = WILD);
   sub 2 = relational judge on put_list case ++ put_list implementation-output. *)
From Coq Require Import List ZArith Bool.
From V Require Import Lib.Enc Model.Trie Model.TrieCase.
Import ListNotations.
Local Open Scope Z_scope.

Definition dec_case (args : list Z) : option (list op * bytes) :=
  match args with
  | n :: r => match get_ops (Z.to_nat n) r with
              | Some (ops, q) => let (text, rest) := get_list q in
                                 match rest with [] => Some (ops, text) | _ => None end
              | None => None
              end
  | [] => None
  end.

Definition entry (sub : Z) (args : list Z) : list Z :=
  if sub =? 2 then
    let (cs, r) := get_list args in
    let (out, _) := get_list r in
    match dec_case cs with
    | Some (ops, text) => [zb (c05_ok ops text out)]
    | None => [BADCASE]
    end
  else
    match dec_case args with
    | Some (ops, text) => if sub =? 0 then c05_model ops text else if sub =? 1 then c05_spec ops text else [BADCASE]
    | None => [BADCASE]
    end.

(* in-kernel anchors *)
(* patterns "a", "ab", "bc"; text "abc": Match true; FindAll a, ab, bc; PrefixSearch("abc") none; FuzzySearch("abc") = [bc] *)
Example anchor1 : entry 0 [4; 0;1;97; 0;2;97;98; 0;2;98;99; 1;0; 3;97;98;99]
  = [1; 3; 1;97; 2;97;98; 2;98;99; 0; 1; 2;98;99].
Proof. vm_compute. reflexivity. Qed.
Example anchor1s : entry 2 ([18; 4; 0;1;97; 0;2;97;98; 0;2;98;99; 1;0; 3;97;98;99] ++ [15; 1; 3; 1;97; 2;97;98; 2;98;99; 0; 1; 2;98;99]) = [1].
Proof. vm_compute. reflexivity. Qed.
