(* C17: case encoding for the correspondence run.
   case = op :: arguments; a byte string is length-prefixed (put_list); a Go int is two tokens hi lo with
   value hi * 2^32 + lo (hi signed, 0 <= lo < 2^32), so MaxInt/MinInt fit the token range.
     0 Mask str mask start end      1 Sub s start length       2 SubByDisplay s limit     3 Rev s      4 Len s
     5 RemoveRunes s kind a         6 SnakeToCamelCase s up    7 CamelCaseToSnake s       8 UcFirst s  9 LcFirst s
    10 CamelCaseToSnake(SnakeToCamelCase(s, up))
   output = the bytes of the returned string ([n] for Len), [PANIC] when the code panics.
   sub 0 = model; sub 2 = judge of the implementation's output: equal to the rune-list specification where the
   property defines one (non-negative arguments; valid UTF-8 where the definition needs it; identifiers for the round
   trip), otherwise only "did not panic"; sub 1 = that specification's answer (the model's where there is none). *)
From Coq Require Import List ZArith Bool.
From V Require Import Lib.Enc Lib.Utf8 Model.Strs.
Import ListNotations.
Local Open Scope Z_scope.

Definition get_int (l : list Z) : Z * list Z :=
  match l with hi :: lo :: r => (hi * 4294967296 + lo, r) | _ => (0, []) end.

(* op 11 = op 5 observed through a recording predicate: after the result, the token CALLS and the runes the predicate was
   asked about, in order — RemoveRunes asks once per rune of the string (for a predicate with memory, "the runes selected by
   the predicate" means nothing else) *)
Definition CALLS : Z := -1000030.

Definition enc_res (r : res) : list Z := match r with Ret b => b | Panic => [PANIC] | Stuck => [NOFUEL] end.

(* the predicates handed to RemoveRunes *)
Definition pred (kind a : Z) (r : Z) : bool :=
  if kind =? 0 then false else if kind =? 1 then true else if kind =? 2 then r =? a
  else if kind =? 3 then r <? a else if kind =? 4 then (r mod 2) =? (a mod 2)
  else if kind =? 5 then (r mod 3) =? (a mod 3) else a <=? r.

Definition roundtrip (s : list Z) (up : bool) : res := bind (snake_to_camel s up) camel_to_snake.

Definition run_model (op : Z) (r : list Z) : list Z :=
  let (s, r1) := get_list r in
  if op =? 0 then
    let (m, r2) := get_list r1 in let (st, r3) := get_int r2 in let (en, _) := get_int r3 in enc_res (mask s m st en)
  else if op =? 1 then let (st, r2) := get_int r1 in let (ln, _) := get_int r2 in enc_res (sub s st ln)
  else if op =? 2 then let (lim, _) := get_int r1 in enc_res (sub_by_display s lim)
  else if op =? 3 then rev_str s
  else if op =? 4 then [len s]
  else if op =? 5 then enc_res (remove_runes (pred (nthz r1 0) (nthz r1 1)) s)
  else if op =? 6 then enc_res (snake_to_camel s (bz (hd0 r1)))
  else if op =? 7 then enc_res (camel_to_snake s)
  else if op =? 8 then uc_first s
  else if op =? 9 then lc_first s
  else if op =? 10 then enc_res (roundtrip s (bz (hd0 r1)))
  else if op =? 11 then enc_res (remove_runes (pred (nthz r1 0) (nthz r1 1)) s) ++ CALLS :: put_list (runes s)
  else [BADCASE].

(* what the property fixes for this case: Some output where it defines one (rune-list definitions for non-negative
   arguments, valid UTF-8 where the definition needs it, the identifier grammar for the round trip), None where it
   only demands "no panic" *)
Definition expected (op : Z) (r : list Z) : option (list Z) :=
  let (s, r1) := get_list r in
  if op =? 0 then
    let (m, r2) := get_list r1 in let (st, r3) := get_int r2 in let (en, _) := get_int r3 in
    if (0 <=? st) && (0 <=? en) then Some (spec_mask s m st en) else None
  else if op =? 1 then
    let (st, r2) := get_int r1 in let (ln, _) := get_int r2 in
    if (0 <=? st) && (-1 <=? ln) then Some (spec_sub s st ln) else None
  else if op =? 2 then
    let (lim, _) := get_int r1 in if (0 <=? lim) && valid_utf8 s then Some (spec_sub_by_display s lim) else None
  else if op =? 3 then if valid_utf8 s then Some (spec_rev s) else None
  else if op =? 4 then Some [Z.of_nat (length (chunks s))]
  else if op =? 5 then
    if valid_utf8 s then Some (spec_remove_runes (pred (nthz r1 0) (nthz r1 1)) s) else None
  else if op =? 8 then Some (match s with b :: t => (if lower b then b - 32 else b) :: t | [] => [] end)
  else if op =? 9 then Some (match s with b :: t => (if (65 <=? b) && (b <=? 90) then b + 32 else b) :: t | [] => [] end)
  else if op =? 10 then if ident s then Some s else None
  else if op =? 11 then
    if valid_utf8 s then Some (spec_remove_runes (pred (nthz r1 0) (nthz r1 1)) s ++ CALLS :: put_list (map crune (chunks s))) else None
  else None.

(* sub 1: the specification's answer where there is one, else the model's (for reading replays) *)
Definition run_spec (op : Z) (r : list Z) : list Z :=
  match expected op r with Some e => e | None => run_model op r end.
(* the one place where a panic is outside the property: Mask with a negative argument (outside the property's
   "non-negative arguments") so large that strings.Repeat is asked for more than can be allocated — the complement of
   the hypothesis of Props/C17.v c17_mask_no_panic *)
Definition may_panic (op : Z) (r : list Z) : bool :=
  let (s, r1) := get_list r in
  if op =? 0 then
    let (m, r2) := get_list r1 in let (st, r3) := get_int r2 in let (en, _) := get_int r3 in
    let ml := wrap64 (wrap64 (rune_count_z s - st) - en) in
    ((st <? 0) || (en <? 0)) && (rune_count_z m =? 1) && (1 <? ml) && (alloc_limit <? zlen m * ml)
  else false.
(* sub 2: the judge applied to the implementation's output *)
Definition spec_ok (op : Z) (r impl : list Z) : bool :=
  match expected op r with
  | Some e => list_eqb impl e
  | None => negb (list_eqb impl [PANIC]) || may_panic op r
  end.

Definition entry (sub : Z) (args : list Z) : list Z :=
  if sub =? 2 then
    let (c, r) := get_list args in let (impl, _) := get_list r in
    match c with op :: a => [zb (spec_ok op a impl)] | [] => [BADCASE] end
  else
  match args with
  | op :: r => if sub =? 0 then run_model op r else if sub =? 1 then run_spec op r else [BADCASE]
  | [] => [BADCASE]
  end.

(* in-kernel anchors *)
(* Sub("a€b", 1, 1) = "€" *)
Example anchor_sub : entry 0 [1; 5; 97; 226; 130; 172; 98; 0; 1; 0; 1] = [226; 130; 172].
Proof. vm_compute. reflexivity. Qed.
Example anchor_sub_s : entry 1 [1; 5; 97; 226; 130; 172; 98; 0; 1; 0; 1] = [226; 130; 172].
Proof. vm_compute. reflexivity. Qed.
(* Mask("abcd", "*", 1, 1) = "a**d";  Mask("abc", "*", MaxInt, MaxInt) = "abc" *)
Example anchor_mask : entry 0 [0; 4; 97; 98; 99; 100; 1; 42; 0; 1; 0; 1] = [97; 42; 42; 100].
Proof. vm_compute. reflexivity. Qed.
Example anchor_mask_max : entry 0 [0; 3; 97; 98; 99; 1; 42; 2147483647; 4294967295; 2147483647; 4294967295] = [97; 98; 99].
Proof. vm_compute. reflexivity. Qed.
(* SubByDisplay("\xff\xff\xff\xff\xff", 4) = "\xff\xff" (F12) *)
Example anchor_sbd : entry 0 [2; 5; 255; 255; 255; 255; 255; 0; 4] = [255; 255].
Proof. vm_compute. reflexivity. Qed.
(* CamelCaseToSnake(SnakeToCamelCase("ab_c1", true)) *)
Example anchor_rt : entry 0 [10; 5; 97; 98; 95; 99; 49; 1] = [97; 98; 95; 99; 49].
Proof. vm_compute. reflexivity. Qed.
(* judge: Sub("a€b", 1, 1) must be "€"; "a" is rejected *)
Example anchor_judge : entry 2 ([11; 1; 5; 97; 226; 130; 172; 98; 0; 1; 0; 1] ++ [3; 226; 130; 172]) = [1]
  /\ entry 2 ([11; 1; 5; 97; 226; 130; 172; 98; 0; 1; 0; 1] ++ [1; 97]) = [0].
Proof. vm_compute. split; reflexivity. Qed.
