(* C17: case encoding for the correspondence run.
   case = op :: arguments; a byte string is length-prefixed (put_list); a Go int is two tokens hi lo with
   value hi * 2^32 + lo (hi signed, 0 <= lo < 2^32), so MaxInt/MinInt fit the token range.
     0 Mask str mask start end      1 Sub s start length       2 SubByDisplay s limit     3 Rev s      4 Len s
     5 RemoveRunes s kind a         6 SnakeToCamelCase s up    7 CamelCaseToSnake s       8 UcFirst s  9 LcFirst s
    10 CamelCaseToSnake(SnakeToCamelCase(s, up))
   output = the bytes of the returned string ([n] for Len), [PANIC] when the code panics.
   sub 0 = model; sub 1 = the rune-list specification where the property defines one (valid UTF-8 where the
   definition needs it, non-negative arguments), otherwise the model's own answer (only "no panic" is claimed there). *)
From Coq Require Import List ZArith Bool.
From V Require Import Lib.Enc Lib.Utf8 Model.Strs.
Import ListNotations.
Local Open Scope Z_scope.

Definition get_int (l : list Z) : Z * list Z :=
  match l with hi :: lo :: r => (hi * 4294967296 + lo, r) | _ => (0, []) end.

Definition enc_res (r : res) : list Z := match r with Ret b => b | Panic => [PANIC] | Stuck => [NOFUEL] end.

(* the predicates handed to RemoveRunes *)
Definition pred (kind a : Z) (r : Z) : bool :=
  if kind =? 0 then false else if kind =? 1 then true else if kind =? 2 then r =? a
  else if kind =? 3 then r <? a else if kind =? 4 then (r mod 2) =? (a mod 2)
  else if kind =? 5 then (r mod 3) =? (a mod 3) else a <=? r.

Definition roundtrip (s : list Z) (up : bool) : res := bind (snake_to_camel s up) camel_to_snake.

Definition run_model (op : Z) (r : list Z) : list Z :=
  let (s, r1) := get_list r in
  if op =? 0 then
    let (m, r2) := get_list r1 in let (st, r3) := get_int r2 in let (en, _) := get_int r3 in enc_res (mask s m st en)
  else if op =? 1 then let (st, r2) := get_int r1 in let (ln, _) := get_int r2 in enc_res (sub s st ln)
  else if op =? 2 then let (lim, _) := get_int r1 in enc_res (sub_by_display s lim)
  else if op =? 3 then rev_str s
  else if op =? 4 then [len s]
  else if op =? 5 then enc_res (remove_runes (pred (nthz r1 0) (nthz r1 1)) s)
  else if op =? 6 then enc_res (snake_to_camel s (bz (hd0 r1)))
  else if op =? 7 then enc_res (camel_to_snake s)
  else if op =? 8 then uc_first s
  else if op =? 9 then lc_first s
  else if op =? 10 then enc_res (roundtrip s (bz (hd0 r1)))
  else [BADCASE].

Definition run_spec (op : Z) (r : list Z) : list Z :=
  let (s, r1) := get_list r in
  if op =? 0 then
    let (m, r2) := get_list r1 in let (st, r3) := get_int r2 in let (en, _) := get_int r3 in
    if (0 <=? st) && (0 <=? en) then spec_mask s m st en else run_model op r
  else if op =? 1 then
    let (st, r2) := get_int r1 in let (ln, _) := get_int r2 in
    if (0 <=? st) && (-1 <=? ln) then spec_sub s st ln else run_model op r
  else if op =? 2 then
    let (lim, _) := get_int r1 in if (0 <=? lim) && valid_utf8 s then spec_sub_by_display s lim else run_model op r
  else if op =? 3 then if valid_utf8 s then spec_rev s else run_model op r
  else if op =? 4 then [Z.of_nat (length (chunks s))]
  else if op =? 5 then
    if valid_utf8 s then spec_remove_runes (pred (nthz r1 0) (nthz r1 1)) s else run_model op r
  else if op =? 10 then if ident s then s else run_model op r
  else run_model op r.

Definition entry (sub : Z) (args : list Z) : list Z :=
  match args with
  | op :: r => if sub =? 0 then run_model op r else if sub =? 1 then run_spec op r else [BADCASE]
  | [] => [BADCASE]
  end.

(* in-kernel anchors *)
(* Sub("a€b", 1, 1) = "€" *)
Example anchor_sub : entry 0 [1; 5; 97; 226; 130; 172; 98; 0; 1; 0; 1] = [226; 130; 172].
Proof. vm_compute. reflexivity. Qed.
Example anchor_sub_s : entry 1 [1; 5; 97; 226; 130; 172; 98; 0; 1; 0; 1] = [226; 130; 172].
Proof. vm_compute. reflexivity. Qed.
(* Mask("abcd", "*", 1, 1) = "a**d";  Mask("abc", "*", MaxInt, MaxInt) = "abc" *)
Example anchor_mask : entry 0 [0; 4; 97; 98; 99; 100; 1; 42; 0; 1; 0; 1] = [97; 42; 42; 100].
Proof. vm_compute. reflexivity. Qed.
Example anchor_mask_max : entry 0 [0; 3; 97; 98; 99; 1; 42; 2147483647; 4294967295; 2147483647; 4294967295] = [97; 98; 99].
Proof. vm_compute. reflexivity. Qed.
(* SubByDisplay("\xff\xff\xff\xff\xff", 4) = "\xff\xff" (F12) *)
Example anchor_sbd : entry 0 [2; 5; 255; 255; 255; 255; 255; 0; 4] = [255; 255].
Proof. vm_compute. reflexivity. Qed.
(* CamelCaseToSnake(SnakeToCamelCase("ab_c1", true)) *)
Example anchor_rt : entry 0 [10; 5; 97; 98; 95; 99; 49; 1] = [97; 98; 95; 99; 49].
Proof. vm_compute. reflexivity. Qed.
