(* C07: the case interpreter of Run/C07.v, operations 0, 1 (OctalFormat, HexFormat), 4, 5 (OctalParse, HexParse) and 8, 9
   (Parse(Format(s)) for octal and hex), executed through the GENERATED functions of Gen/CodecCode.v (translated from
   strz/enc.go and strz/std_strconv.go by gen/trans.go + gen/trans_ext07.go) instead of the hand-written model.
   Proofs/CodecCode.v proves  entry_code sub args = Run.C07.entry sub args  for all arguments, so the differential run of
   `entry 0` against the compiled package is, for these operations, a run of the generated code.  (Not extracted:
   Run/C07.v does not depend on the generated file, so the differential run survives a translation that no longer
   compiles.)  XParse(dst, src) is run on a destination of dl zero bytes that does not overlap src; the case's answer is
   dst[:n].  The unicode / utf16 operations (2, 3, 6, 7, 10, 11) and malformed cases are the model's. *)
From Coq Require Import List ZArith Bool.
From V Require Import Lib.Enc Lib.GoSem Lib.GoSemStd Gen.CodecCode Model.Codec Run.C07.
Import ListNotations.
Import GoNotations.
Local Open Scope Z_scope.

Definition enc_m (o : M (list Z)) : list Z :=
  match o with Ret l => l | Panic => [PANIC] | NoFuel => [NOFUEL] end.

(* above the length of the input and above 2 (toUpper over two digits runs with the caller's fuel) *)
Definition fuel_for (s : list Z) : nat := S (S (S (length s))).

Definition g_format (k : Z) (s : list Z) : M (list Z) :=
  if k =? 0 then g_OctalFormat (fuel_for s) s else g_HexFormat (fuel_for s) s.

Definition g_parse (k : Z) (dl : nat) (s : list Z) : M (list Z) :=
  do '(d, n) <- (if k =? 0 then g_OctalParse (fuel_for s) (repeat 0 dl) s else g_HexParse (fuel_for s) (repeat 0 dl) s);;
  m_slice d 0 n.

Definition g_roundtrip (k : Z) (s : list Z) : M (list Z) :=
  do e <- g_format k s;; g_parse k (length e) e.

Definition entry_code (sub : Z) (args : list Z) : list Z :=
  match args with
  | op :: variant :: dl :: rest =>
      let s := fst (get_list rest) in
      if negb (all_bytes s) || (op <? 0) || (11 <? op) || (dl <? 0) then entry sub args
      else if negb (sub =? 0) then entry sub args
      else if op <? 2 then enc_m (g_format op s)
      else if (4 <=? op) && (op <? 6) then
        enc_m (g_parse (op - 4) (if variant =? 0 then Z.to_nat dl else length s) s)
      else if (8 <=? op) && (op <? 10) then enc_m (g_roundtrip (op - 8) s)
      else entry sub args
  | _ => entry sub args
  end.
