(* C07: the case interpreter of Run/C07.v — all twelve operations: the four Format functions (0..3), the four Parse functions
   (4..7) and Parse(Format(s)) (8..11) — executed through the GENERATED functions of Gen/CodecCode.v (translated from
   strz/enc.go and strz/std_strconv.go by gen/trans.go + gen/trans_ext07.go) instead of the hand-written model.
   Proofs/CodecCode.v proves  entry_code sub args = Run.C07.entry sub args  for all arguments, so the differential run of
   `entry 0` against the compiled package is a run of the generated code.  (Not extracted: Run/C07.v does not depend on the
   generated file, so the differential run survives a translation that no longer compiles.)  XParse(dst, src) is run on a
   destination of dl zero bytes that does not overlap src; the case's answer is dst[:n].  Malformed cases are the model's. *)
From Coq Require Import List ZArith Bool.
From V Require Import Lib.Enc Lib.GoSem Lib.GoSemStd Gen.CodecCode Model.Codec Run.C07.
Import ListNotations.
Import GoNotations.
Local Open Scope Z_scope.

Definition enc_m (o : M (list Z)) : list Z :=
  match o with Ret l => l | Panic => [PANIC] | NoFuel => [NOFUEL] end.

(* above the length of the input and above 8 (toUpper over up to eight digits runs with the caller's fuel) *)
Definition fuel_for (s : list Z) : nat := (length s + 9)%nat.

Definition g_format (k : Z) (s : list Z) : M (list Z) :=
  if k =? 0 then g_OctalFormat (fuel_for s) s else if k =? 1 then g_HexFormat (fuel_for s) s
  else if k =? 2 then g_UnicodeFormat (fuel_for s) s else g_Utf16Format (fuel_for s) s.

Definition g_parse (k : Z) (dl : nat) (s : list Z) : M (list Z) :=
  do '(d, n) <- (if k =? 0 then g_OctalParse (fuel_for s) (repeat 0 dl) s else if k =? 1 then g_HexParse (fuel_for s) (repeat 0 dl) s
                 else if k =? 2 then g_UnicodeParse (fuel_for s) (repeat 0 dl) s else g_Utf16Parse (fuel_for s) (repeat 0 dl) s);;
  m_slice d 0 n.

Definition g_roundtrip (k : Z) (s : list Z) : M (list Z) :=
  do e <- g_format k s;; g_parse k (length e) e.

Definition entry_code (sub : Z) (args : list Z) : list Z :=
  match args with
  | op :: variant :: dl :: rest =>
      let s := fst (get_list rest) in
      if negb (all_bytes s) || (op <? 0) || (11 <? op) || (dl <? 0) then entry sub args
      else if negb (sub =? 0) then entry sub args
      else if op <? 4 then enc_m (g_format op s)
      else if op <? 8 then enc_m (g_parse (op - 4) (if variant =? 0 then Z.to_nat dl else length s) s)
      else enc_m (g_roundtrip (op - 8) s)
  | _ => entry sub args
  end.
