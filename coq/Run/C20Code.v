(* C20: the case interpreter of Run/C20.v, kinds 0 (ParseBase32) and 1 (ID.Base32 + ParseBase32 of its text), executed
   through the GENERATED functions of Gen/RandzCode.v (translated from randz/id.go by gen/trans.go + gen/trans_ext20.go)
   instead of the hand-written model: the decode table is the one the generated init() builds from the zero array.
   Proofs/RandzCode.v proves  entry_code sub args = Run.C20.entry sub args  for all arguments, so the differential run of
   `entry 0` against the compiled package is a run of the generated code.  (Not extracted: Run/C20.v does not depend on
   the generated file, so the differential run survives a translation that no longer compiles.)
   Outside the domain on which generated code and model are proved equal (tokens that are not bytes, ids >= 2^63, which
   the harness never sends) entry_code falls back to the model. *)
From Coq Require Import List ZArith Bool.
From V Require Import Lib.Enc Lib.GoSem Gen.Randz Gen.RandzCode Model.Randz Run.C20.
Import ListNotations.
Import GoNotations.
Local Open Scope Z_scope.

Definition is_byteb (c : Z) : bool := (0 <=? c) && (c <? 256).

(* the package after initialisation: the generated init() applied to the zero value of the table *)
Definition g_table : M (list Z) := g_init_decodeBase32Map 300 g0_decodeBase32Map.

(* ParseBase32(s) -> [err; hi; lo] *)
Definition g_parse_tokens (s : list Z) : M (list Z) :=
  do t <- g_table;;
  do '(v, e) <- g_ParseBase32 (S (length s)) t s;;
  Ret ((if e =? 0 then 0 else 1) :: put64 v).

Definition enc_m (o : M (list Z)) : list Z :=
  match o with Ret l => l | Panic => [PANIC] | NoFuel => [NOFUEL] end.

Definition g_format_tokens (id : Z) : M (list Z) :=
  do b <- g_ID_Base32 14 id;;
  do p <- (if forallb is_byteb b then g_parse_tokens b else Ret (parse_out (parse_base32 b)));;
  Ret (put_list b ++ p ++ put_list (format_int 2 id) ++ put_list (format_int 36 id) ++ put_list (format_int 10 id)).

Definition entry_code (sub : Z) (args : list Z) : list Z :=
  if sub =? 0 then
    match decode args with
    | CParse s => if forallb is_byteb s then enc_m (g_parse_tokens s) else entry sub args
    | CFormat id => if id <? 2 ^ 63 then enc_m (g_format_tokens id) else entry sub args
    | _ => entry sub args
    end
  else entry sub args.
