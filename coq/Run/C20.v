(* C20: case encoding for the correspondence run (see Model/Randz.v, "case level").
   case = kind :: rest
     0 :: bytes                                   ParseBase32
     1 :: [hi; lo]                                id -> Base32, ParseBase32(Base32), Base2, Base36, String
     2 :: [rb; ehi; elo; k; gap]                  IdGenerator (harness: start time = now - e ms, k ids, gap ms apart)
     3 :: n :: put_list charset ++ (hi,lo)*       StrGenerator with a scripted rand.Source (then zeros)
     4 :: put_list idtext ++ nrules :: 4*nrules ++ diffs      CountGenerator
   sub 0 = model output; sub 1 = reference output where the specification is a function (kinds 0);
   sub 2 = spec_ok on put_list case ++ put_list impl_output;
   sub 3 = judge of an IdGenerator observation: [rb; (idhi idlo e0hi e0lo e1hi e1lo)*] -> [1]/[0]
           (called by the harness on the raw observation; the case output is then the verdict). *)
From Coq Require Import List ZArith Bool.
From V Require Import Lib.Enc Lib.Utf8 Gen.Randz Model.Randz.
Import ListNotations.
Local Open Scope Z_scope.

Fixpoint obs_of (l : list Z) : option (list (Z * Z * Z)) :=
  match l with
  | [] => Some []
  | a :: b :: c :: d :: e :: f :: t =>
      match obs_of t with Some r => Some ((of_halves a b, of_halves c d, of_halves e f) :: r) | None => None end
  | _ => None
  end.
Definition judge_ids (args : list Z) : list Z :=
  match args with
  | rb :: t => match obs_of t with Some obs => [zb (ids_ok rb obs)] | None => [BADCASE] end
  | [] => [BADCASE]
  end.

Definition decode (args : list Z) : ccase :=
  match args with
  | 0 :: s => CParse s
  | [1; hi; lo] => CFormat (of_halves hi lo)
  | [2; _; _; _; _; _] => CIdgen
  | 3 :: n :: r => let (cs, ws) := get_list r in CStr n cs (words_of ws)
  | 4 :: r =>
      let (idt, r1) := get_list r in
      match r1 with
      | nr :: r2 => let (rs, diffs) := rules_of (Z.to_nat nr) r2 in CCount idt rs diffs
      | [] => CBad
      end
  | _ => CBad
  end.
Definition model (args : list Z) : list Z := run_case (decode args).
Definition spec_ok (args out : list Z) : bool := ok_case (decode args) out.

Definition entry (sub : Z) (args : list Z) : list Z :=
  if sub =? 0 then model args
  else if sub =? 1 then match args with 0 :: s => s_parse s | _ => model args end
  else if sub =? 2 then let (c, r) := get_list args in let (o, _) := get_list r in [zb (spec_ok c o)]
  else if sub =? 3 then judge_ids args
  else [BADCASE].

(* in-kernel anchors *)
Example anchor_parse : entry 0 [0; 122; 122] = [0; 0; 1023].            (* "zz" *)
Proof. vm_compute. reflexivity. Qed.
Example anchor_parse_bad : entry 0 [0; 33] = [1; -1; 4294967295].       (* "!" *)
Proof. vm_compute. reflexivity. Qed.
Example anchor_format : entry 0 [1; 0; 1023] =
  [2; 122; 122; 0; 0; 1023; 10; 49;49;49;49;49;49;49;49;49;49; 2; 115; 102; 4; 49; 48; 50; 51].
Proof. vm_compute. reflexivity. Qed.
Example anchor_str : entry 0 [3; 3; 3; 97; 98; 99; 0; 27] = [3; 99; 98; 97; 1].   (* charset abc, word 0b011011 *)
Proof. vm_compute. reflexivity. Qed.
Example anchor_judge : entry 3 [16; 0; 5 * 65536 + 7; 0; 5; 0; 5] = [1].
Proof. vm_compute. reflexivity. Qed.
Example anchor_count : entry 0 [4; 1; 97; 1; 10; 5; 2; 3; 0; 7; 25] = [0; 0; 0; 6; 3; 9; 13; 6; 20].
Proof. vm_compute. reflexivity. Qed.
