(* C05, family "very-long-patterns": tries holding one or two patterns of tens of thousands of runes (a chain of more than
   2^16 nodes; byte offsets above 65535 in the enumeration of PrefixSearch / FuzzySearch).  The table-based model
   (Model/Trie*.v, Run/C05.v) needs minutes per case at that size, so these cases are judged by the SPECIFICATION
   EVALUATED DIRECTLY on strings given as functions  position -> symbol  (no list of the pattern is ever built; all
   loops are bounded loops over binary numbers with early exit, recursion depth = number of bits).

   case = [-7; u; o; m; c; e; xs; io; h; ys; k; g; k2]          (positions and lengths in runes)
     u  in {1,2,3}: every rune is  base(u) + d,  base = 'a' | U+00E0 | U+4E00  (1, 2, 3 bytes), d in {-1,0,1,2,3}
     P  = the m runes  P[j] = base + sym(o + j),  sym(i) = (number of one bits of i) mod 3   (m >= 2, o >= 0;
          a generalised Thue-Morse word: not periodic, but with long repeated factors, so the fail links of the chain
          are deep: sym(i + s) = sym(i) for i < 2^k whenever s = 2^k * q with popcount(q) = 0 mod 3)
     Q  = P[0..c) ++ x^e    (the second pattern; c = -1: there is none; otherwise 1 <= c <= m, e >= 0, Q <> P),
          x = base + 3 (xs = 1: above every rune of P) | base - 1 (xs = 0: below)
     io = order of insertion (0: P, Q; 1: Q, P) - the expected output does not depend on it
     text = key = T = y^h ++ P[0..k) ++ x^g ++ P[0..k2)   (k, k2 <= m),  y = P[0] (ys = 0) | x (ys = 1)
   output = [Match] ++ section(FindAll T) ++ section(PrefixSearch T) ++ section(FuzzySearch T)
     section = n :: (byte length, checksum) of each returned string, checksum = sum over the bytes b_i (i from 0) of
     (i+1)*(b_i+1);  the implementation side (harness/trie_long.go) encodes the strings it got the same way
     (-1000001 = PANIC in place of a section / of Match).

   What is computed (definitions below, all on the functional strings):
     Match        = some pattern occurs in T
     FindAll      = the occurrences (pattern i = T[s, s+|i|)), found by trying every start s and every pattern rune by rune,
                    listed by end position ascending, at equal end the earlier start (= longer pattern) first
                    (the order proved for the model: Props/C05.v c05_find_all_order)
     PrefixSearch = the patterns that have T as a prefix, a pattern before its extensions, at the first difference the
                    LARGER rune first (c05_prefix_search_order: pre-order of the explicit stack)
     FuzzySearch  = read off algz/trie.go (with correct fail links the node after i runes is the longest suffix of
                    key[0..i) that is a trie word, i.e. a prefix of a pattern; the search gives up - returns nothing -
                    when that suffix would be empty): the empty key is PrefixSearch(""); otherwise, with
                    ext(s) = the longest trie word starting at position s of the key,
                      - if some position i of the key lies in no factor key[s, s+ext(s)), s <= i: nothing;
                      - else for every suffix key[s..] that is a trie word (s + ext(s) = |key|), longest first:
                        PrefixSearch(key[s..])  (the fail chain of the final node), concatenated.
                    (FuzzySearch completeness/order is not part of the property and not a theorem; as for the ordinary
                    cases the implementation is compared exactly with this reading.)
   No model is run: sub 0 = sub 1 = this evaluation, sub 2 = equality with it.  The same shapes with small m (100..300)
   are ALSO run as ordinary cases (patterns spelled out) through Run/C05.v by the harness, so the table model and this
   file are compared with the implementation on the same tries. *)
From Coq Require Import List ZArith Bool.
From V Require Import Lib.Enc Lib.Utf8.
Import ListNotations.
Local Open Scope Z_scope.

(* at most p rounds of step, stopping as soon as step answers false; depth of recursion = bits of p *)
Fixpoint iter_pos {S : Type} (p : positive) (step : S -> S * bool) (s : S) : S * bool :=
  match p with
  | xH => step s
  | xO q => let (s1, go) := iter_pos q step s in if go then iter_pos q step s1 else (s1, false)
  | xI q => let (s0, go0) := step s in
            if go0 then (let (s1, go) := iter_pos q step s0 in if go then iter_pos q step s1 else (s1, false))
            else (s0, false)
  end.
Definition iter_n {S : Type} (n : Z) (step : S -> S * bool) (s : S) : S :=
  match n with Zpos p => fst (iter_pos p step s) | _ => s end.

(* a string: (length, position -> symbol); symbols are the offsets d of the runes base + d *)
Definition fstr := (Z * (Z -> Z))%type.

Fixpoint pc3 (p : positive) : Z :=
  match p with
  | xH => 1
  | xO q => pc3 q
  | xI q => let r := pc3 q in if r =? 2 then 0 else r + 1
  end.
Definition sym (i : Z) : Z := match i with Zpos p => pc3 p | _ => 0 end.

(* length of the common prefix of f and g, looking at positions 0 .. n-1 *)
Definition lcp (n : Z) (f g : Z -> Z) : Z :=
  iter_n n (fun j => if f j =? g j then (j + 1, true) else (j, false)) 0.
Definition agree (n : Z) (f g : Z -> Z) : bool := lcp n f g =? n.

(* pattern p occurs in t at start s *)
Definition occ_at (p t : fstr) (s : Z) : bool :=
  (0 <? fst p) && (s + fst p <=? fst t) && agree (fst p) (fun j => snd t (s + j)) (snd p).

Fixpoint indexed (i : Z) (l : list fstr) : list (Z * fstr) :=
  match l with [] => [] | p :: l' => (i, p) :: indexed (i + 1) l' end.

(* all occurrences as (stop, start, pattern index), every start tried *)
Definition occs (pats : list fstr) (t : fstr) : list (Z * Z * Z) :=
  snd (iter_n (fst t)
    (fun st : Z * list (Z * Z * Z) => let (s, acc) := st in
       ((s + 1, fold_left (fun a ip => if occ_at (snd ip) t s then (s + fst (snd ip), s, fst ip) :: a else a)
                          (indexed 0 pats) acc), true))
    (0, [])).
Definition occ_le (a b : Z * Z * Z) : bool :=
  let '(e1, s1, _) := a in let '(e2, s2, _) := b in (e1 <? e2) || ((e1 =? e2) && (s1 <=? s2)).
Fixpoint ins {A : Type} (le : A -> A -> bool) (a : A) (l : list A) : list A :=
  match l with [] => [a] | b :: l' => if le a b then a :: l else b :: ins le a l' end.
Definition sort {A : Type} (le : A -> A -> bool) (l : list A) : list A := fold_right (ins le) [] l.
Definition find_all (pats : list fstr) (t : fstr) : list Z :=
  map (fun o : Z * Z * Z => snd o) (sort occ_le (occs pats t)).

Definition is_prefix (t p : fstr) : bool := (fst t <=? fst p) && agree (fst t) (snd t) (snd p).
(* a before b in the enumeration: a is a proper prefix of b, or at the first difference a has the larger rune *)
Definition dfs_before (a b : fstr) : bool :=
  let n := Z.min (fst a) (fst b) in
  let d := lcp n (snd a) (snd b) in
  if d =? n then fst a <? fst b else snd b d <? snd a d.
Definition prefix_ordered (pats : list fstr) (t : fstr) : list Z :=
  map fst (sort (fun a b : Z * fstr => dfs_before (snd a) (snd b))
                (filter (fun ip : Z * fstr => (0 <? fst (snd ip)) && is_prefix t (snd ip)) (indexed 0 pats))).

(* longest trie word (= prefix of a pattern) that starts at position s of t *)
Definition ext (pats : list fstr) (t : fstr) (s : Z) : Z :=
  fold_left (fun a (p : fstr) => Z.max a (lcp (Z.min (fst p) (fst t - s)) (fun j => snd t (s + j)) (snd p))) pats 0.
(* one pass over the starts s: reach = max s' + ext s' over s' <= s; position s is covered iff reach > s;
   result: (all positions covered, the starts whose trie word runs to the end of t, last first) *)
Definition fuzzy_scan (pats : list fstr) (t : fstr) : bool * list Z :=
  let n := fst t in
  let '(_, _, ok, starts) :=
    iter_n n (fun st : Z * Z * bool * list Z =>
                let '(s, reach, _, starts) := st in
                let e := s + ext pats t s in
                let reach' := Z.max reach e in
                if reach' <=? s then ((s, reach', false, starts), false)
                else ((s + 1, reach', true, if n <=? e then s :: starts else starts), true))
           (0, 0, true, []) in
  (ok, starts).
Definition fuzzy (pats : list fstr) (t : fstr) : list Z :=
  if fst t =? 0 then prefix_ordered pats t
  else let (ok, starts) := fuzzy_scan pats t in
       if ok then flat_map (fun s => prefix_ordered pats (fst t - s, fun j => snd t (s + j))) (rev starts) else [].

(* (byte length, checksum) of a string; tab = the UTF-8 encodings of the runes base-1 .. base+3 *)
Definition cks (tab : list (list Z)) (p : fstr) : Z * Z :=
  snd (iter_n (fst p)
    (fun st : Z * (Z * Z) => let (j, pa) := st in
       ((j + 1, fold_left (fun (q : Z * Z) b => let (po, ac) := q in (po + 1, ac + (po + 1) * (b + 1)))
                          (nth (Z.to_nat (snd p j + 1)) tab []) pa), true))
    (0, (0, 0))).

Definition base (u : Z) : Z := if u =? 1 then 97 else if u =? 2 then 224 else 19968.

Definition is01 (z : Z) : bool := (z =? 0) || (z =? 1).
Definition valid (kind u o m c e xs io h ys k g k2 : Z) : bool :=
  (kind =? -7) && (1 <=? u) && (u <=? 3) && (0 <=? o) && (2 <=? m) &&
  (((c =? -1) && (e =? 0)) || ((1 <=? c) && (c <=? m) && (0 <=? e) && negb ((c =? m) && (e =? 0)))) &&
  is01 xs && is01 io && is01 ys && (0 <=? h) && (0 <=? k) && (k <=? m) && (0 <=? g) && (0 <=? k2) && (k2 <=? m).

Definition closed (args : list Z) : list Z :=
  match args with
  | [kind; u; o; m; c; e; xs; io; h; ys; k; g; k2] =>
      if valid kind u o m c e xs io h ys k g k2 then
        let x := if xs =? 1 then 3 else -1 in
        let pf := fun j : Z => sym (o + j) in
        let P : fstr := (m, pf) in
        let Q : fstr := (c + e, fun j => if j <? c then pf j else x) in
        let pats := if c <? 0 then [P] else [P; Q] in
        let y := if ys =? 1 then x else pf 0 in
        let T : fstr := (h + k + g + k2,
                         fun i => if i <? h then y else if i <? h + k then pf (i - h)
                                  else if i <? h + k + g then x else pf (i - h - k - g)) in
        let tab := map (fun d => encode_rune (base u + d)) [-1; 0; 1; 2; 3] in
        let ck := map (cks tab) pats in
        let enc1 := fun i : Z => let (a, b) := nth (Z.to_nat i) ck (0, 0) in [a; b] in
        let section := fun l : list Z => Z.of_nat (length l) :: flat_map enc1 l in
        let fa := find_all pats T in
        [zb (negb (match fa with [] => true | _ => false end))] ++ section fa
          ++ section (prefix_ordered pats T) ++ section (fuzzy pats T)
      else [BADCASE]
  | _ => [BADCASE]
  end.

Definition entry (sub : Z) (args : list Z) : list Z :=
  if sub =? 2 then
    let (cs, r) := get_list args in
    let (out, _) := get_list r in
    match closed cs with
    | [bc] => [bc]
    | exp => [zb (list_eqb out exp)]
    end
  else closed args.

(* in-kernel anchors.  u = 1, o = 1: P = sym(1..) = 1 1 2 1 2 2 0 1 ... = "bbcbccab"; *)
(* one pattern "bbcbccab" (8 bytes), key "bb": Match no; PrefixSearch [P]; FuzzySearch: suffixes bb and b are trie words: [P; P] *)
Example anchor_l1 : entry 0 [-7; 1; 1; 8; -1; 0; 1; 0; 2; 0; 0; 0; 0]
  = [0; 0; 1; 8; 3571; 2; 8; 3571; 8; 3571].
Proof. vm_compute. reflexivity. Qed.
(* P = "bbcbccab", Q = "bbcbcc" ++ "dd" (x above), text = P ++ "d" ++ "bbcb":
   FindAll [P]; PrefixSearch none; FuzzySearch none (the d at position 8 lies in no trie word of the key) *)
Example anchor_l2 : entry 0 [-7; 1; 1; 8; 6; 2; 1; 1; 0; 0; 8; 1; 4]
  = [1; 1; 8; 3571; 0; 0].
Proof. vm_compute. reflexivity. Qed.
(* the same trie, key = "bbcbcc": both patterns, the larger rune (d) first: Q, P; FuzzySearch: the only suffix of the key
   that is a trie word is the key itself: the same list *)
Example anchor_l3 : entry 0 [-7; 1; 1; 8; 6; 2; 1; 0; 0; 0; 6; 0; 0]
  = [0; 0; 2; 8; 3608; 8; 3571; 2; 8; 3608; 8; 3571].
Proof. vm_compute. reflexivity. Qed.
Example anchor_l3j : entry 2 (put_list [-7; 1; 1; 8; 6; 2; 1; 0; 0; 0; 6; 0; 0] ++ put_list [0; 0; 2; 8; 3608; 8; 3571; 2; 8; 3608; 8; 3571]) = [1].
Proof. vm_compute. reflexivity. Qed.
(* the answer of the seeded uint16 narrowing on a 70001-byte pattern would be a tail fragment: any other length is rejected *)
Example anchor_l3j_bad : entry 2 (put_list [-7; 1; 1; 8; 6; 2; 1; 0; 0; 0; 6; 0; 0] ++ put_list [0; 0; 2; 8; 3608; 2; 200; 2; 8; 3608; 8; 3571]) = [0].
Proof. vm_compute. reflexivity. Qed.
