(* C08, LONG CBC messages (dispatch number 108 through Prop.NumOf; Run/C08.v is untouched).
   case = kind :: n :: dmode :: seed :: 0 :: 0 :: put_list key ++ put_list iv ++ ntbl :: table
     kind 11 AESCBCEncrypt   of the n-byte plaintext P(seed, n)   (a fixed pseudo-random byte sequence the harness and the
                             oracle both generate from the seed: a megabyte is not carried through the case)
          12 AESCBCDecrypt   of the standard CBC ciphertext of that plaintext
     dmode 0 separate dst of exactly the result length, 1 in place (the documented reuse), 2 dst of that length with spare
           capacity behind it (must stay untouched), 3 dst = nil (the helper panics: nothing to write into)
   implementation output: 0 :: length :: h_hi :: h_lo :: guard   (FNV-1a 64 of the bytes produced, as two 32-bit halves;
                          guard = 1: nothing outside the result was written)  |  [1; code]  |  [PANIC]
   sub 0 (model side): length arithmetic only -- [0; n + 16 - n mod 16] / [0; n] / [PANIC] for dmode 3 (the harness projects
         the implementation's output to its first two tokens, Prop.XProj).
   sub 2 (judge): EVERY byte is judged through one oracle query
         20 kind n seed key iv -> [length; h_hi; h_lo] of what the Go standard library's whole-message CBC gives
         (kind 11: NewCBCEncrypter over the PKCS#7-padded plaintext; kind 12: the plaintext itself):
         the output must be exactly 0 :: length :: h_hi :: h_lo :: 1.  dmode 3 is outside the specification (true). *)
From Coq Require Import List ZArith Bool.
From V Require Import Lib.Enc.
Import ListNotations.
Local Open Scope Z_scope.

Definition get_tbl (rest : list Z) : list (list Z * list Z) :=
  match rest with n :: t => fst (get_table (Z.to_nat n) t) | [] => [] end.

Definition good_len (key iv : list Z) : bool :=
  ((Z.of_nat (length key) =? 16) || (Z.of_nat (length key) =? 24) || (Z.of_nat (length key) =? 32)) &&
  (Z.of_nat (length iv) =? 16).

(* kind, n, dmode, seed, key, iv, rest *)
Definition dec (l : list Z) : option (Z * Z * Z * Z * list Z * list Z) * list Z :=
  match l with
  | kind :: n :: dmode :: seed :: _ :: _ :: r =>
      let (key, r1) := get_list r in
      let (iv, r2) := get_list r1 in
      if ((kind =? 11) || (kind =? 12)) && (0 <=? n) && (0 <=? dmode) && (dmode <=? 3) && good_len key iv
      then (Some (kind, n, dmode, seed, key, iv), r2) else (None, r2)
  | _ => (None, [])
  end.

Definition model (kind n dmode : Z) : list Z :=
  if dmode =? 3 then [PANIC]
  else if kind =? 11 then [0; n + 16 - n mod 16] else [0; n].

Definition entry (sub : Z) (args : list Z) : list Z :=
  if sub =? 2 then
    let (case, r1) := get_list args in
    let (impl, r2) := get_list r1 in
    let tbl := get_tbl r2 in
    match fst (dec case) with
    | None => [BADCASE]
    | Some (kind, n, dmode, seed, key, iv) =>
        if dmode =? 3 then [1] else
        let q := 20 :: kind :: n :: seed :: put_list key ++ put_list iv in
        match lookup q tbl with
        | None => ASK :: q
        | Some [len; h1; h2] => [zb (list_eqb impl [0; len; h1; h2; 1])]
        | Some _ => [0]
        end
    end
  else
    match fst (dec args) with
    | None => [BADCASE]
    | Some (kind, n, dmode, _, _, _) => model kind n dmode
    end.

Example anchor_enc_len : entry 0 ([11; 1048577; 0; 5; 0; 0] ++ put_list (repeat 1 16) ++ put_list (repeat 2 16) ++ [0]) = [0; 1048592].
Proof. vm_compute. reflexivity. Qed.
Example anchor_ask : entry 2 (put_list ([12; 33; 1; 5; 0; 0] ++ put_list (repeat 1 16) ++ put_list (repeat 2 16)) ++ put_list [0; 33; 1; 2; 1] ++ [0])
  = ASK :: 20 :: 12 :: 33 :: 5 :: put_list (repeat 1 16) ++ put_list (repeat 2 16).
Proof. vm_compute. reflexivity. Qed.
