(* C08: case encoding for the correspondence run (oracle protocol).
   args  = kind :: a :: b :: c :: d :: e :: put_list l1 ++ put_list l2 ++ put_list l3 ++ put_list l4 ++ ntbl :: table
     kind 0 length helper   a = which (0..3), b = n
          1 AESCBCEncrypt   a b c d = doff dlen soff slen, l1 = backing array, l2 = key, l3 = iv
          2 AESCBCDecrypt   same
          3 AESGCMEncrypt   same, l3 = nonce, l4 = additional data
          4 AESGCMDecrypt   same, e = 1: the generator corrupted the message (must be rejected)
          5 PKCS7Padding    a = blockSize, l1 = data        6 PKCS7UnPadding same
          7 PKCS5Padding    l1 = data                       8 PKCS5UnPadding
   sub 0 = model output; sub 2 = spec_ok on put_list case ++ put_list impl_output ++ ntbl :: table -> [1]/[0].
   The table holds the answers of the Go standard library to the queries
     1 k b : AES encrypt one block   2 k b : AES decrypt one block   3 k n p a : GCM Seal   4 k n c a : GCM Open (1::p / [0])
     5 k iv d : cipher.NewCBCEncrypter(..).CryptBlocks   6 k iv d : cipher.NewCBCDecrypter(..).CryptBlocks
   a missing entry makes entry return ASK :: query. *)
From Coq Require Import List ZArith Bool Arith.
From V Require Import Lib.Enc Gen.Cryptz Model.Aes.
Import ListNotations.
Local Open Scope Z_scope.

Definition POISON : list Z := [-7777].
Definition q2 (tag : Z) (a b : list Z) : list Z := tag :: put_list a ++ put_list b.
Definition q3 (tag : Z) (a b c : list Z) : list Z := tag :: put_list a ++ put_list b ++ put_list c.
Definition q4 (tag : Z) (a b c d : list Z) : list Z := tag :: put_list a ++ put_list b ++ put_list c ++ put_list d.

Section Tbl.
Variable tbl : list (list Z * list Z).
Definition ans (q : list Z) : list Z := match lookup q tbl with Some v => v | None => POISON end.
Definition E_t (k b : list Z) := ans (q2 1 k b).
Definition D_t (k b : list Z) := ans (q2 2 k b).
Definition seal_t (k n p a : list Z) := ans (q4 3 k n p a).
Definition open_t (k n c a : list Z) : option (list Z) :=
  match lookup (q4 4 k n c a) tbl with Some (1 :: p) => Some p | _ => None end.
Definition stdenc_t (k iv d : list Z) := ans (q3 5 k iv d).
Definition stddec_t (k iv d : list Z) := ans (q3 6 k iv d).

(* the queries an evaluation needs, in dependency order (the chain of CBC encryption uses the answers so far) *)
Fixpoint cbc_enc_qs (k prev : list Z) (bs : list (list Z)) : list (list Z) :=
  match bs with [] => [] | b :: t => let x := xor b prev in q2 1 k x :: cbc_enc_qs k (E_t k x) t end.

Definition queries (sub : Z) (o : op) : list (list Z) :=
  match o with
  | OCbcEnc m doff dlen soff slen key iv =>
      if sub =? 0 then
        match cbc_encrypt_prep_mem m doff dlen soff slen key iv with
        | Ok m2 => cbc_enc_qs key iv (blocks (mread m2 doff dlen))
        | _ => []
        end
      else if good_key key && (length iv =? 16)%nat
           then [q3 5 key iv (pkcs7_padded (mread m soff slen) (spec_pad_len slen 16))] else []
  | OCbcDec m doff dlen soff slen key iv =>
      if good_key key && (slen mod 16 =? 0)%nat && (length iv =? 16)%nat then
        if sub =? 0 then map (q2 2 key) (blocks (mread m soff slen)) else [q3 6 key iv (mread m soff slen)]
      else []
  | OGcmEnc m doff dlen soff slen key nonce ad =>
      if good_key key && negb (length nonce =? 0)%nat then [q4 3 key nonce (mread m soff slen) ad] else []
  | OGcmDec _ m doff dlen soff slen key nonce ad =>
      if good_key key && negb (length nonce =? 0)%nat then [q4 4 key nonce (mread m soff slen) ad] else []
  | _ => []
  end.

Definition first_missing (qs : list (list Z)) : option (list Z) :=
  find (fun q => match lookup q tbl with None => true | Some _ => false end) qs.
End Tbl.

Definition dec_op (l : list Z) : option op * list Z :=
  match l with
  | kind :: a :: b :: c :: d :: e :: r =>
      let '(ls, rest) := get_lists 4 r in
      let l1 := nth 0 ls [] in let l2 := nth 1 ls [] in let l3 := nth 2 ls [] in let l4 := nth 3 ls [] in
      let na := Z.to_nat a in let nb := Z.to_nat b in let nc := Z.to_nat c in let nd := Z.to_nat d in
      let inr := ((na + nb <=? length l1) && (nc + nd <=? length l1))%nat in
      ((if kind =? 0 then Some (OLen a nb)
        else if kind =? 1 then if inr then Some (OCbcEnc l1 na nb nc nd l2 l3) else None
        else if kind =? 2 then if inr then Some (OCbcDec l1 na nb nc nd l2 l3) else None
        else if kind =? 3 then if inr then Some (OGcmEnc l1 na nb nc nd l2 l3 l4) else None
        else if kind =? 4 then if inr then Some (OGcmDec (bz e) l1 na nb nc nd l2 l3 l4) else None
        else if kind =? 5 then Some (OPad l1 a)
        else if kind =? 6 then Some (OUnpad l1 a)
        else if kind =? 7 then Some (OPad5 l1)
        else if kind =? 8 then Some (OUnpad5 l1)
        else None), rest)
  | _ => (None, [])
  end.

Definition get_tbl (rest : list Z) : list (list Z * list Z) :=
  match rest with n :: t => fst (get_table (Z.to_nat n) t) | [] => [] end.

Definition entry (sub : Z) (args : list Z) : list Z :=
  if sub =? 2 then
    let (case, r1) := get_list args in
    let (impl, r2) := get_list r1 in
    let tbl := get_tbl r2 in
    match fst (dec_op case) with
    | None => [BADCASE]
    | Some o =>
        match first_missing tbl (queries tbl 2 o) with
        | Some q => ASK :: q
        | None => [zb (spec_ok (stdenc_t tbl) (stddec_t tbl) (seal_t tbl) (open_t tbl) o impl)]
        end
    end
  else
    let (oo, rest) := dec_op args in
    let tbl := get_tbl rest in
    match oo with
    | None => [BADCASE]
    | Some o =>
        match first_missing tbl (queries tbl 0 o) with
        | Some q => ASK :: q
        | None => run_op (E_t tbl) (D_t tbl) (seal_t tbl) (open_t tbl) o
        end
    end.

(* in-kernel anchors *)
Example anchor_len : entry 0 [0; 0;32;0;0;0; 0; 0; 0; 0; 0] = [48].
Proof. vm_compute. reflexivity. Qed.
Example anchor_pad : entry 0 [5; 4;0;0;0;0; 3;1;2;3; 0; 0; 0; 0] = [0; 1;2;3;1].
Proof. vm_compute. reflexivity. Qed.
Example anchor_unpad : entry 0 [6; 4;0;0;0;0; 4;9;9;2;2; 0; 0; 0; 0] = [0; 9;9].
Proof. vm_compute. reflexivity. Qed.
Example anchor_unpad_bad : entry 0 [6; 4;0;0;0;0; 4;9;9;3;2; 0; 0; 0; 0] = [1; 4].
Proof. vm_compute. reflexivity. Qed.
Example anchor_ask : entry 0 ([3; 0;16;16;0;0] ++ put_list (repeat 0 16) ++ put_list (repeat 7 16) ++ put_list (repeat 1 12) ++ [0; 0])
   = ASK :: q4 3 (repeat 7 16) (repeat 1 12) [] [].
Proof. vm_compute. reflexivity. Qed.
