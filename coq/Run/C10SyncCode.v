(* C10: the case interpreter of Run/C10.v, kinds 1 and 2 (ringz.SyncRing from one goroutine), executed through the GENERATED
   functions of Gen/SyncRingCode.v (translated from ringz/sync.go by gen/trans*.go, sequential reading of sync/atomic)
   instead of the hand-written model.  Proofs/SyncRingCodeRun.v proves  entry_sync_code sub args = Run.C10.entry sub args
   for all arguments, so the differential run of `entry 0` against the compiled package is a run of the generated code.
   (Not extracted: Run/C10.v does not depend on the generated file, so the differential run survives a translation that
   no longer compiles.)
   Not generated code, by construction of the case format: the counter injection (a harness artefact, Model.inject),
   the Dump (reflection), and the remainder of PushWait / PopWait after time.NewTicker — for the 1ns forms the remainder
   parameter is instantiated with the model's reading "one tick, one more attempt, deadline passed". *)
From Coq Require Import List ZArith Bool.
From V Require Import Lib.Enc Lib.GoSem Lib.GoSemRec Gen.RingCode Gen.SyncRingCode Model.RingSeq Model.SyncRingSeq Run.C10 Run.C10Code.
Import ListNotations.
Import GoNotations.
Local Open Scope Z_scope.

(* ---- the explicit, total conversions between the generated Records and the model's types *)
Definition to_slot (e : item) : Z * Z := (item_value e, item_pos e).
Definition of_slot (p : Z * Z) : item := mkitem (fst p) (snd p).
Definition to_sring (r : SyncRing) : sring :=
  {| slots := map to_slot (SyncRing_values r); shead := SyncRing_head r; stail := SyncRing_tail r;
     scap := SyncRing_cap r; smask := SyncRing_mask r |}.
Definition of_sring (r : sring) : SyncRing :=
  mkSyncRing (map of_slot (slots r)) (scap r) (smask r) (shead r) (stail r).

(* fuel for Init(c): 64 rounds for roundupPowOfTwo, one more than the capacity (at most 2 * uint32(c)) for the numbering loop *)
Definition init_fuel_for (c : Z) : nat := Z.to_nat (Z.max 64 (2 * (c mod 2 ^ 32) + 3)).

(* the remainder of PushWait / PopWait for a 1ns deadline, as the model reads it: one more attempt *)
Definition one_more_push : SyncRing -> Z -> Z -> M (SyncRing * bool) := fun r v _ => g_SyncRing_Push r v.
Definition one_more_pop : SyncRing -> Z -> Z -> M (SyncRing * (Z * bool)) := fun r _ _ => g_SyncRing_Pop r.

Definition gsstep (r : SyncRing) (o : sop) : M (SyncRing * res) :=
  match o with
  | SPush v => do '(r', b) <- g_SyncRing_Push r v;; Ret (r', RBool b)
  | SPop => do '(r', (v, ok)) <- g_SyncRing_Pop r;; Ret (r', RVal ok v)
  | SLen => do n <- g_SyncRing_Len r;; Ret (r, RInt n)
  | SIsEmpty => do b <- g_SyncRing_IsEmpty r;; Ret (r, RBool b)
  | SIsFull => do b <- g_SyncRing_IsFull r;; Ret (r, RBool b)
  | SCap => do n <- g_SyncRing_Cap r;; Ret (r, RInt n)
  | SInit c => do r' <- g_SyncRing_Init (init_fuel_for c) r c;; Ret (r', RUnit)
  | SDump => Ret (r, RDump (sdump (to_sring r)))
  | SPushWait v timed =>
      do '(r', b) <- g_SyncRing_PushWait 1 r v (if timed then 1 else 0) one_more_push;; Ret (r', RBool b)
  | SPopWait timed =>
      do '(r', (v, ok)) <- g_SyncRing_PopWait 1 r (if timed then 1 else 0) one_more_pop;; Ret (r', RVal ok v)
  end.

Fixpoint gsrun_acc (r : SyncRing) (ops : list sop) (acc : list res) : M (list res) :=
  match ops with
  | [] => Ret (rev acc)
  | o :: t => do '(r', x) <- gsstep r o;; gsrun_acc r' t (x :: acc)
  end.

(* ringz.NewSync(c), optionally the counter injection, then the operations *)
Definition gsync_case (c : Z) (inj : option Z) (ops : list sop) : M (list res) :=
  do r <- g_NewSync (init_fuel_for c) c;;
  gsrun_acc (match inj with None => r | Some n => of_sring (inject (to_sring r) n) end) ops [].

Definition entry_sync_code (sub : Z) (args : list Z) : list Z :=
  match args with
  | k :: c :: inj :: r =>
      if (k =? 1) && (sub =? 0) then
        match dec_ops dec_sop r [] with
        | Some ops => enc_m (gsync_case c (if inj <? 0 then None else Some inj) ops)
        | None => [BADCASE]
        end
      else if (k =? 2) && (sub =? 0) then
        match dec_ops dec_sop r [] with
        | Some ops => match gsync_case c (Some (Z.max 0 inj)) ops with Ret l => 1 :: enc_out l | o => enc_m o end
        | None => [BADCASE]
        end
      else entry_code sub args
  | _ => entry_code sub args
  end.
