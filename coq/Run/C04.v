(* C04: case encoding for the correspondence run.
   case   = kind :: n :: init(n) ++ ops, every op = [code; a; b]
            kind 0 = heapz.Slice, 1 = heapz.Heap (two heaps, handles), 2 = generic Init/Push/Pop/Remove/Fix over a []T container
   values = v * 1000 + id, compared on v only (v in 0..4: many ties; the id makes every value distinguishable)
   sub 0  = model output; sub 1 = the judge applied to the model's own output; sub 2 = the judge applied to
            put_list case ++ put_list implementation-output  ->  [1] / [0]. *)
From Coq Require Import List ZArith Bool.
From V Require Import Lib.Enc Model.Heap.
Import ListNotations.
Local Open Scope Z_scope.

Definition ltv (a b : Z) : bool := a / 1000 <? b / 1000.
Definition mk (v : Z) (id : nat) : Z := v * 1000 + Z.of_nat id.

(* ---- list flavours ---- *)
Definition dec_lop (c a b : Z) : option (lop Z) :=
  if c =? 0 then Some (LPush Z a) else if c =? 1 then Some (LPop Z) else if c =? 2 then Some (LPeek Z) else
  if c =? 3 then Some (LLen Z) else if c =? 4 then Some (LRemove Z a) else if c =? 5 then Some (LFix Z a) else
  if c =? 6 then Some (LSetFix Z a b) else if c =? 7 then Some (LReInit Z a b) else
  if c =? 8 then Some (LPopAll Z a) else None.
Fixpoint dec_lops (fuel : nat) (l : list Z) : option (list (lop Z)) :=
  match fuel, l with
  | _, [] => Some []
  | S f, c :: a :: b :: r =>
      match dec_lop c a b, dec_lops f r with Some o, Some os => Some (o :: os) | _, _ => None end
  | _, _ => None
  end.

Definition enc_opt (r : option Z) : list Z := match r with None => [0; 0] | Some x => [1; x] end.
Definition enc_lobs (r : lobs Z) : list Z :=
  match r with ONone _ => [] | OOpt _ o => enc_opt o | OInt _ n => [n] | OList _ l => put_list l end.
Fixpoint enc_ltrace (tr : ltrace Z) : list Z :=
  match tr with [] => [] | (r, s) :: t => enc_lobs r ++ put_list s ++ enc_ltrace t end.
Definition enc_res {X : Type} (enc : X -> list Z) (r : res X) : list Z :=
  match r with Ok x => enc x | Heap.Panic => [PANIC] | Heap.NoFuel => [NOFUEL] end.

(* what an operation of this kind returns: 0 nothing, 1 option, 2 int, 3 list *)
Definition lshape (std : bool) (o : lop Z) : Z :=
  match o with
  | LPop _ | LRemove _ _ => 1
  | LPeek _ => if std then 0 else 1
  | LLen _ => 2
  | LPopAll _ _ => if std then 0 else 3
  | _ => 0
  end.
Definition dec_vals (l : list Z) : option (list Z * list Z) :=
  match l with
  | n :: t => let (a, r) := get_list l in if (0 <=? n) && (Z.of_nat (length a) =? n) then Some (a, r) else None
  | [] => None
  end.
Definition dec_lobs (shape : Z) (l : list Z) : option (lobs Z * list Z) :=
  if shape =? 0 then Some (ONone Z, l) else
  if shape =? 1 then match l with
                     | f :: x :: r => if f =? 0 then Some (OOpt Z None, r) else Some (OOpt Z (Some x), r)
                     | _ => None end else
  if shape =? 2 then match l with n :: r => Some (OInt Z n, r) | _ => None end else
  match dec_vals l with Some (a, r) => Some (OList Z a, r) | None => None end.
Fixpoint dec_ltrace (std : bool) (ops : list (lop Z)) (l : list Z) : option (ltrace Z) :=
  match ops with
  | [] => match l with [] => Some [] | _ => None end
  | o :: t =>
      match dec_lobs (lshape std o) l with
      | Some (r, l1) =>
          match dec_vals l1 with
          | Some (s, l2) => match dec_ltrace std t l2 with Some tr => Some ((r, s) :: tr) | None => None end
          | None => None
          end
      | None => None
      end
  end.
Definition is_panic (l : list Z) : bool := match l with [x] => x =? PANIC | _ => false end.
Definition dec_lout (std : bool) (ops : list (lop Z)) (l : list Z) : option (res (ltrace Z)) :=
  if is_panic l then Some Heap.Panic else
  match l with
  | _ => match dec_vals l with
         | Some (s0, l1) => match dec_ltrace std ops l1 with Some tr => Some (Ok ((ONone Z, s0) :: tr)) | None => None end
         | None => None
         end
  end.

(* ---- Heap with handles ---- *)
Definition hz (a : Z) : Z := if a =? 0 then 0 else 1.
Fixpoint digits (k : nat) (p : Z) (id : nat) : list Z :=            (* Init values: base-5 digits of the pattern *)
  match k with O => [] | S k' => mk (p mod 5) id :: digits k' (p / 5) (S id) end.
Definition dec_hop (next : nat) (c a b : Z) : option (hop Z * nat) :=
  if c =? 0 then Some (HPush Z (hz a) (mk b next), S next) else
  if c =? 1 then Some (HPop Z (hz a), next) else if c =? 2 then Some (HPeek Z (hz a), next) else
  if c =? 3 then Some (HLen Z (hz a), next) else if c =? 4 then Some (HRemove Z (hz a) (Z.to_nat b), next) else
  if c =? 5 then Some (HFix Z (hz a) (Z.to_nat b), next) else
  if c =? 6 then Some (HSetFix Z (Z.to_nat a) (mk (b / 2) (Z.to_nat a)) (b mod 2), next) else
  if c =? 7 then Some (HPushElem Z (hz a) (Z.to_nat b), next) else
  if c =? 8 then let k := Z.to_nat (b mod 16) in Some (HInit Z (hz a) (digits k (b / 16) next), (next + k)%nat) else
  if c =? 9 then Some (HPopAll Z (hz a) b, next) else
  if c =? 10 then Some (HCorrupt Z (Z.to_nat a) b, next) else None.
Fixpoint dec_hops (fuel : nat) (next : nat) (l : list Z) : option (list (hop Z)) :=
  match fuel, l with
  | _, [] => Some []
  | S f, c :: a :: b :: r =>
      match dec_hop next c a b with
      | Some (o, next') => match dec_hops f next' r with Some os => Some (o :: os) | None => None end
      | None => None
      end
  | _, _ => None
  end.
Definition enc_hobs (r : hobs Z) : list Z :=
  match r with HNone _ => [] | HHandle _ z => [z] | HInt _ n => [n] | HList _ l => put_list l end.
Fixpoint enc_htrace (tr : htrace Z) : list Z :=
  match tr with [] => [] | (r, ix) :: t => enc_hobs r ++ put_list ix ++ enc_htrace t end.
Definition hshape (o : hop Z) : Z :=
  match o with HPop _ _ | HPeek _ _ => 1 | HLen _ _ => 2 | HPopAll _ _ _ => 3 | _ => 0 end.
Definition dec_hobs (shape : Z) (l : list Z) : option (hobs Z * list Z) :=
  if shape =? 0 then Some (HNone Z, l) else
  if shape =? 1 then match l with z :: r => Some (HHandle Z z, r) | _ => None end else
  if shape =? 2 then match l with n :: r => Some (HInt Z n, r) | _ => None end else
  match dec_vals l with Some (a, r) => Some (HList Z a, r) | None => None end.
Fixpoint dec_htrace (ops : list (hop Z)) (l : list Z) : option (htrace Z) :=
  match ops with
  | [] => match l with [] => Some [] | _ => None end
  | o :: t =>
      match dec_hobs (hshape o) l with
      | Some (r, l1) =>
          match dec_vals l1 with
          | Some (ix, l2) => match dec_htrace t l2 with Some tr => Some ((r, ix) :: tr) | None => None end
          | None => None
          end
      | None => None
      end
  end.
Definition dec_hout (ops : list (hop Z)) (l : list Z) : option (res (htrace Z)) :=
  if is_panic l then Some Heap.Panic else
  match dec_htrace ops l with Some tr => Some (Ok tr) | None => None end.

(* ---- entry ---- *)
Inductive case :=
| CList (std : bool) (init : list Z) (ops : list (lop Z))
| CHeap (ops : list (hop Z)).
Definition dec_case (args : list Z) : option case :=
  match args with
  | k :: r =>
      let (init, rest) := get_list r in
      if negb ((0 <=? hd0 r) && (Z.of_nat (length init) =? hd0 r)) then None else
      if k =? 1 then match dec_hops (length rest) 0%nat rest with Some ops => Some (CHeap ops) | None => None end
      else if (k =? 0) || (k =? 2) then
        match dec_lops (length rest) rest with Some ops => Some (CList (k =? 2) init ops) | None => None end
      else None
  | [] => None
  end.
Definition model (c : case) : list Z :=
  match c with
  | CList std init ops => enc_res enc_ltrace (lcase Z ltv std init ops)
  | CHeap ops => enc_res enc_htrace (hcase Z 0 ltv ops)
  end.
Definition judge (c : case) (out : list Z) : bool :=
  match c with
  | CList std init ops =>
      match dec_lout std ops out with Some o => jl_case Z 0 ltv Z.eqb std init ops o | None => false end
  | CHeap ops =>
      match dec_hout ops out with Some o => jh_case Z 0 ltv Z.eqb ops o | None => false end
  end.

Definition entry (sub : Z) (args : list Z) : list Z :=
  if sub =? 2 then
    let (cs, r) := get_list args in
    let (out, _) := get_list r in
    match dec_case cs with Some c => [zb (judge c out)] | None => [BADCASE] end
  else
    match dec_case args with
    | Some c => if sub =? 0 then model c else if sub =? 1 then [zb (judge c (model c))] else [BADCASE]
    | None => [BADCASE]
    end.

(* in-kernel anchors *)
Example anchor_slice :
  entry 0 [0; 3; 2001; 1002; 3; 0;4;0; 1;0;0; 4;0;0; 8;0;0] =
  [3; 3; 1002; 2001; 4; 3; 4; 2001; 1002; 1; 3; 3; 4; 1002; 2001; 1; 4; 2; 1002; 2001; 2; 1002; 2001; 0].
Proof. vm_compute. reflexivity. Qed.
Example anchor_slice_judged : entry 1 [0; 3; 2001; 1002; 3; 0;4;0; 1;0;0; 4;0;0; 8;0;0] = [1].
Proof. vm_compute. reflexivity. Qed.
Example anchor_heap :
  entry 0 [1; 0; 0;0;3; 0;0;1; 0;1;2; 1;0;0; 4;0;1; 4;1;2; 8;0;115; 6;3;5; 9;0;0] =
  [1; 0; 2; 1; 0; 3; 1; 0; 0; 1; 3; 0; -1; 0; 3; 0; -1; 0; 3; 0; -1; -1; 6; -1; -1; -1; 2; 1; 0; 6; -1; -1; -1; 2; 1; 0;
   3; 5; 1004; 2003; 6; -1; -1; -1; -1; -1; -1].
Proof. vm_compute. reflexivity. Qed.
Example anchor_heap_judged : entry 1 [1; 0; 0;0;3; 0;0;1; 0;1;2; 1;0;0; 4;0;1; 4;1;2; 8;0;115; 6;3;5; 9;0;0] = [1].
Proof. vm_compute. reflexivity. Qed.
Example anchor_generic_panics : entry 0 [2; 2; 2001; 1002; 0;4;0; 1;0;0; 4;5;0] = [PANIC].
Proof. vm_compute. reflexivity. Qed.
(* the judge rejects a wrong answer: Pop reports an element that something precedes *)
Example anchor_judge_rejects : entry 2 ([7; 0; 2; 2001; 1002; 1;0;0] ++ [9; 2; 1002; 2001; 1; 2001; 1; 1002]) = [0].
Proof. vm_compute. reflexivity. Qed.
