(* C10: case encoding for the correspondence run.
   input  = kind :: c :: inj :: ops,   each op = [code; arg]  (arg = 0 where unused)
     kind 0: ringz.New(c);      codes 0 Push 1 Pop 2 Peek 3 Len 4 IsEmpty 5 IsFull 6 Cap 7 Recap 8 PushWithExpand 9 Init 10 Dump
     kind 1: ringz.NewSync(c), then (inj >= 0) the counters are set to what inj push/pop pairs produce;
             codes 0 Push 1 Pop 3 Len 4 IsEmpty 5 IsFull 6 Cap 9 Init 10 Dump 11 PushWait(v,0) 12 PopWait(0)
                   13 PushWait(v,1ns) 14 PopWait(1ns)
   output = per op: Push/IsEmpty/IsFull/Recap [b]; Pop/Peek [ok; v]; Len/Cap [n]; Dump length-prefixed; nothing for
            PushWithExpand / Init; the whole output is [PANIC] when the Go code panics.
     kind 2: like kind 1 but the inj pairs are performed honestly by the implementation (first output token 1 = all
             results as expected)
   sub 0  = model;  sub 1 = bounded-FIFO specification (WILD for the content of a Dump). *)
From Coq Require Import List ZArith Bool.
From V Require Import Lib.Enc Model.RingSeq Model.SyncRingSeq.
Import ListNotations.
Local Open Scope Z_scope.

Definition enc_res (r : res) : list Z :=
  match r with
  | RBool b => [zb b]
  | RVal ok v => [zb ok; v]
  | RInt z => [z]
  | RUnit => []
  | RDump l => put_list l
  end.
Definition enc_out (l : list res) : list Z := flat_map enc_res l.

Definition dec_op (c a : Z) : option op :=
  if c =? 0 then Some (OPush a) else if c =? 1 then Some OPop else if c =? 2 then Some OPeek else
  if c =? 3 then Some OLen else if c =? 4 then Some OIsEmpty else if c =? 5 then Some OIsFull else
  if c =? 6 then Some OCap else if c =? 7 then Some (ORecap a) else if c =? 8 then Some (OPushX a) else
  if c =? 9 then Some (OInit a) else if c =? 10 then Some ODump else None.
Definition dec_sop (c a : Z) : option sop :=
  if c =? 0 then Some (SPush a) else if c =? 1 then Some SPop else
  if c =? 3 then Some SLen else if c =? 4 then Some SIsEmpty else if c =? 5 then Some SIsFull else
  if c =? 6 then Some SCap else if c =? 9 then Some (SInit a) else if c =? 10 then Some SDump else
  if c =? 11 then Some (SPushWait a false) else if c =? 12 then Some (SPopWait false) else
  if c =? 13 then Some (SPushWait a true) else if c =? 14 then Some (SPopWait true) else None.

Fixpoint dec_ops {A} (d : Z -> Z -> option A) (l : list Z) (acc : list A) : option (list A) :=
  match l with
  | [] => Some (rev acc)
  | c :: a :: r => match d c a with Some o => dec_ops d r (o :: acc) | None => None end
  | _ => None
  end.

Definition enc_opt (o : option (list res)) : list Z := match o with None => [PANIC] | Some l => enc_out l end.
Definition enc_outcome (o : outcome) : list Z :=
  match o with OutPanic => [PANIC] | OutNoFuel => [NOFUEL] | Out l => enc_out l end.

Definition entry (sub : Z) (args : list Z) : list Z :=
  match args with
  | k :: c :: inj :: r =>
      if k =? 0 then
        match dec_ops dec_op r [] with
        | Some ops => if sub =? 0 then enc_opt (ring_case c ops)
                      else if sub =? 1 then enc_opt (fifo_case c ops) else [BADCASE]
        | None => [BADCASE]
        end
      else if k =? 1 then
        match dec_ops dec_sop r [] with
        | Some ops => if sub =? 0 then enc_outcome (sync_case c (if inj <? 0 then None else Some inj) ops)
                      else if sub =? 1 then enc_opt (sfifo_case c ops) else [BADCASE]
        | None => [BADCASE]
        end
      else if k =? 2 then
        (* inj honest Push/Pop pairs were performed (all results as expected: token 1); the model does not
           replay them, it starts from the closed form (Proofs: pairs_reach) *)
        match dec_ops dec_sop r [] with
        | Some ops => if sub =? 0 then match sync_case c (Some (Z.max 0 inj)) ops with Out l => 1 :: enc_out l | o => enc_outcome o end
                      else if sub =? 1 then match sfifo_case c ops with Some l => 1 :: enc_out l | None => [PANIC] end else [BADCASE]
        | None => [BADCASE]
        end
      else if k =? 3 then
        (* capacity only: NewSync[struct{}](c).Cap() — no slots are materialised, so c may be large.
           sub 0 = the capacity Init computes (init_cap: the translated round-up loop), sub 1 = the smallest power of two >= max 2 c *)
        if sub =? 0 then match init_cap c with None => [PANIC] | Some None => [NOFUEL] | Some (Some k') => [k'] end
        else if sub =? 1 then (if c <=? 0 then [PANIC] else [spec_cap c]) else [BADCASE]
      else [BADCASE]
  | _ => [BADCASE]
  end.

(* in-kernel anchors *)
Example anchor_ring : entry 0 [0; 3; -1; 0;5; 0;6; 1;0; 7;5; 8;9; 3;0; 6;0; 10;0] = [1; 1; 1; 5; 1; 2; 5; 7; 0; 1; 6; 9; 0; 0; 0].
Proof. vm_compute. reflexivity. Qed.
Example anchor_ring_spec : entry 1 [0; 3; -1; 0;5; 0;6; 1;0; 7;5; 8;9; 3;0; 6;0] = [1; 1; 1; 5; 1; 2; 5].
Proof. vm_compute. reflexivity. Qed.
(* capacity 2 with the counters at 2^32-2: two pushes cross the 32-bit boundary *)
Example anchor_sync_wrap : entry 0 [1; 2; 4294967294; 0;7; 0;8; 0;9; 3;0; 5;0; 1;0; 1;0; 1;0; 10;0]
  = [1; 1; 0; 2; 1; 1; 7; 1; 8; 0; 0; 7; 0; 0; 1; 0; 0; 0; 1].
Proof. vm_compute. reflexivity. Qed.
Example anchor_sync_f11 : entry 0 [1; 2147483649; -1; 6;0] = [0] /\ entry 1 [1; 2147483649; -1; 6;0] = [4294967296].
Proof. vm_compute. split; reflexivity. Qed.
