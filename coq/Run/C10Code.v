(* C10: the case interpreter of Run/C10.v, kind 0 (ringz.Ring), executed through the GENERATED functions of
   Gen/RingCode.v (translated from ringz/ring.go by gen/trans.go) instead of the hand-written model.
   Proofs/RingCode.v proves  entry_code sub args = Run.C10.entry sub args  for all arguments, so the differential run of
   `entry 0` against the compiled package is a run of the generated code.  (Not extracted: Run/C10.v does not depend
   on the generated file, so the differential run survives a translation that no longer compiles.) *)
From Coq Require Import List ZArith Bool.
From V Require Import Lib.Enc Lib.GoSem Gen.RingCode Model.RingSeq Model.SyncRingSeq Run.C10.
Import ListNotations.
Import GoNotations.
Local Open Scope Z_scope.

Definition gstep (r : Ring) (o : op) : M (Ring * res) :=
  match o with
  | OPush v => do '(r', b) <- g_Ring_Push r v;; Ret (r', RBool b)
  | OPop => do '(r', (v, ok)) <- g_Ring_Pop r;; Ret (r', RVal ok v)
  | OPeek => do '(v, ok) <- g_Ring_Peek r;; Ret (r, RVal ok v)
  | OLen => do n <- g_Ring_Len r;; Ret (r, RInt n)
  | OIsEmpty => do b <- g_Ring_IsEmpty r;; Ret (r, RBool b)
  | OIsFull => do b <- g_Ring_IsFull r;; Ret (r, RBool b)
  | OCap => do n <- g_Ring_Cap r;; Ret (r, RInt n)
  | ORecap c => do '(r', b) <- g_Ring_Recap r c;; Ret (r', RBool b)
  | OPushX v => do r' <- g_Ring_PushWithExpand r v;; Ret (r', RUnit)
  | OInit c => do r' <- g_Ring_Init r c;; Ret (r', RUnit)
  | ODump => Ret (r, RDump (Ring_head r :: Ring_tail r :: Ring_values r))
  end.

Fixpoint grun_acc (r : Ring) (ops : list op) (acc : list res) : M (list res) :=
  match ops with
  | [] => Ret (rev acc)
  | o :: t => do '(r', x) <- gstep r o;; grun_acc r' t (x :: acc)
  end.

(* ringz.New(c) followed by the operations *)
Definition gring_case (c : Z) (ops : list op) : M (list res) := do r <- g_New c;; grun_acc r ops [].

Definition enc_m (o : M (list res)) : list Z :=
  match o with Ret l => enc_out l | Panic => [PANIC] | NoFuel => [NOFUEL] end.

Definition entry_code (sub : Z) (args : list Z) : list Z :=
  match args with
  | k :: c :: inj :: r =>
      if (k =? 0) && (sub =? 0) then
        match dec_ops dec_op r [] with
        | Some ops => enc_m (gring_case c ops)
        | None => [BADCASE]
        end
      else entry sub args
  | _ => entry sub args
  end.
