(* C09 — what the code GENERATED from cryptz/crypt.go (coq/Gen/CryptCode.v, written by gen/trans.go + gen/trans_ext08.go +
   gen/trans_ext09.go on every run) is compared with.  NOT extracted and never imported by Run/C09.v or Model/: the
   correspondence run must survive a translation that breaks.

   The generated functions take everything that is not code of crypt.go as a parameter [ext' : Foreign].  [stdc E D seal
   open md5 osalt] is the instance that says about those functions exactly what the hand model Model/Crypt.v says:
     md5.Sum b                    = md5 b (a variable; [16]byte in Go: theorems carry |md5 b| = 16)
     rand.Reader                  an opaque handle; io.ReadFull(rand.Reader, buf): osalt = None -> an error, buf untouched;
                                  osalt = Some s -> the buffer handed over holds s afterwards, (len s, nil)
                                  (the model's "the random salt is an input"; the harness pins crypto/rand.Reader to it)
     bytes.Equal                  = beq
     AESCBCEncrypt dst[:n] ..     = Model.Aes.cbc_encrypt E on dst[:n]: Ok d -> dst[:n] holds d, nil; Err e -> dst untouched, e
     AESCBCDecrypt dst[:n] ..     = Model.Aes.cbc_decrypt D: Ok (k, d) -> dst[:n] holds d, (k, nil); Err e -> (0, e)
     AESGCMEncrypt / AESGCMDecrypt = Model.Aes.gcm_encrypt seal / gcm_decrypt open, likewise
   i.e. the AES layer of cryptz/aes.go is taken at the functional level of its own hand model (C08 ties that model to the
   code of aes.go: c08_code_is_model, and to the memory level: the c08_alias theorems). *)
From Coq Require Import List ZArith Bool Arith.
From V Require Import Lib.Enc Gen.Cryptz Model.Aes Model.Crypt Lib.GoSem Lib.GoSemRec Lib.GoSemStd Gen.CryptCode.
Import ListNotations.
Local Open Scope Z_scope.

Section Std.
Variable E D : bytes -> bytes -> bytes.
Variable seal : bytes -> bytes -> bytes -> bytes -> bytes.
Variable open : bytes -> bytes -> bytes -> bytes -> option bytes.
Variable md5 : bytes -> bytes.
Variable osalt : option bytes.

Definition c_md5 (b : bytes) : M bytes := Ret (md5 b).
Definition c_ReadFull (_ : unit) (buf : bytes) (n : Z) : M (bytes * (Z * Z)) :=
  match osalt with None => Ret (buf, (0, 1)) | Some s => Ret (s, (zlen s, 0)) end.
Definition c_Equal (a b : bytes) : M bool := Ret (beq a b).
(* a function that works on dst = buf[:n] and leaves the rest of the buffer alone *)
Definition front (buf : bytes) (n : Z) : bytes := firstn (Z.to_nat n) buf.
Definition back (buf : bytes) (n : Z) (d : bytes) : bytes := d ++ skipn (Z.to_nat n) buf.
Definition c_buf (buf : bytes) (n : Z) (r : res bytes) : M (bytes * Z) :=
  match r with Ok d => Ret (back buf n d, 0) | Err e => Ret (buf, e) | Aes.Panic => GoSem.Panic end.
Definition c_CBCEncrypt (buf : bytes) (n : Z) (plain key iv : bytes) : M (bytes * Z) :=
  c_buf buf n (cbc_encrypt E (front buf n) plain key iv).
Definition c_CBCDecrypt (buf : bytes) (n : Z) (ct key iv : bytes) : M (bytes * (Z * Z)) :=
  match cbc_decrypt D (front buf n) ct key iv with
  | Ok (k, d) => Ret (back buf n d, (Z.of_nat k, 0)) | Err e => Ret (buf, (0, e)) | Aes.Panic => GoSem.Panic end.
Definition c_GCMEncrypt (buf : bytes) (n : Z) (plain key nonce ad : bytes) : M (bytes * Z) :=
  c_buf buf n (gcm_encrypt seal (front buf n) plain key nonce ad).
Definition c_GCMDecrypt (buf : bytes) (n : Z) (ct key nonce ad : bytes) : M (bytes * Z) :=
  c_buf buf n (gcm_decrypt open (front buf n) ct key nonce ad).

Definition stdc : Foreign :=
  mkForeign unit tt c_md5 c_ReadFull c_Equal c_CBCEncrypt c_CBCDecrypt c_GCMEncrypt c_GCMDecrypt.
End Std.

(* ---- the explicit, total conversions between the model's results and what the Go functions return *)
(* ([]byte, error): (value, nil) or (nil, err) *)
Definition bytes_res9 (r : res bytes) : M (bytes * Z) :=
  match r with Ok l => Ret (l, 0) | Err e => Ret ([], e) | Aes.Panic => GoSem.Panic end.
(* fillCred has no result: the final content of cred, or a panic *)
Definition cred_res (r : res bytes) : M bytes :=
  match r with Ok c => Ret c | Err _ => GoSem.Panic | Aes.Panic => GoSem.Panic end.
(* the decryptors: the model also says what the caller's cipherText array holds afterwards; the generated function returns
   the Go results only (the write into the caller's array through the alias dst := cipherText is not in the translation) *)
Definition plain_of (r : res (bytes * bytes)) : res bytes :=
  match r with Ok (p, _) => Ok p | Err e => Err e | Aes.Panic => Aes.Panic end.
