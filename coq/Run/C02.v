(* C02: case encoding for the correspondence run.
   input  = kind :: nw :: (hi lo) x nw :: ops, each op = [code; a; b; c]   (unused arguments 0)
     kind = 4*variant + order; variant 0 = SkipList, 1 = SkipListWithCmp;
     order 0 = int keys ascending, 1 = int keys descending (reversed comparator), 2 = composite comparator
     (k rem 4 first, then k), 3 = string keys str_of(k) in byte-wise order.  SkipList supports orders 0 and 3.
     raw random word i = hi_i * 2^32 + lo_i (what the scripted Source64 returns for the i-th insertion).
   codes: 0 Init  1 Set k v  2 SetNx k v  3 SetX k v  4 Get k  5 GetNode k  6 GetNode(k).SetValue(v)  7 Len  8 Head
          9 Head+Next walk  10 Remove k  11 Clear  12 Range stop  13 All stop  14 Keys  15 Values
          16 RangeWithStart s stop  17 RangeWithRange s e stop  18 Shape (level field, len(node.next) per node)
     stop = n > 0: the callback returns false on its n-th call; 0: never.
   19 g R as the FIRST operation ("independent lists"): the rest of the sequence (the round; no Shape in it) is executed
     R times in a row (3 <= R) on each of g+1 (1 <= g <= 63) independent lists, every list by a goroutine of its own, all
     at the same time, the lists keeping the random source the library gave them (nothing is scripted: the words of the
     case only choose the model's towers in round 1, later rounds draw 0; the map-level results do not depend on them,
     c02_skip_refines_omap).  Output = results of rounds 1, 2 and 3 ++ [number of the rounds 4..R whose
     results equal those of round 3; number of the g other lists whose whole output equals the first list's].
     Model and specification run three rounds and answer [R-3; g] there, on the ground of a computed check: the state
     (specification: the map) after round 3 is the one after round 2, so every later round starts where round 3 started
     and repeats it (any sequence has this property: which keys are bound is settled after round 1, their values and,
     with the words used up, their towers after round 2; a case that does not pass the check is BADCASE).
   20 o (SkipListWithCmp with int keys, kinds 4..6 only; not together with 19): Init with ANOTHER comparator, o = 0 ascending,
     1 descending, 2 composite (k rem 4, k) -- the orders of c02_run_instances_total.  Init discards the state, so the case
     is a chain of runs of the proved step function, each under the comparator of the last Init (sw_run below walks the
     operations with Model.Skip.step / s_step and switches the comparator at every op 20; words are consumed across the
     switch exactly as the scripted source hands them out).
   sub 0 = model output ([PANIC] when the Go code would panic); sub 1 = sorted-map specification output
   (WILD for the tower heights, which the specification does not constrain). *)
From Coq Require Import List ZArith Bool Arith.
From V Require Import Lib.Enc Model.Skip.
Import ListNotations.
Local Open Scope Z_scope.

Definition WILD : Z := -1000006.

(* string keys: bijective base-3 numerals over "abc", least significant first ("" , a, b, c, aa, ba, ca, ab, ...) *)
Fixpoint str_of_fuel (fuel : nat) (z : Z) : list Z :=
  match fuel with
  | O => []
  | S f => if z <=? 0 then [] else (97 + (z - 1) mod 3) :: str_of_fuel f ((z - 1) / 3)
  end.
Definition str_of (z : Z) : list Z := str_of_fuel 64 z.
Fixpoint lexcmp (a b : list Z) : comparison :=
  match a, b with
  | [], [] => Eq
  | [], _ => Lt
  | _, [] => Gt
  | x :: a', y :: b' => match x ?= y with Eq => lexcmp a' b' | c => c end
  end.

Definition cmp_of (order : Z) (a b : Z) : comparison :=
  if order =? 0 then a ?= b
  else if order =? 1 then b ?= a
  else match Z.rem a 4 ?= Z.rem b 4 with Eq => a ?= b | c => c end.

Definition str_back (l : list Z) : Z := fold_right (fun d acc => acc * 3 + (d - 97) + 1) 0 l.

Fixpoint zl_eqb (a b : list Z) : bool :=
  match a, b with [], [] => true | x :: a', y :: b' => (x =? y) && zl_eqb a' b' | _, _ => false end.

Section Dec.
Variable K : Type.
Variable kd : Z -> K.     (* key token -> key *)
Variable ke : K -> Z.     (* key -> key token *)
Definition stopf (n : Z) : nat -> K -> Z -> bool := fun i _ _ => negb (Z.of_nat (S i) =? n).
Definition dec_op (c a b d : Z) : option (op K Z) :=
  if c =? 0 then Some OInit else if c =? 1 then Some (OSet (kd a) b) else if c =? 2 then Some (OSetNx (kd a) b) else
  if c =? 3 then Some (OSetX (kd a) b) else if c =? 4 then Some (OGet (kd a)) else if c =? 5 then Some (OGetNode (kd a)) else
  if c =? 6 then Some (ONodeSet (kd a) b) else if c =? 7 then Some OLen else if c =? 8 then Some OHead else
  if c =? 9 then Some OWalk else if c =? 10 then Some (ORemove (kd a)) else if c =? 11 then Some OClear else
  if c =? 12 then Some (ORange (stopf a)) else if c =? 13 then Some (OAll (stopf a)) else
  if c =? 14 then Some OKeys else if c =? 15 then Some OValues else
  if c =? 16 then Some (ORangeStart (kd a) (stopf b)) else if c =? 17 then Some (ORangeRange (kd a) (kd b) (stopf d)) else
  if c =? 18 then Some OShape else None.
Fixpoint dec_ops (fuel : nat) (l : list Z) : option (list (op K Z)) :=
  match fuel, l with
  | _, [] => Some []
  | S f, c :: a :: b :: d :: r =>
      match dec_op c a b d, dec_ops f r with Some o, Some os => Some (o :: os) | _, _ => None end
  | _, _ => None
  end.
Definition enc_pairs (l : list (K * Z)) : list Z := put_list (flat_map (fun p => [ke (fst p); snd p]) l).
Definition enc_res (wild : bool) (r : res K Z) : list Z :=
  match r with
  | RUnit => []
  | RBool b => [zb b]
  | RVal (Some v) => [v; 1]
  | RVal None => [0; 0]
  | RNode None => [0]
  | RNode (Some (k, v, None)) => [1; ke k; v; 0]
  | RNode (Some (k, v, Some k')) => [1; ke k; v; 1; ke k']
  | RLen n => [n]
  | RPairs l => enc_pairs l
  | RKeys l => put_list (map ke l)
  | RVals l => put_list l
  | RShape lv hs => if wild then WILD :: put_list (map (fun _ => WILD) hs) else Z.of_nat lv :: put_list (of_nats hs)
  end.
(* the whole case for one key type and comparator *)
Definition run_case (cmp : K -> K -> comparison) (vr : variant) (sub : Z) (ws r' : list Z) : list Z :=
  match dec_ops (length r') r' with
  | Some ops =>
      if sub =? 0 then
        match run K Z cmp 0 vr zero ops ws with
        | Some rs => flat_map (enc_res false) rs
        | None => [PANIC]
        end
      else if sub =? 1 then flat_map (enc_res true) (s_run K Z cmp [] ops)
      else [BADCASE]
  | None => [BADCASE]
  end.

(* ---- op 19: the round `r'` repeated R times on each of g+1 independent lists *)
Definition no_shape (ops : list (op K Z)) : bool :=
  forallb (fun o => match o with OShape => false | _ => true end) ops.
(* canonical rendering of a model state: fields, the chain of every level, the bindings in key order *)
Definition enc_state (cmp : K -> K -> comparison) (s : sk K Z) : list Z :=
  Z.of_nat (level s) :: len s :: zb (has_rand s) :: zb (is_zero s) ::
  flat_map (fun l => put_list (map ke l)) (levels s) ++ enc_pairs (pairs K Z cmp 0 s).
Fixpoint s_exec (cmp : K -> K -> comparison) (m : omap K Z) (ops : list (op K Z)) : omap K Z :=
  match ops with [] => m | o :: t => s_exec cmp (fst (s_step K Z cmp m o)) t end.
Definition rep_case (cmp : K -> K -> comparison) (vr : variant) (sub g R : Z) (ws r' : list Z) : list Z :=
  if (g <? 1) || (63 <? g) || (R <? 3) || (10000000 <? R) then [BADCASE] else
  match dec_ops (length r') r' with
  | Some ops =>
      if negb (no_shape ops) then [BADCASE] else
      if sub =? 0 then
        match run K Z cmp 0 vr zero ops ws, exec K Z cmp 0 vr zero ops ws with
        | Some o1, Some s1 =>
            match run K Z cmp 0 vr s1 ops [], exec K Z cmp 0 vr s1 ops [] with
            | Some o2, Some s2 =>
                match run K Z cmp 0 vr s2 ops [], exec K Z cmp 0 vr s2 ops [] with
                | Some o3, Some s3 =>
                    if zl_eqb (enc_state cmp s2) (enc_state cmp s3)
                    then flat_map (enc_res false) (o1 ++ o2 ++ o3) ++ [R - 3; g] else [BADCASE]
                | _, _ => [PANIC]
                end
            | _, _ => [PANIC]
            end
        | _, _ => [PANIC]
        end
      else if sub =? 1 then
        let m1 := s_exec cmp [] ops in
        let m2 := s_exec cmp m1 ops in
        let m3 := s_exec cmp m2 ops in
        if zl_eqb (enc_pairs m2) (enc_pairs m3)
        then flat_map (enc_res true) (s_run K Z cmp [] ops ++ s_run K Z cmp m1 ops ++ s_run K Z cmp m2 ops) ++ [R - 3; g]
        else [BADCASE]
      else [BADCASE]
  | None => [BADCASE]
  end.
End Dec.

Fixpoint dec_words (n : nat) (l : list Z) : option (list Z * list Z) :=
  match n, l with
  | O, _ => Some ([], l)
  | S k, hi :: lo :: r => match dec_words k r with Some (ws, r') => Some ((hi * 4294967296 + lo) :: ws, r') | None => None end
  | _, _ => None
  end.

(* ---- op 20: re-Init with another comparator (int keys, SkipListWithCmp) *)
Definition idz (z : Z) : Z := z.
Definition sw_op (c a b d : Z) : option (op Z Z) :=
  if c =? 20 then (if (0 <=? a) && (a <=? 2) then Some OInit else None) else dec_op Z idz c a b d.
Fixpoint sw_has (fuel : nat) (l : list Z) : bool :=
  match fuel, l with
  | S f, c :: _ :: _ :: _ :: r => (c =? 20) || sw_has f r
  | _, _ => false
  end.
Fixpoint sw_ok (fuel : nat) (l : list Z) : bool :=
  match fuel, l with
  | _, [] => true
  | S f, c :: a :: b :: d :: r => match sw_op c a b d with Some _ => sw_ok f r | None => false end
  | _, _ => false
  end.
(* None = the Go code panics *)
Fixpoint sw_run (fuel : nat) (order : Z) (s : sk Z Z) (l rnd : list Z) : option (list Z) :=
  match fuel, l with
  | S f, c :: a :: b :: d :: r =>
      let order' := if c =? 20 then a else order in
      match sw_op c a b d with
      | Some o =>
          match step Z Z (cmp_of order') 0 WithCmp s o rnd with
          | Some (s', res, rnd') =>
              match sw_run f order' s' r rnd' with Some out => Some (enc_res Z idz false res ++ out) | None => None end
          | None => None
          end
      | None => Some []
      end
  | _, _ => Some []
  end.
Fixpoint sw_spec (fuel : nat) (order : Z) (m : omap Z Z) (l : list Z) : list Z :=
  match fuel, l with
  | S f, c :: a :: b :: d :: r =>
      let order' := if c =? 20 then a else order in
      match sw_op c a b d with
      | Some o => let '(m', res) := s_step Z Z (cmp_of order') m o in enc_res Z idz true res ++ sw_spec f order' m' r
      | None => []
      end
  | _, _ => []
  end.
Definition sw_case (kind order sub : Z) (ws r' : list Z) : list Z :=
  if negb ((4 <=? kind) && (kind <=? 6)) || negb (sw_ok (length r') r') then [BADCASE] else
  if sub =? 0 then match sw_run (length r') order zero r' ws with Some out => out | None => [PANIC] end
  else if sub =? 1 then sw_spec (length r') order [] r'
  else [BADCASE].

Definition entry (sub : Z) (args : list Z) : list Z :=
  match args with
  | kind :: nw :: r =>
      let vr := if kind / 4 =? 0 then Plain else WithCmp in
      let order := kind mod 4 in
      if (kind <? 0) || (7 <? kind) || ((kind =? 1) || (kind =? 2)) || (nw <? 0) then [BADCASE] else
      match dec_words (Z.to_nat nw) r with
      | Some (ws, r') =>
          if sw_has (length r') r' then sw_case kind order sub ws r' else
          match r' with
          | c :: g :: R :: _ :: body =>
              if c =? 19 then
                if order =? 3 then rep_case (list Z) str_of str_back lexcmp vr sub g R ws body
                else rep_case Z (fun z => z) (fun z => z) (cmp_of order) vr sub g R ws body
              else
                if order =? 3 then run_case (list Z) str_of str_back lexcmp vr sub ws r'        (* string keys *)
                else run_case Z (fun z => z) (fun z => z) (cmp_of order) vr sub ws r'
          | _ =>
              if order =? 3 then run_case (list Z) str_of str_back lexcmp vr sub ws r'
              else run_case Z (fun z => z) (fun z => z) (cmp_of order) vr sub ws r'
          end
      | None => [BADCASE]
      end
  | _ => [BADCASE]
  end.

(* in-kernel anchors.  words 1, 0, 2^32-1, 2, 2^40, 7 give towers 2,1,1,3,1,4 and top level 4
   (design-notes/proto/confirm/skiprand_test.go.txt, observed on the real list) *)
Example anchor1 :
  entry 0 [0; 6; 0;1; 0;0; 0;4294967295; 0;2; 256;0; 0;7;
           0;0;0;0; 1;0;0;0; 1;1;1;0; 1;2;2;0; 1;3;3;0; 1;4;4;0; 1;5;5;0; 18;0;0;0; 14;0;0;0]
  = [4; 6; 2;1;1;3;1;4; 6; 0;1;2;3;4;5].
Proof. vm_compute. reflexivity. Qed.
Example anchor2 : (* zero-value SkipList: every read is empty, Clear is a no-op, Set initialises lazily *)
  entry 0 [0; 1; 0;5; 16;1;0;0; 17;1;5;0; 11;0;0;0; 7;0;0;0; 10;3;0;0; 2;3;9;0; 4;3;0;0; 18;0;0;0]
  = [0; 0; 0; 0;0; 1; 9;1; 2; 1; 2].
Proof. vm_compute. reflexivity. Qed.
Example anchor3 : (* zero-value SkipListWithCmp: RangeWithStart / RangeWithRange are empty (guard added in 830a627) *)
  entry 0 [4; 0; 16;1;0;0; 17;1;5;0; 11;0;0;0; 16;1;0;0] = [0; 0; 0].
Proof. vm_compute. reflexivity. Qed.
Example anchor3s : entry 1 [4; 0; 16;1;0;0; 17;1;5;0; 11;0;0;0; 16;1;0;0] = [0; 0; 0].
Proof. vm_compute. reflexivity. Qed.
Example anchor4 : (* reversed comparator, RangeWithRange(5, 1) = keys 5,4,3,2 ; stop after 3 calls *)
  entry 0 [5; 0; 0;0;0;0; 1;1;10;0; 1;3;30;0; 1;5;50;0; 1;4;40;0; 1;2;20;0; 17;5;1;3; 16;3;0;0]
  = [6; 5;50; 4;40; 3;30; 6; 3;30; 2;20; 1;10].
Proof. vm_compute. reflexivity. Qed.
Example anchor5 : (* string keys: "" < "a" < "aa" < "ab" < "b"; tokens 0,1,4,7,2 *)
  entry 0 [3; 0; 1;2;20;0; 1;7;70;0; 1;0;5;0; 1;4;40;0; 1;1;10;0; 14;0;0;0; 16;4;0;0; 5;1;0;0]
  = [5; 0;1;4;7;2; 6; 4;40; 7;70; 2;20; 1;1;10;1;4].
Proof. vm_compute. reflexivity. Qed.
Example anchor6 : (* independent lists: the round Set 1 10; Get 1; Remove 1; Len, 5 times on each of 4 lists *)
  entry 0 [0; 1; 0;1; 19;3;5;0; 1;1;10;0; 4;1;0;0; 10;1;0;0; 7;0;0;0] = [10;1; 10;1; 0; 10;1; 10;1; 0; 10;1; 10;1; 0; 2; 3].
Proof. vm_compute. reflexivity. Qed.
Example anchor6s :
  entry 1 [0; 1; 0;1; 19;3;5;0; 1;1;10;0; 4;1;0;0; 10;1;0;0; 7;0;0;0] = [10;1; 10;1; 0; 10;1; 10;1; 0; 10;1; 10;1; 0; 2; 3].
Proof. vm_compute. reflexivity. Qed.
Example anchor7 : (* rounds 1, 2 and 3 all differ: SetX misses, SetNx binds 2 to 5 | Get sees 5, SetX hits | Get sees 7 *)
  entry 0 [0; 0; 19;2;4;0; 4;2;0;0; 3;2;7;0; 2;2;5;0] = [0;0; 0; 1;  5;1; 1; 0;  7;1; 1; 0;  1; 2].
Proof. vm_compute. reflexivity. Qed.
Example anchor8 : (* SkipListWithCmp: Init in the round, every round starts empty *)
  entry 0 [4; 0; 19;1;9;0; 0;0;0;0; 4;2;0;0; 2;2;5;0; 3;2;7;0; 2;2;6;0; 14;0;0;0]
  = [0;0; 1; 1; 0; 1;2;  0;0; 1; 1; 0; 1;2;  0;0; 1; 1; 0; 1;2;  6; 1].
Proof. vm_compute. reflexivity. Qed.
Example anchor9 : entry 0 [0; 0; 19;2;4;0; 1;2;7;0; 18;0;0;0] = [BADCASE].
Proof. vm_compute. reflexivity. Qed.
Example anchor10 : (* ascending list re-initialised with the descending order, then with the composite one *)
  entry 0 [4; 6; 0;0; 0;0; 0;0; 0;0; 0;0; 0;0;  0;0;0;0; 1;1;10;0; 1;2;20;0; 14;0;0;0;  20;1;0;0; 14;0;0;0; 1;1;11;0; 1;3;31;0; 1;2;21;0;
            14;0;0;0; 17;3;1;0;  20;2;0;0; 1;5;50;0; 1;4;40;0; 14;0;0;0]
  = [2;1;2;  0;  3;3;2;1;  4;3;31;2;21;  2;4;5].
Proof. vm_compute. reflexivity. Qed.
Example anchor10s :
  entry 1 [4; 0;  0;0;0;0; 1;1;10;0; 1;2;20;0; 14;0;0;0;  20;1;0;0; 14;0;0;0; 1;1;11;0; 1;3;31;0; 1;2;21;0;
            14;0;0;0; 17;3;1;0;  20;2;0;0; 1;5;50;0; 1;4;40;0; 14;0;0;0]
  = [2;1;2;  0;  3;3;2;1;  4;3;31;2;21;  2;4;5].
Proof. vm_compute. reflexivity. Qed.
Example anchor11 : entry 0 [0; 0; 20;1;0;0] = [BADCASE].
Proof. vm_compute. reflexivity. Qed.
