(* C07: case encoding for the correspondence run.
   case = [op; variant; dl; n; b1 .. bn]      (the bytes of the argument, length-prefixed)
     op 0..3   OctalFormat / HexFormat / UnicodeFormat / Utf16Format (variant: which Go entry point, ignored here)
     op 4..7   OctalParse / HexParse / UnicodeParse / Utf16Parse; variant 0 = Parse(dst, src) with len(dst) = dl,
               variant 1, 2 = ParseToString (string / []byte): len(dst) = len(src)
     op 8..11  Parse(Format(s)) for the four codecs
   sub 0 = the index-level model ([PANIC] where Go would panic); sub 1 = the specification:
     Format: the arithmetic escapes of the bytes / runes; Parse: the list-level scan (for a destination shorter than the
     source the property says nothing: the model's own answer is returned); round trip: s for octal/hex, and for
     unicode/utf16 s when s is valid UTF-8, else s with every invalid byte replaced by U+FFFD. *)
From Coq Require Import List ZArith Bool.
From V Require Import Lib.Enc Lib.Utf8 Model.Codec.
Import ListNotations.
Local Open Scope Z_scope.

Definition res (o : option (list Z)) : list Z := match o with Some l => l | None => [PANIC] end.

Definition m_format (k : Z) (s : list Z) : option (list Z) :=
  if k =? 0 then octal_format s else if k =? 1 then hex_format s else if k =? 2 then unicode_format s else utf16_format s.
Definition m_parse (k : Z) (dl : nat) (s : list Z) : option (list Z) :=
  if k =? 0 then octal_parse dl s else if k =? 1 then hex_parse dl s else if k =? 2 then unicode_parse dl s else utf16_parse dl s.
Definition sp_format (k : Z) (s : list Z) : list Z :=
  if k =? 0 then s_octal_format s else if k =? 1 then s_hex_format s else if k =? 2 then s_unicode_format s else s_utf16_format s.
Definition sp_parse (k : Z) (s : list Z) : list Z :=
  if k =? 0 then s_octal_parse s else if k =? 1 then s_hex_parse s else if k =? 2 then s_unicode_parse s else s_utf16_parse s.
Definition m_roundtrip (k : Z) (s : list Z) : option (list Z) :=
  match m_format k s with None => None | Some e => m_parse k (length e) e end.
Definition sp_roundtrip (k : Z) (s : list Z) : list Z :=
  if k <? 2 then s else if valid_utf8 s then s else sanitize s.

Definition all_bytes (s : list Z) : bool := forallb (fun b => (0 <=? b) && (b <? 256)) s.

Definition entry (sub : Z) (args : list Z) : list Z :=
  match args with
  | op :: variant :: dl :: rest =>
      let s := fst (get_list rest) in
      if negb (all_bytes s) || (op <? 0) || (11 <? op) || (dl <? 0) then [BADCASE]
      else if op <? 4 then
        if sub =? 0 then res (m_format op s) else if sub =? 1 then sp_format op s else [BADCASE]
      else if op <? 8 then
        let k := op - 4 in
        let dln := if variant =? 0 then Z.to_nat dl else length s in
        if sub =? 0 then res (m_parse k dln s)
        else if sub =? 1 then (if (length s <=? dln)%nat then sp_parse k s else res (m_parse k dln s))
        else [BADCASE]
      else
        let k := op - 8 in
        if sub =? 0 then res (m_roundtrip k s) else if sub =? 1 then sp_roundtrip k s else [BADCASE]
  | _ => [BADCASE]
  end.

(* in-kernel anchors *)
(* OctalParseToString("\101\777q") = "A\777q" *)
Example anchor_octal : entry 0 [4; 1; 0; 9; 92;49;48;49;92;55;55;55;113] = [65;92;55;55;55;113].
Proof. vm_compute. reflexivity. Qed.
Example anchor_octal_s : entry 1 [4; 1; 0; 9; 92;49;48;49;92;55;55;55;113] = [65;92;55;55;55;113].
Proof. vm_compute. reflexivity. Qed.
(* HexParse(dst[:2], "\x41\x4Zq"): the literal run is cut by copy *)
Example anchor_hex_short : entry 0 [5; 0; 2; 9; 92;120;52;49;92;120;52;90;113] = [65; 92].
Proof. vm_compute. reflexivity. Qed.
(* HexParse(dst[:0], "\x41"): dst[0] = ... panics *)
Example anchor_hex_panic : entry 0 [5; 0; 0; 4; 92;120;52;49] = [PANIC].
Proof. vm_compute. reflexivity. Qed.
(* Utf16Format("A\xf0\x9f\x98\x80\xff") = A😀� *)
Example anchor_u16fmt : entry 0 [3; 0; 0; 6; 65;240;159;152;128;255] =
  [92;117;48;48;52;49; 92;117;68;56;51;68; 92;117;68;69;48;48; 92;117;70;70;70;68].
Proof. vm_compute. reflexivity. Qed.
(* Utf16Parse: a high surrogate followed by a BMP escape: both stay *)
Example anchor_u16quirk : entry 0 [7; 1; 0; 12; 92;117;68;56;51;68;92;117;48;48;52;49] = [92;117;68;56;51;68;92;117;48;48;52;49].
Proof. vm_compute. reflexivity. Qed.
(* UnicodeParse(UnicodeFormat("\xff")) = U+FFFD *)
Example anchor_rt : entry 0 [10; 0; 0; 1; 255] = [239; 191; 189].
Proof. vm_compute. reflexivity. Qed.
Example anchor_rt_s : entry 1 [10; 0; 0; 1; 255] = [239; 191; 189].
Proof. vm_compute. reflexivity. Qed.
