(* C09: case encoding for the correspondence run (oracle protocol).
   args  = kind :: a :: b :: c :: d :: e :: put_list l1 ++ ... ++ put_list l5 ++ ntbl :: table
     kind 0 Encrypt                 l1 plaintext l2 secret l3 salt; b = 1: the random source works (0: it fails)
          1 Decrypt                 l1 input     l2 secret
          2 GCMEncrypt              l1 plaintext l2 secret l3 salt l4 additional data; b as above
          3 GCMDecrypt              l1 input     l2 secret l4 ad; e = 1: corrupted by the generator, must be rejected
          4 SaltBySecretCBCEncrypt  as 0         5 SaltBySecretCBCDecrypt  as 1, a = reuseCipherText
          6 SaltBySecretGCMEncrypt  as 2         7 SaltBySecretGCMDecrypt  as 3, a = reuseCipherText
          8 EncryptStreamTo         l1 data l2 secret l3 salt l5 reader plan (chunk sizes); a = terminal behaviour of the
                                    reader (0 EOF alone, 1 EOF with the last data, 2 error), b random source, c = number of
                                    Write calls the writer accepts, d = buffer size offered to each body Read
          9 DecryptStreamTo         l1 stream bytes, l2 secret, l5 plan, a, c, d as above
          10 / 11                   = 8 / 9 for LONG streams (tens of kilobytes: single reads / writes larger than
                                    io.Copy's 32 KiB buffer, streams of several buffers).  The case and the judge (sub 2) are
                                    those of 8 / 9: every byte is judged against the library's whole-message CTR (one
                                    query).  sub 0 would need one AES-block query per 16 bytes, so it gives the part of the
                                    model's answer that does not depend on the block cipher -- result code, NUMBER of
                                    bytes written, sizes of the writes -- computed with the constant cipher [E0]; the
                                    harness projects the implementation's output the same way (Prop.XProj).
          e (kinds 8, 10): which source the harness hands to EncryptStreamTo (0 its chunking reader, 1 the same with
                                    io.WriterTo: one Write per chunk, 2 bytes.Reader, 3 bytes.Buffer, 4 strings.Reader,
                                    5 bufio.Reader over bytes.Reader); the model ignores it: a source with WriteTo is a
                                    reader whose chunks all fit the buffer (d >= every chunk).
   sub 0 = model output; sub 2 = spec_ok on put_list case ++ put_list impl_output ++ ntbl :: table -> [1]/[0].
   Oracle queries (Go standard library): 1/2 AES block enc/dec, 3/4 GCM Seal/Open, 5/6 whole-message CBC enc/dec,
   7 md5, 8 base64 encode, 9 base64 decode (1::bytes / [0]), 10 k iv d: cipher.NewCTR(..).XORKeyStream. *)
From Coq Require Import List ZArith Bool Arith.
From V Require Import Lib.Enc Gen.Cryptz Model.Aes Model.Crypt.
Import ListNotations.
Local Open Scope Z_scope.

Definition POISON : list Z := [-7777].
Definition q1 (tag : Z) (a : list Z) : list Z := tag :: put_list a.
Definition q2 (tag : Z) (a b : list Z) : list Z := tag :: put_list a ++ put_list b.
Definition q3 (tag : Z) (a b c : list Z) : list Z := tag :: put_list a ++ put_list b ++ put_list c.
Definition q4 (tag : Z) (a b c d : list Z) : list Z := tag :: put_list a ++ put_list b ++ put_list c ++ put_list d.

Fixpoint cut (data : list Z) (plan : list Z) : list (list Z) :=
  match plan with
  | [] => match data with [] => [] | _ => [data] end
  | n :: t => firstn (Z.to_nat n) data :: cut (skipn (Z.to_nat n) data) t
  end.

Section Tbl.
Variable tbl : list (list Z * list Z).
Definition ans (q : list Z) : list Z := match lookup q tbl with Some v => v | None => POISON end.
Definition optans (q : list Z) : option (list Z) := match lookup q tbl with Some (1 :: p) => Some p | _ => None end.
Definition E_t (k b : list Z) := ans (q2 1 k b).
Definition D_t (k b : list Z) := ans (q2 2 k b).
Definition seal_t (k n p a : list Z) := ans (q4 3 k n p a).
Definition open_t (k n c a : list Z) := optans (q4 4 k n c a).
Definition stdenc_t (k iv d : list Z) := ans (q3 5 k iv d).
Definition stddec_t (k iv d : list Z) := ans (q3 6 k iv d).
Definition md5_t (m : list Z) := ans (q1 7 m).
Definition b64enc_t (m : list Z) := ans (q1 8 m).
Definition b64dec_t (m : list Z) := optans (q1 9 m).
Definition stdctr_t (k iv d : list Z) := ans (q3 10 k iv d).

(* the queries an evaluation needs, in dependency order *)
Fixpoint cbc_enc_qs (k prev : list Z) (bs : list (list Z)) : list (list Z) :=
  match bs with [] => [] | b :: t => let x := xor b prev in q2 1 k x :: cbc_enc_qs k (E_t k x) t end.
Definition md5_qs (secret salt : list Z) : list (list Z) :=
  let d1 := md5_t (secret ++ salt) in let d2 := md5_t (d1 ++ secret ++ salt) in
  [q1 7 (secret ++ salt); q1 7 (d1 ++ secret ++ salt); q1 7 (d2 ++ secret ++ salt)].
Definition kiv (secret salt : list Z) : list Z * list Z :=
  match bind (fill_cred md5_t secret salt) key_iv with Ok x => x | _ => ([], []) end.
Definition knonce (secret salt : list Z) : list Z * list Z :=
  match bind (fill_cred md5_t secret salt) key_nonce with Ok x => x | _ => ([], []) end.
Definition hdr_ok (raw : list Z) : bool := (16 <=? length raw)%nat && list_eqb (firstn 8 raw) header.
Definition salt_of (raw : list Z) : list Z := firstn 8 (skipn 8 raw).

Definition scenc_qs (sub : Z) (salt p s : list Z) : list (list Z) :=
  md5_qs s salt ++
  if sub =? 0 then
    match salt_cbc_parts md5_t (Some salt) p s with
    | Ok (dst, key, iv) =>
        match cbc_encrypt_prep (skipn BS dst) p key iv with Ok d2 => cbc_enc_qs key iv (blocks d2) | _ => [] end
    | _ => []
    end
  else [q3 5 (evp_key md5_t s salt) (evp_iv md5_t s salt) (pkcs7_padded p (spec_pad_len (length p) 16))].
Definition scdec_qs (sub : Z) (raw s : list Z) : list (list Z) :=
  if hdr_ok raw && (32 <=? length raw)%nat && (length raw mod 16 =? 0)%nat then
    md5_qs s (salt_of raw) ++
    (if sub =? 0 then map (q2 2 (fst (kiv s (salt_of raw)))) (blocks (skipn 16 raw))
     else [q3 6 (evp_key md5_t s (salt_of raw)) (evp_iv md5_t s (salt_of raw)) (skipn 16 raw)])
  else [].
Definition sgenc_qs (salt p s a : list Z) : list (list Z) :=
  md5_qs s salt ++ [q4 3 (fst (knonce s salt)) (snd (knonce s salt)) p a].
Definition sgdec_qs (raw s a : list Z) : list (list Z) :=
  if hdr_ok raw then md5_qs s (salt_of raw) ++ [q4 4 (fst (knonce s (salt_of raw))) (snd (knonce s (salt_of raw))) (skipn 16 raw) a]
  else [].
Definition ctr_qs (sub : Z) (s salt data : list Z) (nb : nat) : list (list Z) :=
  md5_qs s salt ++
  (if sub =? 0 then map (fun j => q2 1 (fst (kiv s salt)) (ctr_in (snd (kiv s salt)) j)) (seq 0 nb)
   else [q3 10 (fst (kiv s salt)) (snd (kiv s salt)) data]).

Definition queries (sub : Z) (o : op) : list (list Z) :=
  match o with
  | OEnc (Some salt) p s =>
      scenc_qs sub salt p s ++
      (if sub =? 0 then match salt_cbc_encrypt E_t md5_t (Some salt) p s with Ok c => [q1 8 c] | _ => [] end
       else [q1 8 (spec_cbc_message stdenc_t md5_t salt p s)])
  | OSCEnc (Some salt) p s => scenc_qs sub salt p s
  | ODec i s => q1 9 i :: match b64dec_t i with Some raw => scdec_qs sub raw s | None => [] end
  | OSCDec _ c s => scdec_qs sub c s
  | OGEnc (Some salt) p s a | OSGEnc (Some salt) p s a => sgenc_qs salt p s a
  | OGDec _ i s a => match hex_decode i with Some raw => sgdec_qs raw s a | None => [] end
  | OSGDec _ _ c s a => sgdec_qs c s a
  | OEncStream _ (Some salt) r _ s => ctr_qs sub s salt (r_data r) (nblocks_for r)
  | ODecStream _ r _ s =>
      if hdr_ok (r_data r) then ctr_qs sub s (salt_of (r_data r)) (skipn 16 (r_data r)) (nblocks_for r) else []
  | _ => []
  end.

(* long streams (kinds 10, 11), sub 0: the key derivation only *)
Definition big_queries (o : op) : list (list Z) :=
  match o with
  | OEncStream _ (Some salt) _ _ s => md5_qs s salt
  | ODecStream _ r _ s => if hdr_ok (r_data r) then md5_qs s (salt_of (r_data r)) else []
  | _ => []
  end.

Definition first_missing (qs : list (list Z)) : option (list Z) :=
  find (fun q => match lookup q tbl with None => true | Some _ => false end) qs.
End Tbl.

Definition dec_op (l : list Z) : option op * list Z :=
  match l with
  | kind :: a :: b :: c :: d :: e :: r =>
      let '(ls, rest) := get_lists 5 r in
      let l1 := nth 0 ls [] in let l2 := nth 1 ls [] in let l3 := nth 2 ls [] in let l4 := nth 3 ls [] in
      let l5 := nth 4 ls [] in
      let osalt := if b =? 0 then None else Some l3 in
      let rd := mkR (cut l1 l5) a in
      ((if kind =? 0 then Some (OEnc osalt l1 l2)
        else if kind =? 1 then Some (ODec l1 l2)
        else if kind =? 2 then Some (OGEnc osalt l1 l2 l4)
        else if kind =? 3 then Some (OGDec (bz e) l1 l2 l4)
        else if kind =? 4 then Some (OSCEnc osalt l1 l2)
        else if kind =? 5 then Some (OSCDec (bz a) l1 l2)
        else if kind =? 6 then Some (OSGEnc osalt l1 l2 l4)
        else if kind =? 7 then Some (OSGDec (bz e) (bz a) l1 l2 l4)
        else if (kind =? 8) || (kind =? 10) then if 0 <? d then Some (OEncStream (Z.to_nat d) osalt rd c l2) else None
        else if (kind =? 9) || (kind =? 11) then if 0 <? d then Some (ODecStream (Z.to_nat d) rd c l2) else None
        else None), rest)
  | _ => (None, [])
  end.

Definition get_tbl (rest : list Z) : list (list Z * list Z) :=
  match rest with n :: t => fst (get_table (Z.to_nat n) t) | [] => [] end.

(* kinds 10 / 11 *)
Definition is_big (args : list Z) : bool := match args with k :: _ => (k =? 10) || (k =? 11) | [] => false end.
Definition E0 (_ _ : list Z) : list Z := repeat 0 16.
(* 0 :: code :: put_list written ++ put_list sizes  |->  0 :: code :: |written| :: put_list sizes *)
Definition proj_stream (out : list Z) : list Z :=
  match out with
  | 0 :: code :: rest => let (written, r2) := get_list rest in 0 :: code :: Z.of_nat (length written) :: r2
  | _ => out
  end.

Definition entry (sub : Z) (args : list Z) : list Z :=
  if sub =? 2 then
    let (case, r1) := get_list args in
    let (impl, r2) := get_list r1 in
    let tbl := get_tbl r2 in
    match fst (dec_op case) with
    | None => [BADCASE]
    | Some o =>
        match first_missing tbl (queries tbl 2 o) with
        | Some q => ASK :: q
        | None => [zb (spec_ok (stdenc_t tbl) (stddec_t tbl) (stdctr_t tbl) (seal_t tbl) (open_t tbl) (md5_t tbl)
                               (b64enc_t tbl) (b64dec_t tbl) o impl)]
        end
    end
  else
    let (oo, rest) := dec_op args in
    let tbl := get_tbl rest in
    match oo with
    | None => [BADCASE]
    | Some o =>
        if is_big args then
          match first_missing tbl (big_queries tbl o) with
          | Some q => ASK :: q
          | None => proj_stream (run_op E0 (D_t tbl) (seal_t tbl) (open_t tbl) (md5_t tbl) (b64enc_t tbl) (b64dec_t tbl) o)
          end
        else
        match first_missing tbl (queries tbl 0 o) with
        | Some q => ASK :: q
        | None => run_op (E_t tbl) (D_t tbl) (seal_t tbl) (open_t tbl) (md5_t tbl) (b64enc_t tbl) (b64dec_t tbl) o
        end
    end.

(* in-kernel anchors *)
Example anchor_short : entry 0 ([5; 1;0;0;0;0] ++ put_list [1;2;3] ++ put_list [9] ++ [0;0;0] ++ [0]) = [1; 11].
Proof. vm_compute. reflexivity. Qed.
Example anchor_hex : entry 0 ([3; 0;0;0;0;0] ++ put_list [48;103] ++ put_list [9] ++ [0;0;0] ++ [0]) = [1; 14].
Proof. vm_compute. reflexivity. Qed.
Example anchor_ask_md5 : entry 0 ([4; 0;1;0;0;0] ++ put_list [] ++ put_list [9] ++ put_list [1;2;3;4;5;6;7;8] ++ [0;0] ++ [0])
  = ASK :: q1 7 [9; 1;2;3;4;5;6;7;8].
Proof. vm_compute. reflexivity. Qed.
Example anchor_rand_fails : entry 0 ([8; 0;0;5;100;0] ++ put_list [1;2] ++ put_list [9] ++ put_list [] ++ [0] ++ put_list [2] ++ [0])
  = [0; 19; 0; 0].
Proof. vm_compute. reflexivity. Qed.
Example anchor_big_rand_fails : entry 0 ([10; 0;0;5;100;1] ++ put_list [1;2] ++ put_list [9] ++ put_list [] ++ [0] ++ put_list [2] ++ [0])
  = [0; 19; 0; 0].
Proof. vm_compute. reflexivity. Qed.
Example anchor_big_short_stream : entry 0 ([11; 0;0;5;100;0] ++ put_list [83;97;108] ++ put_list [9] ++ [0;0] ++ put_list [1;1;1] ++ [0])
  = [0; 15; 0; 0].
Proof. vm_compute. reflexivity. Qed.
Example anchor_short_stream : entry 0 ([9; 0;0;5;100;0] ++ put_list [83;97;108] ++ put_list [9] ++ [0;0] ++ put_list [1;1;1] ++ [0])
  = [0; 15; 0; 0].
Proof. vm_compute. reflexivity. Qed.
