
(** val negb : bool -> bool **)

let negb = function
| true -> false
| false -> true

type nat =
| O
| S of nat

(** val fst : ('a1 * 'a2) -> 'a1 **)

let fst = function
| (x, _) -> x

(** val snd : ('a1 * 'a2) -> 'a2 **)

let snd = function
| (_, y) -> y

(** val length : 'a1 list -> nat **)

let rec length = function
| [] -> O
| _ :: l' -> S (length l')

(** val app : 'a1 list -> 'a1 list -> 'a1 list **)

let rec app l m =
  match l with
  | [] -> m
  | a :: l1 -> a :: (app l1 m)

type comparison =
| Eq
| Lt
| Gt

(** val compOpp : comparison -> comparison **)

let compOpp = function
| Eq -> Eq
| Lt -> Gt
| Gt -> Lt

module Coq__1 = struct
 (** val add : nat -> nat -> nat **)
 let rec add n0 m =
   match n0 with
   | O -> m
   | S p -> S (add p m)
end
include Coq__1

(** val mul : nat -> nat -> nat **)

let rec mul n0 m =
  match n0 with
  | O -> O
  | S p -> add m (mul p m)

(** val sub : nat -> nat -> nat **)

let rec sub n0 m =
  match n0 with
  | O -> n0
  | S k -> (match m with
            | O -> n0
            | S l -> sub k l)

(** val eqb : bool -> bool -> bool **)

let eqb b1 b2 =
  if b1 then b2 else if b2 then false else true

module Nat =
 struct
  (** val eqb : nat -> nat -> bool **)

  let rec eqb n0 m =
    match n0 with
    | O -> (match m with
            | O -> true
            | S _ -> false)
    | S n' -> (match m with
               | O -> false
               | S m' -> eqb n' m')

  (** val leb : nat -> nat -> bool **)

  let rec leb n0 m =
    match n0 with
    | O -> true
    | S n' -> (match m with
               | O -> false
               | S m' -> leb n' m')

  (** val ltb : nat -> nat -> bool **)

  let ltb n0 m =
    leb (S n0) m
 end

(** val tl : 'a1 list -> 'a1 list **)

let tl = function
| [] -> []
| _ :: m -> m

(** val nth : nat -> 'a1 list -> 'a1 -> 'a1 **)

let rec nth n0 l default =
  match n0 with
  | O -> (match l with
          | [] -> default
          | x :: _ -> x)
  | S m -> (match l with
            | [] -> default
            | _ :: t -> nth m t default)

(** val nth_error : 'a1 list -> nat -> 'a1 option **)

let rec nth_error l = function
| O -> (match l with
        | [] -> None
        | x :: _ -> Some x)
| S n1 -> (match l with
           | [] -> None
           | _ :: l0 -> nth_error l0 n1)

(** val rev : 'a1 list -> 'a1 list **)

let rec rev = function
| [] -> []
| x :: l' -> app (rev l') (x :: [])

(** val rev_append : 'a1 list -> 'a1 list -> 'a1 list **)

let rec rev_append l l' =
  match l with
  | [] -> l'
  | a :: l0 -> rev_append l0 (a :: l')

(** val rev' : 'a1 list -> 'a1 list **)

let rev' l =
  rev_append l []

(** val concat : 'a1 list list -> 'a1 list **)

let rec concat = function
| [] -> []
| x :: l0 -> app x (concat l0)

(** val map : ('a1 -> 'a2) -> 'a1 list -> 'a2 list **)

let rec map f = function
| [] -> []
| a :: t -> (f a) :: (map f t)

(** val flat_map : ('a1 -> 'a2 list) -> 'a1 list -> 'a2 list **)

let rec flat_map f = function
| [] -> []
| x :: t -> app (f x) (flat_map f t)

(** val fold_left : ('a1 -> 'a2 -> 'a1) -> 'a2 list -> 'a1 -> 'a1 **)

let rec fold_left f l a0 =
  match l with
  | [] -> a0
  | b :: t -> fold_left f t (f a0 b)

(** val existsb : ('a1 -> bool) -> 'a1 list -> bool **)

let rec existsb f = function
| [] -> false
| a :: l0 -> (||) (f a) (existsb f l0)

(** val forallb : ('a1 -> bool) -> 'a1 list -> bool **)

let rec forallb f = function
| [] -> true
| a :: l0 -> (&&) (f a) (forallb f l0)

(** val filter : ('a1 -> bool) -> 'a1 list -> 'a1 list **)

let rec filter f = function
| [] -> []
| x :: l0 -> if f x then x :: (filter f l0) else filter f l0

(** val firstn : nat -> 'a1 list -> 'a1 list **)

let rec firstn n0 l =
  match n0 with
  | O -> []
  | S n1 -> (match l with
             | [] -> []
             | a :: l0 -> a :: (firstn n1 l0))

(** val skipn : nat -> 'a1 list -> 'a1 list **)

let rec skipn n0 l =
  match n0 with
  | O -> l
  | S n1 -> (match l with
             | [] -> []
             | _ :: l0 -> skipn n1 l0)

(** val seq : nat -> nat -> nat list **)

let rec seq start = function
| O -> []
| S len2 -> start :: (seq (S start) len2)

(** val repeat : 'a1 -> nat -> 'a1 list **)

let rec repeat x = function
| O -> []
| S k -> x :: (repeat x k)

type positive =
| XI of positive
| XO of positive
| XH

type n =
| N0
| Npos of positive

type z =
| Z0
| Zpos of positive
| Zneg of positive

module Pos =
 struct
  type mask =
  | IsNul
  | IsPos of positive
  | IsNeg
 end

module Coq_Pos =
 struct
  (** val succ : positive -> positive **)

  let rec succ = function
  | XI p -> XO (succ p)
  | XO p -> XI p
  | XH -> XO XH

  (** val add : positive -> positive -> positive **)

  let rec add x y =
    match x with
    | XI p ->
      (match y with
       | XI q1 -> XO (add_carry p q1)
       | XO q1 -> XI (add p q1)
       | XH -> XO (succ p))
    | XO p ->
      (match y with
       | XI q1 -> XI (add p q1)
       | XO q1 -> XO (add p q1)
       | XH -> XI p)
    | XH -> (match y with
             | XI q1 -> XO (succ q1)
             | XO q1 -> XI q1
             | XH -> XO XH)

  (** val add_carry : positive -> positive -> positive **)

  and add_carry x y =
    match x with
    | XI p ->
      (match y with
       | XI q1 -> XI (add_carry p q1)
       | XO q1 -> XO (add_carry p q1)
       | XH -> XI (succ p))
    | XO p ->
      (match y with
       | XI q1 -> XO (add_carry p q1)
       | XO q1 -> XI (add p q1)
       | XH -> XO (succ p))
    | XH ->
      (match y with
       | XI q1 -> XI (succ q1)
       | XO q1 -> XO (succ q1)
       | XH -> XI XH)

  (** val pred_double : positive -> positive **)

  let rec pred_double = function
  | XI p -> XI (XO p)
  | XO p -> XI (pred_double p)
  | XH -> XH

  (** val pred_N : positive -> n **)

  let pred_N = function
  | XI p -> Npos (XO p)
  | XO p -> Npos (pred_double p)
  | XH -> N0

  type mask = Pos.mask =
  | IsNul
  | IsPos of positive
  | IsNeg

  (** val succ_double_mask : mask -> mask **)

  let succ_double_mask = function
  | IsNul -> IsPos XH
  | IsPos p -> IsPos (XI p)
  | IsNeg -> IsNeg

  (** val double_mask : mask -> mask **)

  let double_mask = function
  | IsPos p -> IsPos (XO p)
  | x0 -> x0

  (** val double_pred_mask : positive -> mask **)

  let double_pred_mask = function
  | XI p -> IsPos (XO (XO p))
  | XO p -> IsPos (XO (pred_double p))
  | XH -> IsNul

  (** val sub_mask : positive -> positive -> mask **)

  let rec sub_mask x y =
    match x with
    | XI p ->
      (match y with
       | XI q1 -> double_mask (sub_mask p q1)
       | XO q1 -> succ_double_mask (sub_mask p q1)
       | XH -> IsPos (XO p))
    | XO p ->
      (match y with
       | XI q1 -> succ_double_mask (sub_mask_carry p q1)
       | XO q1 -> double_mask (sub_mask p q1)
       | XH -> IsPos (pred_double p))
    | XH -> (match y with
             | XH -> IsNul
             | _ -> IsNeg)

  (** val sub_mask_carry : positive -> positive -> mask **)

  and sub_mask_carry x y =
    match x with
    | XI p ->
      (match y with
       | XI q1 -> succ_double_mask (sub_mask_carry p q1)
       | XO q1 -> double_mask (sub_mask p q1)
       | XH -> IsPos (pred_double p))
    | XO p ->
      (match y with
       | XI q1 -> double_mask (sub_mask_carry p q1)
       | XO q1 -> succ_double_mask (sub_mask_carry p q1)
       | XH -> double_pred_mask p)
    | XH -> IsNeg

  (** val mul : positive -> positive -> positive **)

  let rec mul x y =
    match x with
    | XI p -> add y (XO (mul p y))
    | XO p -> XO (mul p y)
    | XH -> y

  (** val iter : ('a1 -> 'a1) -> 'a1 -> positive -> 'a1 **)

  let rec iter f x = function
  | XI n' -> f (iter f (iter f x n') n')
  | XO n' -> iter f (iter f x n') n'
  | XH -> f x

  (** val compare_cont : comparison -> positive -> positive -> comparison **)

  let rec compare_cont r x y =
    match x with
    | XI p ->
      (match y with
       | XI q1 -> compare_cont r p q1
       | XO q1 -> compare_cont Gt p q1
       | XH -> Gt)
    | XO p ->
      (match y with
       | XI q1 -> compare_cont Lt p q1
       | XO q1 -> compare_cont r p q1
       | XH -> Gt)
    | XH -> (match y with
             | XH -> r
             | _ -> Lt)

  (** val compare : positive -> positive -> comparison **)

  let compare =
    compare_cont Eq

  (** val eqb : positive -> positive -> bool **)

  let rec eqb p q1 =
    match p with
    | XI p0 -> (match q1 with
                | XI q2 -> eqb p0 q2
                | _ -> false)
    | XO p0 -> (match q1 with
                | XO q2 -> eqb p0 q2
                | _ -> false)
    | XH -> (match q1 with
             | XH -> true
             | _ -> false)

  (** val coq_Nsucc_double : n -> n **)

  let coq_Nsucc_double = function
  | N0 -> Npos XH
  | Npos p -> Npos (XI p)

  (** val coq_Ndouble : n -> n **)

  let coq_Ndouble = function
  | N0 -> N0
  | Npos p -> Npos (XO p)

  (** val coq_lor : positive -> positive -> positive **)

  let rec coq_lor p q1 =
    match p with
    | XI p0 ->
      (match q1 with
       | XI q2 -> XI (coq_lor p0 q2)
       | XO q2 -> XI (coq_lor p0 q2)
       | XH -> p)
    | XO p0 ->
      (match q1 with
       | XI q2 -> XI (coq_lor p0 q2)
       | XO q2 -> XO (coq_lor p0 q2)
       | XH -> XI p0)
    | XH -> (match q1 with
             | XO q2 -> XI q2
             | _ -> q1)

  (** val coq_land : positive -> positive -> n **)

  let rec coq_land p q1 =
    match p with
    | XI p0 ->
      (match q1 with
       | XI q2 -> coq_Nsucc_double (coq_land p0 q2)
       | XO q2 -> coq_Ndouble (coq_land p0 q2)
       | XH -> Npos XH)
    | XO p0 ->
      (match q1 with
       | XI q2 -> coq_Ndouble (coq_land p0 q2)
       | XO q2 -> coq_Ndouble (coq_land p0 q2)
       | XH -> N0)
    | XH -> (match q1 with
             | XO _ -> N0
             | _ -> Npos XH)

  (** val ldiff : positive -> positive -> n **)

  let rec ldiff p q1 =
    match p with
    | XI p0 ->
      (match q1 with
       | XI q2 -> coq_Ndouble (ldiff p0 q2)
       | XO q2 -> coq_Nsucc_double (ldiff p0 q2)
       | XH -> Npos (XO p0))
    | XO p0 ->
      (match q1 with
       | XI q2 -> coq_Ndouble (ldiff p0 q2)
       | XO q2 -> coq_Ndouble (ldiff p0 q2)
       | XH -> Npos p)
    | XH -> (match q1 with
             | XO _ -> Npos XH
             | _ -> N0)

  (** val shiftl : positive -> n -> positive **)

  let shiftl p = function
  | N0 -> p
  | Npos n1 -> iter (fun x -> XO x) p n1

  (** val testbit : positive -> n -> bool **)

  let rec testbit p n0 =
    match p with
    | XI p0 -> (match n0 with
                | N0 -> true
                | Npos n1 -> testbit p0 (pred_N n1))
    | XO p0 -> (match n0 with
                | N0 -> false
                | Npos n1 -> testbit p0 (pred_N n1))
    | XH -> (match n0 with
             | N0 -> true
             | Npos _ -> false)

  (** val iter_op : ('a1 -> 'a1 -> 'a1) -> positive -> 'a1 -> 'a1 **)

  let rec iter_op op2 p a =
    match p with
    | XI p0 -> op2 a (iter_op op2 p0 (op2 a a))
    | XO p0 -> iter_op op2 p0 (op2 a a)
    | XH -> a

  (** val to_nat : positive -> nat **)

  let to_nat x =
    iter_op Coq__1.add x (S O)

  (** val of_succ_nat : nat -> positive **)

  let rec of_succ_nat = function
  | O -> XH
  | S x -> succ (of_succ_nat x)
 end

module N =
 struct
  (** val succ_double : n -> n **)

  let succ_double = function
  | N0 -> Npos XH
  | Npos p -> Npos (XI p)

  (** val double : n -> n **)

  let double = function
  | N0 -> N0
  | Npos p -> Npos (XO p)

  (** val add : n -> n -> n **)

  let add n0 m =
    match n0 with
    | N0 -> m
    | Npos p -> (match m with
                 | N0 -> n0
                 | Npos q1 -> Npos (Coq_Pos.add p q1))

  (** val sub : n -> n -> n **)

  let sub n0 m =
    match n0 with
    | N0 -> N0
    | Npos n' ->
      (match m with
       | N0 -> n0
       | Npos m' ->
         (match Coq_Pos.sub_mask n' m' with
          | Coq_Pos.IsPos p -> Npos p
          | _ -> N0))

  (** val mul : n -> n -> n **)

  let mul n0 m =
    match n0 with
    | N0 -> N0
    | Npos p -> (match m with
                 | N0 -> N0
                 | Npos q1 -> Npos (Coq_Pos.mul p q1))

  (** val compare : n -> n -> comparison **)

  let compare n0 m =
    match n0 with
    | N0 -> (match m with
             | N0 -> Eq
             | Npos _ -> Lt)
    | Npos n' -> (match m with
                  | N0 -> Gt
                  | Npos m' -> Coq_Pos.compare n' m')

  (** val eqb : n -> n -> bool **)

  let eqb n0 m =
    match n0 with
    | N0 -> (match m with
             | N0 -> true
             | Npos _ -> false)
    | Npos p -> (match m with
                 | N0 -> false
                 | Npos q1 -> Coq_Pos.eqb p q1)

  (** val leb : n -> n -> bool **)

  let leb x y =
    match compare x y with
    | Gt -> false
    | _ -> true

  (** val ltb : n -> n -> bool **)

  let ltb x y =
    match compare x y with
    | Lt -> true
    | _ -> false

  (** val max : n -> n -> n **)

  let max n0 n' =
    match compare n0 n' with
    | Gt -> n0
    | _ -> n'

  (** val div2 : n -> n **)

  let div2 = function
  | N0 -> N0
  | Npos p0 -> (match p0 with
                | XI p -> Npos p
                | XO p -> Npos p
                | XH -> N0)

  (** val pos_div_eucl : positive -> n -> n * n **)

  let rec pos_div_eucl a b =
    match a with
    | XI a' ->
      let (q1, r) = pos_div_eucl a' b in
      let r' = succ_double r in
      if leb b r' then ((succ_double q1), (sub r' b)) else ((double q1), r')
    | XO a' ->
      let (q1, r) = pos_div_eucl a' b in
      let r' = double r in
      if leb b r' then ((succ_double q1), (sub r' b)) else ((double q1), r')
    | XH ->
      (match b with
       | N0 -> (N0, (Npos XH))
       | Npos p -> (match p with
                    | XH -> ((Npos XH), N0)
                    | _ -> (N0, (Npos XH))))

  (** val div_eucl : n -> n -> n * n **)

  let div_eucl a b =
    match a with
    | N0 -> (N0, N0)
    | Npos na -> (match b with
                  | N0 -> (N0, a)
                  | Npos _ -> pos_div_eucl na b)

  (** val div : n -> n -> n **)

  let div a b =
    fst (div_eucl a b)

  (** val coq_lor : n -> n -> n **)

  let coq_lor n0 m =
    match n0 with
    | N0 -> m
    | Npos p ->
      (match m with
       | N0 -> n0
       | Npos q1 -> Npos (Coq_Pos.coq_lor p q1))

  (** val coq_land : n -> n -> n **)

  let coq_land n0 m =
    match n0 with
    | N0 -> N0
    | Npos p -> (match m with
                 | N0 -> N0
                 | Npos q1 -> Coq_Pos.coq_land p q1)

  (** val ldiff : n -> n -> n **)

  let ldiff n0 m =
    match n0 with
    | N0 -> N0
    | Npos p -> (match m with
                 | N0 -> n0
                 | Npos q1 -> Coq_Pos.ldiff p q1)

  (** val shiftl : n -> n -> n **)

  let shiftl a n0 =
    match a with
    | N0 -> N0
    | Npos a0 -> Npos (Coq_Pos.shiftl a0 n0)

  (** val shiftr : n -> n -> n **)

  let shiftr a = function
  | N0 -> a
  | Npos p -> Coq_Pos.iter div2 a p

  (** val testbit : n -> n -> bool **)

  let testbit a n0 =
    match a with
    | N0 -> false
    | Npos p -> Coq_Pos.testbit p n0

  (** val to_nat : n -> nat **)

  let to_nat = function
  | N0 -> O
  | Npos p -> Coq_Pos.to_nat p

  (** val of_nat : nat -> n **)

  let of_nat = function
  | O -> N0
  | S n' -> Npos (Coq_Pos.of_succ_nat n')
 end

module Z =
 struct
  (** val double : z -> z **)

  let double = function
  | Z0 -> Z0
  | Zpos p -> Zpos (XO p)
  | Zneg p -> Zneg (XO p)

  (** val succ_double : z -> z **)

  let succ_double = function
  | Z0 -> Zpos XH
  | Zpos p -> Zpos (XI p)
  | Zneg p -> Zneg (Coq_Pos.pred_double p)

  (** val pred_double : z -> z **)

  let pred_double = function
  | Z0 -> Zneg XH
  | Zpos p -> Zpos (Coq_Pos.pred_double p)
  | Zneg p -> Zneg (XI p)

  (** val pos_sub : positive -> positive -> z **)

  let rec pos_sub x y =
    match x with
    | XI p ->
      (match y with
       | XI q1 -> double (pos_sub p q1)
       | XO q1 -> succ_double (pos_sub p q1)
       | XH -> Zpos (XO p))
    | XO p ->
      (match y with
       | XI q1 -> pred_double (pos_sub p q1)
       | XO q1 -> double (pos_sub p q1)
       | XH -> Zpos (Coq_Pos.pred_double p))
    | XH ->
      (match y with
       | XI q1 -> Zneg (XO q1)
       | XO q1 -> Zneg (Coq_Pos.pred_double q1)
       | XH -> Z0)

  (** val add : z -> z -> z **)

  let add x y =
    match x with
    | Z0 -> y
    | Zpos x' ->
      (match y with
       | Z0 -> x
       | Zpos y' -> Zpos (Coq_Pos.add x' y')
       | Zneg y' -> pos_sub x' y')
    | Zneg x' ->
      (match y with
       | Z0 -> x
       | Zpos y' -> pos_sub y' x'
       | Zneg y' -> Zneg (Coq_Pos.add x' y'))

  (** val opp : z -> z **)

  let opp = function
  | Z0 -> Z0
  | Zpos x0 -> Zneg x0
  | Zneg x0 -> Zpos x0

  (** val sub : z -> z -> z **)

  let sub m n0 =
    add m (opp n0)

  (** val mul : z -> z -> z **)

  let mul x y =
    match x with
    | Z0 -> Z0
    | Zpos x' ->
      (match y with
       | Z0 -> Z0
       | Zpos y' -> Zpos (Coq_Pos.mul x' y')
       | Zneg y' -> Zneg (Coq_Pos.mul x' y'))
    | Zneg x' ->
      (match y with
       | Z0 -> Z0
       | Zpos y' -> Zneg (Coq_Pos.mul x' y')
       | Zneg y' -> Zpos (Coq_Pos.mul x' y'))

  (** val pow_pos : z -> positive -> z **)

  let pow_pos z0 =
    Coq_Pos.iter (mul z0) (Zpos XH)

  (** val pow : z -> z -> z **)

  let pow x = function
  | Z0 -> Zpos XH
  | Zpos p -> pow_pos x p
  | Zneg _ -> Z0

  (** val compare : z -> z -> comparison **)

  let compare x y =
    match x with
    | Z0 -> (match y with
             | Z0 -> Eq
             | Zpos _ -> Lt
             | Zneg _ -> Gt)
    | Zpos x' -> (match y with
                  | Zpos y' -> Coq_Pos.compare x' y'
                  | _ -> Gt)
    | Zneg x' ->
      (match y with
       | Zneg y' -> compOpp (Coq_Pos.compare x' y')
       | _ -> Lt)

  (** val leb : z -> z -> bool **)

  let leb x y =
    match compare x y with
    | Gt -> false
    | _ -> true

  (** val ltb : z -> z -> bool **)

  let ltb x y =
    match compare x y with
    | Lt -> true
    | _ -> false

  (** val eqb : z -> z -> bool **)

  let eqb x y =
    match x with
    | Z0 -> (match y with
             | Z0 -> true
             | _ -> false)
    | Zpos p -> (match y with
                 | Zpos q1 -> Coq_Pos.eqb p q1
                 | _ -> false)
    | Zneg p -> (match y with
                 | Zneg q1 -> Coq_Pos.eqb p q1
                 | _ -> false)

  (** val to_nat : z -> nat **)

  let to_nat = function
  | Zpos p -> Coq_Pos.to_nat p
  | _ -> O

  (** val to_N : z -> n **)

  let to_N = function
  | Zpos p -> Npos p
  | _ -> N0

  (** val of_nat : nat -> z **)

  let of_nat = function
  | O -> Z0
  | S n1 -> Zpos (Coq_Pos.of_succ_nat n1)

  (** val of_N : n -> z **)

  let of_N = function
  | N0 -> Z0
  | Npos p -> Zpos p

  (** val pos_div_eucl : positive -> z -> z * z **)

  let rec pos_div_eucl a b =
    match a with
    | XI a' ->
      let (q1, r) = pos_div_eucl a' b in
      let r' = add (mul (Zpos (XO XH)) r) (Zpos XH) in
      if ltb r' b
      then ((mul (Zpos (XO XH)) q1), r')
      else ((add (mul (Zpos (XO XH)) q1) (Zpos XH)), (sub r' b))
    | XO a' ->
      let (q1, r) = pos_div_eucl a' b in
      let r' = mul (Zpos (XO XH)) r in
      if ltb r' b
      then ((mul (Zpos (XO XH)) q1), r')
      else ((add (mul (Zpos (XO XH)) q1) (Zpos XH)), (sub r' b))
    | XH -> if leb (Zpos (XO XH)) b then (Z0, (Zpos XH)) else ((Zpos XH), Z0)

  (** val div_eucl : z -> z -> z * z **)

  let div_eucl a b =
    match a with
    | Z0 -> (Z0, Z0)
    | Zpos a' ->
      (match b with
       | Z0 -> (Z0, a)
       | Zpos _ -> pos_div_eucl a' b
       | Zneg b' ->
         let (q1, r) = pos_div_eucl a' (Zpos b') in
         (match r with
          | Z0 -> ((opp q1), Z0)
          | _ -> ((opp (add q1 (Zpos XH))), (add b r))))
    | Zneg a' ->
      (match b with
       | Z0 -> (Z0, a)
       | Zpos _ ->
         let (q1, r) = pos_div_eucl a' b in
         (match r with
          | Z0 -> ((opp q1), Z0)
          | _ -> ((opp (add q1 (Zpos XH))), (sub b r)))
       | Zneg b' -> let (q1, r) = pos_div_eucl a' (Zpos b') in (q1, (opp r)))

  (** val modulo : z -> z -> z **)

  let modulo a b =
    let (_, r) = div_eucl a b in r
 end

(** val pANIC : z **)

let pANIC =
  Zneg (XI (XO (XO (XO (XO (XO (XI (XO (XO (XI (XO (XO (XO (XO (XI (XO (XI
    (XI (XI XH)))))))))))))))))))

(** val bADCASE : z **)

let bADCASE =
  Zneg (XI (XI (XO (XO (XO (XO (XI (XO (XO (XI (XO (XO (XO (XO (XI (XO (XI
    (XI (XI XH)))))))))))))))))))

(** val zb : bool -> z **)

let zb = function
| true -> Zpos XH
| false -> Z0

(** val bz : z -> bool **)

let bz z0 =
  negb (Z.eqb z0 Z0)

(** val put_list : z list -> z list **)

let put_list l =
  (Z.of_nat (length l)) :: l

(** val get_list : z list -> z list * z list **)

let get_list = function
| [] -> ([], [])
| n0 :: t -> ((firstn (Z.to_nat n0) t), (skipn (Z.to_nat n0) t))

(** val get_lists : nat -> z list -> z list list * z list **)

let rec get_lists n0 l =
  match n0 with
  | O -> ([], l)
  | S k ->
    let (a, r) = get_list l in let (b, r') = get_lists k r in ((a :: b), r')

(** val of_Ns : n list -> z list **)

let of_Ns l =
  map Z.of_N l

(** val list_eqb : z list -> z list -> bool **)

let rec list_eqb a b =
  match a with
  | [] -> (match b with
           | [] -> true
           | _ :: _ -> false)
  | x :: a' ->
    (match b with
     | [] -> false
     | y :: b' -> (&&) (Z.eqb x y) (list_eqb a' b'))

(** val m32 : z **)

let m32 =
  Z.pow (Zpos (XO XH)) (Zpos (XO (XO (XO (XO (XO XH))))))

(** val u32 : z -> z **)

let u32 x =
  Z.modulo x m32

(** val upd : 'a1 list -> nat -> 'a1 -> 'a1 list **)

let rec upd l i x =
  match l with
  | [] -> []
  | h :: t -> (match i with
               | O -> x :: t
               | S j -> h :: (upd t j x))

type phase =
| Free of z
| PushOwned of z
| Published of z
| PopOwned of z

type lin_ev =
| LPush of z
| LPop of z

type shared = { slots : (z option * z) list; hd : z; tl0 : z; cap : z;
                q : z list; ph : phase list; lin : lin_ev list }

type pc =
| Idle
| PuLoadTail of z
| PuLoadSeq of z * z * z
| PuCas of z * z * z * z
| PuWrite of z * z * z * z
| PuPublish of z * z * z * z
| PoLoadHead
| PoLoadSeq of z * z
| PoCas of z * z * z
| PoRead of z * z * z * z
| PoClear of z * z * z * z * z option
| PoRelease of z * z * z * z * z option

type op =
| OpPush of z
| OpPop

type res =
| RPush of bool
| RPop of z option * z option

(** val sidx : shared -> z -> nat **)

let sidx s pos =
  Z.to_nat (Z.modulo pos s.cap)

(** val set_slot : shared -> nat -> (z option * z) -> phase -> shared **)

let set_slot s i x f =
  { slots = (upd s.slots i x); hd = s.hd; tl0 = s.tl0; cap = s.cap; q = s.q;
    ph = (upd s.ph i f); lin = s.lin }

(** val tstep : shared -> pc -> op -> ((shared * pc) * res option) option **)

let tstep s p o =
  match p with
  | Idle ->
    (match o with
     | OpPush v -> Some ((s, (PuLoadTail v)), None)
     | OpPop -> Some ((s, PoLoadHead), None))
  | PuLoadTail v -> Some ((s, (PuLoadSeq (v, (u32 s.tl0), s.tl0))), None)
  | PuLoadSeq (v, pos, t0) ->
    (match nth_error s.slots (sidx s pos) with
     | Some p0 ->
       let (_, seq0) = p0 in
       if Z.eqb pos seq0
       then Some ((s, (PuCas (v, pos, seq0, t0))), None)
       else Some ((s, Idle), (Some (RPush false)))
     | None -> None)
  | PuCas (v, pos, seq0, _) ->
    if Z.eqb (u32 s.tl0) pos
    then Some (({ slots = s.slots; hd = s.hd; tl0 = (Z.add s.tl0 (Zpos XH));
           cap = s.cap; q = (app s.q (v :: [])); ph =
           (upd s.ph (sidx s pos) (PushOwned s.tl0)); lin =
           (app s.lin ((LPush v) :: [])) }, (PuWrite (v, pos, seq0, s.tl0))),
           None)
    else Some ((s, Idle), (Some (RPush false)))
  | PuWrite (v, pos, seq0, t0) ->
    (match nth_error s.slots (sidx s pos) with
     | Some p0 ->
       let (_, sq) = p0 in
       Some (((set_slot s (sidx s pos) ((Some v), sq) (PushOwned t0)),
       (PuPublish (v, pos, seq0, t0))), None)
     | None -> None)
  | PuPublish (_, pos, seq0, t0) ->
    (match nth_error s.slots (sidx s pos) with
     | Some p0 ->
       let (x, _) = p0 in
       Some
       (((set_slot s (sidx s pos) (x, (u32 (Z.add seq0 (Zpos XH))))
           (Published t0)), Idle), (Some (RPush true)))
     | None -> None)
  | PoLoadHead -> Some ((s, (PoLoadSeq ((u32 s.hd), s.hd))), None)
  | PoLoadSeq (pos, h0) ->
    (match nth_error s.slots (sidx s pos) with
     | Some p0 ->
       let (_, seq0) = p0 in
       if Z.eqb (u32 (Z.add pos (Zpos XH))) seq0
       then Some ((s, (PoCas (pos, seq0, h0))), None)
       else Some ((s, Idle), (Some (RPop (None, None))))
     | None -> None)
  | PoCas (pos, seq0, _) ->
    if Z.eqb (u32 s.hd) pos
    then Some (({ slots = s.slots; hd = (Z.add s.hd (Zpos XH)); tl0 = s.tl0;
           cap = s.cap; q = (tl s.q); ph =
           (upd s.ph (sidx s pos) (PopOwned s.hd)); lin =
           (app s.lin ((LPop (nth O s.q Z0)) :: [])) }, (PoRead (pos, seq0,
           s.hd, (nth O s.q Z0)))), None)
    else Some ((s, Idle), (Some (RPop (None, None))))
  | PoRead (pos, seq0, h0, gv) ->
    (match nth_error s.slots (sidx s pos) with
     | Some p0 ->
       let (x, _) = p0 in Some ((s, (PoClear (pos, seq0, h0, gv, x))), None)
     | None -> None)
  | PoClear (pos, seq0, h0, gv, val0) ->
    (match nth_error s.slots (sidx s pos) with
     | Some p0 ->
       let (_, sq) = p0 in
       Some (((set_slot s (sidx s pos) (None, sq) (PopOwned h0)), (PoRelease
       (pos, seq0, h0, gv, val0))), None)
     | None -> None)
  | PoRelease (pos, seq0, h0, gv, val0) ->
    (match nth_error s.slots (sidx s pos) with
     | Some p0 ->
       let (x, _) = p0 in
       Some
       (((set_slot s (sidx s pos) (x,
           (u32 (Z.add seq0 (Z.sub s.cap (Zpos XH))))) (Free
           (Z.add h0 s.cap))), Idle), (Some (RPop (val0, (Some gv)))))
     | None -> None)

type config = { sh : shared; ths : pc list; hist : (nat * res) list }

(** val step : config -> (nat * op) -> config option **)

let step c = function
| (i, o) ->
  (match nth_error c.ths i with
   | Some p ->
     (match tstep c.sh p o with
      | Some p0 ->
        let (p1, r) = p0 in
        let (s', p') = p1 in
        Some { sh = s'; ths = (upd c.ths i p'); hist =
        (match r with
         | Some x -> app c.hist ((i, x) :: [])
         | None -> c.hist) }
      | None -> None)
   | None -> Some c)

type oprec = { o_push : bool; o_val : z; o_lp : bool; o_got : z;
               o_excuse : bool }

type tstate = { t_next : nat; t_cur : oprec option; t_done : oprec list }

type jstate = { j_q : z list; j_ths : tstate list; j_ok : bool }

(** val updn : 'a1 list -> nat -> 'a1 -> 'a1 list **)

let rec updn l i x =
  match l with
  | [] -> []
  | h :: t -> (match i with
               | O -> x :: t
               | S j -> h :: (updn t j x))

(** val set_excuse : oprec -> oprec **)

let set_excuse r =
  { o_push = r.o_push; o_val = r.o_val; o_lp = r.o_lp; o_got = r.o_got;
    o_excuse = true }

(** val boundary_now : z -> z list -> oprec -> bool **)

let boundary_now cap1 q1 r =
  if r.o_push
  then Z.leb cap1 (Z.of_nat (length q1))
  else (match q1 with
        | [] -> true
        | _ :: _ -> false)

(** val look : z -> z list -> tstate -> tstate **)

let look cap1 q1 t =
  match t.t_cur with
  | Some r ->
    if boundary_now cap1 q1 r
    then { t_next = t.t_next; t_cur = (Some (set_excuse r)); t_done =
           t.t_done }
    else t
  | None -> t

(** val in_flight : tstate -> bool **)

let in_flight t =
  match t.t_cur with
  | Some _ -> true
  | None -> false

(** val excuse_all : tstate -> tstate **)

let excuse_all t =
  match t.t_cur with
  | Some r ->
    { t_next = t.t_next; t_cur = (Some (set_excuse r)); t_done = t.t_done }
  | None -> t

(** val finish : tstate -> tstate **)

let finish t =
  match t.t_cur with
  | Some r -> { t_next = t.t_next; t_cur = None; t_done = (r :: t.t_done) }
  | None -> t

(** val j_start : z -> z list list -> jstate -> nat -> jstate **)

let j_start cap1 progs s i =
  match nth_error s.j_ths i with
  | Some t0 ->
    let t = finish t0 in
    (match nth_error (nth i progs []) t.t_next with
     | Some o ->
       let others = existsb in_flight (updn s.j_ths i t) in
       let r = { o_push = (negb (Z.eqb o Z0)); o_val = o; o_lp = false;
         o_got = Z0; o_excuse = others }
       in
       let t' = { t_next = (S t.t_next); t_cur = (Some r); t_done = t.t_done }
       in
       let ths1 = updn s.j_ths i t' in
       let ths2 = if others then map excuse_all ths1 else ths1 in
       { j_q = s.j_q; j_ths = (map (look cap1 s.j_q) ths2); j_ok = s.j_ok }
     | None -> { j_q = s.j_q; j_ths = (updn s.j_ths i t); j_ok = false })
  | None -> { j_q = s.j_q; j_ths = s.j_ths; j_ok = false }

(** val j_lp : z -> jstate -> nat -> bool -> jstate **)

let j_lp cap1 s i push =
  match nth_error s.j_ths i with
  | Some t ->
    (match t.t_cur with
     | Some r ->
       if (||) (negb (eqb r.o_push push)) r.o_lp
       then { j_q = s.j_q; j_ths = s.j_ths; j_ok = false }
       else if push
            then let ok = Z.ltb (Z.of_nat (length s.j_q)) cap1 in
                 let q' = app s.j_q (r.o_val :: []) in
                 let r' = { o_push = true; o_val = r.o_val; o_lp = true;
                   o_got = Z0; o_excuse = r.o_excuse }
                 in
                 { j_q = q'; j_ths =
                 (map (look cap1 q')
                   (updn s.j_ths i { t_next = t.t_next; t_cur = (Some r');
                     t_done = t.t_done })); j_ok = ((&&) s.j_ok ok) }
            else (match s.j_q with
                  | [] -> { j_q = []; j_ths = s.j_ths; j_ok = false }
                  | x :: q' ->
                    let r' = { o_push = false; o_val = Z0; o_lp = true;
                      o_got = x; o_excuse = r.o_excuse }
                    in
                    { j_q = q'; j_ths =
                    (map (look cap1 q')
                      (updn s.j_ths i { t_next = t.t_next; t_cur = (Some r');
                        t_done = t.t_done })); j_ok = s.j_ok })
     | None -> { j_q = s.j_q; j_ths = s.j_ths; j_ok = false })
  | None -> { j_q = s.j_q; j_ths = s.j_ths; j_ok = false }

(** val check_results : oprec list -> z list -> bool **)

let rec check_results recs res1 =
  match recs with
  | [] -> (match res1 with
           | [] -> true
           | _ :: _ -> false)
  | r :: recs' ->
    (match res1 with
     | [] -> false
     | z0 :: l ->
       (match z0 with
        | Zpos p ->
          (match p with
           | XI _ -> false
           | XO p0 ->
             (match p0 with
              | XH ->
                (match l with
                 | [] -> false
                 | ok :: l0 ->
                   (match l0 with
                    | [] -> false
                    | v :: res' ->
                      (&&)
                        ((&&)
                          ((&&) (negb r.o_push)
                            (eqb (negb (Z.eqb ok Z0)) r.o_lp))
                          (if r.o_lp
                           then Z.eqb v r.o_got
                           else (&&) (Z.eqb v Z0) r.o_excuse))
                        (check_results recs' res')))
              | _ -> false)
           | XH ->
             (match l with
              | [] -> false
              | b :: res' ->
                (&&)
                  ((&&) ((&&) r.o_push (eqb (negb (Z.eqb b Z0)) r.o_lp))
                    ((||) r.o_lp r.o_excuse)) (check_results recs' res')))
        | _ -> false))

(** val evLoadU32 : z **)

let evLoadU32 =
  Zpos XH

(** val evStoreU32 : z **)

let evStoreU32 =
  Zpos (XO XH)

(** val evCasU32 : z **)

let evCasU32 =
  Zpos (XI XH)

(** val locHead : z **)

let locHead =
  Z0

(** val locTail : z **)

let locTail =
  Zpos XH

(** val loc_slot : shared -> z -> z **)

let loc_slot s pos =
  Z.add (Zpos (XO XH)) (Z.of_nat (sidx s pos))

(** val slot_seq : shared -> z -> z **)

let slot_seq s pos =
  match nth_error s.slots (sidx s pos) with
  | Some p -> let (_, sq) = p in sq
  | None -> Zneg XH

(** val observe : shared -> pc -> z list **)

let observe s = function
| Idle -> Z0 :: []
| PuLoadTail _ ->
  (Zpos XH) :: (evLoadU32 :: (locTail :: (Z0 :: (Z0 :: ((u32 s.tl0) :: [])))))
| PuLoadSeq (_, pos, _) ->
  (Zpos
    XH) :: (evLoadU32 :: ((loc_slot s pos) :: (Z0 :: (Z0 :: ((slot_seq s pos) :: [])))))
| PuCas (_, pos, _, _) ->
  (Zpos
    XH) :: (evCasU32 :: (locTail :: (pos :: ((u32 (Z.add pos (Zpos XH))) :: (
    (zb (Z.eqb (u32 s.tl0) pos)) :: [])))))
| PuPublish (_, pos, seq0, _) ->
  (Zpos
    XH) :: (evStoreU32 :: ((loc_slot s pos) :: ((u32 (Z.add seq0 (Zpos XH))) :: (Z0 :: (Z0 :: [])))))
| PoLoadHead ->
  (Zpos XH) :: (evLoadU32 :: (locHead :: (Z0 :: (Z0 :: ((u32 s.hd) :: [])))))
| PoLoadSeq (pos, _) ->
  (Zpos
    XH) :: (evLoadU32 :: ((loc_slot s pos) :: (Z0 :: (Z0 :: ((slot_seq s pos) :: [])))))
| PoCas (pos, _, _) ->
  (Zpos
    XH) :: (evCasU32 :: (locHead :: (pos :: ((u32 (Z.add pos (Zpos XH))) :: (
    (zb (Z.eqb (u32 s.hd) pos)) :: [])))))
| PoRelease (pos, seq0, _, _, _) ->
  (Zpos
    XH) :: (evStoreU32 :: ((loc_slot s pos) :: ((u32
                                                  (Z.add seq0
                                                    (Z.sub s.cap (Zpos XH)))) :: (Z0 :: (Z0 :: [])))))
| _ -> (Zpos (XO XH)) :: []

(** val dec_op : z -> op **)

let dec_op z0 =
  if Z.eqb z0 Z0 then OpPop else OpPush z0

(** val updl : 'a1 list -> nat -> 'a1 -> 'a1 list **)

let rec updl l i x =
  match l with
  | [] -> []
  | h :: t -> (match i with
               | O -> x :: t
               | S j -> h :: (updl t j x))

(** val all_free : shared -> bool **)

let all_free s =
  forallb (fun f -> match f with
                    | Free _ -> true
                    | _ -> false) s.ph

(** val warp : config -> z -> config **)

let warp c n0 =
  let s = c.sh in
  (match s.q with
   | [] ->
     if all_free s
     then let h' = Z.add s.hd n0 in
          let p = fun i -> Z.add h' (Z.modulo (Z.sub i h') s.cap) in
          let idx = map Z.of_nat (seq O (length s.slots)) in
          { sh = { slots = (map (fun i -> (None, (u32 (p i)))) idx); hd = h';
          tl0 = (Z.add s.tl0 n0); cap = s.cap; q = []; ph =
          (map (fun i -> Free (p i)) idx); lin = s.lin }; ths = c.ths; hist =
          c.hist }
     else c
   | _ :: _ -> c)

(** val go :
    config -> z list list -> z list -> z list -> (config * z list) option **)

let rec go c progs sched acc =
  match sched with
  | [] -> Some (c, acc)
  | t :: rest ->
    if Z.ltb t Z0
    then go
           (warp c
             (Z.add (Z.pow (Zpos (XO XH)) (Zpos (XO (XO (XO (XO (XO XH)))))))
               t)) progs rest (t :: acc)
    else let i = Z.to_nat t in
         (match nth_error c.ths i with
          | Some p ->
            let prog = nth i progs [] in
            (match p with
             | Idle ->
               (match prog with
                | [] -> go c progs rest acc
                | _ :: _ ->
                  let o = match prog with
                          | [] -> OpPop
                          | x :: _ -> dec_op x in
                  let progs' =
                    match p with
                    | Idle -> updl progs i (tl prog)
                    | _ -> progs
                  in
                  let ev = observe c.sh p in
                  (match step c (i, o) with
                   | Some c' -> go c' progs' rest (rev_append (t :: ev) acc)
                   | None -> None))
             | _ ->
               let o = match prog with
                       | [] -> OpPop
                       | x :: _ -> dec_op x in
               let progs' =
                 match p with
                 | Idle -> updl progs i (tl prog)
                 | _ -> progs
               in
               let ev = observe c.sh p in
               (match step c (i, o) with
                | Some c' -> go c' progs' rest (rev_append (t :: ev) acc)
                | None -> None))
          | None -> go c progs rest acc)

(** val fill_val : z -> z **)

let fill_val j =
  Z.add (Zpos (XI (XO (XO (XI (XO (XI (XO (XO (XI (XI (XO (XO (XO
    XH)))))))))))))) j

(** val seq_state : z -> z -> z -> nat -> config **)

let seq_state k base fill n0 =
  let c = Z.pow (Zpos (XO XH)) k in
  let slot = fun i ->
    let p = Z.add base (Z.modulo (Z.sub i base) c) in
    if Z.ltb p (Z.add base fill)
    then (((Some (fill_val (Z.sub p base))), (u32 (Z.add p (Zpos XH)))),
           (Published p))
    else ((None, (u32 p)), (Free p))
  in
  let idx = map Z.of_nat (seq O (Z.to_nat c)) in
  let vs = map fill_val (map Z.of_nat (seq O (Z.to_nat fill))) in
  { sh = { slots = (map (fun i -> fst (slot i)) idx); hd = base; tl0 =
  (Z.add base fill); cap = c; q = vs; ph = (map (fun i -> snd (slot i)) idx);
  lin = (map (fun x -> LPush x) vs) }; ths = (repeat Idle n0); hist = [] }

(** val enc_res : res -> z list **)

let enc_res = function
| RPush b -> (Zpos XH) :: ((zb b) :: [])
| RPop (o, _) ->
  (match o with
   | Some v -> (Zpos (XO XH)) :: ((Zpos XH) :: (v :: []))
   | None -> (Zpos (XO XH)) :: (Z0 :: (Z0 :: [])))

(** val results_of : (nat * res) list -> nat -> z list **)

let results_of h i =
  flat_map (fun e -> if Nat.eqb (fst e) i then enc_res (snd e) else []) h

(** val enc_slot : (z option * z) -> z list **)

let enc_slot x =
  (match fst x with
   | Some v -> v
   | None -> Z0) :: ((snd x) :: [])

(** val completion : nat -> z list list -> z list **)

let completion n0 progs =
  let total = fold_left (fun a p -> add a (length p)) progs O in
  concat
    (repeat (map Z.of_nat (seq O n0))
      (add
        (mul (S (S (S (S (S (S (S (S (S (S (S (S (S (S (S (S (S (S (S (S (S
          (S (S (S (S (S (S (S (S (S (S (S (S (S (S (S (S (S (S (S
          O)))))))))))))))))))))))))))))))))))))))) total) (S (S (S (S (S (S
        (S (S (S (S (S (S (S (S (S (S (S (S (S (S (S (S (S (S (S (S (S (S (S
        (S (S (S (S (S (S (S (S (S (S (S
        O))))))))))))))))))))))))))))))))))))))))))

(** val run_case : z list -> z list **)

let run_case = function
| [] -> bADCASE :: []
| k :: l ->
  (match l with
   | [] -> bADCASE :: []
   | bh :: l0 ->
     (match l0 with
      | [] -> bADCASE :: []
      | bl :: l1 ->
        (match l1 with
         | [] -> bADCASE :: []
         | fill :: l2 ->
           (match l2 with
            | [] -> bADCASE :: []
            | nt :: r ->
              let n0 = Z.to_nat nt in
              let (progs, r1) = get_lists n0 r in
              let (sched, _) = get_list r1 in
              let c0 =
                seq_state k
                  (Z.add
                    (Z.mul bh
                      (Z.pow (Zpos (XO XH)) (Zpos (XO (XO (XO (XO (XO
                        XH)))))))) bl) fill n0
              in
              (match go c0 progs (app sched (completion n0 progs)) [] with
               | Some p ->
                 let (c, acc) = p in
                 app (rev' acc)
                   (app ((Zneg XH) :: [])
                     (app
                       (flat_map (fun i -> put_list (results_of c.hist i))
                         (seq O n0))
                       (app ((Zneg (XO
                         XH)) :: ((u32 c.sh.hd) :: ((u32 c.sh.tl0) :: [])))
                         (flat_map enc_slot c.sh.slots))))
               | None -> pANIC :: [])))))

(** val entry0 : z -> z list -> z list **)

let entry0 sub0 args =
  if Z.eqb sub0 Z0 then run_case args else bADCASE :: []

(** val judge_steps :
    nat -> z -> z list list -> jstate -> z list -> jstate * z list **)

let rec judge_steps fuel cap1 progs s l =
  match fuel with
  | O -> ({ j_q = s.j_q; j_ths = s.j_ths; j_ok = false }, l)
  | S f ->
    (match l with
     | [] -> ({ j_q = s.j_q; j_ths = s.j_ths; j_ok = false }, [])
     | x :: r ->
       if Z.eqb x (Zneg XH)
       then (s, r)
       else if Z.ltb x (Zneg XH)
            then judge_steps f cap1 progs s r
            else (match r with
                  | [] -> ({ j_q = s.j_q; j_ths = s.j_ths; j_ok = false }, [])
                  | z0 :: r' ->
                    (match z0 with
                     | Z0 ->
                       judge_steps f cap1 progs
                         (j_start cap1 progs s (Z.to_nat x)) r'
                     | Zpos p ->
                       (match p with
                        | XI _ ->
                          ({ j_q = s.j_q; j_ths = s.j_ths; j_ok = false }, [])
                        | XO p0 ->
                          (match p0 with
                           | XH -> judge_steps f cap1 progs s r'
                           | _ ->
                             ({ j_q = s.j_q; j_ths = s.j_ths; j_ok = false },
                               []))
                        | XH ->
                          (match r' with
                           | [] ->
                             ({ j_q = s.j_q; j_ths = s.j_ths; j_ok = false },
                               [])
                           | ek :: l0 ->
                             (match l0 with
                              | [] ->
                                ({ j_q = s.j_q; j_ths = s.j_ths; j_ok =
                                  false }, [])
                              | loc :: l1 ->
                                (match l1 with
                                 | [] ->
                                   ({ j_q = s.j_q; j_ths = s.j_ths; j_ok =
                                     false }, [])
                                 | _ :: l2 ->
                                   (match l2 with
                                    | [] ->
                                      ({ j_q = s.j_q; j_ths = s.j_ths; j_ok =
                                        false }, [])
                                    | _ :: l3 ->
                                      (match l3 with
                                       | [] ->
                                         ({ j_q = s.j_q; j_ths = s.j_ths;
                                           j_ok = false }, [])
                                       | res1 :: r'0 ->
                                         let s1 = { j_q = s.j_q; j_ths =
                                           (map (look cap1 s.j_q) s.j_ths);
                                           j_ok = s.j_ok }
                                         in
                                         if (&&)
                                              ((&&) (Z.eqb ek evCasU32)
                                                (Z.eqb res1 (Zpos XH)))
                                              (Z.eqb loc locTail)
                                         then judge_steps f cap1 progs
                                                (j_lp cap1 s1 (Z.to_nat x)
                                                  true) r'0
                                         else if (&&)
                                                   ((&&) (Z.eqb ek evCasU32)
                                                     (Z.eqb res1 (Zpos XH)))
                                                   (Z.eqb loc locHead)
                                              then judge_steps f cap1 progs
                                                     (j_lp cap1 s1
                                                       (Z.to_nat x) false) r'0
                                              else judge_steps f cap1 progs
                                                     s1 r'0))))))
                     | Zneg _ ->
                       ({ j_q = s.j_q; j_ths = s.j_ths; j_ok = false }, []))))

(** val check_threads : tstate list -> z list -> bool * z list **)

let rec check_threads ths1 l =
  match ths1 with
  | [] -> (true, l)
  | t :: rest ->
    let (res1, l') = get_list l in
    let ok = check_results (rev (finish t).t_done) res1 in
    let (ok', l'') = check_threads rest l' in (((&&) ok ok'), l'')

(** val slot_vals : z list -> z list **)

let rec slot_vals = function
| [] -> []
| v :: l0 -> (match l0 with
              | [] -> []
              | _ :: r -> v :: (slot_vals r))

(** val check_final : z -> z list -> z list -> bool **)

let check_final cap1 q1 = function
| [] -> false
| m :: l0 ->
  (match l0 with
   | [] -> false
   | h :: l1 ->
     (match l1 with
      | [] -> false
      | t :: slots0 ->
        let vs = slot_vals slots0 in
        (&&)
          ((&&) (Z.eqb m (Zneg (XO XH)))
            (Z.eqb (u32 (Z.sub t h)) (Z.of_nat (length q1))))
          (list_eqb
            (map (fun j ->
              nth (Z.to_nat (Z.modulo (Z.add h (Z.of_nat j)) cap1)) vs (Zneg
                XH)) (seq O (length q1))) q1)))

(** val judge : z list -> z list **)

let judge args =
  let (cs, r0) = get_list args in
  let (out, _) = get_list r0 in
  (match cs with
   | [] -> Z0 :: []
   | k :: l ->
     (match l with
      | [] -> Z0 :: []
      | _ :: l0 ->
        (match l0 with
         | [] -> Z0 :: []
         | _ :: l1 ->
           (match l1 with
            | [] -> Z0 :: []
            | fill :: l2 ->
              (match l2 with
               | [] -> Z0 :: []
               | nt :: r ->
                 let n0 = Z.to_nat nt in
                 let (progs, _) = get_lists n0 r in
                 let cap1 = Z.pow (Zpos (XO XH)) k in
                 let q1 = map fill_val (map Z.of_nat (seq O (Z.to_nat fill)))
                 in
                 let s0 = { j_q = q1; j_ths =
                   (repeat { t_next = O; t_cur = None; t_done = [] } n0);
                   j_ok = true }
                 in
                 let (s, rest) =
                   judge_steps (add (length out) (S O)) cap1 progs s0 out
                 in
                 let (okr, rest') = check_threads s.j_ths rest in
                 (zb ((&&) ((&&) s.j_ok okr) (check_final cap1 s.j_q rest'))) :: [])))))

(** val entry : z -> z list -> z list **)

let entry sub0 args =
  if Z.eqb sub0 (Zpos (XO XH)) then judge args else entry0 sub0 args

type lin_ev0 =
| LPush0 of z
| LPop0 of z
| LEmpty

type shared0 = { vals : z option list; head : nat; tail : nat; len : 
                 z; q0 : z list; lin0 : lin_ev0 list }

type pc0 =
| Idle0
| PushLoadTail of z
| PushLoadNext of z * nat
| PushCas of z * nat * nat option
| PushAdd of nat * z
| PushStoreTail of nat * z
| PushYield of z
| PopLoadHead
| PopLoadTail of nat
| PopLoadNext of nat
| PopCas of nat * nat option
| PopRead of nat * z
| PopClear of nat * z * z option
| PopDec of nat * z * z option
| LenLoad

type op0 =
| OpPush0 of z
| OpPop0
| OpLen

type res0 =
| RPush0
| RPop0 of z option * z
| RPopEmpty
| RPopBusy
| RLen of z * z

(** val next_of : shared0 -> nat -> nat option **)

let next_of s i =
  if Nat.ltb (S i) (length s.vals) then Some (S i) else None

(** val upd0 : 'a1 list -> nat -> 'a1 -> 'a1 list **)

let rec upd0 l i x =
  match l with
  | [] -> []
  | h :: t -> (match i with
               | O -> x :: t
               | S j -> h :: (upd0 t j x))

(** val tstep0 : shared0 -> pc0 -> op0 -> (shared0 * pc0) * res0 option **)

let tstep0 s p o =
  match p with
  | Idle0 ->
    (match o with
     | OpPush0 v -> ((s, (PushLoadTail v)), None)
     | OpPop0 -> ((s, PopLoadHead), None)
     | OpLen -> ((s, LenLoad), None))
  | PushLoadTail v -> ((s, (PushLoadNext (v, s.tail))), None)
  | PushLoadNext (v, t) -> ((s, (PushCas (v, t, (next_of s t)))), None)
  | PushCas (v, t, nx) ->
    (match nx with
     | Some _ -> ((s, (PushYield v)), None)
     | None ->
       (match next_of s t with
        | Some _ -> ((s, (PushYield v)), None)
        | None ->
          (({ vals = (app s.vals ((Some v) :: [])); head = s.head; tail =
            s.tail; len = s.len; q0 = s.q0; lin0 = s.lin0 }, (PushAdd
            ((length s.vals), v))), None)))
  | PushAdd (n0, v) ->
    (({ vals = s.vals; head = s.head; tail = s.tail; len =
      (Z.add s.len (Zpos XH)); q0 = s.q0; lin0 = s.lin0 }, (PushStoreTail
      (n0, v))), None)
  | PushStoreTail (n0, v) ->
    (({ vals = s.vals; head = s.head; tail = n0; len = s.len; q0 =
      (app s.q0 (v :: [])); lin0 = (app s.lin0 ((LPush0 v) :: [])) }, Idle0),
      (Some RPush0))
  | PushYield v -> ((s, (PushLoadTail v)), None)
  | PopLoadHead -> ((s, (PopLoadTail s.head)), None)
  | PopLoadTail h ->
    if Nat.eqb h s.tail
    then (({ vals = s.vals; head = s.head; tail = s.tail; len = s.len; q0 =
           s.q0; lin0 = (app s.lin0 (LEmpty :: [])) }, Idle0), (Some
           RPopEmpty))
    else ((s, (PopLoadNext h)), None)
  | PopLoadNext h -> ((s, (PopCas (h, (next_of s h)))), None)
  | PopCas (h, nx) ->
    if Nat.eqb s.head h
    then (match nx with
          | Some n0 ->
            (({ vals = s.vals; head = n0; tail = s.tail; len = s.len; q0 =
              (tl s.q0); lin0 =
              (app s.lin0 ((LPop0 (nth O s.q0 Z0)) :: [])) }, (PopRead (n0,
              (nth O s.q0 Z0)))), None)
          | None -> ((s, Idle0), None))
    else ((s, Idle0), (Some RPopBusy))
  | PopRead (n0, gv) -> ((s, (PopClear (n0, gv, (nth n0 s.vals None)))), None)
  | PopClear (n0, gv, val0) ->
    (({ vals = (upd0 s.vals n0 None); head = s.head; tail = s.tail; len =
      s.len; q0 = s.q0; lin0 = s.lin0 }, (PopDec (n0, gv, val0))), None)
  | PopDec (_, gv, val0) ->
    (({ vals = s.vals; head = s.head; tail = s.tail; len =
      (Z.sub s.len (Zpos XH)); q0 = s.q0; lin0 = s.lin0 }, Idle0), (Some
      (RPop0 (val0, gv))))
  | LenLoad -> ((s, Idle0), (Some (RLen (s.len, (Z.of_nat (length s.q0))))))

type config0 = { sh0 : shared0; ths0 : pc0 list; hist0 : (nat * res0) list }

(** val step0 : config0 -> (nat * op0) -> config0 **)

let step0 c = function
| (i, o) ->
  (match nth_error c.ths0 i with
   | Some p ->
     let (p0, r) = tstep0 c.sh0 p o in
     let (s', p') = p0 in
     { sh0 = s'; ths0 = (upd0 c.ths0 i p'); hist0 =
     (match r with
      | Some x -> app c.hist0 ((i, x) :: [])
      | None -> c.hist0) }
   | None -> c)

(** val evLoadI64 : z **)

let evLoadI64 =
  Zpos (XI (XO XH))

(** val evAddI64 : z **)

let evAddI64 =
  Zpos (XO (XI XH))

(** val evLoadPtr : z **)

let evLoadPtr =
  Zpos (XI (XI XH))

(** val evStorePtr : z **)

let evStorePtr =
  Zpos (XO (XO (XO XH)))

(** val evCasPtr : z **)

let evCasPtr =
  Zpos (XI (XO (XO XH)))

(** val evGosched : z **)

let evGosched =
  Zpos (XO (XI (XO XH)))

(** val locLen : z **)

let locLen =
  Z0

(** val locHead0 : z **)

let locHead0 =
  Zpos XH

(** val locTail0 : z **)

let locTail0 =
  Zpos (XO XH)

(** val loc_next : nat -> z **)

let loc_next n0 =
  Z.add (Zpos (XO (XI (XO XH)))) (Z.of_nat n0)

(** val ptr : nat option -> z **)

let ptr = function
| Some n0 -> Z.of_nat n0
| None -> Zneg XH

(** val observe0 : shared0 -> pc0 -> z list **)

let observe0 s = function
| Idle0 -> Z0 :: []
| PushLoadTail _ ->
  (Zpos
    XH) :: (evLoadPtr :: (locTail0 :: (Z0 :: (Z0 :: ((Z.of_nat s.tail) :: [])))))
| PushLoadNext (_, t) ->
  (Zpos
    XH) :: (evLoadPtr :: ((loc_next t) :: (Z0 :: (Z0 :: ((ptr (next_of s t)) :: [])))))
| PushCas (_, t, nx) ->
  (match nx with
   | Some _ -> Z0 :: []
   | None ->
     (Zpos XH) :: (evCasPtr :: ((loc_next t) :: ((Zneg XH) :: ((Zneg (XI (XI
       XH))) :: ((zb (match next_of s t with
                      | Some _ -> false
                      | None -> true)) :: []))))))
| PushAdd (_, _) ->
  (Zpos XH) :: (evAddI64 :: (locLen :: ((Zpos
    XH) :: (Z0 :: ((Z.add s.len (Zpos XH)) :: [])))))
| PushStoreTail (n0, _) ->
  (Zpos
    XH) :: (evStorePtr :: (locTail0 :: ((Z.of_nat n0) :: (Z0 :: (Z0 :: [])))))
| PushYield _ ->
  (Zpos XH) :: (evGosched :: (Z0 :: (Z0 :: (Z0 :: (Z0 :: [])))))
| PopLoadHead ->
  (Zpos
    XH) :: (evLoadPtr :: (locHead0 :: (Z0 :: (Z0 :: ((Z.of_nat s.head) :: [])))))
| PopLoadTail _ ->
  (Zpos
    XH) :: (evLoadPtr :: (locTail0 :: (Z0 :: (Z0 :: ((Z.of_nat s.tail) :: [])))))
| PopLoadNext h ->
  (Zpos
    XH) :: (evLoadPtr :: ((loc_next h) :: (Z0 :: (Z0 :: ((ptr (next_of s h)) :: [])))))
| PopCas (h, nx) ->
  (Zpos
    XH) :: (evCasPtr :: (locHead0 :: ((Z.of_nat h) :: ((ptr nx) :: ((zb
                                                                    (Nat.eqb
                                                                    s.head h)) :: [])))))
| PopDec (_, _, _) ->
  (Zpos XH) :: (evAddI64 :: (locLen :: ((Zneg
    XH) :: (Z0 :: ((Z.sub s.len (Zpos XH)) :: [])))))
| LenLoad ->
  (Zpos XH) :: (evLoadI64 :: (locLen :: (Z0 :: (Z0 :: (s.len :: [])))))
| _ -> (Zpos (XO XH)) :: []

(** val dec_op0 : z -> op0 **)

let dec_op0 z0 =
  if Z.eqb z0 Z0 then OpPop0 else if Z.ltb z0 Z0 then OpLen else OpPush0 z0

(** val updl0 : 'a1 list -> nat -> 'a1 -> 'a1 list **)

let rec updl0 l i x =
  match l with
  | [] -> []
  | h :: t -> (match i with
               | O -> x :: t
               | S j -> h :: (updl0 t j x))

(** val go0 :
    config0 -> z list list -> z list -> z list -> config0 * z list **)

let rec go0 c progs sched acc =
  match sched with
  | [] -> (c, acc)
  | t :: rest ->
    let i = Z.to_nat t in
    (match nth_error c.ths0 i with
     | Some p ->
       let prog = nth i progs [] in
       (match p with
        | Idle0 ->
          (match prog with
           | [] -> go0 c progs rest acc
           | _ :: _ ->
             let o = match prog with
                     | [] -> OpPop0
                     | x :: _ -> dec_op0 x in
             let progs' =
               match p with
               | Idle0 -> updl0 progs i (tl prog)
               | _ -> progs
             in
             go0 (step0 c (i, o)) progs' rest
               (rev_append (t :: (observe0 c.sh0 p)) acc))
        | _ ->
          let o = match prog with
                  | [] -> OpPop0
                  | x :: _ -> dec_op0 x in
          let progs' =
            match p with
            | Idle0 -> updl0 progs i (tl prog)
            | _ -> progs
          in
          go0 (step0 c (i, o)) progs' rest
            (rev_append (t :: (observe0 c.sh0 p)) acc))
     | None -> go0 c progs rest acc)

(** val pre_val : nat -> z **)

let pre_val j =
  Z.add (Zpos (XI (XO (XO (XI (XO (XI (XO (XO (XI (XI (XO (XO (XO
    XH)))))))))))))) (Z.of_nat j)

(** val seq_state0 : nat -> nat -> config0 **)

let seq_state0 npre n0 =
  let vs = map pre_val (seq O npre) in
  { sh0 = { vals = (None :: (map (fun x -> Some x) vs)); head = O; tail =
  npre; len = (Z.of_nat npre); q0 = vs; lin0 =
  (map (fun x -> LPush0 x) vs) }; ths0 = (repeat Idle0 n0); hist0 = [] }

(** val enc_res0 : res0 -> z list **)

let enc_res0 = function
| RPush0 -> (Zpos XH) :: []
| RPop0 (o, _) ->
  (match o with
   | Some v -> (Zpos (XO XH)) :: ((Zpos XH) :: (v :: []))
   | None -> (Zpos (XO XH)) :: ((Zpos XH) :: (Z0 :: [])))
| RLen (z0, _) -> (Zpos (XI XH)) :: (z0 :: [])
| _ -> (Zpos (XO XH)) :: (Z0 :: (Z0 :: []))

(** val results_of0 : (nat * res0) list -> nat -> z list **)

let results_of0 h i =
  flat_map (fun e -> if Nat.eqb (fst e) i then enc_res0 (snd e) else []) h

(** val stored : shared0 -> z list **)

let stored s =
  map (fun o -> match o with
                | Some v -> v
                | None -> Z0)
    (firstn (sub s.tail s.head) (skipn (S s.head) s.vals))

(** val completion0 : nat -> z list list -> z list **)

let completion0 n0 progs =
  let total = fold_left (fun a p -> add a (length p)) progs O in
  concat
    (repeat (map Z.of_nat (seq O n0))
      (add
        (mul (S (S (S (S (S (S (S (S (S (S (S (S (S (S (S (S (S (S (S (S (S
          (S (S (S (S (S (S (S (S (S (S (S (S (S (S (S (S (S (S (S
          O)))))))))))))))))))))))))))))))))))))))) total) (S (S (S (S (S (S
        (S (S (S (S (S (S (S (S (S (S (S (S (S (S (S (S (S (S (S (S (S (S (S
        (S (S (S (S (S (S (S (S (S (S (S
        O))))))))))))))))))))))))))))))))))))))))))

(** val run_case0 : z list -> z list **)

let run_case0 = function
| [] -> bADCASE :: []
| npre :: l ->
  (match l with
   | [] -> bADCASE :: []
   | nt :: r ->
     let n0 = Z.to_nat nt in
     let (progs, r1) = get_lists n0 r in
     let (sched, _) = get_list r1 in
     let (c, acc) =
       go0 (seq_state0 (Z.to_nat npre) n0) progs
         (app sched (completion0 n0 progs)) []
     in
     app (rev' acc)
       (app ((Zneg XH) :: [])
         (app
           (flat_map (fun i -> put_list (results_of0 c.hist0 i)) (seq O n0))
           (app ((Zneg (XO XH)) :: (c.sh0.len :: []))
             (put_list (stored c.sh0))))))

type oprec0 = { o_kind : z; o_val0 : z; o_lp0 : bool; o_got0 : z;
                o_excuse0 : bool; o_lenmin : z }

type tstate0 = { t_next0 : nat; t_cur0 : oprec0 option;
                 t_done0 : oprec0 list; t_lasthead : z }

type jstate0 = { j_q0 : z list; j_ths0 : tstate0 list; j_ok0 : bool }

(** val bad : jstate0 -> jstate0 **)

let bad s =
  { j_q0 = s.j_q0; j_ths0 = s.j_ths0; j_ok0 = false }

(** val in_flight0 : tstate0 -> bool **)

let in_flight0 t =
  match t.t_cur0 with
  | Some _ -> true
  | None -> false

(** val with_cur : tstate0 -> oprec0 option -> tstate0 **)

let with_cur t r =
  { t_next0 = t.t_next0; t_cur0 = r; t_done0 = t.t_done0; t_lasthead =
    t.t_lasthead }

(** val excuse : oprec0 -> oprec0 **)

let excuse r =
  { o_kind = r.o_kind; o_val0 = r.o_val0; o_lp0 = r.o_lp0; o_got0 = r.o_got0;
    o_excuse0 = true; o_lenmin = r.o_lenmin }

(** val excuse_all0 : tstate0 -> tstate0 **)

let excuse_all0 t =
  match t.t_cur0 with
  | Some r -> with_cur t (Some (excuse r))
  | None -> t

(** val look0 : z list -> tstate0 -> tstate0 **)

let look0 q1 t =
  match t.t_cur0 with
  | Some r ->
    (match q1 with
     | [] ->
       if Z.eqb r.o_kind (Zpos (XO XH))
       then with_cur t (Some (excuse r))
       else t
     | _ :: _ -> t)
  | None -> t

(** val finish0 : tstate0 -> tstate0 **)

let finish0 t =
  match t.t_cur0 with
  | Some r ->
    { t_next0 = t.t_next0; t_cur0 = None; t_done0 = (r :: t.t_done0);
      t_lasthead = t.t_lasthead }
  | None -> t

(** val j_start0 : z list list -> jstate0 -> nat -> jstate0 **)

let j_start0 progs s i =
  match nth_error s.j_ths0 i with
  | Some t0 ->
    let t = finish0 t0 in
    (match nth_error (nth i progs []) t.t_next0 with
     | Some o ->
       let others = existsb in_flight0 (updl0 s.j_ths0 i t) in
       let r = { o_kind =
         (if Z.eqb o Z0
          then Zpos (XO XH)
          else if Z.ltb o Z0 then Zpos (XI XH) else Zpos XH); o_val0 = o;
         o_lp0 = false; o_got0 = Z0; o_excuse0 = others; o_lenmin = Z0 }
       in
       let t' = { t_next0 = (S t.t_next0); t_cur0 = (Some r); t_done0 =
         t.t_done0; t_lasthead = (Zneg XH) }
       in
       let ths1 = updl0 s.j_ths0 i t' in
       let ths2 = if others then map excuse_all0 ths1 else ths1 in
       { j_q0 = s.j_q0; j_ths0 = (map (look0 s.j_q0) ths2); j_ok0 = s.j_ok0 }
     | None -> bad s)
  | None -> bad s

(** val set_rec :
    jstate0 -> nat -> tstate0 -> oprec0 -> z list -> bool -> jstate0 **)

let set_rec s i t r q' ok =
  { j_q0 = q'; j_ths0 =
    (map (look0 q') (updl0 s.j_ths0 i (with_cur t (Some r)))); j_ok0 =
    ((&&) s.j_ok0 ok) }

(** val j_event : jstate0 -> nat -> z -> z -> z -> z -> z -> jstate0 **)

let j_event s i ek loc _ _ res1 =
  match nth_error s.j_ths0 i with
  | Some t ->
    (match t.t_cur0 with
     | Some r ->
       if (&&) (Z.eqb ek evStorePtr) (Z.eqb loc locTail0)
       then set_rec s i t { o_kind = r.o_kind; o_val0 = r.o_val0; o_lp0 =
              true; o_got0 = Z0; o_excuse0 = r.o_excuse0; o_lenmin = Z0 }
              (app s.j_q0 (r.o_val0 :: []))
              ((&&) (Z.eqb r.o_kind (Zpos XH)) (negb r.o_lp0))
       else if (&&) ((&&) (Z.eqb ek evCasPtr) (Z.eqb loc locHead0))
                 (Z.eqb res1 (Zpos XH))
            then (match s.j_q0 with
                  | [] -> bad s
                  | x :: q' ->
                    set_rec s i t { o_kind = r.o_kind; o_val0 = Z0; o_lp0 =
                      true; o_got0 = x; o_excuse0 = r.o_excuse0; o_lenmin =
                      Z0 } q'
                      ((&&) (Z.eqb r.o_kind (Zpos (XO XH))) (negb r.o_lp0)))
            else if (&&) (Z.eqb ek evLoadI64) (Z.eqb loc locLen)
                 then set_rec s i t { o_kind = r.o_kind; o_val0 = r.o_val0;
                        o_lp0 = true; o_got0 = res1; o_excuse0 = r.o_excuse0;
                        o_lenmin = (Z.of_nat (length s.j_q0)) } s.j_q0
                        (Z.eqb r.o_kind (Zpos (XI XH)))
                 else { j_q0 = s.j_q0; j_ths0 =
                        (map (look0 s.j_q0) s.j_ths0); j_ok0 = s.j_ok0 }
     | None -> bad s)
  | None -> bad s

(** val judge_steps0 :
    nat -> z list list -> jstate0 -> z list -> jstate0 * z list **)

let rec judge_steps0 fuel progs s l =
  match fuel with
  | O -> ((bad s), l)
  | S f ->
    (match l with
     | [] -> ((bad s), [])
     | x :: r ->
       if Z.eqb x (Zneg XH)
       then (s, r)
       else (match r with
             | [] -> ((bad s), [])
             | z0 :: r' ->
               (match z0 with
                | Z0 ->
                  let i = Z.to_nat x in
                  let starts =
                    match nth_error s.j_ths0 i with
                    | Some t ->
                      (match t.t_cur0 with
                       | Some rc ->
                         negb
                           ((&&) (Z.eqb rc.o_kind (Zpos XH)) (negb rc.o_lp0))
                       | None -> true)
                    | None -> true
                  in
                  judge_steps0 f progs
                    (if starts then j_start0 progs s i else s) r'
                | Zpos p ->
                  (match p with
                   | XI _ -> ((bad s), [])
                   | XO p0 ->
                     (match p0 with
                      | XH -> judge_steps0 f progs s r'
                      | _ -> ((bad s), []))
                   | XH ->
                     (match r' with
                      | [] -> ((bad s), [])
                      | ek :: l0 ->
                        (match l0 with
                         | [] -> ((bad s), [])
                         | loc :: l1 ->
                           (match l1 with
                            | [] -> ((bad s), [])
                            | a :: l2 ->
                              (match l2 with
                               | [] -> ((bad s), [])
                               | b :: l3 ->
                                 (match l3 with
                                  | [] -> ((bad s), [])
                                  | res1 :: r'0 ->
                                    judge_steps0 f progs
                                      (j_event s (Z.to_nat x) ek loc a b res1)
                                      r'0))))))
                | Zneg _ -> ((bad s), []))))

(** val check_results0 : oprec0 list -> z list -> bool **)

let rec check_results0 recs res1 =
  match recs with
  | [] -> (match res1 with
           | [] -> true
           | _ :: _ -> false)
  | r :: recs' ->
    (match res1 with
     | [] -> false
     | z0 :: res' ->
       (match z0 with
        | Zpos p ->
          (match p with
           | XI p0 ->
             (match p0 with
              | XH ->
                (match res' with
                 | [] -> false
                 | z1 :: res'0 ->
                   (&&)
                     ((&&)
                       ((&&)
                         ((&&) (Z.eqb r.o_kind (Zpos (XI XH)))
                           (Z.eqb z1 r.o_got0)) (Z.leb Z0 z1))
                       (Z.leb r.o_lenmin z1)) (check_results0 recs' res'0))
              | _ -> false)
           | XO p0 ->
             (match p0 with
              | XH ->
                (match res' with
                 | [] -> false
                 | ok :: l ->
                   (match l with
                    | [] -> false
                    | v :: res'0 ->
                      (&&)
                        ((&&)
                          ((&&) (Z.eqb r.o_kind (Zpos (XO XH)))
                            (eqb (negb (Z.eqb ok Z0)) r.o_lp0))
                          (if r.o_lp0
                           then Z.eqb v r.o_got0
                           else (&&) (Z.eqb v Z0) r.o_excuse0))
                        (check_results0 recs' res'0)))
              | _ -> false)
           | XH ->
             (&&) ((&&) (Z.eqb r.o_kind (Zpos XH)) r.o_lp0)
               (check_results0 recs' res'))
        | _ -> false))

(** val check_threads0 : tstate0 list -> z list -> bool * z list **)

let rec check_threads0 ths1 l =
  match ths1 with
  | [] -> (true, l)
  | t :: rest ->
    let (res1, l') = get_list l in
    let ok = check_results0 (rev (finish0 t).t_done0) res1 in
    let (ok', l'') = check_threads0 rest l' in (((&&) ok ok'), l'')

(** val judge0 : z list -> z list **)

let judge0 args =
  let (cs, r0) = get_list args in
  let (out, _) = get_list r0 in
  (match cs with
   | [] -> Z0 :: []
   | npre :: l ->
     (match l with
      | [] -> Z0 :: []
      | nt :: r ->
        let n0 = Z.to_nat nt in
        let (progs, _) = get_lists n0 r in
        let q1 = map pre_val (seq O (Z.to_nat npre)) in
        let s0 = { j_q0 = q1; j_ths0 =
          (repeat { t_next0 = O; t_cur0 = None; t_done0 = []; t_lasthead =
            (Zneg XH) } n0); j_ok0 = true }
        in
        let (s, rest) = judge_steps0 (add (length out) (S O)) progs s0 out in
        let (okr, rest') = check_threads0 s.j_ths0 rest in
        let fin =
          match rest' with
          | [] -> false
          | m :: l0 ->
            (match l0 with
             | [] -> false
             | ln :: st ->
               (&&)
                 ((&&) (Z.eqb m (Zneg (XO XH)))
                   (Z.eqb ln (Z.of_nat (length s.j_q0))))
                 (list_eqb (fst (get_list st)) s.j_q0))
        in
        (zb ((&&) ((&&) s.j_ok0 okr) fin)) :: []))

(** val entry1 : z -> z list -> z list **)

let entry1 sub0 args =
  if Z.eqb sub0 Z0
  then run_case0 args
  else if Z.eqb sub0 (Zpos (XO XH)) then judge0 args else bADCASE :: []

(** val upd1 : n list -> nat -> n -> n list **)

let rec upd1 l i x =
  match l with
  | [] -> []
  | h :: t -> (match i with
               | O -> x :: t
               | S j -> h :: (upd1 t j x))

(** val widx : n -> nat **)

let widx num =
  N.to_nat (N.shiftr num (Npos (XO (XI XH))))

(** val bidx : n -> n **)

let bidx num =
  N.coq_land num (Npos (XI (XI (XI (XI (XI XH))))))

(** val mask0 : n -> n **)

let mask0 b =
  N.shiftl (Npos XH) b

(** val contains : n list -> n -> bool **)

let contains set num =
  (&&) (Nat.ltb (widx num) (length set))
    (negb (N.eqb (N.coq_land (nth (widx num) set N0) (mask0 (bidx num))) N0))

(** val add0 : n list -> n -> n list * bool **)

let add0 set num =
  let i = widx num in
  if Nat.leb (length set) i
  then let grown = app set (repeat N0 (sub (add i (S O)) (length set))) in
       ((upd1 grown i (N.coq_lor (nth i grown N0) (mask0 (bidx num)))), true)
  else if N.eqb (N.coq_land (nth i set N0) (mask0 (bidx num))) N0
       then ((upd1 set i (N.coq_lor (nth i set N0) (mask0 (bidx num)))), true)
       else (set, false)

(** val remove : n list -> n -> n list * bool **)

let remove set num =
  let i = widx num in
  if (&&) (Nat.ltb i (length set))
       (negb (N.eqb (N.coq_land (nth i set N0) (mask0 (bidx num))) N0))
  then ((upd1 set i (N.ldiff (nth i set N0) (mask0 (bidx num)))), true)
  else (set, false)

type iter0 = { wi : nat; bj : n; rd : bool }

(** val bit_set : n list -> nat -> n -> bool **)

let bit_set set i j =
  negb (N.eqb (N.coq_land (nth i set N0) (N.shiftl (Npos XH) j)) N0)

(** val scan : nat -> n list -> nat -> n -> (nat * n) option **)

let rec scan fuel set i j =
  match fuel with
  | O -> None
  | S f ->
    if Nat.ltb i (length set)
    then if N.ltb j (Npos (XO (XO (XO (XO (XO (XO XH)))))))
         then if bit_set set i j
              then Some (i, j)
              else scan f set i (N.add j (Npos XH))
         else scan f set (S i) N0
    else None

(** val next : n list -> iter0 -> iter0 option **)

let next set it =
  let j0 = if it.rd then N.add it.bj (Npos XH) else it.bj in
  (match scan
           (add
             (mul (S (S (S (S (S (S (S (S (S (S (S (S (S (S (S (S (S (S (S (S
               (S (S (S (S (S (S (S (S (S (S (S (S (S (S (S (S (S (S (S (S (S
               (S (S (S (S (S (S (S (S (S (S (S (S (S (S (S (S (S (S (S (S (S
               (S (S (S
               O)))))))))))))))))))))))))))))))))))))))))))))))))))))))))))))))))
               (sub (length set) it.wi)) (S O)) set it.wi j0 with
   | Some p -> let (i, j) = p in Some { wi = i; bj = j; rd = true }
   | None -> None)

(** val value : iter0 -> n **)

let value it =
  N.add (N.mul (N.of_nat it.wi) (Npos (XO (XO (XO (XO (XO (XO XH)))))))) it.bj

(** val drain : nat -> n list -> iter0 -> n list **)

let rec drain fuel set it =
  match fuel with
  | O -> []
  | S f ->
    (match next set it with
     | Some it' -> (value it') :: (drain f set it')
     | None -> [])

(** val diff : n list -> n list -> n list **)

let rec diff b o =
  match b with
  | [] -> b
  | x :: b' ->
    (match o with
     | [] -> b
     | y :: o' -> (N.ldiff x y) :: (diff b' o'))

(** val inter : n list -> n list -> n list **)

let rec inter b o =
  match b with
  | [] -> []
  | x :: b' ->
    (match o with
     | [] -> N0 :: (inter b' [])
     | y :: o' -> (N.coq_land x y) :: (inter b' o'))

(** val merge : n list -> n list -> n list **)

let rec merge b o =
  match b with
  | [] -> o
  | x :: b' ->
    (match o with
     | [] -> b
     | y :: o' -> (N.coq_lor x y) :: (merge b' o'))

(** val bits64 : n list **)

let bits64 =
  map N.of_nat
    (seq O (S (S (S (S (S (S (S (S (S (S (S (S (S (S (S (S (S (S (S (S (S (S
      (S (S (S (S (S (S (S (S (S (S (S (S (S (S (S (S (S (S (S (S (S (S (S (S
      (S (S (S (S (S (S (S (S (S (S (S (S (S (S (S (S (S (S
      O)))))))))))))))))))))))))))))))))))))))))))))))))))))))))))))))))

(** val popcount : n -> nat **)

let popcount w =
  length (filter (N.testbit w) bits64)

(** val len0 : n list -> nat **)

let rec len0 = function
| [] -> O
| w :: t -> add (popcount w) (len0 t)

(** val mlist : n -> n list -> n list **)

let rec mlist k = function
| [] -> []
| w :: t ->
  app
    (map (fun j -> N.add (N.mul (Npos (XO (XO (XO (XO (XO (XO XH))))))) k) j)
      (filter (N.testbit w) bits64)) (mlist (N.add k (Npos XH)) t)

type bits = { words : n list; cached : z }

(** val grow : n list -> n -> n list **)

let grow set n0 =
  let i = widx n0 in
  if Nat.leb (length set) i
  then app set (repeat N0 (sub (add i (S O)) (length set)))
  else set

(** val cap0 : n list -> n **)

let cap0 set =
  N.shiftl (N.of_nat (length set)) (Npos (XO (XI XH)))

(** val b_add : bits -> n -> bits * bool **)

let b_add b n0 =
  let (w, ch) = add0 b.words n0 in
  ({ words = w; cached =
  (if ch then Z.add b.cached (Zpos XH) else b.cached) }, ch)

(** val b_remove : bits -> n -> bits * bool **)

let b_remove b n0 =
  let (w, ch) = remove b.words n0 in
  ({ words = w; cached =
  (if ch then Z.sub b.cached (Zpos XH) else b.cached) }, ch)

(** val recount : n list -> bits **)

let recount w =
  { words = w; cached = (Z.of_nat (len0 w)) }

(** val enumerate : n list -> n list **)

let enumerate set =
  drain
    (add
      (mul (S (S (S (S (S (S (S (S (S (S (S (S (S (S (S (S (S (S (S (S (S (S
        (S (S (S (S (S (S (S (S (S (S (S (S (S (S (S (S (S (S (S (S (S (S (S
        (S (S (S (S (S (S (S (S (S (S (S (S (S (S (S (S (S (S (S
        O))))))))))))))))))))))))))))))))))))))))))))))))))))))))))))))))
        (length set)) (S O)) set { wi = O; bj = N0; rd = false }

(** val enumerate_stop : n list -> nat -> n list **)

let enumerate_stop set k = match k with
| O -> mlist N0 set
| S _ -> firstn k (mlist N0 set)

type kind =
| KBits
| KBitmap
| KDsz

type op1 =
| OAdd of bool * n
| ORemove of bool * n
| OContains of bool * n
| OLen of bool
| OCap of bool
| OGrow of bool * n
| OIter of bool
| ORange of bool * nat
| OAll of bool * nat
| ODiff of bool
| OIntersect of bool
| OMerge of bool
| OClone of bool

(** val sel : bool -> ('a1 * 'a1) -> 'a1 **)

let sel t p =
  if t then snd p else fst p

(** val upd2 : bool -> ('a1 * 'a1) -> 'a1 -> 'a1 * 'a1 **)

let upd2 t p x =
  if t then ((fst p), x) else (x, (snd p))

(** val len_of : kind -> bits -> z **)

let len_of k b =
  match k with
  | KBitmap -> Z.of_nat (len0 b.words)
  | _ -> b.cached

(** val step1 : kind -> (bits * bits) -> op1 -> (bits * bits) * z list **)

let step1 k st = function
| OAdd (t, n0) ->
  let (b, ch) = b_add (sel t st) n0 in
  ((upd2 t st b), (match k with
                   | KDsz -> []
                   | _ -> (zb ch) :: []))
| ORemove (t, n0) ->
  let (b, ch) = b_remove (sel t st) n0 in
  ((upd2 t st b), (match k with
                   | KDsz -> []
                   | _ -> (zb ch) :: []))
| OContains (t, n0) -> (st, ((zb (contains (sel t st).words n0)) :: []))
| OLen t -> (st, ((len_of k (sel t st)) :: []))
| OCap t -> (st, ((Z.of_N (cap0 (sel t st).words)) :: []))
| OGrow (t, n0) ->
  let b = sel t st in
  ((upd2 t st { words = (grow b.words n0); cached = b.cached }), [])
| OIter t -> (st, (put_list (of_Ns (enumerate (sel t st).words))))
| ORange (t, c) ->
  (st, (put_list (of_Ns (enumerate_stop (sel t st).words c))))
| OAll (t, c) -> (st, (put_list (of_Ns (enumerate_stop (sel t st).words c))))
| ODiff t ->
  ((upd2 t st (recount (diff (sel t st).words (sel (negb t) st).words))), [])
| OIntersect t ->
  ((upd2 t st (recount (inter (sel t st).words (sel (negb t) st).words))), [])
| OMerge t ->
  ((upd2 t st (recount (merge (sel t st).words (sel (negb t) st).words))), [])
| OClone t -> ((upd2 (negb t) st (sel t st)), [])

(** val run : kind -> (bits * bits) -> op1 list -> z list **)

let rec run k st = function
| [] -> []
| o :: r -> let (st', out) = step1 k st o in app out (run k st' r)

(** val empty : bits **)

let empty =
  { words = []; cached = Z0 }

(** val s_insert : n -> n list -> n list **)

let rec s_insert x l = match l with
| [] -> x :: []
| y :: t ->
  if N.ltb x y then x :: l else if N.eqb x y then l else y :: (s_insert x t)

(** val s_delete : n -> n list -> n list **)

let rec s_delete x = function
| [] -> []
| y :: t -> if N.eqb x y then t else y :: (s_delete x t)

(** val s_mem : n -> n list -> bool **)

let s_mem x l =
  existsb (N.eqb x) l

(** val s_diff : n list -> n list -> n list **)

let s_diff a b =
  filter (fun x -> negb (s_mem x b)) a

(** val s_inter : n list -> n list -> n list **)

let s_inter a b =
  filter (fun x -> s_mem x b) a

(** val s_union : n list -> n list -> n list **)

let s_union a b =
  fold_left (fun acc x -> s_insert x acc) b a

type sset = { elems : n list; scap : n }

(** val need : n -> n **)

let need n0 =
  N.mul (N.add (N.div n0 (Npos (XO (XO (XO (XO (XO (XO XH)))))))) (Npos XH))
    (Npos (XO (XO (XO (XO (XO (XO XH)))))))

(** val s_step : kind -> (sset * sset) -> op1 -> (sset * sset) * z list **)

let s_step k st = function
| OAdd (t, n0) ->
  let s = sel t st in
  ((upd2 t st { elems = (s_insert n0 s.elems); scap =
     (N.max s.scap (need n0)) }),
  (match k with
   | KDsz -> []
   | _ -> (zb (negb (s_mem n0 s.elems))) :: []))
| ORemove (t, n0) ->
  let s = sel t st in
  ((upd2 t st { elems = (s_delete n0 s.elems); scap = s.scap }),
  (match k with
   | KDsz -> []
   | _ -> (zb (s_mem n0 s.elems)) :: []))
| OContains (t, n0) -> (st, ((zb (s_mem n0 (sel t st).elems)) :: []))
| OLen t -> (st, ((Z.of_nat (length (sel t st).elems)) :: []))
| OCap t -> (st, ((Z.of_N (sel t st).scap) :: []))
| OGrow (t, n0) ->
  let s = sel t st in
  ((upd2 t st { elems = s.elems; scap = (N.max s.scap (need n0)) }), [])
| OIter t -> (st, (put_list (of_Ns (sel t st).elems)))
| ORange (t, c) ->
  (st,
    (put_list
      (of_Ns
        (match c with
         | O -> (sel t st).elems
         | S _ -> firstn c (sel t st).elems))))
| OAll (t, c) ->
  (st,
    (put_list
      (of_Ns
        (match c with
         | O -> (sel t st).elems
         | S _ -> firstn c (sel t st).elems))))
| ODiff t ->
  let s = sel t st in
  ((upd2 t st { elems = (s_diff s.elems (sel (negb t) st).elems); scap =
     s.scap }), [])
| OIntersect t ->
  let s = sel t st in
  ((upd2 t st { elems = (s_inter s.elems (sel (negb t) st).elems); scap =
     s.scap }), [])
| OMerge t ->
  let s = sel t st in
  let o' = sel (negb t) st in
  ((upd2 t st { elems = (s_union s.elems o'.elems); scap =
     (N.max s.scap o'.scap) }), [])
| OClone t -> ((upd2 (negb t) st (sel t st)), [])

(** val s_run : kind -> (sset * sset) -> op1 list -> z list **)

let rec s_run k st = function
| [] -> []
| o :: r -> let (st', out) = s_step k st o in app out (s_run k st' r)

(** val s_empty : sset **)

let s_empty =
  { elems = []; scap = N0 }

(** val dec_kind : z -> kind **)

let dec_kind z0 =
  if Z.eqb z0 Z0 then KBits else if Z.eqb z0 (Zpos XH) then KBitmap else KDsz

(** val dec_op1 : z -> z -> z -> op1 option **)

let dec_op1 c t a =
  let tb = bz t in
  let n0 = Z.to_N a in
  let k = Z.to_nat a in
  if Z.eqb c Z0
  then Some (OAdd (tb, n0))
  else if Z.eqb c (Zpos XH)
       then Some (ORemove (tb, n0))
       else if Z.eqb c (Zpos (XO XH))
            then Some (OContains (tb, n0))
            else if Z.eqb c (Zpos (XI XH))
                 then Some (OLen tb)
                 else if Z.eqb c (Zpos (XO (XO XH)))
                      then Some (OCap tb)
                      else if Z.eqb c (Zpos (XI (XO XH)))
                           then Some (OGrow (tb, n0))
                           else if Z.eqb c (Zpos (XO (XI XH)))
                                then Some (OIter tb)
                                else if Z.eqb c (Zpos (XI (XI XH)))
                                     then Some (ORange (tb, k))
                                     else if Z.eqb c (Zpos (XO (XO (XO XH))))
                                          then Some (OAll (tb, k))
                                          else if Z.eqb c (Zpos (XI (XO (XO
                                                    XH))))
                                               then Some (ODiff tb)
                                               else if Z.eqb c (Zpos (XO (XI
                                                         (XO XH))))
                                                    then Some (OIntersect tb)
                                                    else if Z.eqb c (Zpos (XI
                                                              (XI (XO XH))))
                                                         then Some (OMerge tb)
                                                         else if Z.eqb c
                                                                   (Zpos (XO
                                                                   (XO (XI
                                                                   XH))))
                                                              then Some
                                                                    (OClone
                                                                    tb)
                                                              else None

(** val dec_ops : nat -> z list -> op1 list option **)

let rec dec_ops fuel l =
  match fuel with
  | O -> (match l with
          | [] -> Some []
          | _ :: _ -> None)
  | S f ->
    (match l with
     | [] -> Some []
     | c :: l0 ->
       (match l0 with
        | [] -> None
        | t :: l1 ->
          (match l1 with
           | [] -> None
           | a :: r ->
             (match dec_op1 c t a with
              | Some o ->
                (match dec_ops f r with
                 | Some os -> Some (o :: os)
                 | None -> None)
              | None -> None))))

(** val entry2 : z -> z list -> z list **)

let entry2 sub0 = function
| [] -> bADCASE :: []
| k :: r ->
  (match dec_ops (length r) r with
   | Some ops ->
     if Z.eqb sub0 Z0
     then run (dec_kind k) (empty, empty) ops
     else if Z.eqb sub0 (Zpos XH)
          then s_run (dec_kind k) (s_empty, s_empty) ops
          else bADCASE :: []
   | None -> bADCASE :: [])

(** val dispatch : z -> z -> z list -> z list **)

let dispatch p sub0 args =
  if Z.eqb p (Zpos XH)
  then entry sub0 args
  else if Z.eqb p (Zpos (XI (XI (XO XH))))
       then entry1 sub0 args
       else if Z.eqb p (Zpos (XO (XO (XO (XO XH)))))
            then entry2 sub0 args
            else []
