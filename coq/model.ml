
(** val negb : bool -> bool **)

let negb = function
| true -> false
| false -> true

type nat =
| O
| S of nat

(** val fst : ('a1 * 'a2) -> 'a1 **)

let fst = function
| (x, _) -> x

(** val snd : ('a1 * 'a2) -> 'a2 **)

let snd = function
| (_, y) -> y

(** val length : 'a1 list -> nat **)

let rec length = function
| [] -> O
| _ :: l' -> S (length l')

(** val app : 'a1 list -> 'a1 list -> 'a1 list **)

let rec app l m =
  match l with
  | [] -> m
  | a :: l1 -> a :: (app l1 m)

type comparison =
| Eq
| Lt
| Gt

module Coq__1 = struct
 (** val add : nat -> nat -> nat **)
 let rec add n0 m =
   match n0 with
   | O -> m
   | S p -> S (add p m)
end
include Coq__1

(** val mul : nat -> nat -> nat **)

let rec mul n0 m =
  match n0 with
  | O -> O
  | S p -> add m (mul p m)

(** val sub : nat -> nat -> nat **)

let rec sub n0 m =
  match n0 with
  | O -> n0
  | S k -> (match m with
            | O -> n0
            | S l -> sub k l)

module Nat =
 struct
  (** val leb : nat -> nat -> bool **)

  let rec leb n0 m =
    match n0 with
    | O -> true
    | S n' -> (match m with
               | O -> false
               | S m' -> leb n' m')

  (** val ltb : nat -> nat -> bool **)

  let ltb n0 m =
    leb (S n0) m
 end

(** val nth : nat -> 'a1 list -> 'a1 -> 'a1 **)

let rec nth n0 l default =
  match n0 with
  | O -> (match l with
          | [] -> default
          | x :: _ -> x)
  | S m -> (match l with
            | [] -> default
            | _ :: t -> nth m t default)

(** val map : ('a1 -> 'a2) -> 'a1 list -> 'a2 list **)

let rec map f = function
| [] -> []
| a :: t -> (f a) :: (map f t)

(** val fold_left : ('a1 -> 'a2 -> 'a1) -> 'a2 list -> 'a1 -> 'a1 **)

let rec fold_left f l a0 =
  match l with
  | [] -> a0
  | b :: t -> fold_left f t (f a0 b)

(** val existsb : ('a1 -> bool) -> 'a1 list -> bool **)

let rec existsb f = function
| [] -> false
| a :: l0 -> (||) (f a) (existsb f l0)

(** val filter : ('a1 -> bool) -> 'a1 list -> 'a1 list **)

let rec filter f = function
| [] -> []
| x :: l0 -> if f x then x :: (filter f l0) else filter f l0

(** val firstn : nat -> 'a1 list -> 'a1 list **)

let rec firstn n0 l =
  match n0 with
  | O -> []
  | S n1 -> (match l with
             | [] -> []
             | a :: l0 -> a :: (firstn n1 l0))

(** val seq : nat -> nat -> nat list **)

let rec seq start = function
| O -> []
| S len1 -> start :: (seq (S start) len1)

(** val repeat : 'a1 -> nat -> 'a1 list **)

let rec repeat x = function
| O -> []
| S k -> x :: (repeat x k)

type positive =
| XI of positive
| XO of positive
| XH

type n =
| N0
| Npos of positive

type z =
| Z0
| Zpos of positive
| Zneg of positive

module Pos =
 struct
  type mask =
  | IsNul
  | IsPos of positive
  | IsNeg
 end

module Coq_Pos =
 struct
  (** val succ : positive -> positive **)

  let rec succ = function
  | XI p -> XO (succ p)
  | XO p -> XI p
  | XH -> XO XH

  (** val add : positive -> positive -> positive **)

  let rec add x y =
    match x with
    | XI p ->
      (match y with
       | XI q -> XO (add_carry p q)
       | XO q -> XI (add p q)
       | XH -> XO (succ p))
    | XO p ->
      (match y with
       | XI q -> XI (add p q)
       | XO q -> XO (add p q)
       | XH -> XI p)
    | XH -> (match y with
             | XI q -> XO (succ q)
             | XO q -> XI q
             | XH -> XO XH)

  (** val add_carry : positive -> positive -> positive **)

  and add_carry x y =
    match x with
    | XI p ->
      (match y with
       | XI q -> XI (add_carry p q)
       | XO q -> XO (add_carry p q)
       | XH -> XI (succ p))
    | XO p ->
      (match y with
       | XI q -> XO (add_carry p q)
       | XO q -> XI (add p q)
       | XH -> XO (succ p))
    | XH ->
      (match y with
       | XI q -> XI (succ q)
       | XO q -> XO (succ q)
       | XH -> XI XH)

  (** val pred_double : positive -> positive **)

  let rec pred_double = function
  | XI p -> XI (XO p)
  | XO p -> XI (pred_double p)
  | XH -> XH

  (** val pred_N : positive -> n **)

  let pred_N = function
  | XI p -> Npos (XO p)
  | XO p -> Npos (pred_double p)
  | XH -> N0

  type mask = Pos.mask =
  | IsNul
  | IsPos of positive
  | IsNeg

  (** val succ_double_mask : mask -> mask **)

  let succ_double_mask = function
  | IsNul -> IsPos XH
  | IsPos p -> IsPos (XI p)
  | IsNeg -> IsNeg

  (** val double_mask : mask -> mask **)

  let double_mask = function
  | IsPos p -> IsPos (XO p)
  | x0 -> x0

  (** val double_pred_mask : positive -> mask **)

  let double_pred_mask = function
  | XI p -> IsPos (XO (XO p))
  | XO p -> IsPos (XO (pred_double p))
  | XH -> IsNul

  (** val sub_mask : positive -> positive -> mask **)

  let rec sub_mask x y =
    match x with
    | XI p ->
      (match y with
       | XI q -> double_mask (sub_mask p q)
       | XO q -> succ_double_mask (sub_mask p q)
       | XH -> IsPos (XO p))
    | XO p ->
      (match y with
       | XI q -> succ_double_mask (sub_mask_carry p q)
       | XO q -> double_mask (sub_mask p q)
       | XH -> IsPos (pred_double p))
    | XH -> (match y with
             | XH -> IsNul
             | _ -> IsNeg)

  (** val sub_mask_carry : positive -> positive -> mask **)

  and sub_mask_carry x y =
    match x with
    | XI p ->
      (match y with
       | XI q -> succ_double_mask (sub_mask_carry p q)
       | XO q -> double_mask (sub_mask p q)
       | XH -> IsPos (pred_double p))
    | XO p ->
      (match y with
       | XI q -> double_mask (sub_mask_carry p q)
       | XO q -> succ_double_mask (sub_mask_carry p q)
       | XH -> double_pred_mask p)
    | XH -> IsNeg

  (** val mul : positive -> positive -> positive **)

  let rec mul x y =
    match x with
    | XI p -> add y (XO (mul p y))
    | XO p -> XO (mul p y)
    | XH -> y

  (** val iter : ('a1 -> 'a1) -> 'a1 -> positive -> 'a1 **)

  let rec iter f x = function
  | XI n' -> f (iter f (iter f x n') n')
  | XO n' -> iter f (iter f x n') n'
  | XH -> f x

  (** val compare_cont : comparison -> positive -> positive -> comparison **)

  let rec compare_cont r x y =
    match x with
    | XI p ->
      (match y with
       | XI q -> compare_cont r p q
       | XO q -> compare_cont Gt p q
       | XH -> Gt)
    | XO p ->
      (match y with
       | XI q -> compare_cont Lt p q
       | XO q -> compare_cont r p q
       | XH -> Gt)
    | XH -> (match y with
             | XH -> r
             | _ -> Lt)

  (** val compare : positive -> positive -> comparison **)

  let compare =
    compare_cont Eq

  (** val eqb : positive -> positive -> bool **)

  let rec eqb p q =
    match p with
    | XI p0 -> (match q with
                | XI q0 -> eqb p0 q0
                | _ -> false)
    | XO p0 -> (match q with
                | XO q0 -> eqb p0 q0
                | _ -> false)
    | XH -> (match q with
             | XH -> true
             | _ -> false)

  (** val coq_Nsucc_double : n -> n **)

  let coq_Nsucc_double = function
  | N0 -> Npos XH
  | Npos p -> Npos (XI p)

  (** val coq_Ndouble : n -> n **)

  let coq_Ndouble = function
  | N0 -> N0
  | Npos p -> Npos (XO p)

  (** val coq_lor : positive -> positive -> positive **)

  let rec coq_lor p q =
    match p with
    | XI p0 ->
      (match q with
       | XI q0 -> XI (coq_lor p0 q0)
       | XO q0 -> XI (coq_lor p0 q0)
       | XH -> p)
    | XO p0 ->
      (match q with
       | XI q0 -> XI (coq_lor p0 q0)
       | XO q0 -> XO (coq_lor p0 q0)
       | XH -> XI p0)
    | XH -> (match q with
             | XO q0 -> XI q0
             | _ -> q)

  (** val coq_land : positive -> positive -> n **)

  let rec coq_land p q =
    match p with
    | XI p0 ->
      (match q with
       | XI q0 -> coq_Nsucc_double (coq_land p0 q0)
       | XO q0 -> coq_Ndouble (coq_land p0 q0)
       | XH -> Npos XH)
    | XO p0 ->
      (match q with
       | XI q0 -> coq_Ndouble (coq_land p0 q0)
       | XO q0 -> coq_Ndouble (coq_land p0 q0)
       | XH -> N0)
    | XH -> (match q with
             | XO _ -> N0
             | _ -> Npos XH)

  (** val ldiff : positive -> positive -> n **)

  let rec ldiff p q =
    match p with
    | XI p0 ->
      (match q with
       | XI q0 -> coq_Ndouble (ldiff p0 q0)
       | XO q0 -> coq_Nsucc_double (ldiff p0 q0)
       | XH -> Npos (XO p0))
    | XO p0 ->
      (match q with
       | XI q0 -> coq_Ndouble (ldiff p0 q0)
       | XO q0 -> coq_Ndouble (ldiff p0 q0)
       | XH -> Npos p)
    | XH -> (match q with
             | XO _ -> Npos XH
             | _ -> N0)

  (** val shiftl : positive -> n -> positive **)

  let shiftl p = function
  | N0 -> p
  | Npos n1 -> iter (fun x -> XO x) p n1

  (** val testbit : positive -> n -> bool **)

  let rec testbit p n0 =
    match p with
    | XI p0 -> (match n0 with
                | N0 -> true
                | Npos n1 -> testbit p0 (pred_N n1))
    | XO p0 -> (match n0 with
                | N0 -> false
                | Npos n1 -> testbit p0 (pred_N n1))
    | XH -> (match n0 with
             | N0 -> true
             | Npos _ -> false)

  (** val iter_op : ('a1 -> 'a1 -> 'a1) -> positive -> 'a1 -> 'a1 **)

  let rec iter_op op0 p a =
    match p with
    | XI p0 -> op0 a (iter_op op0 p0 (op0 a a))
    | XO p0 -> iter_op op0 p0 (op0 a a)
    | XH -> a

  (** val to_nat : positive -> nat **)

  let to_nat x =
    iter_op Coq__1.add x (S O)

  (** val of_succ_nat : nat -> positive **)

  let rec of_succ_nat = function
  | O -> XH
  | S x -> succ (of_succ_nat x)
 end

module N =
 struct
  (** val succ_double : n -> n **)

  let succ_double = function
  | N0 -> Npos XH
  | Npos p -> Npos (XI p)

  (** val double : n -> n **)

  let double = function
  | N0 -> N0
  | Npos p -> Npos (XO p)

  (** val add : n -> n -> n **)

  let add n0 m =
    match n0 with
    | N0 -> m
    | Npos p -> (match m with
                 | N0 -> n0
                 | Npos q -> Npos (Coq_Pos.add p q))

  (** val sub : n -> n -> n **)

  let sub n0 m =
    match n0 with
    | N0 -> N0
    | Npos n' ->
      (match m with
       | N0 -> n0
       | Npos m' ->
         (match Coq_Pos.sub_mask n' m' with
          | Coq_Pos.IsPos p -> Npos p
          | _ -> N0))

  (** val mul : n -> n -> n **)

  let mul n0 m =
    match n0 with
    | N0 -> N0
    | Npos p -> (match m with
                 | N0 -> N0
                 | Npos q -> Npos (Coq_Pos.mul p q))

  (** val compare : n -> n -> comparison **)

  let compare n0 m =
    match n0 with
    | N0 -> (match m with
             | N0 -> Eq
             | Npos _ -> Lt)
    | Npos n' -> (match m with
                  | N0 -> Gt
                  | Npos m' -> Coq_Pos.compare n' m')

  (** val eqb : n -> n -> bool **)

  let eqb n0 m =
    match n0 with
    | N0 -> (match m with
             | N0 -> true
             | Npos _ -> false)
    | Npos p -> (match m with
                 | N0 -> false
                 | Npos q -> Coq_Pos.eqb p q)

  (** val leb : n -> n -> bool **)

  let leb x y =
    match compare x y with
    | Gt -> false
    | _ -> true

  (** val ltb : n -> n -> bool **)

  let ltb x y =
    match compare x y with
    | Lt -> true
    | _ -> false

  (** val max : n -> n -> n **)

  let max n0 n' =
    match compare n0 n' with
    | Gt -> n0
    | _ -> n'

  (** val div2 : n -> n **)

  let div2 = function
  | N0 -> N0
  | Npos p0 -> (match p0 with
                | XI p -> Npos p
                | XO p -> Npos p
                | XH -> N0)

  (** val pos_div_eucl : positive -> n -> n * n **)

  let rec pos_div_eucl a b =
    match a with
    | XI a' ->
      let (q, r) = pos_div_eucl a' b in
      let r' = succ_double r in
      if leb b r' then ((succ_double q), (sub r' b)) else ((double q), r')
    | XO a' ->
      let (q, r) = pos_div_eucl a' b in
      let r' = double r in
      if leb b r' then ((succ_double q), (sub r' b)) else ((double q), r')
    | XH ->
      (match b with
       | N0 -> (N0, (Npos XH))
       | Npos p -> (match p with
                    | XH -> ((Npos XH), N0)
                    | _ -> (N0, (Npos XH))))

  (** val div_eucl : n -> n -> n * n **)

  let div_eucl a b =
    match a with
    | N0 -> (N0, N0)
    | Npos na -> (match b with
                  | N0 -> (N0, a)
                  | Npos _ -> pos_div_eucl na b)

  (** val div : n -> n -> n **)

  let div a b =
    fst (div_eucl a b)

  (** val coq_lor : n -> n -> n **)

  let coq_lor n0 m =
    match n0 with
    | N0 -> m
    | Npos p -> (match m with
                 | N0 -> n0
                 | Npos q -> Npos (Coq_Pos.coq_lor p q))

  (** val coq_land : n -> n -> n **)

  let coq_land n0 m =
    match n0 with
    | N0 -> N0
    | Npos p -> (match m with
                 | N0 -> N0
                 | Npos q -> Coq_Pos.coq_land p q)

  (** val ldiff : n -> n -> n **)

  let ldiff n0 m =
    match n0 with
    | N0 -> N0
    | Npos p -> (match m with
                 | N0 -> n0
                 | Npos q -> Coq_Pos.ldiff p q)

  (** val shiftl : n -> n -> n **)

  let shiftl a n0 =
    match a with
    | N0 -> N0
    | Npos a0 -> Npos (Coq_Pos.shiftl a0 n0)

  (** val shiftr : n -> n -> n **)

  let shiftr a = function
  | N0 -> a
  | Npos p -> Coq_Pos.iter div2 a p

  (** val testbit : n -> n -> bool **)

  let testbit a n0 =
    match a with
    | N0 -> false
    | Npos p -> Coq_Pos.testbit p n0

  (** val to_nat : n -> nat **)

  let to_nat = function
  | N0 -> O
  | Npos p -> Coq_Pos.to_nat p

  (** val of_nat : nat -> n **)

  let of_nat = function
  | O -> N0
  | S n' -> Npos (Coq_Pos.of_succ_nat n')
 end

module Z =
 struct
  (** val double : z -> z **)

  let double = function
  | Z0 -> Z0
  | Zpos p -> Zpos (XO p)
  | Zneg p -> Zneg (XO p)

  (** val succ_double : z -> z **)

  let succ_double = function
  | Z0 -> Zpos XH
  | Zpos p -> Zpos (XI p)
  | Zneg p -> Zneg (Coq_Pos.pred_double p)

  (** val pred_double : z -> z **)

  let pred_double = function
  | Z0 -> Zneg XH
  | Zpos p -> Zpos (Coq_Pos.pred_double p)
  | Zneg p -> Zneg (XI p)

  (** val pos_sub : positive -> positive -> z **)

  let rec pos_sub x y =
    match x with
    | XI p ->
      (match y with
       | XI q -> double (pos_sub p q)
       | XO q -> succ_double (pos_sub p q)
       | XH -> Zpos (XO p))
    | XO p ->
      (match y with
       | XI q -> pred_double (pos_sub p q)
       | XO q -> double (pos_sub p q)
       | XH -> Zpos (Coq_Pos.pred_double p))
    | XH ->
      (match y with
       | XI q -> Zneg (XO q)
       | XO q -> Zneg (Coq_Pos.pred_double q)
       | XH -> Z0)

  (** val add : z -> z -> z **)

  let add x y =
    match x with
    | Z0 -> y
    | Zpos x' ->
      (match y with
       | Z0 -> x
       | Zpos y' -> Zpos (Coq_Pos.add x' y')
       | Zneg y' -> pos_sub x' y')
    | Zneg x' ->
      (match y with
       | Z0 -> x
       | Zpos y' -> pos_sub y' x'
       | Zneg y' -> Zneg (Coq_Pos.add x' y'))

  (** val opp : z -> z **)

  let opp = function
  | Z0 -> Z0
  | Zpos x0 -> Zneg x0
  | Zneg x0 -> Zpos x0

  (** val sub : z -> z -> z **)

  let sub m n0 =
    add m (opp n0)

  (** val eqb : z -> z -> bool **)

  let eqb x y =
    match x with
    | Z0 -> (match y with
             | Z0 -> true
             | _ -> false)
    | Zpos p -> (match y with
                 | Zpos q -> Coq_Pos.eqb p q
                 | _ -> false)
    | Zneg p -> (match y with
                 | Zneg q -> Coq_Pos.eqb p q
                 | _ -> false)

  (** val to_nat : z -> nat **)

  let to_nat = function
  | Zpos p -> Coq_Pos.to_nat p
  | _ -> O

  (** val to_N : z -> n **)

  let to_N = function
  | Zpos p -> Npos p
  | _ -> N0

  (** val of_nat : nat -> z **)

  let of_nat = function
  | O -> Z0
  | S n1 -> Zpos (Coq_Pos.of_succ_nat n1)

  (** val of_N : n -> z **)

  let of_N = function
  | N0 -> Z0
  | Npos p -> Zpos p
 end

(** val bADCASE : z **)

let bADCASE =
  Zneg (XI (XI (XO (XO (XO (XO (XI (XO (XO (XI (XO (XO (XO (XO (XI (XO (XI
    (XI (XI XH)))))))))))))))))))

(** val zb : bool -> z **)

let zb = function
| true -> Zpos XH
| false -> Z0

(** val bz : z -> bool **)

let bz z0 =
  negb (Z.eqb z0 Z0)

(** val put_list : z list -> z list **)

let put_list l =
  (Z.of_nat (length l)) :: l

(** val of_Ns : n list -> z list **)

let of_Ns l =
  map Z.of_N l

(** val upd : n list -> nat -> n -> n list **)

let rec upd l i x =
  match l with
  | [] -> []
  | h :: t -> (match i with
               | O -> x :: t
               | S j -> h :: (upd t j x))

(** val widx : n -> nat **)

let widx num =
  N.to_nat (N.shiftr num (Npos (XO (XI XH))))

(** val bidx : n -> n **)

let bidx num =
  N.coq_land num (Npos (XI (XI (XI (XI (XI XH))))))

(** val mask0 : n -> n **)

let mask0 b =
  N.shiftl (Npos XH) b

(** val contains : n list -> n -> bool **)

let contains set num =
  (&&) (Nat.ltb (widx num) (length set))
    (negb (N.eqb (N.coq_land (nth (widx num) set N0) (mask0 (bidx num))) N0))

(** val add0 : n list -> n -> n list * bool **)

let add0 set num =
  let i = widx num in
  if Nat.leb (length set) i
  then let grown = app set (repeat N0 (sub (add i (S O)) (length set))) in
       ((upd grown i (N.coq_lor (nth i grown N0) (mask0 (bidx num)))), true)
  else if N.eqb (N.coq_land (nth i set N0) (mask0 (bidx num))) N0
       then ((upd set i (N.coq_lor (nth i set N0) (mask0 (bidx num)))), true)
       else (set, false)

(** val remove : n list -> n -> n list * bool **)

let remove set num =
  let i = widx num in
  if (&&) (Nat.ltb i (length set))
       (negb (N.eqb (N.coq_land (nth i set N0) (mask0 (bidx num))) N0))
  then ((upd set i (N.ldiff (nth i set N0) (mask0 (bidx num)))), true)
  else (set, false)

type iter0 = { wi : nat; bj : n; rd : bool }

(** val bit_set : n list -> nat -> n -> bool **)

let bit_set set i j =
  negb (N.eqb (N.coq_land (nth i set N0) (N.shiftl (Npos XH) j)) N0)

(** val scan : nat -> n list -> nat -> n -> (nat * n) option **)

let rec scan fuel set i j =
  match fuel with
  | O -> None
  | S f ->
    if Nat.ltb i (length set)
    then if N.ltb j (Npos (XO (XO (XO (XO (XO (XO XH)))))))
         then if bit_set set i j
              then Some (i, j)
              else scan f set i (N.add j (Npos XH))
         else scan f set (S i) N0
    else None

(** val next : n list -> iter0 -> iter0 option **)

let next set it =
  let j0 = if it.rd then N.add it.bj (Npos XH) else it.bj in
  (match scan
           (add
             (mul (S (S (S (S (S (S (S (S (S (S (S (S (S (S (S (S (S (S (S (S
               (S (S (S (S (S (S (S (S (S (S (S (S (S (S (S (S (S (S (S (S (S
               (S (S (S (S (S (S (S (S (S (S (S (S (S (S (S (S (S (S (S (S (S
               (S (S (S
               O)))))))))))))))))))))))))))))))))))))))))))))))))))))))))))))))))
               (sub (length set) it.wi)) (S O)) set it.wi j0 with
   | Some p -> let (i, j) = p in Some { wi = i; bj = j; rd = true }
   | None -> None)

(** val value : iter0 -> n **)

let value it =
  N.add (N.mul (N.of_nat it.wi) (Npos (XO (XO (XO (XO (XO (XO XH)))))))) it.bj

(** val drain : nat -> n list -> iter0 -> n list **)

let rec drain fuel set it =
  match fuel with
  | O -> []
  | S f ->
    (match next set it with
     | Some it' -> (value it') :: (drain f set it')
     | None -> [])

(** val diff : n list -> n list -> n list **)

let rec diff b o =
  match b with
  | [] -> b
  | x :: b' ->
    (match o with
     | [] -> b
     | y :: o' -> (N.ldiff x y) :: (diff b' o'))

(** val inter : n list -> n list -> n list **)

let rec inter b o =
  match b with
  | [] -> []
  | x :: b' ->
    (match o with
     | [] -> N0 :: (inter b' [])
     | y :: o' -> (N.coq_land x y) :: (inter b' o'))

(** val merge : n list -> n list -> n list **)

let rec merge b o =
  match b with
  | [] -> o
  | x :: b' ->
    (match o with
     | [] -> b
     | y :: o' -> (N.coq_lor x y) :: (merge b' o'))

(** val bits64 : n list **)

let bits64 =
  map N.of_nat
    (seq O (S (S (S (S (S (S (S (S (S (S (S (S (S (S (S (S (S (S (S (S (S (S
      (S (S (S (S (S (S (S (S (S (S (S (S (S (S (S (S (S (S (S (S (S (S (S (S
      (S (S (S (S (S (S (S (S (S (S (S (S (S (S (S (S (S (S
      O)))))))))))))))))))))))))))))))))))))))))))))))))))))))))))))))))

(** val popcount : n -> nat **)

let popcount w =
  length (filter (N.testbit w) bits64)

(** val len : n list -> nat **)

let rec len = function
| [] -> O
| w :: t -> add (popcount w) (len t)

(** val mlist : n -> n list -> n list **)

let rec mlist k = function
| [] -> []
| w :: t ->
  app
    (map (fun j -> N.add (N.mul (Npos (XO (XO (XO (XO (XO (XO XH))))))) k) j)
      (filter (N.testbit w) bits64)) (mlist (N.add k (Npos XH)) t)

type bits = { words : n list; cached : z }

(** val grow : n list -> n -> n list **)

let grow set n0 =
  let i = widx n0 in
  if Nat.leb (length set) i
  then app set (repeat N0 (sub (add i (S O)) (length set)))
  else set

(** val cap : n list -> n **)

let cap set =
  N.shiftl (N.of_nat (length set)) (Npos (XO (XI XH)))

(** val b_add : bits -> n -> bits * bool **)

let b_add b n0 =
  let (w, ch) = add0 b.words n0 in
  ({ words = w; cached =
  (if ch then Z.add b.cached (Zpos XH) else b.cached) }, ch)

(** val b_remove : bits -> n -> bits * bool **)

let b_remove b n0 =
  let (w, ch) = remove b.words n0 in
  ({ words = w; cached =
  (if ch then Z.sub b.cached (Zpos XH) else b.cached) }, ch)

(** val recount : n list -> bits **)

let recount w =
  { words = w; cached = (Z.of_nat (len w)) }

(** val enumerate : n list -> n list **)

let enumerate set =
  drain
    (add
      (mul (S (S (S (S (S (S (S (S (S (S (S (S (S (S (S (S (S (S (S (S (S (S
        (S (S (S (S (S (S (S (S (S (S (S (S (S (S (S (S (S (S (S (S (S (S (S
        (S (S (S (S (S (S (S (S (S (S (S (S (S (S (S (S (S (S (S
        O))))))))))))))))))))))))))))))))))))))))))))))))))))))))))))))))
        (length set)) (S O)) set { wi = O; bj = N0; rd = false }

(** val enumerate_stop : n list -> nat -> n list **)

let enumerate_stop set k = match k with
| O -> mlist N0 set
| S _ -> firstn k (mlist N0 set)

type kind =
| KBits
| KBitmap
| KDsz

type op =
| OAdd of bool * n
| ORemove of bool * n
| OContains of bool * n
| OLen of bool
| OCap of bool
| OGrow of bool * n
| OIter of bool
| ORange of bool * nat
| OAll of bool * nat
| ODiff of bool
| OIntersect of bool
| OMerge of bool
| OClone of bool

(** val sel : bool -> ('a1 * 'a1) -> 'a1 **)

let sel t p =
  if t then snd p else fst p

(** val upd2 : bool -> ('a1 * 'a1) -> 'a1 -> 'a1 * 'a1 **)

let upd2 t p x =
  if t then ((fst p), x) else (x, (snd p))

(** val len_of : kind -> bits -> z **)

let len_of k b =
  match k with
  | KBitmap -> Z.of_nat (len b.words)
  | _ -> b.cached

(** val step : kind -> (bits * bits) -> op -> (bits * bits) * z list **)

let step k st = function
| OAdd (t, n0) ->
  let (b, ch) = b_add (sel t st) n0 in
  ((upd2 t st b), (match k with
                   | KDsz -> []
                   | _ -> (zb ch) :: []))
| ORemove (t, n0) ->
  let (b, ch) = b_remove (sel t st) n0 in
  ((upd2 t st b), (match k with
                   | KDsz -> []
                   | _ -> (zb ch) :: []))
| OContains (t, n0) -> (st, ((zb (contains (sel t st).words n0)) :: []))
| OLen t -> (st, ((len_of k (sel t st)) :: []))
| OCap t -> (st, ((Z.of_N (cap (sel t st).words)) :: []))
| OGrow (t, n0) ->
  let b = sel t st in
  ((upd2 t st { words = (grow b.words n0); cached = b.cached }), [])
| OIter t -> (st, (put_list (of_Ns (enumerate (sel t st).words))))
| ORange (t, c) ->
  (st, (put_list (of_Ns (enumerate_stop (sel t st).words c))))
| OAll (t, c) -> (st, (put_list (of_Ns (enumerate_stop (sel t st).words c))))
| ODiff t ->
  ((upd2 t st (recount (diff (sel t st).words (sel (negb t) st).words))), [])
| OIntersect t ->
  ((upd2 t st (recount (inter (sel t st).words (sel (negb t) st).words))), [])
| OMerge t ->
  ((upd2 t st (recount (merge (sel t st).words (sel (negb t) st).words))), [])
| OClone t -> ((upd2 (negb t) st (sel t st)), [])

(** val run : kind -> (bits * bits) -> op list -> z list **)

let rec run k st = function
| [] -> []
| o :: r -> let (st', out) = step k st o in app out (run k st' r)

(** val empty : bits **)

let empty =
  { words = []; cached = Z0 }

(** val s_insert : n -> n list -> n list **)

let rec s_insert x l = match l with
| [] -> x :: []
| y :: t ->
  if N.ltb x y then x :: l else if N.eqb x y then l else y :: (s_insert x t)

(** val s_delete : n -> n list -> n list **)

let rec s_delete x = function
| [] -> []
| y :: t -> if N.eqb x y then t else y :: (s_delete x t)

(** val s_mem : n -> n list -> bool **)

let s_mem x l =
  existsb (N.eqb x) l

(** val s_diff : n list -> n list -> n list **)

let s_diff a b =
  filter (fun x -> negb (s_mem x b)) a

(** val s_inter : n list -> n list -> n list **)

let s_inter a b =
  filter (fun x -> s_mem x b) a

(** val s_union : n list -> n list -> n list **)

let s_union a b =
  fold_left (fun acc x -> s_insert x acc) b a

type sset = { elems : n list; scap : n }

(** val need : n -> n **)

let need n0 =
  N.mul (N.add (N.div n0 (Npos (XO (XO (XO (XO (XO (XO XH)))))))) (Npos XH))
    (Npos (XO (XO (XO (XO (XO (XO XH)))))))

(** val s_step : kind -> (sset * sset) -> op -> (sset * sset) * z list **)

let s_step k st = function
| OAdd (t, n0) ->
  let s = sel t st in
  ((upd2 t st { elems = (s_insert n0 s.elems); scap =
     (N.max s.scap (need n0)) }),
  (match k with
   | KDsz -> []
   | _ -> (zb (negb (s_mem n0 s.elems))) :: []))
| ORemove (t, n0) ->
  let s = sel t st in
  ((upd2 t st { elems = (s_delete n0 s.elems); scap = s.scap }),
  (match k with
   | KDsz -> []
   | _ -> (zb (s_mem n0 s.elems)) :: []))
| OContains (t, n0) -> (st, ((zb (s_mem n0 (sel t st).elems)) :: []))
| OLen t -> (st, ((Z.of_nat (length (sel t st).elems)) :: []))
| OCap t -> (st, ((Z.of_N (sel t st).scap) :: []))
| OGrow (t, n0) ->
  let s = sel t st in
  ((upd2 t st { elems = s.elems; scap = (N.max s.scap (need n0)) }), [])
| OIter t -> (st, (put_list (of_Ns (sel t st).elems)))
| ORange (t, c) ->
  (st,
    (put_list
      (of_Ns
        (match c with
         | O -> (sel t st).elems
         | S _ -> firstn c (sel t st).elems))))
| OAll (t, c) ->
  (st,
    (put_list
      (of_Ns
        (match c with
         | O -> (sel t st).elems
         | S _ -> firstn c (sel t st).elems))))
| ODiff t ->
  let s = sel t st in
  ((upd2 t st { elems = (s_diff s.elems (sel (negb t) st).elems); scap =
     s.scap }), [])
| OIntersect t ->
  let s = sel t st in
  ((upd2 t st { elems = (s_inter s.elems (sel (negb t) st).elems); scap =
     s.scap }), [])
| OMerge t ->
  let s = sel t st in
  let o' = sel (negb t) st in
  ((upd2 t st { elems = (s_union s.elems o'.elems); scap =
     (N.max s.scap o'.scap) }), [])
| OClone t -> ((upd2 (negb t) st (sel t st)), [])

(** val s_run : kind -> (sset * sset) -> op list -> z list **)

let rec s_run k st = function
| [] -> []
| o :: r -> let (st', out) = s_step k st o in app out (s_run k st' r)

(** val s_empty : sset **)

let s_empty =
  { elems = []; scap = N0 }

(** val dec_kind : z -> kind **)

let dec_kind z0 =
  if Z.eqb z0 Z0 then KBits else if Z.eqb z0 (Zpos XH) then KBitmap else KDsz

(** val dec_op : z -> z -> z -> op option **)

let dec_op c t a =
  let tb = bz t in
  let n0 = Z.to_N a in
  let k = Z.to_nat a in
  if Z.eqb c Z0
  then Some (OAdd (tb, n0))
  else if Z.eqb c (Zpos XH)
       then Some (ORemove (tb, n0))
       else if Z.eqb c (Zpos (XO XH))
            then Some (OContains (tb, n0))
            else if Z.eqb c (Zpos (XI XH))
                 then Some (OLen tb)
                 else if Z.eqb c (Zpos (XO (XO XH)))
                      then Some (OCap tb)
                      else if Z.eqb c (Zpos (XI (XO XH)))
                           then Some (OGrow (tb, n0))
                           else if Z.eqb c (Zpos (XO (XI XH)))
                                then Some (OIter tb)
                                else if Z.eqb c (Zpos (XI (XI XH)))
                                     then Some (ORange (tb, k))
                                     else if Z.eqb c (Zpos (XO (XO (XO XH))))
                                          then Some (OAll (tb, k))
                                          else if Z.eqb c (Zpos (XI (XO (XO
                                                    XH))))
                                               then Some (ODiff tb)
                                               else if Z.eqb c (Zpos (XO (XI
                                                         (XO XH))))
                                                    then Some (OIntersect tb)
                                                    else if Z.eqb c (Zpos (XI
                                                              (XI (XO XH))))
                                                         then Some (OMerge tb)
                                                         else if Z.eqb c
                                                                   (Zpos (XO
                                                                   (XO (XI
                                                                   XH))))
                                                              then Some
                                                                    (OClone
                                                                    tb)
                                                              else None

(** val dec_ops : nat -> z list -> op list option **)

let rec dec_ops fuel l =
  match fuel with
  | O -> (match l with
          | [] -> Some []
          | _ :: _ -> None)
  | S f ->
    (match l with
     | [] -> Some []
     | c :: l0 ->
       (match l0 with
        | [] -> None
        | t :: l1 ->
          (match l1 with
           | [] -> None
           | a :: r ->
             (match dec_op c t a with
              | Some o ->
                (match dec_ops f r with
                 | Some os -> Some (o :: os)
                 | None -> None)
              | None -> None))))

(** val entry : z -> z list -> z list **)

let entry sub0 = function
| [] -> bADCASE :: []
| k :: r ->
  (match dec_ops (length r) r with
   | Some ops ->
     if Z.eqb sub0 Z0
     then run (dec_kind k) (empty, empty) ops
     else if Z.eqb sub0 (Zpos XH)
          then s_run (dec_kind k) (s_empty, s_empty) ops
          else bADCASE :: []
   | None -> bADCASE :: [])

(** val dispatch : z -> z -> z list -> z list **)

let dispatch p sub0 args =
  if Z.eqb p (Zpos (XO (XO (XO (XO XH))))) then entry sub0 args else []
