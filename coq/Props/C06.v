(* C06 — Trie Replace / ReplaceWithMask are total and rewrite exactly the matched regions.
   Property theorems only: each is closed by [exact] of a lemma from Proofs/, with Print Assumptions beneath.
   Scopes are [start, stop) byte intervals (Z * Z); [merge_scopes], [replace_go] are the executable model
   (Model/Trie.v) of mergeScopes and of Replace's re-assembly loop with checked slice expressions. *)
From Coq Require Import List ZArith Bool.
From V Require Import Model.Trie Proofs.TrieMerge Proofs.TrieReplace.
Import ListNotations.
Local Open Scope Z_scope.

(* mergeScopes (with the step back after a merge) terminates within its fuel on every stop-sorted list of non-empty
   scopes and yields disjoint increasing non-empty intervals with the same covered set; every input scope lies inside
   an output interval and every output interval contains an input scope *)
Theorem c06_merge_spec : forall sc, stop_sorted sc -> wf sc ->
  exists m, merge_scopes sc = Some m /\
    disj m /\ wf m /\
    (forall i, covered m i <-> covered sc i) /\
    (forall o, In o sc -> exists x, In x m /\ inside o x) /\
    (forall x, In x m -> exists o, In o sc /\ inside o x).
Proof. exact merge_spec. Qed.
Print Assumptions c06_merge_spec.

(* Replace's loop over the merged scopes never slices out of range (no panic, no fuel exhaustion) and returns the text
   with each merged interval replaced by one copy of repl *)
Theorem c06_replace_total : forall text repl sc,
  stop_sorted sc -> wf sc -> in_text (Z.of_nat (length text)) sc ->
  exists m, merge_scopes sc = Some m /\
    replace_go text repl 0 m [] = Some (splicez text repl 0 m) /\
    goodz 0 (Z.of_nat (length text)) m /\
    (forall i, covered m i <-> covered sc i) /\
    (forall o, In o sc -> exists x, In x m /\ inside o x) /\
    (forall x, In x m -> exists o, In o sc /\ inside o x).
Proof. exact replace_total. Qed.
Print Assumptions c06_replace_total.

(* the splice keeps exactly the uncovered bytes, in order (what remains when the replacement is empty) *)
Theorem c06_replace_keeps_uncovered : forall text m from, goodz from (Z.of_nat (length text)) m ->
  splicez text [] from m = uncovered m from (skipn (Z.to_nat from) text).
Proof. exact splice_uncovered. Qed.
Print Assumptions c06_replace_keeps_uncovered.

(* ---------------------------------------------------------------------------------------------------------------
   End to end on the executable model, for every pattern set and text (byte strings):
   [built ps T]: T is the table after Insert(p) for every p of ps and BuildFailureLinks;
   [occurrence ps text s e]: text[s:e] is a non-empty pattern of ps, s and e rune boundaries of the text. *)
From V Require Import Proofs.TrieRunes Proofs.TrieOcc Proofs.TrieTop Proofs.TrieReplaceTop.

(* Replace never panics (no out-of-range slice, no fuel exhaustion in find or mergeScopes): it returns the text with each
   merged region replaced by one copy of repl; the merged regions are disjoint, increasing, non-empty, inside the text,
   cover exactly the bytes covered by occurrences, each contains an occurrence, and every occurrence lies in one *)
Theorem c06_replace_end_to_end : forall ps text repl T, Forall is_bytes ps -> is_bytes text -> built ps T ->
  exists sc m, find T text = Ok sc /\ (forall s e, In (s, e) sc <-> occurrence ps text s e) /\
    merge_scopes sc = Some m /\
    replace T text repl = Ok (splicez text repl 0 m) /\
    goodz 0 (Z.of_nat (length text)) m /\
    (forall i, covered m i <-> covered sc i) /\
    (forall o, In o sc -> exists x, In x m /\ inside o x) /\
    (forall x, In x m -> exists o, In o sc /\ inside o x).
Proof. exact replace_correct. Qed.
Print Assumptions c06_replace_end_to_end.

(* ---------------------------------------------------------------------------------------------------------------
   ReplaceWithMask.  [uchunks text] is the list of the text's runes as byte chunks, the way RuneCountInString / range
   see them: each chunk is what utf8.DecodeRuneInString consumes next (an invalid byte is a chunk of its own);
   [off cs j] is the byte offset of rune j; [mask_spec mask m' 0 cs] replaces chunk j by the mask bytes when some
   rune-index scope of m' covers j ([ncov m' j]) and keeps it otherwise. *)
From V Require Import Lib.Utf8 Proofs.TrieMask Proofs.TrieMaskTop.
Local Close Scope Z_scope.

Theorem c06_runes_of_text : forall s, concat (uchunks s) = s /\ Forall (fun c => c <> []) (uchunks s) /\
  (s <> [] -> uchunks s = firstn (width s) s :: uchunks (skipn (width s) s)).
Proof. exact uchunks_facts. Qed.
Print Assumptions c06_runes_of_text.

(* the loop of ReplaceWithMask over any disjoint increasing non-empty rune-aligned scopes: never out of range, rune for rune
   the specification, rune count preserved *)
Theorem c06_replace_mask_loop : forall text mask m', ngood 0 (length (uchunks text)) m' ->
  mask_go text mask 0 (map (fun ab => (Z.of_nat (off (uchunks text) (fst ab)), Z.of_nat (off (uchunks text) (snd ab)))) m') []
  = Some (concat (mask_spec mask m' 0 (uchunks text))) /\
  length (mask_spec mask m' 0 (uchunks text)) = length (uchunks text).
Proof. exact mask_go_aligned. Qed.
Print Assumptions c06_replace_mask_loop.

(* end to end: ReplaceWithMask never panics; the result is the text with exactly the runes that lie inside at least one
   occurrence replaced by the mask rune (written as utf8.AppendRune writes it), every other rune unchanged; as many runes
   as before *)
Theorem c06_replace_mask_end_to_end : forall ps text mask T, Forall is_bytes ps -> is_bytes text -> built ps T ->
  let cs := uchunks text in
  exists m', replace_with_mask T text mask = Ok (concat (mask_spec (encode_rune mask) m' 0 cs)) /\
    length (mask_spec (encode_rune mask) m' 0 cs) = length cs /\
    (forall j, j < length cs ->
       (ncov m' j = true <-> exists s e, occurrence ps text s e /\ (s <= Z.of_nat (off cs j))%Z /\ (Z.of_nat (off cs (S j)) <= e)%Z)).
Proof. exact mask_correct. Qed.
Print Assumptions c06_replace_mask_end_to_end.

(* Replace puts one copy of repl per merged interval (c06_replace_total: splicez).  Inside any region [a, b) there are at
   most as many merged intervals as occurrences, and a maximal covered region contains at least one: between 1 and
   (number of occurrences in the region) copies, none elsewhere (uncovered bytes are kept: c06_replace_keeps_uncovered) *)
Theorem c06_copies_at_most : forall (sc m : list (Z * Z)) (a b : Z), disj m -> wf m -> wf sc ->
  (forall x, In x m -> exists o, In o sc /\ inside o x) ->
  length (filter (inR a b) m) <= length (filter (inR a b) sc).
Proof. exact copies_at_most. Qed.
Print Assumptions c06_copies_at_most.

Theorem c06_copies_at_least_one : forall (sc m : list (Z * Z)) (a b : Z), wf m -> (forall i, covered m i <-> covered sc i) ->
  (a < b)%Z -> (forall i, (a <= i < b)%Z -> covered sc i) -> ~ covered sc (a - 1)%Z -> ~ covered sc b ->
  exists x, In x m /\ inR a b x = true.
Proof. exact copies_at_least_one. Qed.
Print Assumptions c06_copies_at_least_one.

(* ---------------------------------------------------------------------------------------------------------------
   Refinement to what the run executes.  The judge Run/C06.v (sub 2) applies to the implementation's output is
   Model/TrieCase.c06_ok: Replace's output must parse as u0 repl^k1 u1 ... repl^kn un over the maximal covered regions
   ([regions], a byte scan over the specification's occurrence list [occs]) with 1 <= ki <= #occurrences inside region i
   ([segments], [replace_ok_go]); ReplaceWithMask's output must equal [spec_mask] (rune by rune over [tokens]). *)
From V Require Import Lib.Enc Model.TrieCase Proofs.TrieReplaceJudge Proofs.TrieReplaceJudgeTop.
Local Open Scope Z_scope.

(* byte level, any occurrence list oc and any intervals m: if m is disjoint, increasing, non-empty, inside the text, covers
   exactly what oc covers and each interval contains an occurrence (what c06_merge_spec / c06_replace_total establish), the
   executable parse accepts the splice *)
Theorem c06_judge_accepts_splice : forall text repl (oc : list (nat * nat)) m,
  goodz 0 (Z.of_nat (length text)) m ->
  (forall i, covered m i <-> covered (map TrieMask.zz oc) i) ->
  wf (map TrieMask.zz oc) ->
  (forall x, In x m -> exists o, In o (map TrieMask.zz oc) /\ inside o x) ->
  replace_ok_go repl (fst (segments text oc 0 (regions oc (length text)))) (snd (segments text oc 0 (regions oc (length text))))
    (splicez text repl 0 m) = true.
Proof. exact judge_replace_splice. Qed.
Print Assumptions c06_judge_accepts_splice.

(* for every pattern set and text (byte strings): Replace's output satisfies the judge's parse and ReplaceWithMask's output
   IS the specification's masked text, in the reading the judge selects (mode_of) *)
Theorem c06_model_satisfies_judge : forall ps text repl mask T, Forall is_bytes ps -> is_bytes text -> built ps T ->
  (exists o, replace T text repl = Ok o /\ spec_replace_ok (mode_of ps) ps text repl o = true) /\
  replace_with_mask T text mask = Ok (spec_mask (mode_of ps) ps text mask).
Proof. exact model_accepted. Qed.
Print Assumptions c06_model_satisfies_judge.

(* on the integer encoding: c06_ok answers true on c06_model's output for every case of the form
   Insert p1; ...; Insert pn; BuildFailureLinks; Replace / ReplaceWithMask text *)
Theorem c06_judge_accepts_model : forall ps text repl mask, Forall is_bytes ps -> is_bytes text ->
  let ops := map OInsert ps ++ [OBuild] in
  c06_ok ops text repl mask (c06_model ops text repl mask) = true.
Proof. exact judge_accepts_model. Qed.
Print Assumptions c06_judge_accepts_model.

(* ... and through the entry point the run calls: for every integer list that decodes as such a case, `entry 2` (the
   judge) answers 1 on the case followed by `entry 0`'s (the model's) output *)
Theorem c06_entry_judge_accepts_model : forall case ps text repl mask,
  Run.C06.dec_case case = Some (map OInsert ps ++ [OBuild], text, repl, mask) -> Forall is_bytes ps -> is_bytes text ->
  Run.C06.entry 2 (put_list case ++ put_list (Run.C06.entry 0 case)) = [1].
Proof. exact entry_accepts_model. Qed.
Print Assumptions c06_entry_judge_accepts_model.
