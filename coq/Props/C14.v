(* C14 — slicez set operations, in-place variants and FlexSlice match their definitions.
   Property theorems only: each is closed by [exact] of a lemma from Proofs/, with Print Assumptions beneath.

   Reading guide (Model/Slices.v, Model/Flex.v):
     mem                 a heap of arrays; a slice is a window (arr, off, len, cap) on one of them; array 0 is nil
     wfs m s             s lies inside its array (len <= cap, off + cap <= array length)
     slice_vals m s      the elements s shows
     go_xxx              the model of slicez.Xxx: None = the Go code would panic
     claimed dst s1      the dst layouts the property speaks about: dst shares no array with s1 (nil, own buffer of any
                         capacity, s2[:0]) or starts at s1's first element (s1[:0], s1, s1[:0:c])
     spec_diff / spec_intersect / filter / spec_unique_by (= first occurrences)      the definitions
     f_run / s_run       FlexSlice model (buffer + length; append capacity is an input) / plain sequence specification *)
From Coq Require Import List ZArith Bool Arith Permutation.
From V Require Import Model.Slices Model.Flex.
From V Require Import Proofs.SlicesBase Proofs.SlicesSel Proofs.SlicesInPlace Proofs.SlicesClamp Proofs.SlicesChunk
  Proofs.SlicesFuncs Proofs.SlicesCase Proofs.Flex Proofs.SlicesRun.
From V Require Lib.Enc Run.C14.
Import ListNotations.

(* ---------------------------------------------------------------- Diff / Intersect / Unique / UniqueByKey / Filter *)
(* for every heap, every s1, s2 and every claimed dst layout: no panic, and the returned slice shows exactly the
   selected elements of s1 in s1's order (s1's ORIGINAL content, also when dst is s1[:0] and s1 is overwritten) *)
Theorem c14_filter : forall p m dst s, wfs m s -> wfs m dst -> claimed dst s ->
  exists m' r, go_filter p m dst s = Some (m', r) /\ slice_vals m' r = filter p (slice_vals m s) /\ length m <= length m'.
Proof. exact go_filter_spec. Qed.
Print Assumptions c14_filter.

Theorem c14_diff : forall m dst s1 s2, wfs m s1 -> wfs m s2 -> wfs m dst -> claimed dst s1 ->
  exists m' r, go_diff m dst s1 s2 = Some (m', r) /\
    slice_vals m' r = filter (fun v => negb (memz v (slice_vals m s2))) (slice_vals m s1) /\ length m <= length m'.
Proof. exact go_diff_spec. Qed.
Print Assumptions c14_diff.

Theorem c14_intersect : forall m dst s1 s2, wfs m s1 -> wfs m s2 -> wfs m dst -> claimed dst s1 ->
  exists m' r, go_intersect m dst s1 s2 = Some (m', r) /\
    slice_vals m' r = filter (fun v => memz v (slice_vals m s2)) (slice_vals m s1) /\ length m <= length m'.
Proof. exact go_intersect_spec. Qed.
Print Assumptions c14_intersect.

(* Unique is the instance key = identity *)
Theorem c14_unique_by_key : forall key m dst s, wfs m s -> wfs m dst -> claimed dst s ->
  exists m' r, go_unique_by_key key m dst s = Some (m', r) /\ slice_vals m' r = firsts key [] (slice_vals m s) /\ length m <= length m'.
Proof. exact go_unique_by_key_spec. Qed.
Print Assumptions c14_unique_by_key.

(* what "first occurrences" is: keys pairwise different, only elements of the input, every input key represented *)
Theorem c14_first_occurrences : forall key l seen,
  NoDup (map key (firsts key seen l)) /\
  (forall v, In v (firsts key seen l) -> In v l /\ ~ In (key v) seen) /\
  (forall v, In v l -> In (key v) seen \/ In (key v) (map key (firsts key seen l))).
Proof. exact firsts_spec. Qed.
Print Assumptions c14_first_occurrences.
(* ... in the order of the input: the result is the input with some positions struck out *)
Theorem c14_first_occurrences_in_order : forall key l seen, exists keep : list bool,
  length keep = length l /\ firsts key seen l = map fst (filter snd (combine l keep)).
Proof. exact firsts_subseq. Qed.
Print Assumptions c14_first_occurrences_in_order.
(* the len(seen) trick of the Go loop ("count < len(seen) after inserting") keeps exactly the first occurrences *)
Theorem c14_len_seen_trick : forall key l seen, kept ustate (ustep key) (seen, length seen) l = firsts key seen l.
Proof. exact unique_kept. Qed.
Print Assumptions c14_len_seen_trick.

(* the aliased call dst = s[:0] (any dst starting at s's first element with room for s), for ANY of the loop bodies
   (step = the decision with its state): the result is still s's own memory at the same start, not longer than s,
   nothing was allocated -- the write cursor never overtook the read cursor -- and it shows what a pass over the
   original content keeps *)
Theorem c14_alias_write_behind_read : forall St step st m dst s, wfs m s -> wfs m dst ->
  arr dst = arr s -> off dst = off s -> len s <= cap dst ->
  exists m' r, sel_loop St step (len s) st m s (reslice0 dst) 0 = Some (m', r) /\
    arr r = arr s /\ off r = off s /\ len r <= len s /\ length m' = length m /\
    slice_vals m' r = kept St step st (slice_vals m s).
Proof. exact sel_alias_in_place. Qed.
Print Assumptions c14_alias_write_behind_read.

(* ---------------------------------------------------------------- the InPlace variants *)
(* no panic; the returned slice is the front of the argument and shows the definitional result IN ORDER (stronger than
   "same multiset"); the argument's window is a permutation of its original content; no array is added *)
Theorem c14_filter_in_place : forall p m s, wfs m s ->
  exists m' r, go_filter_in_place p m s = Some (m', r) /\ arr r = arr s /\ off r = off s /\ len r <= len s /\
    slice_vals m' r = filter p (slice_vals m s) /\ Permutation (slice_vals m' s) (slice_vals m s) /\ length m' = length m.
Proof. exact go_filter_in_place_spec. Qed.
Print Assumptions c14_filter_in_place.

Theorem c14_diff_in_place : forall m s1 s2, wfs m s1 -> wfs m s2 ->
  exists m' r, go_diff_in_place m s1 s2 = Some (m', r) /\ arr r = arr s1 /\ off r = off s1 /\ len r <= len s1 /\
    slice_vals m' r = filter (fun v => negb (memz v (slice_vals m s2))) (slice_vals m s1) /\
    Permutation (slice_vals m' s1) (slice_vals m s1) /\ length m' = length m.
Proof. exact go_diff_in_place_spec. Qed.
Print Assumptions c14_diff_in_place.

Theorem c14_intersect_in_place : forall m s1 s2, wfs m s1 -> wfs m s2 ->
  exists m' r, go_intersect_in_place m s1 s2 = Some (m', r) /\ arr r = arr s1 /\ off r = off s1 /\ len r <= len s1 /\
    slice_vals m' r = filter (fun v => memz v (slice_vals m s2)) (slice_vals m s1) /\
    Permutation (slice_vals m' s1) (slice_vals m s1) /\ length m' = length m.
Proof. exact go_intersect_in_place_spec. Qed.
Print Assumptions c14_intersect_in_place.

Theorem c14_unique_by_key_in_place : forall key m s, wfs m s ->
  exists m' r, go_unique_by_key_in_place key m s = Some (m', r) /\ arr r = arr s /\ off r = off s /\ len r <= len s /\
    slice_vals m' r = firsts key [] (slice_vals m s) /\ Permutation (slice_vals m' s) (slice_vals m s) /\ length m' = length m.
Proof. exact go_unique_by_key_in_place_spec. Qed.
Print Assumptions c14_unique_by_key_in_place.

(* the partition on the heap, for any loop body: besides the above, no other array and nothing outside s's window changes *)
Theorem c14_in_place_frame : forall St step st0 m s, wfs m s ->
  exists m' r, in_place St step st0 m s = Some (m', r) /\
    r = mkS (arr s) (off s) (length (kept St step st0 (slice_vals m s))) (cap s) /\
    slice_vals m' r = kept St step st0 (slice_vals m s) /\
    Permutation (slice_vals m' s) (slice_vals m s) /\
    wfs m' r /\ length m' = length m /\
    (forall a, a <> arr s -> arr_of m' a = arr_of m a) /\
    length (arr_of m' (arr s)) = length (arr_of m (arr s)) /\
    (forall o n, o + n <= off s \/ off s + len s <= o -> window (arr_of m' (arr s)) o n = window (arr_of m (arr s)) o n).
Proof. exact in_place_spec. Qed.
Print Assumptions c14_in_place_frame.

(* ---------------------------------------------------------------- Chunk / ChunkProcess *)
(* Chunk never panics, returns nil exactly for an empty slice, and its pieces (windows on s) are spec_chunks *)
Theorem c14_chunk : forall m s size, wfs m s ->
  exists ocap cs, go_chunk s size = Some ((len s =? 0), ocap, cs) /\
    map (slice_vals m) cs = spec_chunks size (slice_vals m s) /\ Forall (wfs m) cs.
Proof. exact go_chunk_spec. Qed.
Print Assumptions c14_chunk.
(* what spec_chunks is: concatenation = input, no empty piece, every piece but the last has the requested size,
   no piece is longer (for a size >= 1; a size < 1 gives the single piece) *)
Theorem c14_chunk_laws : forall (l : list Z) (size : Z),
  let cs := spec_chunks size l in
  concat cs = l /\ Forall (fun c => c <> []) cs /\
  ((1 <= size)%Z ->
     (forall i, i + 1 < length cs -> Z.of_nat (length (nth i cs [])) = size) /\
     (forall c, In c cs -> (Z.of_nat (length c) <= size)%Z)).
Proof. exact chunk_laws. Qed.
Print Assumptions c14_chunk_laws.
(* ChunkProcess with a callback that fails at its fail_at-th call (never, when fail_at is not in 1..number of chunks):
   the callback sees exactly the chunks, in order, up to and including the one it rejects; an error is returned iff it rejected one *)
Theorem c14_chunk_process : forall fail_at m s size, wfs m s ->
  let cs := spec_chunks size (slice_vals m s) in
  let failed := ((1 <=? fail_at) && (fail_at <=? Z.of_nat (length cs)))%Z in
  exists calls, go_chunk_process fail_at s size = Some (calls, failed) /\
    map (slice_vals m) calls = (if failed then firstn (Z.to_nat fail_at) cs else cs).
Proof. exact go_chunk_process_spec. Qed.
Print Assumptions c14_chunk_process.

(* ---------------------------------------------------------------- clamping: total for ALL integers *)
Theorem c14_subslice_total : forall m s start end_, wfs m s ->
  exists r, go_subslice s start end_ = Some r /\ wfs m r /\ slice_vals m r = spec_sub (slice_vals m s) start end_.
Proof. exact go_subslice_spec. Qed.
Print Assumptions c14_subslice_total.

Theorem c14_copy_total_fresh : forall m s start length, wfs m s ->
  exists m' r, go_copy m s start length = Some (m', r) /\
    slice_vals m' r = spec_copy (slice_vals m s) start length /\
    (r = nil_slice \/ arr r = List.length m) /\ (m' = m \/ exists x, m' = m ++ [x]).
Proof. exact go_copy_spec. Qed.
Print Assumptions c14_copy_total_fresh.

Theorem c14_values_fresh : forall fn m ss,
  let '(m', r) := go_values fn m ss in
  slice_vals m' r = map fn (concat (map (slice_vals m) ss)) /\ arr r = List.length m /\ (exists x, m' = m ++ [x]).
Proof. exact go_values_spec. Qed.
Print Assumptions c14_values_fresh.

Theorem c14_remove_total : forall m s index, wfs m s ->
  exists m' r v ok, go_remove m s index = Some (m', r, v, ok) /\
    (slice_vals m' r, v, ok) = spec_remove (slice_vals m s) index /\ wfs m' r /\
    List.length m' = List.length m /\
    (ok = false -> m' = m /\ r = s) /\
    (ok = true -> r = mkS (arr s) (off s) (Nat.pred (len s)) (cap s) /\ slice_vals m' s = slice_vals m' r ++ [0%Z]).
Proof. exact go_remove_spec. Qed.
Print Assumptions c14_remove_total.

Theorem c14_index_total : forall f m s, wfs m s -> go_index_func f m s = Some (find_index f (slice_vals m s) 0).
Proof. exact go_index_func_spec. Qed.
Print Assumptions c14_index_total.
(* find_index: position of the first element satisfying f, -1 when there is none *)
Theorem c14_index_is_first : forall f l, let r := find_index f l 0 in
  (r = (-1)%Z /\ forall x, In x l -> f x = false) \/
  ((0 <= r < Z.of_nat (length l))%Z /\ f (nth (Z.to_nat r) l 0%Z) = true /\ forall j, j < Z.to_nat r -> f (nth j l 0%Z) = false).
Proof. exact find_index_first. Qed.
Print Assumptions c14_index_is_first.
Theorem c14_contains_total : forall f m s, wfs m s -> go_contains_func f m s = Some (existsb f (slice_vals m s)).
Proof. exact go_contains_func_spec. Qed.
Print Assumptions c14_contains_total.
Theorem c14_equal_total : forall m s1 s2, wfs m s1 -> wfs m s2 ->
  go_equal m s1 s2 = Some (eqb_list (slice_vals m s1) (slice_vals m s2)).
Proof. exact go_equal_spec. Qed.
Print Assumptions c14_equal_total.
Theorem c14_eqb_list_is_equality : forall a b, eqb_list a b = true <-> a = b.
Proof. exact eqb_list_eq. Qed.
Print Assumptions c14_eqb_list_is_equality.

(* ---------------------------------------------------------------- FlexSlice *)
(* one operation: no panic, len <= cap kept, results and contents as the plain sequence says -- whatever capacity append reports *)
Theorem c14_flex_step : forall f o, fwf f ->
  exists f' res, f_step f o = Some (f', res) /\ fwf f' /\ (fvals f', res) = s_step (fvals f) o.
Proof. exact f_step_refines. Qed.
Print Assumptions c14_flex_step.
(* every operation sequence (Append / Prepend / Get / Remove / SubSlice / Pop / Shift / Len), every capacity oracle *)
Theorem c14_flex_refines_seq : forall ops f, fwf f ->
  exists g, f_run f ops = Some g /\
    map (fun o => (ob_res o, ob_vals o)) g = s_run (fvals f) ops /\
    Forall (fun o => (zlen (ob_vals o) <= ob_cap o)%Z) g.
Proof. exact flex_refines_seq. Qed.
Print Assumptions c14_flex_refines_seq.

(* ---------------------------------------------------------------- what the run executes *)
(* for every well-formed case (any arrays, any windows incl. overlapping ones, any integer arguments) the judge that the
   failing-input search applies to the implementation's output accepts the model's output *)
Theorem c14_judge_accepts_model : forall c, wf_case c = true -> judge c (run_case c) = true.
Proof. exact judge_model. Qed.
Print Assumptions c14_judge_accepts_model.
Theorem c14_flex_judge_accepts_model : forall ops f, fwf f -> flex_judge f ops (f_run f ops) = true.
Proof. exact flex_judge_model. Qed.
Print Assumptions c14_flex_judge_accepts_model.
(* the judge's multiset test is permutation *)
Theorem c14_perm_test : forall a b, perm_b a b = true <-> Permutation a b.
Proof. intros a b. split; [exact (perm_of_perm_b a b)|exact (perm_b_of_perm a b)]. Qed.
Print Assumptions c14_perm_test.

(* the same at the token level, for exactly the functions the OCaml driver runs: whatever list of integers decodes as a
   case, sub 0 prints the encoded outcome of the model and sub 2 (the judge) answers [1] on that output *)
Theorem c14_run_slices : forall args c, Run.C14.dec_case args = Some c ->
  Run.C14.entry 0 args = Run.C14.enc_out (run_case c) /\
  Run.C14.entry 2 (Lib.Enc.put_list args ++ Lib.Enc.put_list (Run.C14.entry 0 args)) = [1%Z].
Proof. exact entry_slices. Qed.
Print Assumptions c14_run_slices.
Theorem c14_run_flex : forall r f0 ops, Run.C14.dec_flex r = Some (f0, ops) ->
  Run.C14.entry 0 (Run.C14.F_FLEX :: r) = Run.C14.enc_fout (f_run f0 ops) /\
  Run.C14.entry 2 (Lib.Enc.put_list (Run.C14.F_FLEX :: r) ++ Lib.Enc.put_list (Run.C14.entry 0 (Run.C14.F_FLEX :: r))) = [1%Z].
Proof. exact entry_flex. Qed.
Print Assumptions c14_run_flex.
