(* C14 — placeholder while the proofs are moved in *)
From Coq Require Import List ZArith.
From V Require Import Model.Slices Model.Flex.
