(* C10 — Ring / SyncRing are bounded FIFOs when used from one goroutine, across growth and counter wrap.
   Property theorems only: each is closed by [exact] of a lemma from Proofs/, with Print Assumptions beneath.
   Models: Model/RingSeq.v (ring_case, step, recap, ...; fifo_case = the bounded-FIFO specification),
           Model/SyncRingSeq.v (sync_case, sinit, inject, sexec, init_cap; sfifo_case / spec_cap = specification).
   [hide] replaces the content of a Dump (internal state read through reflect) by WILD tokens: the specification
   constrains every other result exactly.  None / OutPanic = the Go code panics. *)
From Coq Require Import List ZArith Bool.
From V Require Import Model.RingSeq Model.SyncRingSeq Run.C10 Proofs.RingPure Proofs.RingSeq
  Proofs.SyncRingSeq Proofs.SyncRingCap Proofs.SyncRingRun Proofs.C10Entry
  Lib.GoSem Gen.RingCode Run.C10Code Proofs.RingCode
  Lib.GoSemRec Gen.SyncRingCode Run.C10SyncCode Proofs.SyncRingCode Proofs.SyncRingCodeRun.
Import ListNotations.
Local Open Scope Z_scope.

(* ---------------------------------------------------------------- Ring *)
(* every capacity (New panics for c <= 0 on both sides), every sequence of Push, Pop, Peek, Len, IsEmpty, IsFull, Cap,
   Recap c', PushWithExpand, Init c', Dump: the results are those of the bounded FIFO of that capacity *)
Theorem c10_ring_refines_fifo : forall c ops, option_map (map hide) (ring_case c ops) = fifo_case c ops.
Proof. exact ring_refines_fifo. Qed.
Print Assumptions c10_ring_refines_fifo.

(* every state reachable from New(c) by any operation sequence holds some queue q in the sense of Pure.Inv:
   0 < cap, |buffer| = cap, |q| <= cap, head = tail = -1 when q is empty, otherwise 0 <= head < cap,
   tail = (head + |q| - 1) mod cap and buffer[(head + j) mod cap] = q[j] — whatever the rotation *)
Theorem c10_ring_reachable_inv : forall c ops r,
  match init c with None => None | Some r0 => exec r0 ops end = Some r -> exists q, Pure.Inv r q.
Proof. exact reachable_inv. Qed.
Print Assumptions c10_ring_reachable_inv.

(* Recap succeeds exactly for positive capacities different from the current one and not below Len; it never panics,
   keeps content and order (the same q), and sets Cap only when it succeeds — for every head/tail offset *)
Theorem c10_recap_succeeds_iff : forall r q c, Pure.Inv r q ->
  exists r' b, RingSeq.recap r c = Some (r', b) /\
    (b = true <-> 0 < c /\ c <> cap r /\ RingSeq.len r <= c) /\
    RingSeq.len r = Z.of_nat (length q) /\ Pure.Inv r' q /\ cap r' = (if b then c else cap r).
Proof. exact recap_succeeds_iff. Qed.
Print Assumptions c10_recap_succeeds_iff.

Theorem c10_push_expand_appends : forall r q v, Pure.Inv r q ->
  exists r', RingSeq.push_expand r v = Some r' /\ Pure.Inv r' (q ++ [v]).
Proof. exact push_expand_appends. Qed.
Print Assumptions c10_push_expand_appends.

(* ---------------------------------------------------------------- SyncRing, one goroutine *)
(* NewSync(c) for 1 <= c <= 2^31, fresh or with head/tail/sequence numbers injected at ANY counter value n >= 0
   (2^32-k, 2^33+5, ...: the state n push/pop pairs produce, see c10_pairs_reach), then any sequence of Push, Pop,
   Len, IsEmpty, IsFull, Cap, Dump, PushWait/PopWait(0 or 1ns) of any length: never panics, results are those of
   the bounded FIFO of capacity spec_cap c.  (A re-Init of a used ring is outside the property, see notes/C10.md.) *)
Theorem c10_syncring_seq_refines_fifo : forall c inj ops,
  1 <= c <= 2 ^ 31 -> (forall n, inj = Some n -> 0 <= n) -> forallb (fun o => negb (is_init o)) ops = true ->
  exists l, sync_case c inj ops = Out l /\ Some (map hide l) = sfifo_case c ops.
Proof. exact syncring_seq_refines_fifo. Qed.
Print Assumptions c10_syncring_seq_refines_fifo.

(* closed form: any number of push/pop pairs (|vs| is not bounded: more than 2^32 included) from NewSync(c), or from
   an injected state, all succeed, pop what was pushed, and end in exactly the state the harness injects *)
Theorem c10_pairs_reach : forall c vs, 1 <= c <= 2 ^ 31 ->
  exists r0, sinit c = IOk r0 /\
    sexec r0 (pairs vs) = Some (inject r0 (Z.of_nat (length vs))) /\ srun r0 (pairs vs) = Out (pair_outs vs) /\
    forall n, 0 <= n -> sexec (inject r0 n) (pairs vs) = Some (inject r0 (n + Z.of_nat (length vs))) /\
                         srun (inject r0 n) (pairs vs) = Out (pair_outs vs).
Proof. exact pairs_reach. Qed.
Print Assumptions c10_pairs_reach.

(* Cap() = the smallest power of two >= max(2, requested), for requests up to 2^31 *)
Theorem c10_cap_rounding : forall c, 1 <= c <= 2 ^ 31 ->
  exists r k, sinit c = IOk r /\ 1 <= k <= 31 /\ scap r = 2 ^ k /\ Z.max 2 c <= 2 ^ k /\
              (forall j, 0 <= j -> Z.max 2 c <= 2 ^ j -> 2 ^ k <= 2 ^ j) /\ scap r = spec_cap c.
Proof. exact newsync_cap. Qed.
Print Assumptions c10_cap_rounding.

(* ... and refuted beyond (known finding F11): the computed capacity is 0 for every request in (2^31, 2^32) *)
Theorem c10_cap_rounding_refuted : forall c, 2 ^ 31 < c < 2 ^ 32 -> init_cap c = Some (Some 0).
Proof. exact cap_rounding_refuted. Qed.
Print Assumptions c10_cap_rounding_refuted.

(* ---------------------------------------------------------------- the tie to what the check executes *)
(* Run.C10.entry 0 = model output, entry 1 = specification output on the same integer case; out_match is the
   harness's comparison (a WILD token of the specification matches anything).  Ring: every case. *)
Theorem c10_entry_ring_spec_matches_model : forall c inj toks,
  out_match (entry 1 (0 :: c :: inj :: toks)) (entry 0 (0 :: c :: inj :: toks)) = true.
Proof. exact entry_ring_spec_matches_model. Qed.
Print Assumptions c10_entry_ring_spec_matches_model.

(* SyncRing (kind 1: fresh / injected counters; kind 2: honest pairs, closed form in the model): every case with
   1 <= c <= 2^31 whose operations contain no re-Init *)
Theorem c10_entry_sync_spec_matches_model : forall k c inj toks ops, k = 1 \/ k = 2 ->
  1 <= c <= 2 ^ 31 -> dec_ops dec_sop toks [] = Some ops -> forallb (fun o => negb (is_init o)) ops = true ->
  out_match (entry 1 (k :: c :: inj :: toks)) (entry 0 (k :: c :: inj :: toks)) = true.
Proof. exact entry_sync_spec_matches_model. Qed.
Print Assumptions c10_entry_sync_spec_matches_model.

(* ---------------------------------------------------------------- the code IS the model (third tie to the source) *)
(* Gen/RingCode.v is produced on every run by the Go -> Gallina translator gen/trans.go from the function BODIES of
   ringz/ring.go (type Ring, New and all ten methods) and of roundupPowOfTwo (ringz/sync.go).  Every generated function
   g_... equals the hand-written model function on which the theorems above rest, for all arguments and all states
   (to_model / of_model: the explicit bijection between the generated Record and the model's record; st_res,
   swap_res: Go returns (value, ok), the model (ok, value); lift: None = panic; lift_fuel: None = out of fuel).
   No precondition for Ring: the model already returns None where the code panics.  The loop: equal fuel for fuel to
   the model's loop for EVERY fuel and argument; with fuel 64 equal to the model's roundup on 0 <= x < 2^39 (the model's
   own fuel is 40; uint32 arguments are < 2^32), and fuel 64 never runs out below 2^63. *)
Theorem c10_code_is_model :
  (forall r c, g_Ring_Init r c = mmap of_model (lift (init c))) /\
  (forall c, g_New c = mmap of_model (lift (init c))) /\
  (forall r, g_Ring_IsEmpty r = Ret (is_empty (to_model r))) /\
  (forall r, g_Ring_IsFull r = lift (is_full (to_model r))) /\
  (forall r v, g_Ring_Push r v = mmap st_res (lift (push (to_model r) v))) /\
  (forall r, g_Ring_Pop r = mmap st_swap_res (lift (pop (to_model r)))) /\
  (forall r, g_Ring_Peek r = mmap swap_res (lift (peek (to_model r)))) /\
  (forall r v, g_Ring_PushWithExpand r v = mmap of_model (lift (push_expand (to_model r) v))) /\
  (forall r, g_Ring_Len r = Ret (len (to_model r))) /\
  (forall r, g_Ring_Cap r = Ret (cap (to_model r))) /\
  (forall r c, g_Ring_Recap r c = mmap st_res (lift (recap (to_model r) c))) /\
  (forall fuel x, g_roundupPowOfTwo fuel x =
                  lift_fuel (option_map (fun pos => u32 (Z.shiftl Gen.Ringz.roundup_base pos)) (bits_loop fuel x 0))) /\
  (forall x, 0 <= x < 2 ^ 39 -> g_roundupPowOfTwo 64 x = lift_fuel (roundup x)) /\
  (forall x, 0 <= x < 2 ^ 63 -> exists v, g_roundupPowOfTwo 64 x = Ret v).
Proof.
  exact (conj code_Init (conj code_New (conj code_IsEmpty (conj code_IsFull (conj code_Push (conj code_Pop (conj code_Peek
        (conj code_PushWithExpand (conj code_Len (conj code_Cap (conj code_Recap (conj code_roundup_fuel
        (conj code_roundup code_roundup_fuel64))))))))))))).
Qed.
Print Assumptions c10_code_is_model.

(* the case interpreter of the correspondence run, executed through the generated functions (Run/C10Code.v), gives the
   output of `entry` on every case: the differential run of entry 0 against the compiled package is a run of the
   generated code *)
Theorem c10_entry_runs_generated_code : forall sub args, entry_code sub args = entry sub args.
Proof. exact entry_code_is_entry. Qed.
Print Assumptions c10_entry_runs_generated_code.

(* ---------------------------------------------------------------- ... and so is SyncRing, read sequentially *)
(* Gen/SyncRingCode.v is produced on every run by the same translator from ringz/sync.go: types item and SyncRing,
   NewSync, Init (capacity switch, call of roundupPowOfTwo, slot numbering loop), IsEmpty, IsFull, Len, Cap, Push, Pop, and
   PushWait / PopWait up to their ticker loops.  atomic.LoadUint32 / StoreUint32 / CompareAndSwapUint32 are translated with
   their SEQUENTIAL meaning (plain read, plain write, compare-and-write returning the flag), runtime.Gosched() as nothing
   (gen/trans_seq.go, valid for ONE goroutine only: this is the model of C10, not of C01); uint32 arithmetic wraps.
   to_sring / of_sring: the explicit bijection between the generated Records (SyncRing, item) and the model's sring with
   slots (value, pos); sst_res / sst_swap_res: the state goes back through of_sring and Go returns (value, ok), the model
   (ok, value); ires_m: IPanic = Panic, INoFuel = NoFuel.
   Premise 0 <= mask (Push, Pop and the waits): the field is a uint32; the model indexes with Z.to_nat (pos land mask), the
   code checks 0 <= index, and the two agree exactly when the index cannot be negative.
   Init: for EVERY fuel the code equals init_fuel (the model's capacity switch and numbering with the fuel of the two loops
   explicit); with 64 <= fuel and fuel above the capacity the model computes, it equals the model's init_on; fuel 2^32
   suffices for every request.
   PushWait(v, w) / PopWait(w), for every w, every fuel and every remainder `rest` (the code from time.NewTicker on is not
   translated; it is a parameter): push_wait_model / pop_wait_model — w = 0: one attempt (the model's SPushWait v false /
   SPopWait false); w < 0: a failed attempt leaves the state unchanged and is repeated for ever (NoFuel for every fuel: from
   one goroutine PushWait(v, -1) on a full ring does not return); w > 0: one attempt, then the remainder. *)
Theorem c10_sync_code_is_model :
  (forall fuel r c, g_SyncRing_Init fuel r c = init_fuel fuel (SyncRing_head r) (SyncRing_tail r) c) /\
  (forall fuel r c, (64 <= fuel)%nat -> (forall c32, init_cap c = Some (Some c32) -> c32 < Z.of_nat fuel) ->
                    g_SyncRing_Init fuel r c = ires_m (init_on (SyncRing_head r) (SyncRing_tail r) c)) /\
  (forall fuel r c, 2 ^ 32 <= Z.of_nat fuel ->
                    g_SyncRing_Init fuel r c = ires_m (init_on (SyncRing_head r) (SyncRing_tail r) c)) /\
  (forall fuel c, g_NewSync fuel c = init_fuel fuel 0 0 c) /\
  (forall fuel c, (64 <= fuel)%nat -> (forall c32, init_cap c = Some (Some c32) -> c32 < Z.of_nat fuel) ->
                  g_NewSync fuel c = ires_m (sinit c)) /\
  (forall r, g_SyncRing_IsEmpty r = Ret (sis_empty (to_sring r))) /\
  (forall r, g_SyncRing_IsFull r = Ret (sis_full (to_sring r))) /\
  (forall r, g_SyncRing_Len r = Ret (slen (to_sring r))) /\
  (forall r, g_SyncRing_Cap r = Ret (scap (to_sring r))) /\
  (forall r v, 0 <= SyncRing_mask r -> g_SyncRing_Push r v = mmap sst_res (lift (spush (to_sring r) v))) /\
  (forall r, 0 <= SyncRing_mask r -> g_SyncRing_Pop r = mmap sst_swap_res (lift (spop (to_sring r)))) /\
  (forall fuel r v w rest, 0 <= SyncRing_mask r ->
     g_SyncRing_PushWait fuel r v w rest = push_wait_model fuel (to_sring r) v w rest) /\
  (forall fuel r w rest, 0 <= SyncRing_mask r ->
     g_SyncRing_PopWait fuel r w rest = pop_wait_model fuel (to_sring r) w rest).
Proof.
  exact (conj code_SyncInit_fuel (conj code_SyncInit (conj code_SyncInit_any (conj code_NewSync_fuel (conj code_NewSync
        (conj code_SyncIsEmpty (conj code_SyncIsFull (conj code_SyncLen (conj code_SyncCap (conj code_SyncPush (conj code_SyncPop
        (conj code_SyncPushWait code_SyncPopWait)))))))))))).
Qed.
Print Assumptions c10_sync_code_is_model.

(* the SyncRing cases of the correspondence run (kinds 1 and 2), executed through the generated functions
   (Run/C10SyncCode.v: NewSync, Push, Pop, Len, IsEmpty, IsFull, Cap, Init, PushWait / PopWait; the counter injection, the
   Dump and the remainder of the 1ns waits are the model's), give the output of `entry` on every case *)
Theorem c10_entry_runs_generated_sync_code : forall sub args, entry_sync_code sub args = entry sub args.
Proof. exact entry_sync_code_is_entry. Qed.
Print Assumptions c10_entry_runs_generated_sync_code.
