(* C19 — Limiter bounds concurrency, runs every task once and survives panics.
   Property theorems only; each is closed by [exact] of a lemma from Proofs/, with Print Assumptions beneath.
   Model (Model/Limiter.v): an event system over Submit / Start / Return / Panic / Cleanup / WaitReturn; [accepts s tr = Some s']
   says the real system can produce the event sequence tr from s (each event enabled in turn).  All statements quantify over
   every limit, every number of tasks, every accepted trace = every schedule of the submitting goroutines and the workers,
   and every pattern of returning / panicking tasks; [ids] is any duplicate-free universe containing the submitted ids. *)
From Coq Require Import List ZArith Bool.
From V Require Import Lib.Enc Gen.ConstsGoz Model.Limiter Run.C19 Proofs.Limiter Proofs.LimiterShape Proofs.LimiterRun Proofs.LimiterSim
  Proofs.LimiterJudgeTrace Proofs.LimiterJudgeSim Proofs.LimiterJudge Proofs.LimiterJudgeWait.
Import ListNotations.

(* the code still has the statement order the event model stands for (regenerated from goz.go on every run):
   Go = token, Add(1), go Recover(fn, handler, done); done = Done(), token back; Recover runs its cleanups in a deferred
   function after the recover() branch, without returning early; limit < 1 -> 3 *)
Theorem c19_code_shape : code_shape_ok = true.
Proof. exact code_shape. Qed.
Print Assumptions c19_code_shape.

(* a limit below 1 falls back to 3 *)
Theorem c19_fallback_limit : forall n, ((n < 1)%Z -> eff_limit n = 3) /\ ((1 <= n)%Z -> eff_limit n = Z.to_nat n).
Proof. exact eff_limit_spec. Qed.
Print Assumptions c19_fallback_limit.

(* at no instant are more than n functions running (a reachable state = the state after any accepted trace, hence after any prefix) *)
Theorem c19_bound : forall ids n tr s,
  NoDup ids -> (forall i, In (Submit i) tr -> In i ids) -> accepts (new_limiter n) tr = Some s ->
  running s ids <= tokens s /\ tokens s <= limit s /\ limit s = eff_limit n /\ (forall i, ~ In i ids -> tasks s i = Pending).
Proof. exact limiter_bound. Qed.
Print Assumptions c19_bound.
Theorem c19_bound_at_every_instant : forall ids n tr1 tr2 s,
  NoDup ids -> (forall i, In (Submit i) (tr1 ++ tr2) -> In i ids) -> accepts (new_limiter n) (tr1 ++ tr2) = Some s ->
  exists s1, accepts (new_limiter n) tr1 = Some s1 /\ running s1 ids <= eff_limit n.
Proof. exact limiter_bound_always. Qed.
Print Assumptions c19_bound_at_every_instant.

(* every submitted function is executed exactly once: the events about task i in an accepted trace are, in this order,
   Submit (1), Start (2), Return-or-Panic (3), Cleanup (4) — all four for a finished task, a prefix of them otherwise *)
Theorem c19_each_exactly_once : forall n tr s i, accepts (new_limiter n) tr = Some s -> tasks s i = Finished ->
  map ev_rank (filter (about i) tr) = [1; 2; 3; 4].
Proof. exact each_exactly_once. Qed.
Print Assumptions c19_each_exactly_once.
Theorem c19_each_at_most_once : forall n tr s i, accepts (new_limiter n) tr = Some s ->
  map ev_rank (filter (about i) tr) = firstn (rank (tasks s i)) [1; 2; 3; 4].
Proof. exact each_at_most_once. Qed.
Print Assumptions c19_each_at_most_once.

(* Wait() without timeout returns only after every function submitted before has finished *)
Theorem c19_wait_after_all : forall ids n tr1 tr2 s,
  NoDup ids -> (forall i, In (Submit i) tr1 -> In i ids) ->
  accepts (new_limiter n) (tr1 ++ WaitReturn :: tr2) = Some s ->
  exists s1, accepts (new_limiter n) tr1 = Some s1 /\ forall i, In (Submit i) tr1 -> tasks s1 i = Finished.
Proof. exact wait_after_all. Qed.
Print Assumptions c19_wait_after_all.

(* a panic reaches the handler and does not leak the slot *)
Theorem c19_panic_no_leak : forall ids n tr s i v,
  NoDup ids -> (forall j, In (Submit j) tr -> In j ids) -> accepts (new_limiter n) tr = Some s ->
  In (Panic i v) tr -> In (i, v) (handled s) /\ tokens s = active s ids /\ wg s = active s ids.
Proof. exact panic_no_leak. Qed.
Print Assumptions c19_panic_no_leak.
Theorem c19_panic_like_return : forall s i v s1 s2,
  step s (Panic i v) = Some s1 -> step s1 (Cleanup i) = Some s2 ->
  exists r1 r2, step s (Return i) = Some r1 /\ step r1 (Cleanup i) = Some r2 /\
    limit s2 = limit r2 /\ tokens s2 = tokens r2 /\ wg s2 = wg r2 /\ tasks s2 = tasks r2 /\ handled s2 = handled r2 ++ [(i, v)].
Proof. exact panic_like_return. Qed.
Print Assumptions c19_panic_like_return.
(* later submissions still obtain up to n concurrent slots: whatever happened before (any number of panics), as many fresh
   tasks as there are free slots can be submitted and started and are then running at the same time *)
Theorem c19_slots_come_back : forall ids n tr s l,
  NoDup ids -> (forall j, In (Submit j) tr -> In j ids) -> accepts (new_limiter n) tr = Some s ->
  NoDup l -> (forall i, In i l -> tasks s i = Pending) -> active s ids + length l <= eff_limit n ->
  exists s', accepts s (map Submit l ++ map Start l) = Some s' /\ running s' l = length l.
Proof. exact slots_come_back. Qed.
Print Assumptions c19_slots_come_back.

(* the acceptor the run applies to observed traces (Cleanup placed right after the end of a body) only accepts model traces,
   so every theorem above applies to every observed trace the run accepted *)
Theorem c19_observed_traces_are_model_traces : forall tr s k s', accept_obs s k tr = inl s' ->
  exists evs, expand tr = Some evs /\ accepts s evs = Some s'.
Proof. exact accept_obs_sound. Qed.
Print Assumptions c19_observed_traces_are_model_traces.

(* Recover: with the single non-panicking cleanup the Limiter passes, the cleanup runs exactly once, after fn, whatever fn does,
   and a panic value reaches the handler; in general the first cleanup always runs *)
Theorem c19_recover_flow : forall fn,
  recover_ fn [None] = RanFn :: (match fn with Some v => [Handler v] | None => [] end) ++ [CleanupRan 0] /\
  length (filter is_cleanup0 (recover_ fn [None])) = 1 /\
  (forall v, fn = Some v -> In (Handler v) (recover_ fn [None])).
Proof. exact limiter_flow. Qed.
Print Assumptions c19_recover_flow.
Theorem c19_first_cleanup_runs : forall fn c cs, In (CleanupRan 0) (recover_ fn (c :: cs)).
Proof. exact first_cleanup_runs. Qed.
Print Assumptions c19_first_cleanup_runs.
(* run family 2: model output = specification output for every case *)
Theorem c19_recover_model_is_spec : forall hnil fn cs, recover_out hnil fn cs = recover_spec_out hnil fn cs.
Proof. exact recover_model_is_spec. Qed.
Print Assumptions c19_recover_model_is_spec.

(* run family 0: for every limit and every script, the model's predicted observation (sub 0) is NOFUEL (never observed in a
   run: the implementation's output would differ) or the encoding of a trace the event model accepts step by step from
   new_limiter n, ending with a Wait that returns while no task is active and no token is taken — so every theorem above
   holds of every predicted trace *)
Theorem c19_simulate_is_model_trace : forall n ops,
  simulate n ops = [NOFUEL] \/
  exists tr fin s, simulate n ops = put_list (enc_trace tr) ++ fin /\
    accept_obs (new_limiter n) 0 tr = inl s /\ wg s = 0 /\ tokens s = 0 /\ ends_with_waitret tr = true.
Proof. exact simulate_is_model_trace. Qed.
Print Assumptions c19_simulate_is_model_trace.


(* run family 0, totality of the prediction: for every limit and every script — ANY list of integers: run_script ignores unknown op
   codes and a trailing odd element, takes kinds mod 7 and skips GO at 40 tasks, so no well-formedness premise is needed and nothing
   is excluded — the model's answer is never NOFUEL, and MAXTASKS rounds of drain (a third of the 3 * MAXTASKS it is given) already
   release every running task *)
Theorem c19_simulate_total : forall n ops,
  simulate n ops <> [NOFUEL] /\
  (forall f, MAXTASKS <= f -> s_act (drain f (run_script (sim0 n) ops)) = []).
Proof. exact simulate_total. Qed.
Print Assumptions c19_simulate_total.
Theorem c19_simulate_is_model_trace_total : forall n ops,
  exists tr fin s, simulate n ops = put_list (enc_trace tr) ++ fin /\
    accept_obs (new_limiter n) 0 tr = inl s /\ wg s = 0 /\ tokens s = 0 /\ ends_with_waitret tr = true.
Proof. exact simulate_model_trace_total. Qed.
Print Assumptions c19_simulate_is_model_trace_total.

(* run family 0, the judge accepts the model: the specification predicate that sub 2 applies to the implementation's observed
   output (no HANG, gauge <= limit after every event, every task exactly once and in order with RAISE answered by the handler,
   every WAITRET after all tasks submitted before its WAITCALL ended, final WAITRET, step-by-step acceptance with everything
   finished, and the three counters) accepts the model's own predicted output, for every limit and every script *)
Theorem c19_judge_accepts_model : forall n ops, spec_script n (simulate n ops) = true.
Proof. exact judge_accepts_model. Qed.
Print Assumptions c19_judge_accepts_model.
(* the same at token level, as Run.C19.entry computes it: for every integer list that is a family-0 case (wf_case: head 0, then
   the limit, then any script; it excludes only the other families and lists shorter than 2), sub 2 on the case paired with the
   sub 0 answer is [1], and the sub 0 answer is not NOFUEL *)
Theorem c19_judge_accepts_model_tokens : forall case, wf_case case = true ->
  entry 2 (put_list case ++ put_list (entry 0 case)) = [1%Z] /\ entry 0 case <> [NOFUEL].
Proof. exact judge_accepts_entry. Qed.
Print Assumptions c19_judge_accepts_model_tokens.

(* Wait(d) with a timeout, as two more events on top of the event model (evt / step_t / accepts_t; the Go method returns nothing,
   [ok] names the select branch taken): c19_wait_after_all extended — Wait() and the quit branch of Wait(d) stand only where every
   function submitted before has finished, in traces that may contain timeout events anywhere *)
Theorem c19_wait_after_all_with_timeout : forall ids n tr1 e tr2 s,
  NoDup ids -> (forall i, In (Ev (Submit i)) tr1 -> In i ids) ->
  e = Ev WaitReturn \/ e = WaitTimeoutReturn true ->
  accepts_t (new_limiter n) (tr1 ++ e :: tr2) = Some s ->
  exists s1, accepts_t (new_limiter n) tr1 = Some s1 /\ forall i, In (Ev (Submit i)) tr1 -> tasks s1 i = Finished.
Proof. exact wait_timeout_after_all. Qed.
Print Assumptions c19_wait_after_all_with_timeout.
(* the timer branch is enabled in every state (it implies nothing: here a task is still running), while in that state neither
   the quit branch nor Wait() can return *)
Theorem c19_wait_timeout_may_expire :
  (forall s, step_t s (WaitTimeoutReturn false) = Some s) /\
  (exists s, accepts_t (new_limiter 1) [Ev (Submit 0); Ev (Start 0); WaitTimeoutReturn false] = Some s /\ tasks s 0 = Running) /\
  accepts_t (new_limiter 1) [Ev (Submit 0); Ev (Start 0); WaitTimeoutReturn true] = None /\
  accepts_t (new_limiter 1) [Ev (Submit 0); Ev (Start 0); Ev WaitReturn] = None.
Proof. exact wait_timeout_may_expire. Qed.
Print Assumptions c19_wait_timeout_may_expire.
(* timeout events never change the state: the base events of an accepted trace are accepted by the event model with the same final
   state, so every theorem above applies to them; without timeout events acceptance is what it was *)
Theorem c19_wait_timeout_transparent :
  (forall tr s s', accepts_t s tr = Some s' -> accepts s (base_events tr) = Some s') /\
  (forall tr s, accepts_t s (map Ev tr) = accepts s tr).
Proof. exact wait_timeout_transparent. Qed.
Print Assumptions c19_wait_timeout_transparent.
