(* C15 placeholder *)
From Coq Require Import List ZArith Bool.
From V Require Import Model.Strconv Model.Hex.
Local Open Scope Z_scope.
Theorem c15_placeholder : word_bits = 64.
Proof. exact eq_refl. Qed.
Print Assumptions c15_placeholder.
