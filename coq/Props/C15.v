(* C15 — re-implemented standard routines agree with the Go standard library.
   Property theorems only: each is closed by [exact] of a lemma from Proofs/, with Print Assumptions beneath.
   Models: Model/Strconv.v (strz.ParseUint as in strz/std_strconv.go: 64-bit words, cutoff and wrap tests) and
   Model/Hex.v (hexEncode/hexDecode, hex.Decode(b, b) on one buffer, IPv4 helpers).  Their constants (maxUint64, base and
   bit-size bounds, the "+ 1" of the cutoff, hextable) are read from the Go source into Gen/StrzStd.v on every run.
   The digests, HMAC and base64 are calls into the standard library wrapped by HexEncode: a Section variable in the
   model, so the theorem about them is definitional and the weight is on the differential run against crypto/*. *)
From Coq Require Import List ZArith Bool.
From V Require Import Lib.Enc Gen.StrzStd Model.Strconv Model.StrconvGrammar Model.Hex Run.C15.
From V Require Import Proofs.StrconvLoop Proofs.StrconvGrammarUs Proofs.StrconvGrammarLit Proofs.StrconvGrammarInd Proofs.HexCodec Proofs.HexInPlace Proofs.StrzStdCase.
From V Require Import Lib.GoSem Gen.StrconvCode Run.C15Code Proofs.StrconvCode.
Import ListNotations.
Local Open Scope Z_scope.

(* ---------------------------------------------------------------- ParseUint *)
(* the digit loop on uint64 (cutoff = maxUint64/base + 1, `n1 < n` wrap test) = the unbounded left-to-right scan,
   for every base 2..36, every bit size 1..64, every text, from every reachable accumulator *)
Theorem c15_digit_loop_refines_spec : forall base0 base bits, 2 <= base <= 36 -> 1 <= bits <= 64 ->
  forall s n us, 0 <= n <= 2 ^ bits - 1 -> digit_loop base0 base bits s n us = spec_loop base0 base bits s n us.
Proof. exact loop_refines_spec. Qed.
Print Assumptions c15_digit_loop_refines_spec.

(* ParseUint = specification for EVERY text, EVERY base (also < 2, > 36, 0 with prefixes) and EVERY bit size:
   value, and which of the four error kinds *)
Theorem c15_parse_uint_refines_spec : forall s base bitSize, parse_uint s base bitSize = spec_parse_uint s base bitSize.
Proof. exact parse_uint_refines_spec. Qed.
Print Assumptions c15_parse_uint_refines_spec.

(* explicit base: success iff the text is non-empty, consists of digits of the base, and its positional value fits;
   the value returned is the positional value *)
Theorem c15_parse_uint_ok_explicit : forall s base bits n, 2 <= base <= 36 -> 1 <= bits <= 64 ->
  (parse_uint s base bits = POk n <->
   s <> [] /\ exists ds, digits_in base s = Some ds /\ value_from base ds 0 = n /\ n <= 2 ^ bits - 1).
Proof. exact parse_uint_ok_explicit. Qed.
Print Assumptions c15_parse_uint_ok_explicit.

(* ---------------------------------------------------------------- ParseUint against the declarative Go grammar *)
(* Model/StrconvGrammar.v is written independently of the code (explicit character ranges instead of `c | 32`, tokens =
   the groups between underscores, positional value, no state machine, no constant from the source) and was compared
   with the real strconv.ParseUint on 5.4 million texts before the proofs (notes/C15.md). *)

(* underscoreOK (the state machine ^ 0 _ !) accepts exactly the texts of the declarative separator rule: on the token
   structure (for every two neighbouring groups g "_" g': g ends with a digit, or is the empty first group behind a base
   prefix, and g' begins with a digit), and in the positional reading of the Go documentation (wherever the text is
   l ++ "_" ++ r, l ends with a digit or is empty behind a base prefix, and r begins with a digit).  [us_context] is
   the part of the text the rule speaks about: sign skipped, base prefix recognised, hex digits iff 0x. *)
Theorem c15_underscore_ok_characterised : forall s : list Z,
  let '(hex, pre, body) := us_context s in
  underscore_ok s = groups_separated hex pre (split_us body) /\
  (underscore_ok s = true <-> separators_only hex pre body).
Proof. exact underscore_ok_characterised. Qed.
Print Assumptions c15_underscore_ok_characterised.

(* the model of strz.ParseUint returns, for EVERY text, EVERY base and EVERY bit size, what the declarative grammar
   specification says: the value and which of the four error kinds (empty / base / bit size / first-of range-or-syntax
   from the left / misplaced underscore), PRange carrying 2^bits - 1 *)
Theorem c15_parse_uint_is_go_literal_grammar : forall s base bitSize, parse_uint s base bitSize = go_parse_uint s base bitSize.
Proof. exact parse_uint_is_grammar. Qed.
Print Assumptions c15_parse_uint_is_go_literal_grammar.

(* success as an inductive grammar in the style of the Go specification's EBNF (go_literal / sep_digits): ParseUint
   returns v without error iff the bit size is 0..64 and the text is a literal under the base argument — digits+ for an
   explicit base; for base 0 decimal, 0-octal, or 0b/0o/0x ["_"] digits, with single underscores between digits —
   whose positional value is v and fits the bit size *)
Theorem c15_parse_uint_ok_iff_literal : forall s base bitSize v,
  parse_uint s base bitSize = POk v <->
  0 <= bitSize <= 64 /\
  exists b ds, go_literal base s b ds /\ positional b ds = v /\ v <= 2 ^ (if bitSize =? 0 then 64 else bitSize) - 1.
Proof. exact parse_uint_ok_iff_literal. Qed.
Print Assumptions c15_parse_uint_ok_iff_literal.

Theorem c15_cutoff : forall base n, 2 <= base -> 0 <= n -> (cutoff base <= n <-> 2 ^ 64 <= n * base).
Proof. exact cutoff_spec. Qed.
Print Assumptions c15_cutoff.

(* ---------------------------------------------------------------- hex *)
(* hexDecode: decoded prefix, error kind and offending byte as encoding/hex specifies (first invalid character wins over
   odd length; the prefix is the complete pairs before it) *)
Theorem c15_hex_decode_spec : forall src, hex_decode src [] = hex_spec src.
Proof. exact hex_decode_is_spec. Qed.
Print Assumptions c15_hex_decode_spec.

Theorem c15_hex_encode_spec : forall src, hex_encode src = flat_map (fun b => [hexchar (b / 16); hexchar (b mod 16)]) src.
Proof. exact hex_encode_is_spec. Qed.
Print Assumptions c15_hex_encode_spec.

Theorem c15_hex_decode_encode : forall src acc, Forall (fun b => 0 <= b < 256) src -> hex_decode (hex_encode src) acc = (acc ++ src, NoErr).
Proof. exact decode_encode. Qed.
Print Assumptions c15_hex_decode_encode.

(* HexDecodeInPlace (one buffer, write cursor i, read cursor 2i): same prefix and error as the specification, the bytes
   behind the decoded prefix keep their old content *)
Theorem c15_hex_decode_inplace : forall buf,
  hex_decode_inplace buf = (fst (hex_spec buf) ++ skipn (length (fst (hex_spec buf))) buf, length (fst (hex_spec buf)), snd (hex_spec buf)).
Proof. exact inplace_spec. Qed.
Print Assumptions c15_hex_decode_inplace.

(* ---------------------------------------------------------------- IPv4 *)
Theorem c15_ipv4_roundtrip : forall x, 0 <= x < 2 ^ 32 -> ipv4_to_long (long_to_ipv4 x) = x.
Proof. exact ipv4_roundtrip. Qed.
Print Assumptions c15_ipv4_roundtrip.

(* ---------------------------------------------------------------- digests (thin: the primitive is a parameter) *)
Theorem c15_digest_helper_is_hex_of_digest : forall (H : Z -> list Z -> list Z) alg data,
  digest_helper H alg data = hex_encode (H alg data) /\
  forall chunks, digest_stream H alg chunks false = Some (digest_helper H alg (concat chunks)).
Proof. exact digest_helper_def. Qed.
Print Assumptions c15_digest_helper_is_hex_of_digest.

(* ---------------------------------------------------------------- the tie to what the check executes *)
(* for every case, what Run/C15.v computes as the model's output (sub 0) is what it computes as the specification's
   output (sub 1; for ParseUint the declarative grammar go_parse_uint): the check's comparison of the implementation
   with sub 1 is a comparison with the specification *)
Theorem c15_model_equals_spec : forall k a b l1 l2 tbl,
  (k = 10 -> 0 <= a < 2 ^ 32) -> run false k a b l1 l2 tbl = run true k a b l1 l2 tbl.
Proof. exact model_equals_spec. Qed.
Print Assumptions c15_model_equals_spec.

(* ---------------------------------------------------------------- the code itself, translated on every run *)
(* coq/Gen/StrconvCode.v is the Go -> Gallina translation (gen/trans*.go, gen/TRANSLATOR.md) of the CURRENT bodies of
   ParseUint (the byte-list instantiation of T ~string | ~[]byte), lower, underscoreOK (strz/std_strconv.go), hexEncode,
   hexDecode, fromHexChar (strz/std_hex.go) and the wrappers HexEncode, HexDecode (strz/enc.go).  Each generated function
   equals the hand-written model function the theorems above are about.  Conventions: uint64 / byte arithmetic wraps
   (wrap 64 / wrap 8), Go int is unbounded Z, a string or []byte is the list of its bytes, an error is its KIND (nil = 0;
   fmt.Errorf texts "invalid syntax" = 1, "value out of range" = 2, "invalid base" = 3, "invalid bit size" = 4 — the
   model's presult_kind —, "invalid byte" = 5 + 16 * the byte, hex.ErrLength = 6), a slice parameter written in place
   (dst) is returned in front of the results and is assumed not to share its array with src.
   - ParseUint: for EVERY text (any integers, not only bytes), base and bit size, and every fuel above len(s);
   - underscoreOK: for every text and every fuel above len(s);
   - hexEncode: for src bytes and 2 * len(src) <= len(dst): the text goes to the front of dst, the rest of dst is kept;
   - hexDecode: for every src, as soon as dst can take the decoded prefix; fuel above len(src) / 2;
   - HexEncode / HexDecode: make + the loop + dst[:n], no premise besides bytes (HexEncode) and fuel.
   Go's int is a 64-bit type: the translation is the code's behaviour as long as len(src) * 2 and j + 2 stay below 2^63,
   i.e. for len(src) < 2^62 (hexEncode) and every possible slice length (hexDecode, ParseUint: indices only). *)
Theorem c15_code_is_model :
  (forall c, g_lower c = Ret (lower c)) /\
  (forall c, g_fromHexChar c = Ret (match from_hex c with Some v => (v, true) | None => (0, false) end)) /\
  (forall fuel s, (length s < fuel)%nat -> g_underscoreOK fuel s = Ret (underscore_ok s)) /\
  (forall fuel s base bitSize, (length s < fuel)%nat ->
     g_ParseUint fuel s base bitSize = Ret (presult_val (parse_uint s base bitSize), presult_kind (parse_uint s base bitSize))) /\
  (forall fuel dst src, Forall (fun b => 0 <= b < 256) src -> (length src < fuel)%nat -> (2 * length src <= length dst)%nat ->
     g_hexEncode fuel dst src = Ret (hex_encode src ++ skipn (2 * length src) dst, zlen src * 2)) /\
  (forall fuel dst src, (length src < 2 * fuel)%nat -> (length (fst (hex_decode src [])) <= length dst)%nat ->
     g_hexDecode fuel dst src =
     Ret (fst (hex_decode src []) ++ skipn (length (fst (hex_decode src []))) dst,
          (zlen (fst (hex_decode src [])), herr_code (snd (hex_decode src []))))) /\
  (forall fuel s, Forall (fun b => 0 <= b < 256) s -> (length s < fuel)%nat -> g_HexEncode fuel s = Ret (hex_encode s)) /\
  (forall fuel s, (length s < 2 * fuel)%nat -> g_HexDecode fuel s = Ret (fst (hex_decode s []), herr_code (snd (hex_decode s [])))).
Proof.
  exact (conj code_lower (conj code_fromHexChar (conj code_underscoreOK (conj code_ParseUint (conj code_hexEncode
        (conj code_hexDecode (conj code_HexEncode code_HexDecode))))))).
Qed.
Print Assumptions c15_code_is_model.

(* the case interpreter of the correspondence run, kinds 0 (ParseUint), 1 (HexEncode), 2 (HexDecode) executed through the
   generated functions (Run/C15Code.v), gives the output of `entry` on every case: the differential run of entry 0 against
   the compiled package is, for these kinds, a run of the generated code *)
Theorem c15_entry_runs_generated_code : forall sub args, entry_code sub args = entry sub args.
Proof. exact entry_code_is_entry. Qed.
Print Assumptions c15_entry_runs_generated_code.
