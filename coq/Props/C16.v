(* C16 — Bits and Bitmap behave as sets of unsigned integers, incl. bulk operations.
   Property theorems only: each is closed by [exact] of a lemma from Proofs/, with Print Assumptions beneath.
   [mem set n] is the mathematical membership of n in the set the word array denotes (bit n mod 64 of word n / 64). *)
From Coq Require Import List NArith ZArith Bool Sorted.
From V Require Import Lib.Enc Model.Bits Proofs.BitsBasic Proofs.BitsIter Proofs.BitsBulk Proofs.BitsRefine Proofs.BitsEntry.
From V Require Run.C16.
Import ListNotations.
Local Open Scope N_scope.

(* Contains reports membership *)
Theorem c16_contains_is_membership : forall set n, contains set n = mem set n.
Proof. exact contains_mem. Qed.
Print Assumptions c16_contains_is_membership.

(* Add reports whether membership changed, makes exactly n a member, touches nothing else (growth included) *)
Theorem c16_add : forall set n,
  snd (add set n) = negb (mem set n) /\ forall m, mem (fst (add set n)) m = (N.eqb m n) || mem set m.
Proof. exact add_spec. Qed.
Print Assumptions c16_add.

Theorem c16_remove : forall set n,
  snd (remove set n) = mem set n /\ forall m, mem (fst (remove set n)) m = negb (N.eqb m n) && mem set m.
Proof. exact remove_spec. Qed.
Print Assumptions c16_remove.

(* Len (sum of population counts) is the cardinality: the length of the duplicate-free ascending list of exactly the members *)
Theorem c16_len_is_cardinality : forall set,
  let l := mlist 0 set in length l = len set /\ StronglySorted N.lt l /\ forall p, In p l <-> mem set p = true.
Proof. exact len_spec. Qed.
Print Assumptions c16_len_is_cardinality.

(* the cached length of setz.Bits / dsz.Bits moves with Add / Remove exactly as the cardinality does *)
Theorem c16_add_len : forall set n, len (fst (add set n)) = (len set + if snd (add set n) then 1 else 0)%nat.
Proof. exact add_len. Qed.
Print Assumptions c16_add_len.
Theorem c16_remove_len : forall set n, (len (fst (remove set n)) + if snd (remove set n) then 1 else 0)%nat = len set.
Proof. exact remove_len. Qed.
Print Assumptions c16_remove_len.

(* Iter from a fresh iterator: exactly the members, strictly ascending *)
Theorem c16_iter_enumerates : forall set,
  let l := drain (length set * 64 + 1) set {| wi := 0; bj := 0; rd := false |} in
  (forall p, In p l <-> mem set p = true) /\ StronglySorted N.lt l.
Proof. exact iter_enumerates. Qed.
Print Assumptions c16_iter_enumerates.

(* Diff / Intersect / Merge for receivers of any two word counts *)
Theorem c16_diff : forall b o m, mem (diff b o) m = mem b m && negb (mem o m).
Proof. exact diff_spec. Qed.
Print Assumptions c16_diff.
Theorem c16_intersect : forall b o m, mem (inter b o) m = mem b m && mem o m.
Proof. exact inter_spec. Qed.
Print Assumptions c16_intersect.
Theorem c16_merge : forall b o m, mem (merge b o) m = mem b m || mem o m.
Proof. exact merge_spec. Qed.
Print Assumptions c16_merge.

(* Grow never changes membership or Len; Cap is the least multiple of 64 covering the words allocated so far *)
Theorem c16_grow_cap_neutral : forall set n,
  (forall p, mem (grow set n) p = mem set p) /\ len (grow set n) = len set /\ cap (grow set n) = N.max (cap set) (need n).
Proof. exact grow_cap_neutral. Qed.
Print Assumptions c16_grow_cap_neutral.

(* Range / All (the double loop, callback returning false at its k-th call; k = 0: never) yield the first k values of what
   Iter yields; with c16_iter_enumerates: exactly the members, ascending, with early stop *)
Theorem c16_range_all : forall set k,
  enumerate_stop set k = match k with O => enumerate set | _ => firstn k (enumerate set) end.
Proof. exact range_all_spec. Qed.
Print Assumptions c16_range_all.

(* THE PROPERTY, sequence level: for each of the three types (kind = setz.Bits | setz.Bitmap | dsz.Bits) and EVERY operation
   sequence over two sets (Add, Remove, Contains, Len, Cap, Grow, Iter, Range/All with early stop, Diff, Intersect, Merge with the
   other set as operand, Clone into the other set), all observable outputs of the word-array model equal those of the
   mathematical-set specification (strictly ascending member list, s_insert / s_delete / filter / union; Model/Bits.v s_step).
   This is exactly what `sub 0` and `sub 1` of Run/C16.v execute. *)
Theorem c16_bits_refines_set : forall (k : kind) (ops : list op),
  run k (empty, empty) ops = s_run k (s_empty, s_empty) ops.
Proof. exact bits_refines_set. Qed.
Print Assumptions c16_bits_refines_set.

(* ... and therefore on every case of the correspondence run, whatever its integers: model output (sub 0) = specification output (sub 1) *)
Theorem c16_entry_model_eq_spec : forall args, Run.C16.entry 0 args = Run.C16.entry 1 args.
Proof. exact c16_entry_eq. Qed.
Print Assumptions c16_entry_model_eq_spec.
