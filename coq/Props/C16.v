(* C16 — Bits and Bitmap behave as sets of unsigned integers, incl. bulk operations.
   Property theorems only: each is closed by [exact] of a lemma from Proofs/, with Print Assumptions beneath.
   [mem set n] is the mathematical membership of n in the set the word array denotes (bit n mod 64 of word n / 64). *)
From Coq Require Import List NArith ZArith Bool Sorted.
From V Require Import Lib.Enc Model.Bits Proofs.BitsBasic Proofs.BitsIter Proofs.BitsBulk Proofs.BitsRefine Proofs.BitsEntry.
From V Require Run.C16.
From V Require Import Lib.GoSem Gen.BitsCode Proofs.BitsCode Proofs.BitsCodeRun.
From V Require Run.C16Code.
From V Require Gen.DszBitsCode Proofs.DszBitsCode.
Import ListNotations.
Local Open Scope N_scope.

(* Contains reports membership *)
Theorem c16_contains_is_membership : forall set n, contains set n = mem set n.
Proof. exact contains_mem. Qed.
Print Assumptions c16_contains_is_membership.

(* Add reports whether membership changed, makes exactly n a member, touches nothing else (growth included) *)
Theorem c16_add : forall set n,
  snd (add set n) = negb (mem set n) /\ forall m, mem (fst (add set n)) m = (N.eqb m n) || mem set m.
Proof. exact add_spec. Qed.
Print Assumptions c16_add.

Theorem c16_remove : forall set n,
  snd (remove set n) = mem set n /\ forall m, mem (fst (remove set n)) m = negb (N.eqb m n) && mem set m.
Proof. exact remove_spec. Qed.
Print Assumptions c16_remove.

(* Len (sum of population counts) is the cardinality: the length of the duplicate-free ascending list of exactly the members *)
Theorem c16_len_is_cardinality : forall set,
  let l := mlist 0 set in length l = len set /\ StronglySorted N.lt l /\ forall p, In p l <-> mem set p = true.
Proof. exact len_spec. Qed.
Print Assumptions c16_len_is_cardinality.

(* the cached length of setz.Bits / dsz.Bits moves with Add / Remove exactly as the cardinality does *)
Theorem c16_add_len : forall set n, len (fst (add set n)) = (len set + if snd (add set n) then 1 else 0)%nat.
Proof. exact add_len. Qed.
Print Assumptions c16_add_len.
Theorem c16_remove_len : forall set n, (len (fst (remove set n)) + if snd (remove set n) then 1 else 0)%nat = len set.
Proof. exact remove_len. Qed.
Print Assumptions c16_remove_len.

(* Iter from a fresh iterator: exactly the members, strictly ascending *)
Theorem c16_iter_enumerates : forall set,
  let l := drain (length set * 64 + 1) set {| wi := 0; bj := 0; rd := false |} in
  (forall p, In p l <-> mem set p = true) /\ StronglySorted N.lt l.
Proof. exact iter_enumerates. Qed.
Print Assumptions c16_iter_enumerates.

(* Diff / Intersect / Merge for receivers of any two word counts *)
Theorem c16_diff : forall b o m, mem (diff b o) m = mem b m && negb (mem o m).
Proof. exact diff_spec. Qed.
Print Assumptions c16_diff.
Theorem c16_intersect : forall b o m, mem (inter b o) m = mem b m && mem o m.
Proof. exact inter_spec. Qed.
Print Assumptions c16_intersect.
Theorem c16_merge : forall b o m, mem (merge b o) m = mem b m || mem o m.
Proof. exact merge_spec. Qed.
Print Assumptions c16_merge.

(* Grow never changes membership or Len; Cap is the least multiple of 64 covering the words allocated so far *)
Theorem c16_grow_cap_neutral : forall set n,
  (forall p, mem (grow set n) p = mem set p) /\ len (grow set n) = len set /\ cap (grow set n) = N.max (cap set) (need n).
Proof. exact grow_cap_neutral. Qed.
Print Assumptions c16_grow_cap_neutral.

(* Range / All (the double loop, callback returning false at its k-th call; k = 0: never) yield the first k values of what
   Iter yields; with c16_iter_enumerates: exactly the members, ascending, with early stop *)
Theorem c16_range_all : forall set k,
  enumerate_stop set k = match k with O => enumerate set | _ => firstn k (enumerate set) end.
Proof. exact range_all_spec. Qed.
Print Assumptions c16_range_all.

(* THE PROPERTY, sequence level: for each of the three types (kind = setz.Bits | setz.Bitmap | dsz.Bits) and EVERY operation
   sequence over two sets (Add, Remove, Contains, Len, Cap, Grow, Iter, Range/All with early stop, Diff, Intersect, Merge with the
   other set as operand, Clone into the other set), all observable outputs of the word-array model equal those of the
   mathematical-set specification (strictly ascending member list, s_insert / s_delete / filter / union; Model/Bits.v s_step).
   This is exactly what `sub 0` and `sub 1` of Run/C16.v execute. *)
Theorem c16_bits_refines_set : forall (k : kind) (ops : list op),
  run k (empty, empty) ops = s_run k (s_empty, s_empty) ops.
Proof. exact bits_refines_set. Qed.
Print Assumptions c16_bits_refines_set.

(* ... and therefore on every case of the correspondence run, whatever its integers: model output (sub 0) = specification output (sub 1) *)
Theorem c16_entry_model_eq_spec : forall args, Run.C16.entry 0 args = Run.C16.entry 1 args.
Proof. exact c16_entry_eq. Qed.
Print Assumptions c16_entry_model_eq_spec.

(* ---------------------------------------------------------------- the code IS the model (third tie to the source) *)
(* Gen/BitsCode.v is produced on every run by the Go -> Gallina translator gen/trans.go from the function BODIES of
   setz/bits.go, type Bitmap: Grow, Add, Remove, Contains, Len, Cap, Diff, Intersect, Merge, Clone.  Every generated function
   g_Bitmap_... equals the hand-written model function on which the theorems above rest.
   Conversion (Proofs/BitsCode.v): the generated code has Z words kept in [0, 2^64) by wrap 64, the model unbounded N words;
   to_model = map Z.to_N, of_model = map Z.of_N; wf b = every word of b is in [0, 2^64) (the range of []uint64), which every
   generated function preserves (last clause); uint arguments are Z with 0 <= n (no upper bound needed).  No other premise:
   the model is total and so is the code (none of these functions panics on a well-formed state).
   Loops (Len, Diff, Intersect, Merge): the model is a structural Fixpoint; the generated loop run with fuel above the number
   of iterations (length of the receiver's, for Merge of the operand's, word list) returns the model's result, so
   fuel = S (length ...) suffices for every state.  bits.OnesCount64 is ones_count 64 of Lib/GoSem.v (the number of set bits
   among positions 0..63: the standard-library function by its specification), proved equal to the model's popcount. *)
Theorem c16_code_is_model :
  (forall b n, wf b -> (0 <= n)%Z -> g_Bitmap_Grow b n = Ret (of_model (grow (to_model b) (Z.to_N n)))) /\
  (forall b n, wf b -> (0 <= n)%Z ->
     g_Bitmap_Add b n = Ret (of_model (fst (add (to_model b) (Z.to_N n))), snd (add (to_model b) (Z.to_N n)))) /\
  (forall b n, wf b -> (0 <= n)%Z ->
     g_Bitmap_Remove b n = Ret (of_model (fst (remove (to_model b) (Z.to_N n))), snd (remove (to_model b) (Z.to_N n)))) /\
  (forall b n, wf b -> (0 <= n)%Z -> g_Bitmap_Contains b n = Ret (contains (to_model b) (Z.to_N n))) /\
  (forall b, wf b -> g_Bitmap_Cap b = Ret (Z.of_N (cap (to_model b)))) /\
  (forall b, g_Bitmap_Clone b = Ret b) /\
  (forall fuel b, wf b -> (length (Bitmap_set b) < fuel)%nat -> g_Bitmap_Len fuel b = Ret (Z.of_nat (len (to_model b)))) /\
  (forall fuel b o, wf b -> wf o -> (length (Bitmap_set b) < fuel)%nat ->
     g_Bitmap_Diff fuel b o = Ret (of_model (diff (to_model b) (to_model o)))) /\
  (forall fuel b o, wf b -> wf o -> (length (Bitmap_set b) < fuel)%nat ->
     g_Bitmap_Intersect fuel b o = Ret (of_model (inter (to_model b) (to_model o)))) /\
  (forall fuel b o, wf b -> wf o -> (length (Bitmap_set o) < fuel)%nat ->
     g_Bitmap_Merge fuel b o = Ret (of_model (merge (to_model b) (to_model o)))) /\
  (forall b, wf b -> of_model (to_model b) = b) /\ (forall l, to_model (of_model l) = l) /\
  (forall b o n, wf b -> wf o ->
     wf (of_model (grow (to_model b) n)) /\ wf (of_model (fst (add (to_model b) n))) /\ wf (of_model (fst (remove (to_model b) n))) /\
     wf (of_model (diff (to_model b) (to_model o))) /\ wf (of_model (inter (to_model b) (to_model o))) /\
     wf (of_model (merge (to_model b) (to_model o)))).
Proof.
  exact (conj code_Grow (conj code_Add (conj code_Remove (conj code_Contains (conj code_Cap (conj code_Clone (conj code_Len
        (conj code_Diff (conj code_Intersect (conj code_Merge (conj of_to (conj to_of code_wf)))))))))))).
Qed.
Print Assumptions c16_code_is_model.

(* the case interpreter of the correspondence run, kind 1 (setz.Bitmap), executed through the generated functions
   (Run/C16Code.v: Add, Remove, Contains, Len, Cap, Grow, Diff, Intersect, Merge, Clone are the generated g_Bitmap_...; Iter /
   Range / All stay the model's enumeration of the generated state's words) gives the output of `entry` on every case:
   the differential run of entry 0 against the compiled package is, for kind 1, a run of the generated code *)
Theorem c16_entry_runs_generated_code : forall sub args, Run.C16Code.entry_code sub args = Run.C16.entry sub args.
Proof. exact entry_code_is_entry. Qed.
Print Assumptions c16_entry_runs_generated_code.

(* dsz/bits.go, type Bits (the deprecated twin with the length cached inline): Gen/DszBitsCode.v, regenerated on every run,
   equals the model's record functions b_add / b_remove (cached length moves exactly when membership changes), contains,
   grow, cap; Len is the cached field.  Same conversion (to_bits / of_bits: words through Z.to_N / Z.of_N, the cached
   length as it is), same premises (wfd: every word in [0, 2^64); 0 <= n), wfd preserved. *)
Theorem c16_dsz_code_is_model :
  (forall b n, DszBitsCode.wfd b -> (0 <= n)%Z ->
     Gen.DszBitsCode.g_Bits_Grow b n =
     Ret (DszBitsCode.of_bits {| words := grow (words (DszBitsCode.to_bits b)) (Z.to_N n); cached := cached (DszBitsCode.to_bits b) |})) /\
  (forall b n, DszBitsCode.wfd b -> (0 <= n)%Z ->
     Gen.DszBitsCode.g_Bits_Add b n = Ret (DszBitsCode.of_bits (fst (b_add (DszBitsCode.to_bits b) (Z.to_N n))))) /\
  (forall b n, DszBitsCode.wfd b -> (0 <= n)%Z ->
     Gen.DszBitsCode.g_Bits_Remove b n = Ret (DszBitsCode.of_bits (fst (b_remove (DszBitsCode.to_bits b) (Z.to_N n))))) /\
  (forall b n, DszBitsCode.wfd b -> (0 <= n)%Z ->
     Gen.DszBitsCode.g_Bits_Contains b n = Ret (contains (words (DszBitsCode.to_bits b)) (Z.to_N n))) /\
  (forall b, Gen.DszBitsCode.g_Bits_Len b = Ret (cached (DszBitsCode.to_bits b))) /\
  (forall b, DszBitsCode.wfd b -> Gen.DszBitsCode.g_Bits_Cap b = Ret (Z.of_N (cap (words (DszBitsCode.to_bits b))))) /\
  (forall b, DszBitsCode.wfd b -> DszBitsCode.of_bits (DszBitsCode.to_bits b) = b) /\
  (forall m, DszBitsCode.to_bits (DszBitsCode.of_bits m) = m) /\
  (forall b n, DszBitsCode.wfd b ->
     DszBitsCode.wfd (DszBitsCode.of_bits {| words := grow (words (DszBitsCode.to_bits b)) n; cached := cached (DszBitsCode.to_bits b) |}) /\
     DszBitsCode.wfd (DszBitsCode.of_bits (fst (b_add (DszBitsCode.to_bits b) n))) /\
     DszBitsCode.wfd (DszBitsCode.of_bits (fst (b_remove (DszBitsCode.to_bits b) n)))).
Proof.
  exact (conj DszBitsCode.dsz_Grow (conj DszBitsCode.dsz_Add (conj DszBitsCode.dsz_Remove (conj DszBitsCode.dsz_Contains
        (conj DszBitsCode.dsz_Len (conj DszBitsCode.dsz_Cap (conj DszBitsCode.of_to_bits (conj DszBitsCode.to_of_bits DszBitsCode.dsz_wf)))))))).
Qed.
Print Assumptions c16_dsz_code_is_model.
