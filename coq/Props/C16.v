(* C16 — Bits and Bitmap behave as sets of unsigned integers, incl. bulk operations.
   Property theorems only: each is closed by [exact] of a lemma from Proofs/, with Print Assumptions beneath.
   [mem set n] is the mathematical membership of n in the set the word array denotes (bit n mod 64 of word n / 64). *)
From Coq Require Import List NArith ZArith Bool Sorted.
From V Require Import Model.Bits Proofs.BitsBasic Proofs.BitsIter Proofs.BitsBulk.
Import ListNotations.
Local Open Scope N_scope.

(* Contains reports membership *)
Theorem c16_contains_is_membership : forall set n, contains set n = mem set n.
Proof. exact contains_mem. Qed.
Print Assumptions c16_contains_is_membership.

(* Add reports whether membership changed, makes exactly n a member, touches nothing else (growth included) *)
Theorem c16_add : forall set n,
  snd (add set n) = negb (mem set n) /\ forall m, mem (fst (add set n)) m = (N.eqb m n) || mem set m.
Proof. exact add_spec. Qed.
Print Assumptions c16_add.

Theorem c16_remove : forall set n,
  snd (remove set n) = mem set n /\ forall m, mem (fst (remove set n)) m = negb (N.eqb m n) && mem set m.
Proof. exact remove_spec. Qed.
Print Assumptions c16_remove.

(* Len (sum of population counts) is the cardinality: the length of the duplicate-free ascending list of exactly the members *)
Theorem c16_len_is_cardinality : forall set,
  let l := mlist 0 set in length l = len set /\ StronglySorted N.lt l /\ forall p, In p l <-> mem set p = true.
Proof. exact len_spec. Qed.
Print Assumptions c16_len_is_cardinality.

(* the cached length of setz.Bits / dsz.Bits moves with Add / Remove exactly as the cardinality does *)
Theorem c16_add_len : forall set n, len (fst (add set n)) = (len set + if snd (add set n) then 1 else 0)%nat.
Proof. exact add_len. Qed.
Print Assumptions c16_add_len.
Theorem c16_remove_len : forall set n, (len (fst (remove set n)) + if snd (remove set n) then 1 else 0)%nat = len set.
Proof. exact remove_len. Qed.
Print Assumptions c16_remove_len.

(* Iter from a fresh iterator: exactly the members, strictly ascending *)
Theorem c16_iter_enumerates : forall set,
  let l := drain (length set * 64 + 1) set {| wi := 0; bj := 0; rd := false |} in
  (forall p, In p l <-> mem set p = true) /\ StronglySorted N.lt l.
Proof. exact iter_enumerates. Qed.
Print Assumptions c16_iter_enumerates.

(* Diff / Intersect / Merge for receivers of any two word counts *)
Theorem c16_diff : forall b o m, mem (diff b o) m = mem b m && negb (mem o m).
Proof. exact diff_spec. Qed.
Print Assumptions c16_diff.
Theorem c16_intersect : forall b o m, mem (inter b o) m = mem b m && mem o m.
Proof. exact inter_spec. Qed.
Print Assumptions c16_intersect.
Theorem c16_merge : forall b o m, mem (merge b o) m = mem b m || mem o m.
Proof. exact merge_spec. Qed.
Print Assumptions c16_merge.
