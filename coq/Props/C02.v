(* C02 — SkipList and SkipListWithCmp behave as an ordered map.
   Property theorems only: each is closed by [exact] of a lemma from Proofs/, with Print Assumptions beneath.

   Model (Model/Skip.v, algorithm level): one key list per level, the code's three top-down searches, splice /
   unsplice per level, level growth and shrink, lazy initialisation, the zero value; the raw random words are an
   input [rnd].  [run vr s ops rnd] = Some results, or None when the Go code would panic.
   Specification: [s_run m ops] on a strictly sorted association list.  [erase] blanks the tower-height
   observation (RShape), which is not part of the ordered-map behaviour; every other result is compared exactly.
   [total_order cmp]: cmp a b = Eq -> a = b, cmp b a = CompOpp (cmp a b), Lt transitive. *)
From Coq Require Import List ZArith Bool Sorted.
From V Require Import Model.Skip Run.C02 Proofs.SkipLevel Proofs.SkipChain Proofs.SkipInst.
Import ListNotations.

(* SkipList, from the zero value: for every operation sequence (Init, Set, SetNx, SetX, Get, GetNode, node SetValue,
   Len, Head, Next-walk, Remove, Clear, Range, All, Keys, Values, RangeWithStart, RangeWithRange with arbitrary
   callbacks), every total-order comparator and every list of raw random words, the code does not panic and
   returns exactly what the sorted map returns. *)
Theorem c02_skip_refines_omap : forall (K V : Type) (cmp : K -> K -> comparison) (v0 : V), total_order K cmp ->
  forall (ops : list (op K V)) (rnd : list Z),
  exists rs, run K V cmp v0 Plain zero ops rnd = Some rs /\ map (erase K V) rs = map (erase K V) (s_run K V cmp [] ops).
Proof. exact skip_refines_omap. Qed.
Print Assumptions c02_skip_refines_omap.

(* SkipListWithCmp, from the zero value, for sequences in scope (cmp_scope: before the first Init no Set/SetNx —
   there is no comparator yet; every read, Clear, SetX, Remove, RangeWithStart/RangeWithRange included, is in scope) *)
Theorem c02_skipcmp_refines_omap : forall (K V : Type) (cmp : K -> K -> comparison) (v0 : V), total_order K cmp ->
  forall (ops : list (op K V)) (rnd : list Z), cmp_scope K V ops = true ->
  exists rs, run K V cmp v0 WithCmp zero ops rnd = Some rs /\ map (erase K V) rs = map (erase K V) (s_run K V cmp [] ops).
Proof. exact skipcmp_refines_omap. Qed.
Print Assumptions c02_skipcmp_refines_omap.

(* both variants, from any state satisfying the representation invariant: the list is the map [pairs s] *)
Theorem c02_refines_from_invariant : forall (K V : Type) (cmp : K -> K -> comparison) (v0 : V), total_order K cmp ->
  forall vr (s : sk K V) (ops : list (op K V)) (rnd : list Z), inv K V cmp s ->
  exists rs, run K V cmp v0 vr s ops rnd = Some rs /\
             map (erase K V) rs = map (erase K V) (s_run K V cmp (pairs K V cmp v0 s) ops).
Proof. exact skip_refines_from_inv. Qed.
Print Assumptions c02_refines_from_invariant.

(* a zero-value SkipList answers every method as the empty map, before and after Clear *)
Theorem c02_zero_value_is_empty : forall (K V : Type) (cmp : K -> K -> comparison) (v0 : V), total_order K cmp ->
  forall (o : op K V) (rnd : list Z),
  (exists r, run K V cmp v0 Plain zero [o] rnd = Some [r] /\ erase K V r = erase K V (snd (s_step K V cmp [] o))) /\
  (exists r, run K V cmp v0 Plain zero [OClear; o] rnd = Some [RUnit; r] /\ erase K V r = erase K V (snd (s_step K V cmp [] o))).
Proof. exact zero_value_is_empty. Qed.
Print Assumptions c02_zero_value_is_empty.

(* the representation invariant (every level strictly sorted, level j+1 a sub-chain of level j, nothing at or above
   `level`, 1 <= level <= maxLevel, len = number of keys at level 0, top level in use unless level = 1) holds after
   every sequence, for every tower height the random source can produce *)
Theorem c02_skip_inv : forall (K V : Type) (cmp : K -> K -> comparison) (v0 : V), total_order K cmp ->
  forall (ops : list (op K V)) (rnd : list Z),
  exists s', exec K V cmp v0 Plain zero ops rnd = Some s' /\ (s' = zero \/ inv K V cmp s').
Proof. exact skip_inv_plain. Qed.
Print Assumptions c02_skip_inv.
Theorem c02_skipcmp_inv : forall (K V : Type) (cmp : K -> K -> comparison) (v0 : V), total_order K cmp ->
  forall (ops : list (op K V)) (rnd : list Z),
  exists s', exec K V cmp v0 WithCmp fresh ops rnd = Some s' /\ inv K V cmp s'.
Proof. exact skip_inv_cmp. Qed.
Print Assumptions c02_skipcmp_inv.

(* the tower height read back by the harness (len(node.next)) is, in the model, the number of levels holding the
   node: under the invariant k is in level j exactly for j < height, 1 <= height <= level *)
Theorem c02_height_is_tower : forall (K V : Type) (cmp : K -> K -> comparison), total_order K cmp ->
  forall (s : sk K V) k, inv K V cmp s ->
  (forall j, (j < maxL)%nat -> In k (nth j (levels s) []) <-> (j < height K V cmp s k)%nat) /\
  (height K V cmp s k <= level s)%nat /\ (In k (keys0 K V s) -> (1 <= height K V cmp s k)%nat).
Proof. exact height_is_tower. Qed.
Print Assumptions c02_height_is_tower.

(* per operation, on any state satisfying the invariant *)
(* RangeWithStart: the callback is called on exactly the bindings with key >= start, ascending, up to and including
   the first one it rejects, whether or not start is present ([f] may depend on the call index, the key, the value) *)
Theorem c02_range_with_start : forall (K V : Type) (cmp : K -> K -> comparison) (v0 : V), total_order K cmp ->
  forall vr (s : sk K V) start f, inv K V cmp s ->
  range_start K V cmp v0 vr s start f = Some (visit K V f 0 (s_from K V cmp start (pairs K V cmp v0 s))).
Proof. exact range_with_start_spec. Qed.
Print Assumptions c02_range_with_start.
(* RangeWithRange: the user's callback sees exactly the bindings with key in [start, stop), up to its first rejection *)
Theorem c02_range_with_range : forall (K V : Type) (cmp : K -> K -> comparison) (v0 : V), total_order K cmp ->
  forall vr (s : sk K V) start stop f, inv K V cmp s ->
  range_range K V cmp v0 vr s start stop f = Some (visit K V f 0 (s_between K V cmp start stop (pairs K V cmp v0 s))).
Proof. exact range_with_range_spec. Qed.
Print Assumptions c02_range_with_range.
Theorem c02_get_node : forall (K V : Type) (cmp : K -> K -> comparison) (v0 : V), total_order K cmp ->
  forall (s : sk K V) key, inv K V cmp s ->
  get_node K V cmp v0 s key = Some (s_node K V cmp key (pairs K V cmp v0 s)).
Proof. exact get_node_spec. Qed.
Print Assumptions c02_get_node.
Theorem c02_remove : forall (K V : Type) (cmp : K -> K -> comparison) (v0 : V), total_order K cmp ->
  forall (s : sk K V) key, inv K V cmp s ->
  exists s' r, remove_ K V cmp v0 s key = Some (s', r) /\ inv K V cmp s' /\
    r = (match s_find K V cmp key (pairs K V cmp v0 s) with Some p => Some (snd p) | None => None end) /\
    pairs K V cmp v0 s' = s_remove K V cmp key (pairs K V cmp v0 s).
Proof. exact remove_spec. Qed.
Print Assumptions c02_remove.
Theorem c02_set : forall (K V : Type) (cmp : K -> K -> comparison) (v0 : V), total_order K cmp ->
  forall vr (s : sk K V) key val mode rnd, inv K V cmp s ->
  exists s' b rnd', set_ K V cmp vr s key val mode rnd = Some (s', b, rnd') /\ inv K V cmp s' /\
    let present := s_mem K V cmp key (pairs K V cmp v0 s) in
    b = (if present then negb (mode =? 2)%nat else negb (mode =? 1)%nat) /\
    pairs K V cmp v0 s' = (if (if present then (mode =? 2)%nat else (mode =? 1)%nat) then pairs K V cmp v0 s
                           else s_insert K V cmp key val (pairs K V cmp v0 s)).
Proof. exact set_spec. Qed.
Print Assumptions c02_set.

(* randomLevel with the constants of listz/skip.go: every raw word gives a height in 1..maxLevel *)
Theorem c02_random_level_range : forall w : Z, (1 <= random_level w <= maxL)%nat.
Proof. exact random_level_range. Qed.
Print Assumptions c02_random_level_range.

(* the premises are satisfiable: the comparators of the correspondence run are total orders *)
Theorem c02_run_instances_total :
  total_order Z (cmp_of 0) /\ total_order Z (cmp_of 1) /\ total_order Z (cmp_of 2) /\ total_order (list Z) lexcmp.
Proof. exact run_instances_total. Qed.
Print Assumptions c02_run_instances_total.
