(* C02 — placeholder, theorems follow *)
From V Require Import Model.Skip.
