(* C08 — AES-CBC/GCM helpers and PKCS#7 padding invert exactly and reject bad input.
   Property theorems only (each closed by [exact] of a lemma of Proofs/Aes*.v, Print Assumptions beneath).
   byte = Z, []byte = list Z.  The AES block functions E/D and the AEAD seal/open are the Go standard library:
   they are quantified variables here and every fact used about them is a visible premise.
   [res] = Ok v | Err code | Panic ("the Go code would panic here"). *)
From Coq Require Import List ZArith Bool Arith.
From V Require Import Lib.GoSem Lib.GoSemRec Gen.AesCode.
From V Require Import Lib.Enc Gen.Cryptz Model.Aes Proofs.AesPkcs7 Proofs.AesCbc Proofs.AesMem Proofs.AesRefine Run.C08 Run.C08Code Proofs.AesCode.
Import ListNotations.

(* ---- length helpers are exact (the `& blockSizeMask` arithmetic is `mod 16`) *)
Theorem c08_cbc_encrypt_len_exact : forall n,
  cbc_encrypt_len n = Z.of_nat (16 * (n / 16 + 1)) /\ cbc_encrypt_len n = Z.of_nat (n + (16 - n mod 16)).
Proof. exact cbc_encrypt_len_exact. Qed.
Print Assumptions c08_cbc_encrypt_len_exact.
Theorem c08_len_helpers_exact : forall n,
  cbc_decrypt_len n = Z.of_nat n /\ gcm_encrypt_len n = (Z.of_nat n + 16)%Z /\ gcm_decrypt_len n = (Z.of_nat n - 16)%Z.
Proof. exact len_helpers_exact. Qed.
Print Assumptions c08_len_helpers_exact.

(* ---- the table init() builds holds exactly the 17 PKCS#7 suffixes *)
Theorem c08_pad_table : forall n, n <= 16 -> nth_error pad_table n = Some (repeat (Z.of_nat n) n).
Proof. exact pad_table_spec. Qed.
Print Assumptions c08_pad_table.

(* ---- AESCBCEncrypt writes exactly AESCBCEncryptLen bytes: the CBC chain over plaintext ++ k bytes of value k *)
Theorem c08_cbc_encrypt_spec : forall (E : bytes -> bytes -> bytes),
  (forall k b, good_key k = true -> length b = 16 -> length (E k b) = 16) ->
  forall (D : bytes -> bytes -> bytes), (forall k b, good_key k = true -> length b = 16 -> D k (E k b) = b) ->
  forall dst plain key iv, good_key key = true -> length iv = 16 ->
  Z.of_nat (length dst) = cbc_encrypt_len (length plain) ->
  let k := 16 - length plain mod 16 in
  cbc_encrypt E dst plain key iv = Ok (cbc_enc_bytes E key iv (pkcs7_padded plain k)) /\
  length (cbc_enc_bytes E key iv (pkcs7_padded plain k)) = length dst.
Proof. intros E El D DE. exact (cbc_encrypt_spec E D DE El). Qed.
Print Assumptions c08_cbc_encrypt_spec.

(* ---- AESCBCDecrypt (AESCBCEncrypt p) = p for every plaintext length, incl. 0 and multiples of 16 *)
Theorem c08_cbc_roundtrip : forall (E D : bytes -> bytes -> bytes),
  (forall k b, good_key k = true -> length b = 16 -> D k (E k b) = b) ->
  (forall k b, good_key k = true -> length b = 16 -> length (E k b) = 16) ->
  forall dst dst2 plain key iv, good_key key = true -> length iv = 16 ->
  Z.of_nat (length dst) = cbc_encrypt_len (length plain) -> length dst2 = length dst ->
  exists c, cbc_encrypt E dst plain key iv = Ok c /\ length c = length dst /\
  exists d, cbc_decrypt D dst2 c key iv = Ok (length plain, d) /\ firstn (length plain) d = plain.
Proof. exact cbc_roundtrip. Qed.
Print Assumptions c08_cbc_roundtrip.

(* ---- AESCBCDecrypt never panics (16-byte IV, destination at least as long as the ciphertext), for every ciphertext,
        key and block function; what it accepts is correctly padded; illegal lengths and key sizes are errors *)
Theorem c08_cbc_decrypt_never_panics : forall (D : bytes -> bytes -> bytes) dst ct key iv,
  length iv = 16 -> length ct <= length dst -> cbc_decrypt D dst ct key iv <> Panic.
Proof. exact cbc_decrypt_total. Qed.
Print Assumptions c08_cbc_decrypt_never_panics.
Theorem c08_cbc_decrypt_sound : forall (D : bytes -> bytes -> bytes) dst ct key iv n d,
  cbc_decrypt D dst ct key iv = Ok (n, d) ->
  good_key key = true /\ 16 <= length ct /\ length ct mod 16 = 0 /\ length d = length dst /\
  exists k, 1 <= k <= 16 /\ n + k = length d /\ skipn n d = repeat (Z.of_nat k) k.
Proof. exact cbc_decrypt_sound. Qed.
Print Assumptions c08_cbc_decrypt_sound.
Theorem c08_cbc_key_size_errors : forall (E D : bytes -> bytes -> bytes) dst x key iv, good_key key = false ->
  cbc_encrypt E dst x key iv = Err E_NEWCIPHER /\ exists e, cbc_decrypt D dst x key iv = Err e.
Proof. exact cbc_key_size_errors. Qed.
Print Assumptions c08_cbc_key_size_errors.
Theorem c08_cbc_ct_length_errors : forall (D : bytes -> bytes -> bytes) dst ct key iv,
  length ct < 16 \/ length ct mod 16 <> 0 -> cbc_decrypt D dst ct key iv = Err E_CTLEN.
Proof. exact cbc_ct_length_errors. Qed.
Print Assumptions c08_cbc_ct_length_errors.

(* ---- un-padding inside CBC decryption (table version), on any buffer CBC can hand it (>= 16 bytes) *)
Theorem c08_unpad_tbl_never_panics : forall d, 16 <= length d -> unpad_tbl d <> Panic.
Proof. exact unpad_tbl_never_panics. Qed.
Print Assumptions c08_unpad_tbl_never_panics.
Theorem c08_unpad_tbl_sound_complete : forall d n, 16 <= length d ->
  (unpad_tbl d = Ok n <-> exists k, 1 <= k <= 16 /\ n + k = length d /\ skipn n d = repeat (Z.of_nat k) k).
Proof. exact unpad_tbl_sound_complete. Qed.
Print Assumptions c08_unpad_tbl_sound_complete.

(* ---- standalone PKCS7Padding / PKCS7UnPadding *)
Theorem c08_pkcs7_roundtrip : forall d bs, d <> [] -> (1 <= bs <= 255)%Z ->
  exists pd, pkcs7_pad d bs = Ok pd /\ pkcs7_unpad pd bs = Ok d.
Proof. exact pkcs7_unpad_pad. Qed.
Print Assumptions c08_pkcs7_roundtrip.
Theorem c08_pkcs7_pad_spec : forall d bs, d <> [] -> (1 <= bs <= 255)%Z ->
  pkcs7_pad d bs = Ok (pkcs7_padded d (spec_pad_len (length d) (Z.to_nat bs))).
Proof. exact pkcs7_pad_spec. Qed.
Print Assumptions c08_pkcs7_pad_spec.
Theorem c08_pkcs7_never_panics : forall d bs, pkcs7_pad d bs <> Panic /\ pkcs7_unpad d bs <> Panic.
Proof. intros d bs. exact (conj (pkcs7_pad_never_panics d bs) (pkcs7_unpad_never_panics d bs)). Qed.
Print Assumptions c08_pkcs7_never_panics.
Theorem c08_pkcs7_unpad_sound_complete : forall d bs r, (1 <= bs)%Z -> Forall is_byte d ->
  (pkcs7_unpad d bs = Ok r <->
   exists k, 1 <= k /\ (Z.of_nat k <= bs)%Z /\ d = r ++ repeat (Z.of_nat k) k /\ (length d mod Z.to_nat bs = 0)%nat).
Proof. exact pkcs7_unpad_sound_complete. Qed.
Print Assumptions c08_pkcs7_unpad_sound_complete.
Theorem c08_pkcs7_guards : forall d bs,
  (d = [] \/ (bs <= 0)%Z) -> (exists e, pkcs7_pad d bs = Err e) /\ (exists e, pkcs7_unpad d bs = Err e).
Proof. exact pkcs7_guards. Qed.
Print Assumptions c08_pkcs7_guards.

(* ---- GCM: round trip under the library facts open(seal) = Some and |seal| = |p| + 16; no acceptance path of its
        own; tamper evidence only relative to an explicit ideal-AEAD premise; key sizes; never panics *)
Theorem c08_gcm_roundtrip : forall (seal : bytes -> bytes -> bytes -> bytes -> bytes) (open : bytes -> bytes -> bytes -> bytes -> option bytes),
  (forall k n p a, good_key k = true -> n <> [] -> open k n (seal k n p a) a = Some p) ->
  (forall k n p a, length (seal k n p a) = length p + 16) ->
  forall dst dst2 plain key nonce ad, good_key key = true -> nonce <> [] ->
  Z.of_nat (length dst) = gcm_encrypt_len (length plain) ->
  Z.of_nat (length dst2) = gcm_decrypt_len (length dst) ->
  gcm_encrypt seal dst plain key nonce ad = Ok (seal key nonce plain ad) /\
  gcm_decrypt open dst2 (seal key nonce plain ad) key nonce ad = Ok plain.
Proof. exact gcm_roundtrip. Qed.
Print Assumptions c08_gcm_roundtrip.
Theorem c08_gcm_decrypt_only_if_open : forall (open : bytes -> bytes -> bytes -> bytes -> option bytes) dst ct key nonce ad r,
  gcm_decrypt open dst ct key nonce ad = Ok r ->
  good_key key = true /\ nonce <> [] /\ exists p, open key nonce ct ad = Some p.
Proof. exact gcm_decrypt_only_if_open. Qed.
Print Assumptions c08_gcm_decrypt_only_if_open.
Theorem c08_gcm_tamper_relative : forall (seal : bytes -> bytes -> bytes -> bytes -> bytes) (open : bytes -> bytes -> bytes -> bytes -> option bytes)
  dst key nonce plain ad nonce' ct' ad',
  (forall n c a p, open key n c a = Some p -> (n, c, a) = (nonce, seal key nonce plain ad, ad)) ->
  (nonce', ct', ad') <> (nonce, seal key nonce plain ad, ad) ->
  exists e, gcm_decrypt open dst ct' key nonce' ad' = Err e.
Proof. exact gcm_tamper_relative. Qed.
Print Assumptions c08_gcm_tamper_relative.
Theorem c08_gcm_never_panics : forall (seal : bytes -> bytes -> bytes -> bytes -> bytes) (open : bytes -> bytes -> bytes -> bytes -> option bytes)
  dst x key nonce ad, gcm_encrypt seal dst x key nonce ad <> Panic /\ gcm_decrypt open dst x key nonce ad <> Panic.
Proof. exact gcm_never_panics. Qed.
Print Assumptions c08_gcm_never_panics.
Theorem c08_gcm_key_size_errors : forall (seal : bytes -> bytes -> bytes -> bytes -> bytes) (open : bytes -> bytes -> bytes -> bytes -> option bytes)
  dst x key nonce ad, good_key key = false ->
  gcm_encrypt seal dst x key nonce ad = Err E_NEWCIPHER /\ gcm_decrypt open dst x key nonce ad = Err E_NEWCIPHER.
Proof. exact gcm_key_size_errors. Qed.
Print Assumptions c08_gcm_key_size_errors.

(* ---- destination and source sharing memory: the memory-level functions (one backing array, (offset, length) views;
        what the correspondence run executes) equal the functional ones framed by the untouched bytes.
        [lift f r] maps f over an Ok result.  CBC encryption: for EVERY placement of the source inside the array
        (copy is memmove, CryptBlocks runs in place on dst), hence in particular for separate buffers and for the
        documented pre-grown plaintext. *)
Theorem c08_alias_cbc_encrypt_any_placement : forall (E : bytes -> bytes -> bytes),
  (forall k b, good_key k = true -> length b = 16 -> length (E k b) = 16) ->
  forall (A dst Bt : bytes) soff slen key iv, let m := A ++ dst ++ Bt in
  soff + slen <= length m ->
  cbc_encrypt_mem E m (length A) (length dst) soff slen key iv =
    lift (fun d => A ++ d ++ Bt) (cbc_encrypt E dst (mread m soff slen) key iv).
Proof. exact cbc_encrypt_mem_frame. Qed.
Print Assumptions c08_alias_cbc_encrypt_any_placement.
Theorem c08_alias_cbc_encrypt_in_place : forall (E : bytes -> bytes -> bytes),
  (forall k b, good_key k = true -> length b = 16 -> length (E k b) = 16) ->
  forall (A plain spare Bt : bytes) key iv,
  cbc_encrypt_mem E (A ++ (plain ++ spare) ++ Bt) (length A) (length (plain ++ spare)) (length A) (length plain) key iv =
    lift (fun d => A ++ d ++ Bt) (cbc_encrypt E (plain ++ spare) plain key iv).
Proof. exact cbc_encrypt_in_place. Qed.
Print Assumptions c08_alias_cbc_encrypt_in_place.
(* CBC decryption: every placement CryptBlocks accepts (same start, or no overlap) *)
Theorem c08_alias_cbc_decrypt : forall (D : bytes -> bytes -> bytes),
  (forall k b, good_key k = true -> length b = 16 -> length (D k b) = 16) ->
  forall (A dst Bt : bytes) soff slen key iv, let m := A ++ dst ++ Bt in
  soff + slen <= length m -> inexact_overlap (length A) slen soff slen = false ->
  cbc_decrypt_mem D m (length A) (length dst) soff slen key iv =
    lift (fun x => (fst x, A ++ snd x ++ Bt)) (cbc_decrypt D dst (mread m soff slen) key iv).
Proof. exact cbc_decrypt_mem_frame. Qed.
Print Assumptions c08_alias_cbc_decrypt.
Theorem c08_alias_cbc_decrypt_in_place : forall (D : bytes -> bytes -> bytes),
  (forall k b, good_key k = true -> length b = 16 -> length (D k b) = 16) ->
  forall (A ct Bt : bytes) key iv,
  cbc_decrypt_mem D (A ++ ct ++ Bt) (length A) (length ct) (length A) (length ct) key iv =
    lift (fun x => (fst x, A ++ snd x ++ Bt)) (cbc_decrypt D ct ct key iv).
Proof. exact cbc_decrypt_in_place. Qed.
Print Assumptions c08_alias_cbc_decrypt_in_place.
Theorem c08_alias_cbc_decrypt_separate : forall (D : bytes -> bytes -> bytes),
  (forall k b, good_key k = true -> length b = 16 -> length (D k b) = 16) ->
  forall (A dst Mid ct Post : bytes) key iv, length ct <= length dst ->
  cbc_decrypt_mem D (A ++ dst ++ Mid ++ ct ++ Post) (length A) (length dst) (length (A ++ dst ++ Mid)) (length ct) key iv =
    lift (fun x => (fst x, A ++ snd x ++ Mid ++ ct ++ Post)) (cbc_decrypt D dst ct key iv).
Proof. exact cbc_decrypt_disjoint. Qed.
Print Assumptions c08_alias_cbc_decrypt_separate.
(* GCM *)
Theorem c08_alias_gcm_encrypt : forall (seal : bytes -> bytes -> bytes -> bytes -> bytes),
  (forall k n p a, length (seal k n p a) = length p + 16) ->
  forall (A dst Bt : bytes) soff slen key nonce ad, let m := A ++ dst ++ Bt in
  soff + slen <= length m -> (slen + 16 <= length dst -> inexact_overlap (length A) slen soff slen = false) ->
  gcm_encrypt_mem seal m (length A) (length dst) soff slen key nonce ad =
    lift (fun d => A ++ d ++ Bt) (gcm_encrypt seal dst (mread m soff slen) key nonce ad).
Proof. exact gcm_encrypt_mem_frame. Qed.
Print Assumptions c08_alias_gcm_encrypt.
Theorem c08_alias_gcm_encrypt_in_place : forall (seal : bytes -> bytes -> bytes -> bytes -> bytes),
  (forall k n p a, length (seal k n p a) = length p + 16) ->
  forall (A plain spare Bt : bytes) key nonce ad,
  gcm_encrypt_mem seal (A ++ (plain ++ spare) ++ Bt) (length A) (length (plain ++ spare)) (length A) (length plain) key nonce ad =
    lift (fun d => A ++ d ++ Bt) (gcm_encrypt seal (plain ++ spare) plain key nonce ad).
Proof. exact gcm_encrypt_in_place. Qed.
Print Assumptions c08_alias_gcm_encrypt_in_place.
Theorem c08_alias_gcm_decrypt_in_place : forall (open : bytes -> bytes -> bytes -> bytes -> option bytes),
  (forall k n c a p, open k n c a = Some p -> length c = length p + 16) ->
  forall (A body tag Bt : bytes) key nonce ad, length tag = 16 ->
  gcm_decrypt_mem open (A ++ body ++ tag ++ Bt) (length A) (length body) (length A) (length (body ++ tag)) key nonce ad =
    lift (fun d => A ++ d ++ tag ++ Bt) (gcm_decrypt open body (body ++ tag) key nonce ad).
Proof. exact gcm_decrypt_in_place. Qed.
Print Assumptions c08_alias_gcm_decrypt_in_place.
Theorem c08_alias_gcm_decrypt_separate : forall (open : bytes -> bytes -> bytes -> bytes -> option bytes),
  (forall k n c a p, open k n c a = Some p -> length c = length p + 16) ->
  forall (A dst Mid ct Post : bytes) key nonce ad, length ct <= length dst + 16 ->
  gcm_decrypt_mem open (A ++ dst ++ Mid ++ ct ++ Post) (length A) (length dst) (length (A ++ dst ++ Mid)) (length ct) key nonce ad =
    lift (fun d => A ++ d ++ Mid ++ ct ++ Post) (gcm_decrypt open dst ct key nonce ad).
Proof. exact gcm_decrypt_disjoint. Qed.
Print Assumptions c08_alias_gcm_decrypt_separate.

(* ---- refinement: for EVERY case the model's output passes the judge [spec_ok] (what `sub 2` of Run/C08 applies to
        the implementation's output), provided the library's whole-message CBC is the SP 800-38A chain over the block
        function.  [op_wf]: the bytes handed to the un-padding routines are bytes (0..255), and a case marked
        "corrupted, must be rejected" is one the library's Open rejects. *)
Theorem c08_model_meets_spec : forall (E D : bytes -> bytes -> bytes)
  (seal : bytes -> bytes -> bytes -> bytes -> bytes) (open : bytes -> bytes -> bytes -> bytes -> option bytes)
  (std_enc std_dec : bytes -> bytes -> bytes -> bytes),
  (forall k b, good_key k = true -> length b = 16 -> D k (E k b) = b) ->
  (forall k b, good_key k = true -> length b = 16 -> length (E k b) = 16) ->
  (forall k b, good_key k = true -> length b = 16 -> length (D k b) = 16) ->
  (forall k n c a p, open k n c a = Some p -> length c = length p + 16) ->
  (forall k iv d, good_key k = true -> length iv = 16 -> length d mod 16 = 0 -> std_enc k iv d = cbc_enc_bytes E k iv d) ->
  (forall k iv d, good_key k = true -> length iv = 16 -> length d mod 16 = 0 -> std_dec k iv d = cbc_dec_bytes D k iv d) ->
  forall o, op_wf open o -> spec_ok std_enc std_dec seal open o (run_op E D seal open o) = true.
Proof. exact model_meets_spec. Qed.
Print Assumptions c08_model_meets_spec.

(* ---- the tie between the Go code and the model above, re-established on every run.
   Gen/AesCode.v is the translation of the CURRENT bodies of golib's own code in cryptz/aes.go — the init() that builds
   prePadPatterns, the four length helpers, pkcs7UnPadding, AESCBCEncrypt / AESCBCDecrypt / AESGCMEncrypt / AESGCMDecrypt and
   PKCS7Padding / PKCS7UnPadding / PKCS5Padding / PKCS5UnPadding — gen/trans.go + gen/trans_ext08.go, see gen/TRANSLATOR.md.
   The Go standard library is not translated: the generated functions take it as a parameter, instantiated here with
   [std E D seal open] (Run/C08Code.v): bytes.Repeat / Equal, aes.NewCipher (key sizes), NewCBCEncrypter / Decrypter (IV
   length panic), CryptBlocks (whole blocks, dst at least as long as src, the SP 800-38A chain over E / D written over the
   front of dst), NewGCMWithNonceSize (zero nonce size), Seal / Open appending to dst[:0] inside dst when it is long
   enough — what Model/Aes.v itself assumes, for ALL block functions E D and all seal / open.
   Each generated function equals the hand-written model function the theorems above are about:
   - init(), run on the zero value of the [17][]byte table with fuel f, for every f: NoFuel below 18 (17 patterns, 18 loop
     tests), from 18 on exactly the model's pad_table;
   - the length helpers, for every byte string; pkcs7UnPadding on that table, for every buffer: (n, nil) / (0, err) / panic
     as unpad_tbl says Ok n / Err / Panic (int_res);
   - the four buffer functions at the model's functional level (dst and src separate values; c08_alias_* above tie it to
     the memory level): they return (final dst, results); view_dst compares the buffer on success and the error code
     otherwise (the model does not say what dst holds after an error).  AESCBCEncrypt: up to CryptBlocks without any
     premise (cbc_encrypt_prep, then the chain copied over dst); equal to cbc_encrypt when E returns 16-byte blocks - the
     premise of c08_cbc_encrypt_spec (the model writes the chain without looking at its length);
   - PKCS7Padding / PKCS7UnPadding / PKCS5*: (bytes, nil) / (nil, err) / panic as the model says (bytes_res), for every
     data and every int block size. *)
Theorem c08_code_is_model : forall (E D : bytes -> bytes -> bytes)
  (seal : bytes -> bytes -> bytes -> bytes -> bytes) (open : bytes -> bytes -> bytes -> bytes -> option bytes),
  let X := std E D seal open in
  (forall fuel, g_init_prePadPatterns fuel X g0_prePadPatterns = if 18 <=? fuel then Ret pad_table else NoFuel) /\
  (forall p, g_AESCBCEncryptLen p = Ret (cbc_encrypt_len (length p))) /\
  (forall p, g_AESCBCDecryptLen p = Ret (cbc_decrypt_len (length p))) /\
  (forall p, g_AESGCMEncryptLen p = Ret (gcm_encrypt_len (length p))) /\
  (forall p, g_AESGCMDecryptLen p = Ret (gcm_decrypt_len (length p))) /\
  (forall d, g_pkcs7UnPadding X pad_table d = int_res (unpad_tbl d)) /\
  (forall dst plain key iv,
     mmap view_dst (g_AESCBCEncrypt X pad_table dst plain key iv) =
     dst_res (match cbc_encrypt_prep dst plain key iv with
              | Ok d2 => Ok (copy_into d2 (cbc_enc_bytes E key iv d2)) | Err e => Err e | Panic => Panic end)) /\
  ((forall k b, good_key k = true -> length b = 16 -> length (E k b) = 16) -> forall dst plain key iv,
     mmap view_dst (g_AESCBCEncrypt X pad_table dst plain key iv) = dst_res (cbc_encrypt E dst plain key iv)) /\
  (forall dst ct key iv,
     mmap view_dst_n (g_AESCBCDecrypt X pad_table dst ct key iv) = dst_n_res (cbc_decrypt D dst ct key iv)) /\
  (forall dst plain key nonce ad,
     mmap view_dst (g_AESGCMEncrypt X dst plain key nonce ad) = dst_res (gcm_encrypt seal dst plain key nonce ad)) /\
  (forall dst ct key nonce ad,
     mmap view_dst (g_AESGCMDecrypt X dst ct key nonce ad) = dst_res (gcm_decrypt open dst ct key nonce ad)) /\
  (forall d bs, g_PKCS7Padding X d bs = bytes_res (pkcs7_pad d bs)) /\
  (forall d bs, g_PKCS7UnPadding X d bs = bytes_res (pkcs7_unpad d bs)) /\
  (forall d, g_PKCS5Padding X d = bytes_res (pkcs5_pad d)) /\
  (forall d, g_PKCS5UnPadding X d = bytes_res (pkcs5_unpad d)).
Proof.
  intros E D seal open X.
  exact (conj (code_init_fuel E D seal open) (conj (code_AESCBCEncryptLen E D seal open) (conj (code_AESCBCDecryptLen E D seal open) (conj (code_AESGCMEncryptLen E D seal open)
        (conj (code_AESGCMDecryptLen E D seal open) (conj (code_pkcs7UnPadding E D seal open) (conj (code_AESCBCEncrypt_prep E D seal open)
        (conj (code_AESCBCEncrypt E D seal open) (conj (code_AESCBCDecrypt E D seal open) (conj (code_AESGCMEncrypt E D seal open)
        (conj (code_AESGCMDecrypt E D seal open) (conj (code_PKCS7Padding E D seal open) (conj (code_PKCS7UnPadding E D seal open)
        (conj (code_PKCS5Padding E D seal open) (code_PKCS5UnPadding E D seal open))))))))))))))).
Qed.
Print Assumptions c08_code_is_model.

(* the case interpreter of the correspondence run with the value operations (length helpers, PKCS7 / PKCS5 padding and
   un-padding) executed through the generated functions (Run/C08Code.v) gives the output of `entry` on every case: on those
   kinds the differential run of entry 0 against the compiled package is a run of the generated code *)
Theorem c08_entry_runs_generated_code : forall sub args, entry_code sub args = entry sub args.
Proof. exact entry_code_is_entry. Qed.
Print Assumptions c08_entry_runs_generated_code.
