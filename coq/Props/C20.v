(* C20 — randz identifiers, random strings, count generator.
   Property theorems only: each is closed by [exact] of a lemma from Proofs/Randz*.v, with Print Assumptions beneath.
   The model (Model/Randz.v) follows randz/id.go, str.go, count.go; all its numeric constants (alphabet, table size,
   init-loop bound, marker, radix, randBit clamps, time mask, 63, BKDR seed/mask) are read from the Go source into
   Gen/Randz.v on every run, so a changed constant re-checks every proof below. *)
From Coq Require Import List ZArith Bool.
From V Require Import Lib.Enc Lib.Utf8 Gen.Randz Model.Randz.
From V Require Import Proofs.RandzBase32 Proofs.RandzId Proofs.RandzStr Proofs.RandzCount Proofs.RandzCase.
From V Require Import Lib.GoSem Gen.RandzCode Proofs.RandzCode Run.C20 Run.C20Code.
Import ListNotations.
Local Open Scope Z_scope.

(* ---------------------------------------------------------------- ParseBase32 / Base32 *)
(* ParseBase32 (256-entry table built as init() builds it, int64 accumulation) = the positional specification:
   every byte must be one of the 32 alphabet characters, the value is the positional value (as int64) *)
Theorem c20_parse_refines_spec : forall s, Forall (fun c => 0 <= c < 256) s -> parse_base32 s = spec_parse s.
Proof. exact parse_refines_spec. Qed.
Print Assumptions c20_parse_refines_spec.

(* ErrInvalidBase32 for every input containing a byte outside the alphabet — any of the 256 byte values, any position *)
Theorem c20_parse_rejects_non_alphabet : forall s,
  Forall (fun c => 0 <= c < 256) s -> (exists c, In c s /\ in_alphabet c = false) -> parse_base32 s = None.
Proof. exact parse_rejects_non_alphabet. Qed.
Print Assumptions c20_parse_rejects_non_alphabet.

Theorem c20_parse_accepts_alphabet : forall s,
  Forall (fun c => 0 <= c < 256) s -> (forall c, In c s -> in_alphabet c = true) -> exists v, parse_base32 s = Some v.
Proof. exact parse_accepts_alphabet. Qed.
Print Assumptions c20_parse_accepts_alphabet.

(* for every non-negative ID: Base32 does not panic, its text is THE base-32 numeral of the id over the alphabet
   (only alphabet characters, positional value id, no leading zero digit), and ParseBase32 reads it back *)
Theorem c20_base32_roundtrip : forall id, 0 <= id < 2 ^ 63 ->
  exists s, base32 id = Some s /\ numeral_ok g_base32_alphabet 32 s id = true /\ parse_base32 s = Some id.
Proof. exact base32_numeral. Qed.
Print Assumptions c20_base32_roundtrip.

(* Base2 / Base36 / String: the digit loop modelled for strconv.FormatInt yields the standard numeral (bases 2..36) *)
Theorem c20_format_int_numeral : forall base v, 2 <= base <= 36 -> 0 <= v < 2 ^ 63 ->
  numeral_ok std_digits base (format_int base v) v = true.
Proof. exact format_int_numeral. Qed.
Print Assumptions c20_format_int_numeral.

(* ---------------------------------------------------------------- IdGenerator *)
(* (ms & timeMask) << randBit | rnd: non-negative, below 2^63, time field = elapsed ms mod 2^41 above the random bits,
   random part intact — for every randBit argument (clamped as NewIdGenerator does), every elapsed time (also negative) *)
Theorem c20_id_layout : forall ms rnd rb, 0 <= rnd < 2 ^ clamp_bits rb ->
  0 <= id_of ms rnd rb < 2 ^ 63 /\
  id_of ms rnd rb / 2 ^ clamp_bits rb = ms mod 2 ^ 41 /\
  id_of ms rnd rb mod 2 ^ clamp_bits rb = rnd.
Proof. exact id_layout. Qed.
Print Assumptions c20_id_layout.

Theorem c20_randbit_clamped : forall rb, 2 <= clamp_bits rb <= 22.
Proof. exact clamp_range. Qed.
Print Assumptions c20_randbit_clamped.

(* ids taken at least a millisecond apart (inside one 2^41-ms epoch) increase, whatever the random parts *)
Theorem c20_id_monotone : forall ms1 ms2 r1 r2 rb, ms1 < ms2 -> ms1 / 2 ^ 41 = ms2 / 2 ^ 41 ->
  0 <= r1 < 2 ^ clamp_bits rb -> 0 <= r2 < 2 ^ clamp_bits rb -> id_of ms1 r1 rb < id_of ms2 r2 rb.
Proof. exact id_monotone. Qed.
Print Assumptions c20_id_monotone.

(* the judge run on the real generator's ids accepts exactly the ids of the model for an elapsed time inside the window *)
Theorem c20_id_judge_exact : forall rb id e0 e1,
  id_ok rb id e0 e1 = true <->
  exists ms rnd, e0 <= ms <= e1 /\ 0 <= rnd < 2 ^ clamp_bits rb /\ id = id_of ms rnd rb.
Proof. exact id_ok_iff. Qed.
Print Assumptions c20_id_judge_exact.

Theorem c20_ids_judge_complete : forall rb obs, Forall (produced rb) obs -> ids_ok rb obs = true.
Proof. exact ids_judge_complete. Qed.
Print Assumptions c20_ids_judge_complete.

(* ---------------------------------------------------------------- StrGenerator *)
(* NewStrGenerator accepts every non-empty character set and leaves at least one index field per random word *)
Theorem c20_new_sgen_total : forall cs, Utf8.runes cs <> [] -> Z.of_nat (length (Utf8.runes cs)) < 2 ^ 63 ->
  exists g, new_sgen cs = Some g /\ (1 <= imax g)%nat.
Proof. exact new_sgen_total. Qed.
Print Assumptions c20_new_sgen_total.

(* rune level, for EVERY stream of random words: if Generate(n) returns, it returns exactly n runes of the set *)
Theorem c20_generate_shape_runes : forall g, 0 <= cmask g ->
  forall stream n out u, generate g stream n = Some (out, u) -> length out = n /\ Forall (fun c => In c (charset g)) out.
Proof. exact generate_shape. Qed.
Print Assumptions c20_generate_shape_runes.

(* with the check's source (script, then zeros) the loop always ends: the model never reports NOFUEL *)
Theorem c20_generate_fuel_suffices : forall g script n, 0 <= cmask g -> charset g <> [] -> (1 <= imax g)%nat ->
  generate g (script ++ repeat 0 (S n)) n <> None.
Proof. exact generate_fuel_suffices. Qed.
Print Assumptions c20_generate_fuel_suffices.

(* byte level: every non-empty character set given as bytes (multi-byte runes, invalid UTF-8 included), every n >= 0,
   every script: the text written (WriteRune per rune) decodes to exactly n runes, all from []rune(charSet) *)
Theorem c20_str_generate_shape : forall cs n script,
  Forall (fun c => 0 <= c < 256) cs -> Utf8.runes cs <> [] -> Z.of_nat (length (Utf8.runes cs)) < 2 ^ 63 -> 0 <= n ->
  exists g rs used,
    new_sgen cs = Some g /\ generate g (script ++ repeat 0 (S (Z.to_nat n))) (Z.to_nat n) = Some (rs, used) /\
    m_str n cs script = put_list (runes_to_bytes rs) ++ [Z.of_nat used] /\
    Utf8.runes (runes_to_bytes rs) = rs /\ Z.of_nat (length rs) = n /\ Forall (fun c => In c (Utf8.runes cs)) rs.
Proof. exact str_generate_shape. Qed.
Print Assumptions c20_str_generate_shape.

(* ---------------------------------------------------------------- CountGenerator *)
(* rules with positive parameters (fitting uint32 where getRand converts), added in ANY order, any hash value, any diff:
   Generate, Min, Max do not panic and Min <= Generate <= Max *)
Theorem c20_count_bounds : forall hn added diff, Forall positive added ->
  exists g mn mx, generate_count hn (add_rules added) diff = Some g /\ count_min (add_rules added) diff = Some mn /\
                  count_max (add_rules added) diff = Some mx /\ mn <= g <= mx.
Proof. exact count_bounds. Qed.
Print Assumptions c20_count_bounds.

(* Generate is non-decreasing in the elapsed time *)
Theorem c20_count_monotone : forall hn added d1 d2, Forall positive added -> d1 <= d2 ->
  exists g1 g2, generate_count hn (add_rules added) d1 = Some g1 /\ generate_count hn (add_rules added) d2 = Some g2 /\ g1 <= g2.
Proof. exact count_monotone. Qed.
Print Assumptions c20_count_monotone.

(* ---------------------------------------------------------------- the tie to what the check executes *)
(* for every well-formed decoded case, the model's output satisfies the judge (Run/C20.v: spec_ok = ok_case . decode)
   that the check applies to the implementation's output *)
Theorem c20_model_meets_spec : forall c, case_wf c -> ok_case c (run_case c) = true.
Proof. exact case_meets_spec. Qed.
Print Assumptions c20_model_meets_spec.

(* ---------------------------------------------------------------- the code itself (go2v translation, regenerated on every run) *)
(* Gen/RandzCode.v is the translation of the CURRENT bodies of init() (the one that assigns decodeBase32Map), ParseBase32,
   ID.Base32 (randz/id.go), CountGenerator.getRand (randz/count.go) and of the bit-count loop of NewStrGenerator
   (randz/str.go) — gen/trans.go + gen/trans_ext20.go, see gen/TRANSLATOR.md.  Each generated function equals the
   hand-written model function on which the theorems above rest:
   - init(): run on the zero value of the [256]byte table it yields exactly the model's decode_table (fuel 300 >= 257);
   - ParseBase32: on that table, for every byte string and every fuel above its length, (id, nil) / (-1, ErrInvalidBase32)
     as the model's parse_base32 says Some id / None — int64 wrap-around included (parse_res: nil = 0, the sentinel = its code);
   - ID.Base32: for every id below 2^63 — negative ones included, where code and model both panic — and every fuel >= 14
     (13 digit iterations at most, 6 swaps), lift: None = panic;
   - getRand: for every n >= 0 (n is a uint32 in the code) and every max, the uint32 conversion and the zero divisor included;
   - the bits loop (`var bits int` + the loop, a fragment): for every fuel f+1 with len < 2^f it is the model's bits_loop
     with the same fuel; with fuel 64 it is what new_sgen computes. *)
Theorem c20_code_is_model :
  (g_init_decodeBase32Map 300 g0_decodeBase32Map = Ret decode_table) /\
  (forall fuel bs, Forall (fun c => 0 <= c < 256) bs -> (length bs < fuel)%nat ->
     g_ParseBase32 fuel decode_table bs = Ret (parse_res (parse_base32 bs))) /\
  (forall fuel f, f < 2 ^ 63 -> (14 <= fuel)%nat -> g_ID_Base32 fuel f = lift (base32 f)) /\
  (forall n mx, 0 <= n -> g_CountGenerator_getRand n mx = lift (get_rand n mx)) /\
  (forall f r, zlen r < 2 ^ Z.of_nat f -> g_NewStrGenerator_loop1 (S f) r = Ret (bits_loop (S f) (zlen r) 0)) /\
  (forall r, zlen r < 2 ^ 63 -> g_NewStrGenerator_loop1 64 r = Ret (bits_loop 64 (Z.of_nat (length r)) 0)).
Proof.
  exact (conj code_init (conj code_ParseBase32 (conj code_Base32 (conj code_getRand (conj code_bits_loop code_bits_loop64))))).
Qed.
Print Assumptions c20_code_is_model.

(* the case interpreter of the correspondence run, kinds 0 and 1 executed through the generated functions (Run/C20Code.v:
   generated init(), then generated ParseBase32 / Base32), gives the output of `entry` on every case: the differential run
   of entry 0 against the compiled package is a run of the generated code *)
Theorem c20_entry_runs_generated_code : forall sub args, entry_code sub args = entry sub args.
Proof. exact entry_code_is_entry. Qed.
Print Assumptions c20_entry_runs_generated_code.
