(* C20 — randz identifiers, random strings, count generator.  Property theorems only. *)
From Coq Require Import List ZArith Bool.
From V Require Import Lib.Enc Gen.Randz Model.Randz Proofs.RandzBase32.
Import ListNotations.
Local Open Scope Z_scope.

(* ParseBase32 (table-driven, int64 accumulation) = the positional specification, for every byte string *)
Theorem c20_parse_refines_spec : forall s, Forall (fun c => 0 <= c < 256) s -> parse_base32 s = spec_parse s.
Proof. exact parse_refines_spec. Qed.
Print Assumptions c20_parse_refines_spec.
