(* C01 — SyncRing is a linearizable bounded MPMC FIFO queue.
   Model: V.Model.SyncRingConc (one step = one sync/atomic call or one plain access of one thread; 32-bit
   counters written as mod 2^32 over unbounded ghost tickets).  [run c sched] executes a schedule (thread id,
   operation to start when idle), for any number of threads; [fresh_run] excludes exactly the 32-bit ABA
   (an operation parked between its position load and its CAS while that counter advances by >= 2^32,
   known finding F10).  None = the Go code would index out of range. *)
From Coq Require Import List ZArith Bool.
Import ListNotations.
From V Require Import Model.SyncRingConc Proofs.SyncRingConc Proofs.SyncRingConcTop Proofs.SyncRingSeqState Proofs.SyncRingShort Proofs.SyncRingPopProgress Proofs.SyncRingAba Proofs.SyncRingExcuse.
From V Require Import Lib.Enc Run.C01 Proofs.SyncRingJudgeFinal.
Local Open Scope Z_scope.

(* the freshly initialised ring of capacity 2^k satisfies the invariant, for every k in [1,31] and thread count *)
Theorem c01_init_invariant : forall k n, 1 <= k <= 31 -> Inv k (init k n).
Proof. exact init_inv. Qed.
Print Assumptions c01_init_invariant.

(* every schedule, every thread count: the invariant is preserved and no step panics *)
Theorem c01_invariant_preserved : forall k sched c, Inv k c -> fresh_run c sched -> exists c', run c sched = Some c' /\ Inv k c'.
Proof. exact run_inv. Qed.
Print Assumptions c01_invariant_preserved.

(* linearizability in refinement form + safety + race freedom + Len, from any invariant state:
   the operations ordered by their linearisation points (successful CAS on tail / head, a step of the
   operation itself) form a legal run of a FIFO of capacity 2^k ending in the current content;
   the content never exceeds the capacity; every successful Pop returns the value at the head of that FIFO
   at its linearisation point; no two threads are ever at conflicting plain accesses to one slot;
   Len's formula on the two counters equals the element count. *)
Theorem c01_linearizable_bounded_fifo : forall k c0 sched c,
  Inv k c0 -> fresh_run c0 sched -> run c0 sched = Some c ->
  Inv k c /\
  0 <= tl (sh c) - hd (sh c) <= 2 ^ k /\ Z.of_nat (length (q (sh c))) = tl (sh c) - hd (sh c) /\
  replay (2 ^ k) (lin (sh c)) [] = Some (q (sh c)) /\
  (forall i v g, In (i, RPop v (Some g)) (hist c) -> v = Some g) /\
  ~ race c /\
  len_of (u32 (tl (sh c))) (u32 (hd (sh c))) (cap (sh c)) = Z.of_nat (length (q (sh c))).
Proof. exact syncring_from_inv. Qed.
Print Assumptions c01_linearizable_bounded_fifo.

Theorem c01_never_panics : forall k c0 sched, Inv k c0 -> fresh_run c0 sched -> run c0 sched <> None.
Proof. exact syncring_never_panics. Qed.
Print Assumptions c01_never_panics.

Theorem c01_len_in_range : forall t h c, 0 <= c -> 0 <= len_of t h c <= c.
Proof. exact len_in_range. Qed.
Print Assumptions c01_len_in_range.

(* "returns false only if full (empty) or overlapped", solo form: with every other thread idle the sequence
   check of Push passes iff the ring is not full, that of Pop iff it is not empty *)
Theorem c01_solo_push_check : forall k s, G k s -> (forall i f, nth_error (ph s) i = Some f -> is_owned f = false) ->
  forall x, slot_at s (tl s) = Some x -> (snd x = u32 (tl s) <-> Z.of_nat (length (q s)) < cap s).
Proof. exact solo_push_check. Qed.
Print Assumptions c01_solo_push_check.
Theorem c01_solo_pop_check : forall k s, G k s -> (forall i f, nth_error (ph s) i = Some f -> is_owned f = false) ->
  forall x, slot_at s (hd s) = Some x -> (snd x = u32 (hd s + 1) <-> q s <> []).
Proof. exact solo_pop_check. Qed.
Print Assumptions c01_solo_pop_check.

(* when only pushers run on a quiescent ring with a free slot, some push succeeds *)
Theorem c01_pushers_progress : forall k c0, Inv k c0 -> Forall (fun p => p = Idle) (ths c0) ->
  Z.of_nat (length (q (sh c0))) < cap (sh c0) ->
  forall sched c, only_push sched -> run c0 sched = Some c -> hist c <> hist c0 ->
  Forall (fun p => p = Idle) (ths c) -> exists j, In (j, RPush true) (hist c).
Proof. exact pushers_progress. Qed.
Print Assumptions c01_pushers_progress.

(* every state the correspondence run starts from — any number [base] of completed push/pop pairs (counters beyond
   2^32 included), then [fill] stored values, any rotation — satisfies the invariant *)
Theorem c01_sequential_states_invariant : forall k base fill n,
  1 <= k <= 31 -> 0 <= base -> 0 <= fill <= 2 ^ k -> Inv k (seq_state k base fill n).
Proof. exact seq_state_inv. Qed.
Print Assumptions c01_sequential_states_invariant.

(* a schedule of at most 2^32 steps started with no operation in flight is always Fresh *)
Theorem c01_short_schedules_fresh : forall c0 sched,
  Forall (fun p => p = Idle) (ths c0) -> Z.of_nat (length sched) <= M32 -> fresh_run c0 sched.
Proof. exact short_schedules_are_fresh. Qed.
Print Assumptions c01_short_schedules_fresh.

(* hence, with no hypothesis on the schedule other than its length: from every sequentially reachable state,
   for every thread count and every interleaving of at most 2^32 steps *)
Theorem c01_unconditional : forall k base fill n sched c,
  1 <= k <= 31 -> 0 <= base -> 0 <= fill <= 2 ^ k -> Z.of_nat (length sched) <= M32 ->
  run (seq_state k base fill n) sched = Some c ->
  Inv k c /\
  0 <= tl (sh c) - hd (sh c) <= 2 ^ k /\ Z.of_nat (length (q (sh c))) = tl (sh c) - hd (sh c) /\
  replay (2 ^ k) (lin (sh c)) [] = Some (q (sh c)) /\
  (forall i v g, In (i, RPop v (Some g)) (hist c) -> v = Some g) /\
  ~ race c /\
  len_of (u32 (tl (sh c))) (u32 (hd (sh c))) (cap (sh c)) = Z.of_nat (length (q (sh c))).
Proof. exact syncring_unconditional. Qed.
Print Assumptions c01_unconditional.

(* results of the observers, under any interleaving: Len() within [0, cap]; IsEmpty / IsFull are booleans
   (their exactness at quiescence is the len_of clause above) *)
Theorem c01_observer_results : forall k c, Inv k c ->
  forall i o z cp, In (i, RObs o z cp) (hist c) -> match o with KLen => 0 <= z <= cp | _ => z = 0 \/ z = 1 end.
Proof. exact observer_results. Qed.
Print Assumptions c01_observer_results.

(* when only poppers run on a quiescent ring that holds an element, some Pop succeeds *)
Theorem c01_poppers_progress : forall k c0, Inv k c0 -> Forall (fun p => p = Idle) (ths c0) -> q (sh c0) <> [] ->
  forall sched c, only_pop sched -> run c0 sched = Some c -> hist c <> hist c0 ->
  Forall (fun p => p = Idle) (ths c) -> exists j v g, In (j, RPop v (Some g)) (hist c).
Proof. exact poppers_progress. Qed.
Print Assumptions c01_poppers_progress.

(* Fresh cannot be dropped: a state satisfying the invariant in which one pusher is parked before its CAS with a ticket
   that is 2^32 positions old; its CAS succeeds, a third element enters the 2-slot ring and the log is no longer a legal
   bounded-FIFO run.  This is the known finding F10, stated for the model (the check replays it on the real code). *)
Theorem c01_fresh_is_necessary_refuted :
  Inv 1 aba_state /\ ~ fresh_ok aba_state 0 /\
  exists c', step aba_state (0%nat, OpPop) = Some c' /\
             Z.of_nat (length (q (sh c'))) = 3 /\ cap (sh c') = 2 /\
             replay (cap (sh c')) (lin (sh c')) [] = None.
Proof. exact (conj aba_state_inv (conj aba_state_not_fresh syncring_aba_refuted)). Qed.
Print Assumptions c01_fresh_is_necessary_refuted.

(* "returns false only if the ring was full (empty) at some instant during the call or another operation overlapped it":
   the two places where Push returns false, and the two where Pop does, in any reachable state under any interleaving.
   A failed sequence check: the counter has moved since this operation loaded it (an operation of the same kind
   linearised in between), or the ring is full (empty) at this very instant, or the slot is still owned by an operation
   in flight.  A failed CAS: the counter has moved since this operation loaded it. *)
Theorem c01_push_seq_check_fails_excused : forall k c i v pos T0 x,
  Inv k c -> nth_error (ths c) i = Some (PuLoadSeq v pos T0) ->
  nth_error (slots (sh c)) (sidx (sh c) pos) = Some x -> snd x <> pos ->
  T0 < tl (sh c) \/ Z.of_nat (length (q (sh c))) = cap (sh c) \/
  (exists j pj f, nth_error (ths c) j = Some pj /\ owner_phase pj = Some f /\ is_owned f = true /\
                  sidx (sh c) (ticket f) = sidx (sh c) (tl (sh c))).
Proof. exact push_seq_check_fails_excused. Qed.
Print Assumptions c01_push_seq_check_fails_excused.
Theorem c01_push_cas_fails_overtaken : forall k c i v pos seq T0,
  Inv k c -> nth_error (ths c) i = Some (PuCas v pos seq T0) -> u32 (tl (sh c)) <> pos -> T0 < tl (sh c).
Proof. exact push_cas_fails_overtaken. Qed.
Print Assumptions c01_push_cas_fails_overtaken.
Theorem c01_pop_seq_check_fails_excused : forall k c i pos H0 x,
  Inv k c -> nth_error (ths c) i = Some (PoLoadSeq pos H0) ->
  nth_error (slots (sh c)) (sidx (sh c) pos) = Some x -> snd x <> u32 (pos + 1) ->
  H0 < hd (sh c) \/ q (sh c) = [] \/
  (exists j pj f, nth_error (ths c) j = Some pj /\ owner_phase pj = Some f /\ is_owned f = true /\
                  sidx (sh c) (ticket f) = sidx (sh c) (hd (sh c))).
Proof. exact pop_seq_check_fails_excused. Qed.
Print Assumptions c01_pop_seq_check_fails_excused.
Theorem c01_pop_cas_fails_overtaken : forall k c i pos seq H0,
  Inv k c -> nth_error (ths c) i = Some (PoCas pos seq H0) -> u32 (hd (sh c)) <> pos -> H0 < hd (sh c).
Proof. exact pop_cas_fails_overtaken. Qed.
Print Assumptions c01_pop_cas_fails_overtaken.

(* Refinement between the proved step model and the executable specification that the check applies to the real
   implementation's histories: the history judge (Run.C01.judge, sub 2: linearisation points replayed against a bounded
   FIFO, every result checked, every false result excused, observers exact when alone, final content) accepts the output
   of every run of the model (Run.C01.run_case, sub 0, incl. the PushWait / PopWait loops run on top of the step model).
   wf_case (Run/C01.v) = wf_syntax && (all_bounded || finishes):
     wf_syntax: 1 <= k <= 31, counter base >= 0, 0 <= fill <= 2^k, documented operation codes only, schedule entries >= 0
                (the negative "warp" entries replaying known finding F10 are excluded), at most 2^32 schedule entries
                including the completion tail;
     all_bounded: no PushWait(v,-1) / PopWait(-1), at most 4 timed retries per call -- then every operation returns within
                the schedule (c01_bounded_cases_finish) and the premise is purely syntactic;
     finishes:  for the unbounded loops, "every started operation has returned at the end of the schedule", evaluated on the
                model's run (a call that never returns has no result, and the judge rejects such a history). *)
Theorem c01_judge_accepts_model : forall args, wf_case args = true -> judge (put_list args ++ put_list (run_case args)) = [1].
Proof. exact judge_accepts_model. Qed.
Print Assumptions c01_judge_accepts_model.

Theorem c01_bounded_cases_finish : forall args, wf_syntax args = true -> all_bounded args = true -> finishes args = true.
Proof. exact bounded_cases_finish. Qed.
Print Assumptions c01_bounded_cases_finish.

Theorem c01_judge_accepts_model_bounded : forall args,
  wf_syntax args = true -> all_bounded args = true -> judge (put_list args ++ put_list (run_case args)) = [1].
Proof. exact judge_accepts_model_bounded. Qed.
Print Assumptions c01_judge_accepts_model_bounded.
