(* C18 — Knapsack, subset-sum solvers and maximal-clique enumeration are exact.
   Property theorems only: each is closed by [exact] of a lemma from Proofs/, with Print Assumptions beneath.
   Vocabulary (Model/Dp.v, Model/Clique.v): items are identified by their index; a selection is a list of indices;
   [valid items k c s] = s strictly increasing, all < k, total weight <= c; [dvalid k s] the same without weights;
   [attainable vals k t] = some selection among the first k values has total t; a returned map is the list of its
   (key, cell) entries; [ord] is Go's map iteration order per round (any permutation); [breaker] the optional tie-breaker
   (any function). *)
From Coq Require Import List ZArith Bool Permutation Sorted.
From V Require Import Model.Dp Model.Clique Proofs.DpKnapsack Proofs.DpSolvers Proofs.DpBest Proofs.DpJudge Proofs.DpPool Proofs.CliqueBK Proofs.CliqueSpec Proofs.DpStable.
Import ListNotations.
Local Open Scope Z_scope.

(* Knapsack: each item at most once, within the limit, and no selection within the limit is worth more — for all item
   lists (any weights >= 0 as nat, any values), all limits, all tie-breakers *)
Theorem c18_knapsack_optimal : forall brk items W,
  let r := knapsack brk W items in
  valid items (length items) W r /\ forall s, valid items (length items) W s -> value items s <= value items r.
Proof. exact knapsack_optimal. Qed.
Print Assumptions c18_knapsack_optimal.

(* FindDpSolvers, for every map iteration order in every round and every tie-breaker: every cell is a selection of
   distinct items with exactly its key as total, keys are distinct, and a total <= maxValue is a key iff it is attainable *)
Theorem c18_solvers_sound_complete : forall vals, Forall (fun v => 0 < v) vals ->
  forall brk maxV allow ord, (forall k dp, Permutation (ord k dp) dp) ->
  forall n, (n <= length vals)%nat ->
  let dp := fst (solve brk maxV allow ord vals n) in
  cells_ok vals n dp /\ NoDup (map fst dp) /\ (forall t, t <= maxV -> (attainable vals n t <-> has t dp = true)).
Proof. exact solvers_sound_complete. Qed.
Print Assumptions c18_solvers_sound_complete.

(* without allowOverOnce no key exceeds maxValue *)
Theorem c18_solvers_no_over : forall vals brk maxV ord, 0 <= maxV ->
  forall n t, has t (fst (solve brk maxV false ord vals n)) = true -> t <= maxV.
Proof. exact solvers_no_over'. Qed.
Print Assumptions c18_solvers_no_over.

(* with allowOverOnce the least attainable total above maxValue is a key (whatever the iteration orders) *)
Theorem c18_solvers_least_over : forall vals, Forall (fun v => 0 < v) vals ->
  forall brk maxV ord, (forall k dp, Permutation (ord k dp) dp) -> 0 <= maxV ->
  forall t, least_over vals (length vals) maxV t -> has t (find_dp_solvers brk maxV true ord vals) = true.
Proof. exact solvers_least_over'. Qed.
Print Assumptions c18_solvers_least_over.

(* Best: the largest key <= maxValue (nil if none); BestAllowMinOverflow: the exact key, else the smallest key above,
   else the largest key — for every iteration order of the map (keys = the keys in iteration order) *)
Theorem c18_best_spec : forall maxV keys, (forall k, In k keys -> maxV - k < maxint) -> is_best maxV keys (best maxV keys).
Proof. exact best_spec. Qed.
Print Assumptions c18_best_spec.
Theorem c18_best_over_spec : forall maxV keys, (forall k, In k keys -> maxV - k < maxint) -> is_best_over maxV keys (best_over maxV keys).
Proof. exact best_over_spec. Qed.
Print Assumptions c18_best_over_spec.

(* ---- the judges that Run/C18.v applies to the implementation's output mean the property, and accept the model ---- *)
Theorem c18_knap_judge_meaning : forall W items r, knap_ok W items r = true <->
  valid items (length items) W r /\ forall s, valid items (length items) W s -> value items s <= value items r.
Proof. exact knap_ok_iff. Qed.
Print Assumptions c18_knap_judge_meaning.
Theorem c18_knap_judge_accepts_model : forall brk W items, knap_ok W items (knapsack brk W items) = true.
Proof. exact knap_ok_model. Qed.
Print Assumptions c18_knap_judge_accepts_model.

Theorem c18_solvers_judge_meaning : forall maxV allow vals dp, solvers_ok maxV allow vals dp = true <-> solvers_prop maxV allow vals dp.
Proof. exact solvers_ok_iff. Qed.
Print Assumptions c18_solvers_judge_meaning.
Theorem c18_solvers_judge_accepts_model : forall vals, Forall (fun v => 0 < v) vals ->
  forall brk maxV allow ord, (forall k dp, Permutation (ord k dp) dp) -> 0 <= maxV ->
  solvers_ok maxV allow vals (find_dp_solvers brk maxV allow ord vals) = true.
Proof. exact solvers_ok_model. Qed.
Print Assumptions c18_solvers_judge_accepts_model.

Theorem c18_best_judge_meaning : forall q keys r, best_ok q keys r = true <-> is_best q keys r.
Proof. exact best_ok_iff. Qed.
Print Assumptions c18_best_judge_meaning.
Theorem c18_best_over_judge_meaning : forall q keys r, best_over_ok q keys r = true <-> is_best_over q keys r.
Proof. exact best_over_ok_iff. Qed.
Print Assumptions c18_best_over_judge_meaning.

(* ---- pool privacy (buffer-level model hsolve): in every state between rounds no two live cells share a buffer and no
   recycled slice points into a live cell's buffer; for every tie-breaker, growth policy, map order and commit order ---- *)
Theorem c18_cells_private : forall brk grow maxV allow ord pord,
  (forall k dp, Permutation (ord k dp) dp) -> (forall L, Permutation (pord L) L) ->
  forall vals n, let st := hsolve brk grow maxV allow ord pord vals n in private (s_heap st) (s_dp st) (s_pool st).
Proof. exact cells_private. Qed.
Print Assumptions c18_cells_private.
(* and the buffer-level model returns the value-level model's map *)
Theorem c18_hsolve_erase : forall brk grow maxV allow ord pord,
  (forall k dp, Permutation (ord k dp) dp) -> (forall L, Permutation (pord L) L) ->
  forall vals ord', (forall k heap dp, ord' k (herase heap dp) = herase heap (ord k dp)) ->
  forall n, let st := hsolve brk grow maxV allow ord pord vals n in
  (herase (s_heap st) (s_dp st), s_ovf st) = solve brk maxV allow ord' vals n.
Proof. exact hsolve_erase. Qed.
Print Assumptions c18_hsolve_erase.

(* ---- GetMaximalCliques (Bron–Kerbosch without pivot; Model/Clique.v) ---- *)
(* the top-level call passes X = P[:0], which shares P's backing array: `X = append(X, v)` overwrites slot k of that
   array with the value just read from it, so the call behaves like the recursion on separate lists *)
Theorem c18_top_alias_harmless : forall g order, max_cliques g order = bk g (S (length order)) [] order [].
Proof. exact top_alias_harmless. Qed.
Print Assumptions c18_top_alias_harmless.
(* termination: on a graph without self-loops the recursion depth never exceeds |P|+1 *)
Theorem c18_bk_fuel : forall g, irrefl g -> forall fuel R P X, (length P < fuel)%nat -> bk g fuel R P X <> None.
Proof. exact bk_fuel. Qed.
Print Assumptions c18_bk_fuel.
(* exactness: on a simple undirected graph with vertices 0..n-1, for every order in which the map iteration hands out
   the vertices, every reported list is duplicate-free and a maximal clique, every maximal clique is reported, and no two
   reported lists are the same vertex set *)
Theorem c18_bron_kerbosch_exact : forall g n, sym g -> irrefl g -> forall order, Permutation order (seq 0 n) ->
  exists cs, max_cliques g order = Some cs /\
    (forall c, In c cs -> NoDup c /\ maxcliqueP g n c) /\
    (forall C, maxcliqueP g n C -> exists c, In c cs /\ same c C) /\
    nodupS cs.
Proof. exact bron_kerbosch_exact. Qed.
Print Assumptions c18_bron_kerbosch_exact.
(* the brute-force list that Run/C18.v compares the implementation with = the ascending vertex lists of the maximal cliques *)
Theorem c18_spec_cliques_meaning : forall g n C, In C (spec_cliques g n) <-> StronglySorted lt C /\ maxcliqueP g n C.
Proof. exact spec_cliques_meaning. Qed.
Print Assumptions c18_spec_cliques_meaning.
(* and, in the canonical form both sides of the run are brought to, the model's answer equals it for every vertex order *)
Theorem c18_cliques_model_eq_spec : forall g n, sym g -> irrefl g -> forall order, Permutation order (seq 0 n) ->
  exists cs, max_cliques g order = Some cs /\ canon cs = canon (spec_cliques g n).
Proof. exact cliques_model_eq_spec. Qed.
Print Assumptions c18_cliques_model_eq_spec.

(* what the differential run compares with the model (run with the identity order) does not depend on Go's map order:
   for any two families of iteration orders, the cell of every key <= maxValue and the cell of the least attainable total
   above maxValue coincide (the tie-breaker being a function of its two arguments) *)
Theorem c18_solve_stable : forall vals, Forall (fun v => 0 < v) vals ->
  forall brk maxV allow ord1 ord2, (forall k dp, Permutation (ord1 k dp) dp) -> (forall k dp, Permutation (ord2 k dp) dp) ->
  forall n, (n <= length vals)%nat ->
  (forall k, k <= maxV -> lookup k (fst (solve brk maxV allow ord1 vals n)) = lookup k (fst (solve brk maxV allow ord2 vals n))) /\
  (allow = true -> forall t, least_over vals (length vals) maxV t ->
     lookup t (fst (solve brk maxV allow ord1 vals n)) = lookup t (fst (solve brk maxV allow ord2 vals n))).
Proof. exact solve_stable. Qed.
Print Assumptions c18_solve_stable.
