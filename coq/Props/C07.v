(* C07 — backslash escape codecs (strz/enc.go).  Property theorems only: each is closed by [exact] of a lemma from
   Proofs/, with Print Assumptions beneath.  [X_parse dl src] is the index-level model of XParse(dst, src) with
   len(dst) = dl ([None] = the Go code would panic); the ToString forms are the case dl = len(src).
   [s_X_parse] is the list-level specification of Model/Codec.v (a left-to-right scan, no cursors, no buffers). *)
From Coq Require Import List ZArith Bool.
From V Require Import Lib.Utf8 Model.Codec Proofs.CodecBase Proofs.CodecParse Proofs.CodecSpec Proofs.CodecUtf16Spec.
Import ListNotations.
Local Open Scope Z_scope.

(* refinement: for every input and every destination at least as long as the input, the loop with its three cursors
   and checked buffer accesses returns exactly the list-level scan: no panic, nothing else written *)
Theorem c07_octal_parse_refines_spec : forall dl src, (length src <= dl)%nat -> octal_parse dl src = Some (s_octal_parse src).
Proof. exact octal_parse_spec. Qed.
Print Assumptions c07_octal_parse_refines_spec.
Theorem c07_hex_parse_refines_spec : forall dl src, (length src <= dl)%nat -> hex_parse dl src = Some (s_hex_parse src).
Proof. exact hex_parse_spec. Qed.
Print Assumptions c07_hex_parse_refines_spec.
Theorem c07_unicode_parse_refines_spec : forall dl src, (length src <= dl)%nat -> unicode_parse dl src = Some (s_unicode_parse src).
Proof. exact unicode_parse_spec. Qed.
Print Assumptions c07_unicode_parse_refines_spec.
Theorem c07_utf16_parse_refines_spec : forall dl src, (length src <= dl)%nat -> utf16_parse dl src = Some (s_utf16_parse src).
Proof. exact utf16_parse_spec. Qed.
Print Assumptions c07_utf16_parse_refines_spec.

(* every input whatsoever: terminates without panic, at most len(input) bytes *)
Theorem c07_octal_parse_total_bounded : forall dl src, (length src <= dl)%nat ->
  exists out, octal_parse dl src = Some out /\ (length out <= length src)%nat.
Proof. exact octal_parse_total. Qed.
Print Assumptions c07_octal_parse_total_bounded.
Theorem c07_hex_parse_total_bounded : forall dl src, (length src <= dl)%nat ->
  exists out, hex_parse dl src = Some out /\ (length out <= length src)%nat.
Proof. exact hex_parse_total. Qed.
Print Assumptions c07_hex_parse_total_bounded.
Theorem c07_unicode_parse_total_bounded : forall dl src, (length src <= dl)%nat ->
  exists out, unicode_parse dl src = Some out /\ (length out <= length src)%nat.
Proof. exact unicode_parse_total. Qed.
Print Assumptions c07_unicode_parse_total_bounded.
Theorem c07_utf16_parse_total_bounded : forall dl src, (length src <= dl)%nat ->
  exists out, utf16_parse dl src = Some out /\ (length out <= length src)%nat.
Proof. exact utf16_parse_total. Qed.
Print Assumptions c07_utf16_parse_total_bounded.

(* input containing no backslash is returned unchanged *)
Theorem c07_octal_parse_id_without_backslash : forall dl src, (length src <= dl)%nat -> backslash_free src -> octal_parse dl src = Some src.
Proof. exact octal_parse_no_backslash. Qed.
Print Assumptions c07_octal_parse_id_without_backslash.
Theorem c07_hex_parse_id_without_backslash : forall dl src, (length src <= dl)%nat -> backslash_free src -> hex_parse dl src = Some src.
Proof. exact hex_parse_no_backslash. Qed.
Print Assumptions c07_hex_parse_id_without_backslash.
Theorem c07_unicode_parse_id_without_backslash : forall dl src, (length src <= dl)%nat -> backslash_free src -> unicode_parse dl src = Some src.
Proof. exact unicode_parse_no_backslash. Qed.
Print Assumptions c07_unicode_parse_id_without_backslash.
Theorem c07_utf16_parse_id_without_backslash : forall dl src, (length src <= dl)%nat -> backslash_free src -> utf16_parse dl src = Some src.
Proof. exact utf16_parse_no_backslash. Qed.
Print Assumptions c07_utf16_parse_id_without_backslash.
