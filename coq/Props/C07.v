(* C07 — backslash escape codecs (strz/enc.go).  Property theorems only: each is closed by [exact] of a lemma from
   Proofs/, with Print Assumptions beneath.

   Model side (Model/Codec.v, index level, follows the Go code):
     X_format s          : option (list Z)    OctalFormat / HexFormat / UnicodeFormat / Utf16Format  ([None] = panic)
     X_parse dl src      : option (list Z)    XParse(dst, src) with len(dst) = dl, result dst[:n]    ([None] = panic);
                                              the ToString forms are the case dl = len(src)
   Specification side (same file, second half; no cursors, no buffers):
     esc_o b, esc_x b, esc_U r, esc_u r       the escapes as arithmetic on the value (upper-case digits, surrogate pair above U+FFFF)
     s_X_format s                             concat of the escapes of the bytes / of [runes s] (an invalid byte is U+FFFD)
     s_X_parse l                              left-to-right scan of the list
     pus base maxv 0 ds = Some v              "ds is a string of digits of the base (either case) whose value v is at most maxv"
     sanitize s                               s with every invalid byte replaced by the encoding of U+FFFD
     bytes s                                  every element is in [0,256);   backslash_free s: no element is 92 *)
From Coq Require Import List ZArith Bool.
From V Require Import Lib.Enc Lib.Utf8 Model.Codec Run.C07 Proofs.CodecBase Proofs.CodecParse Proofs.CodecSpec Proofs.CodecUtf16Spec
  Proofs.CodecUtf8 Proofs.CodecFormat Proofs.CodecRoundTrip Proofs.CodecRun.
Import ListNotations.
Local Open Scope Z_scope.

(* ------------------------------------------------------------------------------------------------------------------ *)
(* refinement: for every input and every destination at least as long as the input, the loop with its three cursors
   and checked buffer accesses returns exactly the list-level scan: no panic, nothing else written *)
Theorem c07_octal_parse_refines_spec : forall dl src, (length src <= dl)%nat -> octal_parse dl src = Some (s_octal_parse src).
Proof. exact octal_parse_spec. Qed.
Print Assumptions c07_octal_parse_refines_spec.
Theorem c07_hex_parse_refines_spec : forall dl src, (length src <= dl)%nat -> hex_parse dl src = Some (s_hex_parse src).
Proof. exact hex_parse_spec. Qed.
Print Assumptions c07_hex_parse_refines_spec.
Theorem c07_unicode_parse_refines_spec : forall dl src, (length src <= dl)%nat -> unicode_parse dl src = Some (s_unicode_parse src).
Proof. exact unicode_parse_spec. Qed.
Print Assumptions c07_unicode_parse_refines_spec.
Theorem c07_utf16_parse_refines_spec : forall dl src, (length src <= dl)%nat -> utf16_parse dl src = Some (s_utf16_parse src).
Proof. exact utf16_parse_spec. Qed.
Print Assumptions c07_utf16_parse_refines_spec.

(* the run's two sides coincide: on every well-formed case of Run/C07.v (any of the twelve operations, any entry point,
   any destination length, any byte string) the model's answer (sub 0) is the specification's answer (sub 1) *)
Theorem c07_run_model_eq_spec : forall op variant dl s, all_bytes s = true -> 0 <= op <= 11 -> 0 <= dl ->
  entry 0 (op :: variant :: dl :: put_list s) = entry 1 (op :: variant :: dl :: put_list s).
Proof. exact run_model_eq_spec. Qed.
Print Assumptions c07_run_model_eq_spec.

(* ------------------------------------------------------------------------------------------------------------------ *)
(* every input whatsoever: terminates without panic, at most len(input) bytes *)
Theorem c07_octal_parse_total_bounded : forall dl src, (length src <= dl)%nat ->
  exists out, octal_parse dl src = Some out /\ (length out <= length src)%nat.
Proof. exact octal_parse_total. Qed.
Print Assumptions c07_octal_parse_total_bounded.
Theorem c07_hex_parse_total_bounded : forall dl src, (length src <= dl)%nat ->
  exists out, hex_parse dl src = Some out /\ (length out <= length src)%nat.
Proof. exact hex_parse_total. Qed.
Print Assumptions c07_hex_parse_total_bounded.
Theorem c07_unicode_parse_total_bounded : forall dl src, (length src <= dl)%nat ->
  exists out, unicode_parse dl src = Some out /\ (length out <= length src)%nat.
Proof. exact unicode_parse_total. Qed.
Print Assumptions c07_unicode_parse_total_bounded.
Theorem c07_utf16_parse_total_bounded : forall dl src, (length src <= dl)%nat ->
  exists out, utf16_parse dl src = Some out /\ (length out <= length src)%nat.
Proof. exact utf16_parse_total. Qed.
Print Assumptions c07_utf16_parse_total_bounded.

(* input containing no backslash is returned unchanged *)
Theorem c07_octal_parse_id_without_backslash : forall dl src, (length src <= dl)%nat -> backslash_free src -> octal_parse dl src = Some src.
Proof. exact octal_parse_no_backslash. Qed.
Print Assumptions c07_octal_parse_id_without_backslash.
Theorem c07_hex_parse_id_without_backslash : forall dl src, (length src <= dl)%nat -> backslash_free src -> hex_parse dl src = Some src.
Proof. exact hex_parse_no_backslash. Qed.
Print Assumptions c07_hex_parse_id_without_backslash.
Theorem c07_unicode_parse_id_without_backslash : forall dl src, (length src <= dl)%nat -> backslash_free src -> unicode_parse dl src = Some src.
Proof. exact unicode_parse_no_backslash. Qed.
Print Assumptions c07_unicode_parse_id_without_backslash.
Theorem c07_utf16_parse_id_without_backslash : forall dl src, (length src <= dl)%nat -> backslash_free src -> utf16_parse dl src = Some src.
Proof. exact utf16_parse_no_backslash. Qed.
Print Assumptions c07_utf16_parse_id_without_backslash.

(* ------------------------------------------------------------------------------------------------------------------ *)
(* format shape: the Format loops (strconv digits, zero padding, upper-casing, the make()d buffer of RuneCount*W bytes,
   ASCII fast path, RuneError literal, utf16.EncodeRune) never panic and produce exactly the sequence of escapes *)
Theorem c07_octal_format_shape : forall s, bytes s -> octal_format s = Some (concat (map esc_o s)).
Proof. exact octal_format_shape. Qed.
Print Assumptions c07_octal_format_shape.
Theorem c07_hex_format_shape : forall s, bytes s -> hex_format s = Some (concat (map esc_x s)).
Proof. exact hex_format_shape. Qed.
Print Assumptions c07_hex_format_shape.
Theorem c07_unicode_format_shape : forall s, bytes s -> unicode_format s = Some (concat (map esc_U (runes s))).
Proof. exact unicode_format_shape. Qed.
Print Assumptions c07_unicode_format_shape.
Theorem c07_utf16_format_shape : forall s, bytes s -> utf16_format s = Some (concat (map esc_u (runes s))).
Proof. exact utf16_format_shape. Qed.
Print Assumptions c07_utf16_format_shape.
(* ... and the escapes are fixed-width, upper-case, with a surrogate pair (denoting r) above U+FFFF *)
Theorem c07_escape_shapes :
  (forall b, 0 <= b < 256 -> exists d1 d2 d3, esc_o b = [92; d1; d2; d3] /\ octal_digit d1 /\ octal_digit d2 /\ octal_digit d3) /\
  (forall b, 0 <= b < 256 -> exists d1 d2, esc_x b = [92; 120; d1; d2] /\ upper_hex d1 /\ upper_hex d2) /\
  (forall r, 0 <= r <= 1114111 -> exists ds, esc_U r = 92 :: 85 :: ds /\ length ds = 8%nat /\ Forall upper_hex ds) /\
  (forall r, 0 <= r < 65536 -> exists ds, esc_u r = 92 :: 117 :: ds /\ length ds = 4%nat /\ Forall upper_hex ds) /\
  (forall r, 65536 <= r <= 1114111 -> exists hi lo dh dl', esc_u r = (92 :: 117 :: dh) ++ (92 :: 117 :: dl') /\
     dh = hex4 hi /\ dl' = hex4 lo /\ Forall upper_hex dh /\ Forall upper_hex dl' /\
     55296 <= hi < 56320 /\ 56320 <= lo < 57344 /\ r = 65536 + (hi - 55296) * 1024 + (lo - 56320)).
Proof. exact esc_shapes. Qed.
Print Assumptions c07_escape_shapes.
(* all runes of a byte string are scalar values (an invalid byte is U+FFFD) *)
Theorem c07_runes_are_scalars : forall s, bytes s -> Forall valid_scalar (runes s).
Proof. exact runes_valid. Qed.
Print Assumptions c07_runes_are_scalars.

(* one step of the rune decoding both Format loops and [runes] use: one invalid byte reported as U+FFFD, or a scalar
   value whose UTF-8 encoding is exactly the bytes consumed *)
Theorem c07_rune_step : forall s c w, bytes s -> s <> [] -> decode s = (c, w) ->
  (c = RuneError /\ w = 1%nat) \/ (valid_scalar c /\ encode c = firstn w s).
Proof. exact rune_step. Qed.
Print Assumptions c07_rune_step.

(* ------------------------------------------------------------------------------------------------------------------ *)
(* round trips: Format never panics, and Parse of its output (into any destination at least that long; the ToString form
   is dl = length e) gives back the string *)
Theorem c07_octal_roundtrip : forall s, bytes s ->
  exists e, octal_format s = Some e /\ forall dl, (length e <= dl)%nat -> octal_parse dl e = Some s.
Proof. exact octal_roundtrip. Qed.
Print Assumptions c07_octal_roundtrip.
Theorem c07_hex_roundtrip : forall s, bytes s ->
  exists e, hex_format s = Some e /\ forall dl, (length e <= dl)%nat -> hex_parse dl e = Some s.
Proof. exact hex_roundtrip. Qed.
Print Assumptions c07_hex_roundtrip.
Theorem c07_unicode_roundtrip : forall s, bytes s -> valid_utf8 s = true ->
  exists e, unicode_format s = Some e /\ forall dl, (length e <= dl)%nat -> unicode_parse dl e = Some s.
Proof. exact unicode_roundtrip. Qed.
Print Assumptions c07_unicode_roundtrip.
Theorem c07_utf16_roundtrip : forall s, bytes s -> valid_utf8 s = true ->
  exists e, utf16_format s = Some e /\ forall dl, (length e <= dl)%nat -> utf16_parse dl e = Some s.
Proof. exact utf16_roundtrip. Qed.
Print Assumptions c07_utf16_roundtrip.
(* for an arbitrary byte string: each invalid byte comes back as U+FFFD *)
Theorem c07_unicode_roundtrip_any : forall s, bytes s ->
  exists e, unicode_format s = Some e /\ forall dl, (length e <= dl)%nat -> unicode_parse dl e = Some (sanitize s).
Proof. exact unicode_roundtrip_any. Qed.
Print Assumptions c07_unicode_roundtrip_any.
Theorem c07_utf16_roundtrip_any : forall s, bytes s ->
  exists e, utf16_format s = Some e /\ forall dl, (length e <= dl)%nat -> utf16_parse dl e = Some (sanitize s).
Proof. exact utf16_roundtrip_any. Qed.
Print Assumptions c07_utf16_roundtrip_any.
Theorem c07_sanitize_is_identity_on_valid_utf8 : forall s, bytes s -> valid_utf8 s = true -> sanitize s = s.
Proof. exact sanitize_valid. Qed.
Print Assumptions c07_sanitize_is_identity_on_valid_utf8.

(* ------------------------------------------------------------------------------------------------------------------ *)
(* what "well-formed digits" means below: [pus base maxv 0 ds = Some v] iff every byte of ds is a digit character
   ('0'-'9', 'a'-'z', 'A'-'Z') of a digit below the base, v is the positional value, and v <= maxv *)
Theorem c07_wellformed_digits : forall base maxv ds v, 1 <= base -> 0 <= maxv ->
  (pus base maxv 0 ds = Some v <-> exists dv, digits_of base ds dv /\ value_from base 0 dv = v /\ v <= maxv).
Proof. exact pus_wellformed. Qed.
Print Assumptions c07_wellformed_digits.

(* a well-formed escape between backslash-free text is replaced by what it denotes; the text is kept byte for byte *)
Theorem c07_octal_parse_embedded_escape : forall dl pre ds post v, backslash_free pre -> backslash_free post ->
  length ds = 3%nat -> pus 8 255 0 ds = Some v -> (length (pre ++ (92%Z :: ds) ++ post) <= dl)%nat ->
  octal_parse dl (pre ++ (92 :: ds) ++ post) = Some (pre ++ [v] ++ post).
Proof. exact octal_parse_embedded. Qed.
Print Assumptions c07_octal_parse_embedded_escape.
Theorem c07_hex_parse_embedded_escape : forall dl pre ds post v, backslash_free pre -> backslash_free post ->
  length ds = 2%nat -> pus 16 255 0 ds = Some v -> (length (pre ++ (92%Z :: 120%Z :: ds) ++ post) <= dl)%nat ->
  hex_parse dl (pre ++ (92 :: 120 :: ds) ++ post) = Some (pre ++ [v] ++ post).
Proof. exact hex_parse_embedded. Qed.
Print Assumptions c07_hex_parse_embedded_escape.
(* [encode_rune] is utf8.EncodeRune: a surrogate value is written as U+FFFD *)
Theorem c07_unicode_parse_embedded_escape : forall dl pre ds post v, backslash_free pre -> backslash_free post ->
  length ds = 8%nat -> pus 16 4294967295 0 ds = Some v -> v <= 1114111 -> (length (pre ++ (92%Z :: 85%Z :: ds) ++ post) <= dl)%nat ->
  unicode_parse dl (pre ++ (92 :: 85 :: ds) ++ post) = Some (pre ++ encode_rune v ++ post).
Proof. exact unicode_parse_embedded. Qed.
Print Assumptions c07_unicode_parse_embedded_escape.
Theorem c07_unicode_parse_above_max_rune_kept : forall dl pre ds post v, backslash_free pre -> backslash_free post ->
  length ds = 8%nat -> pus 16 4294967295 0 ds = Some v -> 1114111 < v -> (length (pre ++ (92%Z :: 85%Z :: ds) ++ post) <= dl)%nat ->
  unicode_parse dl (pre ++ (92 :: 85 :: ds) ++ post) = Some (pre ++ (92 :: 85 :: ds) ++ post).
Proof. exact unicode_parse_too_large. Qed.
Print Assumptions c07_unicode_parse_above_max_rune_kept.
Theorem c07_utf16_parse_embedded_bmp_escape : forall dl pre ds post v, backslash_free pre -> backslash_free post ->
  length ds = 4%nat -> pus 16 65535 0 ds = Some v -> ~ (55296 <= v < 57344) -> (length (pre ++ (92%Z :: 117%Z :: ds) ++ post) <= dl)%nat ->
  utf16_parse dl (pre ++ (92 :: 117 :: ds) ++ post) = Some (pre ++ encode_rune v ++ post).
Proof. exact utf16_parse_embedded_bmp. Qed.
Print Assumptions c07_utf16_parse_embedded_bmp_escape.
Theorem c07_utf16_parse_embedded_surrogate_pair : forall dl pre ds1 ds2 post h l, backslash_free pre -> backslash_free post ->
  length ds1 = 4%nat -> length ds2 = 4%nat -> pus 16 65535 0 ds1 = Some h -> pus 16 65535 0 ds2 = Some l ->
  55296 <= h < 56320 -> 56320 <= l < 57344 -> (length (pre ++ ((92%Z :: 117%Z :: ds1) ++ (92%Z :: 117%Z :: ds2)) ++ post) <= dl)%nat ->
  utf16_parse dl (pre ++ ((92 :: 117 :: ds1) ++ (92 :: 117 :: ds2)) ++ post) =
  Some (pre ++ encode (65536 + (h - 55296) * 1024 + (l - 56320)) ++ post).
Proof. exact utf16_parse_embedded_pair. Qed.
Print Assumptions c07_utf16_parse_embedded_surrogate_pair.
(* a surrogate escape that has no partner stays as it is *)
Theorem c07_utf16_parse_lone_surrogate_kept : forall dl pre ds post v, backslash_free pre -> backslash_free post ->
  length ds = 4%nat -> pus 16 65535 0 ds = Some v -> 55296 <= v < 57344 -> (length (pre ++ (92%Z :: 117%Z :: ds) ++ post) <= dl)%nat ->
  utf16_parse dl (pre ++ (92 :: 117 :: ds) ++ post) = Some (pre ++ (92 :: 117 :: ds) ++ post).
Proof. exact utf16_parse_lone_surrogate. Qed.
Print Assumptions c07_utf16_parse_lone_surrogate_kept.

(* ------------------------------------------------------------------------------------------------------------------ *)
(* the code itself (go2v translation, regenerated on every run) *)
From V Require Import Lib.GoSem Gen.CodecCode Proofs.CodecCodeBase Proofs.CodecCodeFormat Proofs.CodecCodeParseBase Proofs.CodecCodeParse
  Proofs.CodecCodeU16 Proofs.CodecCode Run.C07Code.
(* Gen/CodecCode.v is the translation of the CURRENT bodies of lower, upper, parseUint (strz/std_strconv.go) and appendUint,
   toUpper, OctalFormat, OctalParse, HexFormat, HexParse, UnicodeFormat, UnicodeParse, Utf16Format, Utf16Parse (strz/enc.go)
   — gen/trans.go + gen/trans_ext07.go, see gen/TRANSLATOR.md.  Each generated function equals the hand-written model
   function on which the theorems above rest (lift: None = panic; a []byte parameter that the Go function writes in place
   is returned in front of the results; strconv.AppendUint, unicode/utf8 and unicode/utf16 are the models of
   Lib/GoSemStd.v, i.e. Lib/Utf8.v, as in the hand model):
   - lower: every integer; upper: every byte (the code shifts in 8 bits, the model in Z);
   - parseUint(s, base, bitSize): every digit string, every base in 2..255, every bit size 0..64, every fuel above len(s):
     the value / resume index / ok triple of the model's pu with its uint64 wrap-around (pu_res: the index as an int);
   - appendUint(dst, v, base): every dst of at most len(zeroPadding) = 8 bytes (the model's own domain), every v, every
     base 2..36 (strconv panics outside; the model has no such check): the new dst, or a panic when the digits do not fit;
   - toUpper(dst): every byte string and every fuel above its length: the new dst;
   - the four Format functions: every byte string, every fuel above its length (and above 2 / 8 / 4 for Hex / Unicode /
     Utf16: toUpper runs over the digits with the caller's fuel);
   - XParse(dst, src) for the four codecs: every dst, every src (any integers), every fuel above len(src): the model's
     answer out = dst[:n] (or its panic), as the pair (out followed by the rest of dst, n) — parse_res; dst and src do not
     overlap (the model never reads dst; the translator assumes it for distinct slice arguments). *)
Theorem c07_code_is_model :
  (forall c, g_lower c = Ret (lower c)) /\
  (forall c, 0 <= c < 256 -> g_upper c = Ret (upper c)) /\
  (forall fuel s base bits, 2 <= base < 256 -> 0 <= bits <= 64 -> (length s < fuel)%nat ->
     g_parseUint fuel s base bits = Ret (pu_res (parse_uint s base bits))) /\
  (forall dst v base, (length dst <= 8)%nat -> 2 <= base <= 36 -> g_appendUint dst v base = lift (append_uint (length dst) v base)) /\
  (forall fuel dst, bytes dst -> (length dst < fuel)%nat -> g_toUpper fuel dst = Ret (to_upper dst)) /\
  (forall fuel s, bytes s -> (length s < fuel)%nat -> g_OctalFormat fuel s = lift (octal_format s)) /\
  (forall fuel s, bytes s -> (length s < fuel)%nat -> (2 < fuel)%nat -> g_HexFormat fuel s = lift (hex_format s)) /\
  (forall fuel s, bytes s -> (length s < fuel)%nat -> (8 < fuel)%nat -> g_UnicodeFormat fuel s = lift (unicode_format s)) /\
  (forall fuel s, bytes s -> (length s < fuel)%nat -> (4 < fuel)%nat -> g_Utf16Format fuel s = lift (utf16_format s)) /\
  (forall fuel dst src, (length src < fuel)%nat ->
     g_OctalParse fuel dst src = mmap (parse_res dst) (lift (octal_parse (length dst) src))) /\
  (forall fuel dst src, (length src < fuel)%nat ->
     g_HexParse fuel dst src = mmap (parse_res dst) (lift (hex_parse (length dst) src))) /\
  (forall fuel dst src, (length src < fuel)%nat ->
     g_UnicodeParse fuel dst src = mmap (parse_res dst) (lift (unicode_parse (length dst) src))) /\
  (forall fuel dst src, (length src < fuel)%nat ->
     g_Utf16Parse fuel dst src = mmap (parse_res dst) (lift (utf16_parse (length dst) src))).
Proof.
  exact (conj code_lower (conj code_upper (conj code_parseUint (conj code_appendUint (conj code_toUpper
          (conj code_OctalFormat (conj code_HexFormat (conj code_UnicodeFormat (conj code_Utf16Format
          (conj code_OctalParse (conj code_HexParse (conj code_UnicodeParse code_Utf16Parse)))))))))))).
Qed.
Print Assumptions c07_code_is_model.

(* the case interpreter of the correspondence run with all twelve operations (the four Format functions, the four Parse
   functions with any destination length, Parse(Format(s))) executed through the generated functions (Run/C07Code.v) gives
   the output of `entry` on every case: the differential run of entry 0 against the compiled package is a run of the
   generated code *)
Theorem c07_entry_runs_generated_code : forall sub args, entry_code sub args = entry sub args.
Proof. exact entry_code_is_entry. Qed.
Print Assumptions c07_entry_runs_generated_code.
