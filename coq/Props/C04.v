(* C04 — placeholder, theorems follow *)
From V Require Import Model.Heap.
