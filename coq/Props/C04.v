(* C04 — heapz heaps behave as priority queues with stable element handles.
   Property theorems only: each is closed by [exact] of a lemma from Proofs/, with Print Assumptions beneath.
   [lt] is the comparator (cmp(a, b): a must come before b), any strict weak order; [heap_ok s n]: among the first n
   positions the parent never follows the child; [lcase std init ops] is the executable model of a whole case
   (FromSlice / Init, then the operations) for heapz.Slice (std = false) and the generic functions over a slice
   container (std = true); [jl_case] is the multiset-priority-queue judge that the check applies to the real
   implementation's outputs. *)
From Coq Require Import List ZArith Bool Permutation.
From V Require Import Lib.Enc Model.Heap Run.C04 Proofs.HeapTop Proofs.HeapRun.
Import ListNotations.

(* ---- adjustment.go / std_heap.go: the sift loops, for any strict weak order ---- *)
Theorem c04_sift_down_restores : forall (A : Type) (d : A) (lt : A -> A -> bool), strict_weak_order A lt ->
  forall n fuel s i, n <= length s -> n <= i + fuel ->
  (forall p c, c < n -> is_child p c -> p <> i -> ok A d lt s p c) ->
  (forall g c, is_child g i -> c < n -> is_child i c -> ok A d lt s g c) ->
  heap_ok A d lt (fst (down_go A d lt fuel s i n)) n.
Proof. exact t_down_restores. Qed.
Print Assumptions c04_sift_down_restores.

Theorem c04_sift_up_restores : forall (A : Type) (d : A) (lt : A -> A -> bool), strict_weak_order A lt ->
  forall n fuel s j, n <= length s -> j < n -> j < fuel ->
  (forall p c, c < n -> is_child p c -> c <> j -> ok A d lt s p c) ->
  (forall g c, is_child g j -> c < n -> is_child j c -> ok A d lt s g c) ->
  heap_ok A d lt (up_go A d lt fuel s j) n.
Proof. exact t_up_restores. Qed.
Print Assumptions c04_sift_up_restores.

(* fix = "if !down { up }": slot i arbitrary, everything else in order *)
Theorem c04_fix_restores : forall (A : Type) (d : A) (lt : A -> A -> bool), strict_weak_order A lt ->
  forall s i n, n <= length s -> i < n ->
  (forall p c, c < n -> is_child p c -> p <> i -> c <> i -> ok A d lt s p c) ->
  (forall g c, is_child g i -> c < n -> is_child i c -> ok A d lt s g c) ->
  heap_ok A d lt (fix_ A d lt s i n) n.
Proof. exact t_fix_restores. Qed.
Print Assumptions c04_fix_restores.

(* build (FromSlice, Heap.Init, generic Init): heap order established, nothing lost or duplicated *)
Theorem c04_build_heap : forall (A : Type) (d : A) (lt : A -> A -> bool), strict_weak_order A lt ->
  forall s, heap_ok A d lt (build A d lt s) (length s) /\ length (build A d lt s) = length s /\ Permutation (build A d lt s) s.
Proof. exact t_build_heap. Qed.
Print Assumptions c04_build_heap.

(* Peek / Pop: nothing in a heap precedes its root *)
Theorem c04_root_is_min : forall (A : Type) (d : A) (lt : A -> A -> bool), strict_weak_order A lt ->
  forall s n, heap_ok A d lt s n -> forall j, j < n -> lt (nth j s d) (nth 0 s d) = false.
Proof. exact t_root_is_min. Qed.
Print Assumptions c04_root_is_min.

(* the loops as the Go code runs them (int indices, every access checked, fuel) never panic, never run out of
   fuel and compute the pure loops wherever the code calls them; no assumption on the comparator *)
Theorem c04_loops_refine : forall (A : Type) (d : A) (lt : A -> A -> bool) (s : list A),
  (forall i n, n <= length s -> downL A lt s (Z.of_nat i) (Z.of_nat n) = Ok (down A d lt s i n)) /\
  (forall j, j < length s -> upL A lt s (Z.of_nat j) = Ok (up A d lt s j)) /\
  (forall i n, n <= length s -> i < n -> fixL A lt s (Z.of_nat i) (Z.of_nat n) = Ok (fix_ A d lt s i n)) /\
  buildL A lt s = Ok (build A d lt s).
Proof. exact t_loops_refine. Qed.
Print Assumptions c04_loops_refine.

(* ---- Slice and the generic functions, operation by operation ---- *)
Theorem c04_push : forall (A : Type) (d : A) (lt : A -> A -> bool), strict_weak_order A lt ->
  forall s x, heap_ok A d lt s (length s) ->
  exists s', sl_push A lt s x = Ok s' /\ std_push A lt s x = Ok s' /\ Permutation s' (x :: s) /\ heap_ok A d lt s' (length s').
Proof. exact t_push_spec. Qed.
Print Assumptions c04_push.

Theorem c04_pop_is_min : forall (A : Type) (d : A) (lt : A -> A -> bool), strict_weak_order A lt ->
  forall s, 1 <= length s -> heap_ok A d lt s (length s) ->
  exists s' x, sl_pop A lt s = Ok (s', Some x) /\ std_pop A lt s = Ok (s', Some x) /\
    x = nth 0 s d /\ (forall y, In y s -> lt y x = false) /\ Permutation (x :: s') s /\
    length s' = length s - 1 /\ heap_ok A d lt s' (length s').
Proof. exact t_pop_spec. Qed.
Print Assumptions c04_pop_is_min.

Theorem c04_remove_at_index : forall (A : Type) (d : A) (lt : A -> A -> bool), strict_weak_order A lt ->
  forall s i, i < length s -> heap_ok A d lt s (length s) ->
  exists s', sl_remove A lt s (Z.of_nat i) = Ok (s', Some (nth i s d)) /\ std_remove A lt s (Z.of_nat i) = Ok (s', Some (nth i s d)) /\
    Permutation (nth i s d :: s') s /\ length s' = length s - 1 /\ heap_ok A d lt s' (length s').
Proof. exact t_remove_spec. Qed.
Print Assumptions c04_remove_at_index.

Theorem c04_fix_after_change : forall (A : Type) (d : A) (lt : A -> A -> bool), strict_weak_order A lt ->
  forall s i x, i < length s -> heap_ok A d lt s (length s) ->
  exists s', sl_fix A lt (upd s i x) (Z.of_nat i) = Ok s' /\ std_fix A lt (upd s i x) (Z.of_nat i) = Ok s' /\
    Permutation s' (upd s i x) /\ heap_ok A d lt s' (length s').
Proof. exact t_fix_spec. Qed.
Print Assumptions c04_fix_after_change.

(* PopAll (also when the consumer stops after k values): sorted, the smallest k, nothing lost *)
Theorem c04_popall_sorted : forall (A : Type) (d : A) (lt : A -> A -> bool), strict_weak_order A lt ->
  forall s k, heap_ok A d lt s (length s) ->
  exists l rest, popall A (S (length s)) (sl_pop A lt) s k [] = Ok (rest, l) /\
    heap_ok A d lt rest (length rest) /\ Permutation (l ++ rest) s /\ sortedb A lt l = true /\
    (forall x, In x l -> forall y, In y rest -> lt y x = false) /\
    length l = (if (k <=? 0)%Z then length s else Nat.min (Z.to_nat k) (length s)).
Proof. exact t_popall_sorted. Qed.
Print Assumptions c04_popall_sorted.

(* ---- what the judge's boolean checks mean ---- *)
Theorem c04_judge_meaning : forall (A : Type) (d : A) (lt eqb : A -> A -> bool), (forall a b, eqb a b = true <-> a = b) ->
  (forall s, heap_okb A d lt s = true <-> heap_ok A d lt s (length s)) /\
  (forall a b, permb A eqb a b = true <-> Permutation a b) /\
  (forall x l, minimal A lt x l = true <-> forall y, In y l -> lt y x = false).
Proof. exact t_judge_meaning. Qed.
Print Assumptions c04_judge_meaning.
Theorem c04_sorted_meaning : forall (A : Type) (d : A) (lt : A -> A -> bool) l, sortedb A lt l = true <->
  forall i j, i < j -> j < length l -> lt (nth j l d) (nth i l d) = false.
Proof. exact t_sorted_meaning. Qed.
Print Assumptions c04_sorted_meaning.

(* ---- every operation sequence: the model of Slice / of the generic functions is accepted by the
        multiset-priority-queue judge (this is what Run/C04.v sub 1 evaluates, and what the check applies
        to the implementation's output as sub 2); a panic is possible only for a generic function called
        outside its contract ---- *)
Theorem c04_list_flavours_refine_pq : forall (A : Type) (d : A) (lt eqb : A -> A -> bool),
  strict_weak_order A lt -> (forall a b, eqb a b = true <-> a = b) ->
  forall std init ops, jl_case A d lt eqb std init ops (lcase A lt std init ops) = true.
Proof. exact t_lcase_judged. Qed.
Print Assumptions c04_list_flavours_refine_pq.

(* Slice never panics and never runs out of fuel, for any comparator at all *)
Theorem c04_slice_total : forall (A : Type) (d : A) (lt : A -> A -> bool) init ops,
  exists tr, lcase A lt false init ops = Ok tr.
Proof. exact t_slice_total. Qed.
Print Assumptions c04_slice_total.

(* the premises are exactly "strict weak order" *)
Theorem c04_swo_is_what_is_used : forall (A : Type) (lt : A -> A -> bool),
  strict_weak_order A lt <->
  (forall a b, lt a b = true -> lt b a = false) /\ (forall a b c, lt b a = false -> lt c b = false -> lt c a = false).
Proof. exact t_swo_iff. Qed.
Print Assumptions c04_swo_is_what_is_used.

(* ==== heapz.Heap: *Element handles ====
   A world is two heaps over one population of elements; a handle is the element's creation number.
   [WInv w]: every element held by a heap caches its position and that heap as owner, no element is held twice,
   every other element reports index -1 and owner nil, and both handle arrays are in heap order with respect to
   the elements' current values.  [J w j]: the judge's state (live handles per heap, values) describes w. *)

(* every API operation preserves the invariant, never reaches the "invalid index" panic, never runs out of fuel,
   and what it reports (result, Index() of every handle) is accepted by the priority-queue judge *)
Theorem c04_heap_step : forall (A : Type) (d : A) (lt eqb : A -> A -> bool),
  strict_weak_order A lt -> (forall a b, eqb a b = true <-> a = b) ->
  forall w j o, WInv A d lt w -> J A w j -> hop_wf A o = true ->
  exists w' r j', hstep A d lt w o = Ok (w', r) /\ jh_step A d lt eqb j o r (map (eidx A) (wst A w')) = HGo A j' /\
                  WInv A d lt w' /\ J A w' j'.
Proof. exact t_hstep_invariant. Qed.
Print Assumptions c04_heap_step.

(* every operation sequence on two fresh heaps — handles of either heap, stale and unknown handles, PushElement of
   a popped element, Init on a used heap, value changes followed by Fix on both heaps in either order, PopAll cut
   short — is accepted by the judge (this is Run/C04.v sub 1 for kind 1) *)
Theorem c04_heap_refines_pq : forall (A : Type) (d : A) (lt eqb : A -> A -> bool),
  strict_weak_order A lt -> (forall a b, eqb a b = true <-> a = b) ->
  forall ops, forallb (hop_wf A) ops = true ->
  (exists tr, hcase A d lt ops = Ok tr) /\ jh_case A d lt eqb ops (hcase A d lt ops) = true.
Proof. exact t_hcase_judged. Qed.
Print Assumptions c04_heap_refines_pq.

(* Remove(e) removes exactly e; e then reports Index() == -1; every other handle stays valid *)
Theorem c04_remove_handle : forall (A : Type) (d : A) (lt : A -> A -> bool), strict_weak_order A lt ->
  forall h mine other st e,
  HS A d h mine other st -> Ord A d lt mine other st -> h = 0%Z \/ h = 1%Z -> In e mine ->
  exists mine' st', hp_remove A d lt h (mine, st) e = Ok (mine', st') /\
    HS A d h mine' other st' /\ Ord A d lt mine' other st' /\ Permutation (e :: mine') mine /\
    length st' = length st /\ (forall x, valof A d st' x = valof A d st x) /\ eidx A (getE A d st' e) = (-1)%Z.
Proof. exact t_remove_handle. Qed.
Print Assumptions c04_remove_handle.

(* an element that has left the heap, an element of the other heap, a handle never issued: ignored by Remove and Fix *)
Theorem c04_foreign_and_stale_ignored : forall (A : Type) (d : A) (lt : A -> A -> bool) h mine other st e,
  HS A d h mine other st -> h = 0%Z \/ h = 1%Z -> ~ In e mine ->
  hp_remove A d lt h (mine, st) e = Ok (mine, st) /\ hp_fix A d lt h (mine, st) e = Ok (mine, st).
Proof. exact t_foreign_ignored. Qed.
Print Assumptions c04_foreign_and_stale_ignored.

(* Fix(e) after e.Value changed: order restored, same elements, all handles still valid *)
Theorem c04_fix_handle : forall (A : Type) (d : A) (lt : A -> A -> bool), strict_weak_order A lt ->
  forall h mine other st e (val0 : nat -> A),
  HS A d h mine other st -> h = 0%Z \/ h = 1%Z -> In e mine ->
  (forall x, x <> e -> valof A d st x = val0 x) -> heap_ok nat 0 (ltE A lt val0) mine (length mine) ->
  heap_ok nat 0 (ltE A lt (valof A d st)) other (length other) ->
  exists mine' st', hp_fix A d lt h (mine, st) e = Ok (mine', st') /\
    HS A d h mine' other st' /\ Ord A d lt mine' other st' /\ Permutation mine' mine /\
    length st' = length st /\ (forall x, valof A d st' x = valof A d st x).
Proof. exact t_fix_handle. Qed.
Print Assumptions c04_fix_handle.

(* Pop returns the root handle, nothing in the heap precedes it, it then reports -1 *)
Theorem c04_pop_handle : forall (A : Type) (d : A) (lt : A -> A -> bool), strict_weak_order A lt ->
  forall h mine other st, HS A d h mine other st -> Ord A d lt mine other st -> 1 <= length mine ->
  exists mine' st', hp_pop A d lt (mine, st) = Ok ((mine', st'), Z.of_nat (nth 0 mine 0)) /\
    HS A d h mine' other st' /\ Ord A d lt mine' other st' /\ Permutation (nth 0 mine 0 :: mine') mine /\
    (forall y, In y mine -> lt (valof A d st y) (valof A d st (nth 0 mine 0)) = false) /\
    length st' = length st /\ (forall x, valof A d st' x = valof A d st x) /\ eidx A (getE A d st' (nth 0 mine 0)) = (-1)%Z.
Proof. exact t_pop_handle. Qed.
Print Assumptions c04_pop_handle.

(* the Index() values of a world satisfying the invariant pass the judge's view check: live handles of each heap sit
   on 0..len-1 in heap order, everything else reports -1 *)
Theorem c04_invariant_is_observable : forall (A : Type) (d : A) (lt : A -> A -> bool) w j,
  WInv A d lt w -> J A w j -> view_ok A d lt j (map (eidx A) (wst A w)) = true.
Proof. exact t_view_ok. Qed.
Print Assumptions c04_invariant_is_observable.

(* ==== what the check executes ====
   Run/C04.v: [entry 0 args] = the model's encoded trace, [entry 1 args] = the judge applied to it (after decoding
   it again), [entry 2] = the same judge applied to the implementation's output.  For every integer list that
   decodes as a case (Heap cases: API operations only, i.e. without the harness-only index overwrite), the judge
   accepts the model: the comparator of the run is a strict weak order and the integer encoding loses nothing. *)
Theorem c04_run_level : forall args c, dec_case args = Some c ->
  match c with CList _ _ _ => True | CHeap ops => forallb (hop_wf Z) ops = true end ->
  entry 1 args = [1%Z].
Proof. exact run_model_judged. Qed.
Print Assumptions c04_run_level.
(* a Heap case decodes to API operations on heaps 0 / 1 as soon as no operation code is 10 *)
Theorem c04_decoded_ops_are_api : forall fuel next l ops, dec_hops fuel next l = Some ops -> no_corrupt l = true ->
  forallb (hop_wf Z) ops = true.
Proof. exact dec_hops_wf. Qed.
Print Assumptions c04_decoded_ops_are_api.

(* ==== the code IS the model (third tie to the source) ====
   Gen/HeapCode.v is produced on every run by the Go -> Gallina translator gen/trans*.go from the function BODIES of
   heapz/adjustment.go (swap, up, down, fix, build) and heapz/slice.go (type Slice: Push, Pop, Peek, Len, Remove, Fix).
   Elements are Z; the comparison is a parameter / Record field [cmp : Z -> Z -> bool]; the swap hook is instantiated
   with the generated g_swap (slice.go passes swap[T]).  Every generated function equals the hand-written model of
   Model/Heap.v on which the theorems above rest — layer 2, "the loops as the Go code runs them" (gdown / gup_go /
   gfix / gbuild over lessL / swapL: int indices, every access checked, fuel), and layer 3, the Slice operations —
   for EVERY comparison function (no order axioms), every slice, every index (up and fix: every index >= 0 — the sift-up
   loop is the same function for `if parent == j { break }` and for `for j > 0`, which independent refactorings prefer,
   exactly on the non-negative indices, the only ones a caller passes; the Slice methods need no premise).
   [cv f]: Ok x -> Ret (f x), Panic -> Panic, NoFuel -> NoFuel; [with_values s v]: s with Values := v; [st_opt]: Go
   returns (value, ok), the model an option.  Loops: equal to the model's loop for EVERY fuel (build: as soon as the
   fuel covers its len/2 rounds, the model's outer loop being structural); and with any fuel >= the model's own
   (fuelL s = S (length s)) equal to the model's downL / upL / fixL / buildL where the code calls them, and the Slice
   methods equal to sl_push / sl_pop / sl_peek / sl_remove / sl_fix outright.  [sl_*_f fuel] (Proofs/HeapCode.v) are
   the model's Slice operations with the fuel of their loops made a parameter. *)
From V Require Import Lib.GoSem Gen.HeapCode Proofs.HeapCode Run.C04Code.
Local Open Scope Z_scope.

Theorem c04_code_is_model :
  (forall s i j, g_swap s i j = cv id (swapL Z s i j)) /\
  (forall cmp fuel s i0 n, g_down fuel s cmp g_swap i0 n = cv id (gdown (list Z) (lessL Z cmp) (swapL Z) fuel s i0 n)) /\
  (forall cmp fuel s j, 0 <= j -> g_up fuel s cmp g_swap j = cv id (gup_go (list Z) (lessL Z cmp) (swapL Z) fuel s j)) /\
  (forall cmp fuel s i n, 0 <= i -> g_fix fuel s cmp g_swap i n = cv id (gfix (list Z) (lessL Z cmp) (swapL Z) fuel s i n)) /\
  (forall cmp fuel s, (Z.to_nat (Zlen s / 2) < fuel)%nat ->
     g_build fuel s cmp g_swap = cv id (gbuild (list Z) (lessL Z cmp) (swapL Z) fuel s (Zlen s))) /\
  (forall cmp fuel s i n, (n <= length s)%nat -> (fuelL Z s <= fuel)%nat ->
     g_down fuel s cmp g_swap (Z.of_nat i) (Z.of_nat n) = cv id (downL Z cmp s (Z.of_nat i) (Z.of_nat n))) /\
  (forall cmp fuel s j, (j < length s)%nat -> (fuelL Z s <= fuel)%nat ->
     g_up fuel s cmp g_swap (Z.of_nat j) = cv id (upL Z cmp s (Z.of_nat j))) /\
  (forall cmp fuel s i n, (n <= length s)%nat -> (i < n)%nat -> (fuelL Z s <= fuel)%nat ->
     g_fix fuel s cmp g_swap (Z.of_nat i) (Z.of_nat n) = cv id (fixL Z cmp s (Z.of_nat i) (Z.of_nat n))) /\
  (forall cmp fuel s, (fuelL Z s <= fuel)%nat -> g_build fuel s cmp g_swap = cv id (buildL Z cmp s)) /\
  (forall fuel s x, g_Slice_Push fuel s x = cv (with_values s) (sl_push_f (Slice_cmp s) fuel (Slice_Values s) x)) /\
  (forall fuel s, g_Slice_Pop fuel s = cv (st_opt s) (sl_pop_f (Slice_cmp s) fuel (Slice_Values s))) /\
  (forall fuel s i, g_Slice_Remove fuel s i = cv (st_opt s) (sl_remove_f (Slice_cmp s) fuel (Slice_Values s) i)) /\
  (forall fuel s i, g_Slice_Fix fuel s i = cv (with_values s) (sl_fix_f (Slice_cmp s) fuel (Slice_Values s) i)) /\
  (forall fuel s x, (fuelL Z (Slice_Values s ++ [x]) <= fuel)%nat ->
     g_Slice_Push fuel s x = cv (with_values s) (sl_push Z (Slice_cmp s) (Slice_Values s) x)) /\
  (forall fuel s, (fuelL Z (Slice_Values s) <= fuel)%nat ->
     g_Slice_Pop fuel s = cv (st_opt s) (sl_pop Z (Slice_cmp s) (Slice_Values s))) /\
  (forall s, g_Slice_Peek s = cv opt_res (sl_peek Z (Slice_Values s))) /\
  (forall s, g_Slice_Len s = Ret (Zlen (Slice_Values s))) /\
  (forall fuel s i, (fuelL Z (Slice_Values s) <= fuel)%nat ->
     g_Slice_Remove fuel s i = cv (st_opt s) (sl_remove Z (Slice_cmp s) (Slice_Values s) i)) /\
  (forall fuel s i, (fuelL Z (Slice_Values s) <= fuel)%nat ->
     g_Slice_Fix fuel s i = cv (with_values s) (sl_fix Z (Slice_cmp s) (Slice_Values s) i)).
Proof.
  exact (conj code_swap (conj code_down (conj code_up (conj code_fix (conj code_build (conj code_down_model
        (conj code_up_model (conj code_fix_model (conj code_build_model (conj code_Push_fuel (conj code_Pop_fuel
        (conj code_Remove_fuel (conj code_Fix_fuel (conj code_Push (conj code_Pop (conj code_Peek (conj code_Len
        (conj code_Remove code_Fix)))))))))))))))))).
Qed.
Print Assumptions c04_code_is_model.

(* the case interpreter of the correspondence run, executed through the generated functions (Run/C04Code.v: Slice
   cases, i.e. kind 0; FromSlice = the generated heapify loop), gives the output of `entry` on every case: the
   differential run of entry 0 against the compiled package is, for Slice, a run of the generated code *)
Theorem c04_entry_runs_generated_code : forall sub args, entry_code sub args = entry sub args.
Proof. exact entry_code_is_entry. Qed.
Print Assumptions c04_entry_runs_generated_code.
