(* C05 — Trie multi-pattern queries are exact.
   Property theorems only: each is closed by [exact] of a lemma from Proofs/, with Print Assumptions beneath.
   The executable model is Model/Trie.v (a node is its word of rune values; node table; ring queue; fuelled loops);
   [inserts ps] is the table after inserting the byte strings ps into the empty trie, [build] is BuildFailureLinks.
   [lps inT w] is the longest proper suffix of w that is a trie word (the head of the proper suffixes of w, longest
   first, filtered by membership). *)
From Coq Require Import List ZArith Bool.
From V Require Proofs.TrieAbs.
From V Require Import Model.Trie Proofs.TrieTable Proofs.TrieBuild.
Notation lps := TrieAbs.lps.
Notation is_suffix := TrieAbs.is_suffix.
Import ListNotations.

(* what lps denotes *)
Theorem c05_lps_is_longest_proper_suffix : forall (inT : list Z -> bool), inT [] = true -> forall w, w <> [] ->
  inT (lps inT w) = true /\ is_suffix (lps inT w) w /\ length (lps inT w) < length w /\
  (forall u, is_suffix u w -> length u < length w -> inT u = true -> length u <= length (lps inT w)).
Proof. exact TrieAbs.lps_spec. Qed.
Print Assumptions c05_lps_is_longest_proper_suffix.

(* BuildFailureLinks (table, ring queue with growth, fuelled loops) terminates within its fuel on the trie of every
   pattern set and sets the fail link of every non-root node to its longest proper suffix that is a trie word;
   children, sizes, end flags and the node set are unchanged *)
Theorem c05_build_failure_links_correct : forall ps : list (list Z),
  let T0 := inserts ps in
  exists T', build T0 = Some T' /\
    (forall v, inT T0 v = true -> v <> [] -> fail_of T' v = Some (lps (inT T0) v)) /\
    (forall w, kids_of T' w = kids_of T0 w /\ size_of T' w = size_of T0 w /\ is_end T' w = is_end T0 w /\ inT T' w = inT T0 w) /\
    length T' = length T0.
Proof. exact build_inserts_correct. Qed.
Print Assumptions c05_build_failure_links_correct.

(* ---------------------------------------------------------------------------------------------------------------
   End to end, for every pattern set and every text (byte strings: lists of integers 0..255):
   [built ps T]: T is the table after Insert(p) for every p of ps (in order) and BuildFailureLinks;
   [occurrence ps text s e]: some non-empty p of ps equals text[s:e] byte for byte, and s, e are rune boundaries of
   the text (offsets at which decodeRune starts a rune, or the end).  For patterns that are valid UTF-8 every
   byte-for-byte occurrence is of this kind (checked by the differential run in its plain-substring mode). *)
From V Require Import Proofs.TrieRunes Proofs.TrieOcc Proofs.TrieTop.

Theorem c05_occurrence_meaning : forall ps text s e, occurrence ps text s e <->
  exists p, In p ps /\ p <> [] /\ (0 <= s)%Z /\ e = (s + Z.of_nat (length p))%Z /\
            is_prefix p (skipn (Z.to_nat s) text) && (is_bound text (Z.to_nat s) && is_bound text (Z.to_nat s + length p)) = true.
Proof. exact occurrence_meaning. Qed.
Print Assumptions c05_occurrence_meaning.

(* find: no panic, no fuel exhaustion; one scope per (pattern, position) occurrence — nested and overlapping ones
   included — nothing else, none twice *)
Theorem c05_find_complete_sound_once : forall ps text T, Forall is_bytes ps -> is_bytes text -> built ps T ->
  exists sc, find T text = Ok sc /\ NoDup sc /\ (forall s e, In (s, e) sc <-> occurrence ps text s e).
Proof. exact find_correct. Qed.
Print Assumptions c05_find_complete_sound_once.

(* FindAll: every slice expression is in range and every entry is the matched pattern itself *)
Theorem c05_find_all_entries : forall ps text T, Forall is_bytes ps -> is_bytes text -> built ps T ->
  exists sc l, find T text = Ok sc /\ NoDup sc /\ (forall s e, In (s, e) sc <-> occurrence ps text s e) /\
    find_all T text = Ok l /\ Forall2 (fun se x => slice text (fst se) (snd se) = Some x /\ In x ps /\ x <> []) sc l.
Proof. exact find_all_correct. Qed.
Print Assumptions c05_find_all_entries.

(* Match *)
Theorem c05_match_iff_occurs : forall ps text T, Forall is_bytes ps -> is_bytes text -> built ps T ->
  exists b, match_ T text = Ok b /\ (b = true <-> exists s e, occurrence ps text s e).
Proof. exact match_iff_occurs. Qed.
Print Assumptions c05_match_iff_occurs.

(* the occurrences are those the executable specification of the run lists (rune-aligned reading, Model.Trie.occs) *)
Theorem c05_occurrences_are_spec_occs : forall ps text s e, occurrence ps text s e <->
  (0 <= s)%Z /\ (0 <= e)%Z /\ In (Z.to_nat s, Z.to_nat e) (occs true ps text).
Proof. exact occurrence_occs. Qed.
Print Assumptions c05_occurrences_are_spec_occs.

(* a trie exists for every pattern set: the premise [built ps T] is satisfiable *)
Theorem c05_built_exists : forall ps, exists T, built ps T.
Proof. exact built_exists. Qed.
Print Assumptions c05_built_exists.

(* PrefixSearch(key): no panic (Truncate always in range), no fuel exhaustion; exactly the inserted non-empty patterns
   that start with key and have a rune boundary at |key| (for a key that is valid UTF-8: that start with key), each once *)
Theorem c05_prefix_search_exact : forall ps key T, Forall is_bytes ps -> is_bytes key -> built ps T ->
  exists l, prefix_search T key = Ok l /\ NoDup l /\
    (forall y, In y l <-> In y ps /\ y <> [] /\ is_prefix key y = true /\ is_bound y (length key) = true).
Proof. exact prefix_search_correct. Qed.
Print Assumptions c05_prefix_search_exact.

(* ... which is the set the executable specification of the run lists (rune-aligned reading, Model.Trie.spec_prefix) *)
Theorem c05_prefix_search_is_spec : forall ps key T, Forall is_bytes ps -> is_bytes key -> built ps T ->
  exists l, prefix_search T key = Ok l /\ NoDup l /\ (forall y, In y l <-> In y (spec_prefix true ps key)).
Proof. exact prefix_search_spec. Qed.
Print Assumptions c05_prefix_search_is_spec.

(* FuzzySearch(key): no panic (slices and Truncate in range, fail links present), no fuel exhaustion; every returned string
   is an inserted non-empty pattern *)
From V Require Import Proofs.TrieFuzzy.
Theorem c05_fuzzy_sound : forall ps key T, Forall is_bytes ps -> is_bytes key -> built ps T ->
  exists l, fuzzy_search T key = Ok l /\ forall y, In y l -> In y ps /\ y <> [].
Proof. exact fuzzy_search_sound. Qed.
Print Assumptions c05_fuzzy_sound.

(* ---------------------------------------------------------------------------------------------------------------
   The property as written ("occurs in the text as a substring", "start with k"): for patterns / keys that are valid
   UTF-8 the rune-aligned reading used above is the plain byte-wise one, for ARBITRARY byte-string texts / patterns. *)
From V Require Import Lib.Utf8 Proofs.TrieValid.

(* every byte-for-byte occurrence of a well-formed non-empty pattern starts and ends on rune boundaries of the text *)
Theorem c05_valid_pattern_occurrences_are_aligned : forall p text s, is_bytes p -> valid_toks p -> p <> [] ->
  occ_at false p text s = true -> occ_at true p text s = true.
Proof. exact valid_occ_aligned. Qed.
Print Assumptions c05_valid_pattern_occurrences_are_aligned.

Theorem c05_valid_utf8_is_valid_toks : forall p, is_bytes p -> valid_utf8 p = true -> valid_toks p.
Proof. exact valid_utf8_toks. Qed.
Print Assumptions c05_valid_utf8_is_valid_toks.

(* the executable specification: plain and aligned occurrence lists are the same list for well-formed pattern sets;
   plain and aligned prefix sets are the same for a well-formed key *)
Theorem c05_plain_reading_for_valid_patterns : forall ps text, Forall is_bytes ps -> forallb valid_utf8 ps = true ->
  occs false ps text = occs true ps text.
Proof. exact occs_valid_eq. Qed.
Print Assumptions c05_plain_reading_for_valid_patterns.

Theorem c05_plain_reading_for_valid_key : forall ps key, is_bytes key -> valid_utf8 key = true ->
  spec_prefix false ps key = spec_prefix true ps key.
Proof. exact spec_prefix_valid_eq. Qed.
Print Assumptions c05_plain_reading_for_valid_key.

(* ---------------------------------------------------------------------------------------------------------------
   Refinement to what the run executes.  For every pattern set and text (byte strings) the four outputs of the executable
   model satisfy the conditions the judge checks on the implementation's outputs, in the reading the judge selects ... *)
From V Require Import Lib.Enc Model.TrieCase Proofs.TrieJudge.

Theorem c05_model_satisfies_judge : forall ps text T, Forall is_bytes ps -> is_bytes text -> built ps T ->
  match_ T text = Ok (spec_match (mode_of ps) ps text) /\
  (exists l, find_all T text = Ok l /\ perm_b l (spec_find_all (mode_of ps) ps text) = true) /\
  (exists l, prefix_search T text = Ok l /\ perm_b l (spec_prefix (negb (valid_utf8 text)) ps text) = true) /\
  (exists l, fuzzy_search T text = Ok l /\ forallb (fun x => memb x (patterns ps)) l = true).
Proof. exact model_accepted. Qed.
Print Assumptions c05_model_satisfies_judge.

(* ... and on the integer encoding: `entry 2` (Run/C05.v: c05_ok) answers 1 on the model's own output (`entry 0`:
   c05_model) for every case of the form Insert p1; ...; Insert pn; BuildFailureLinks; query text *)
Theorem c05_judge_accepts_model : forall ps text, Forall is_bytes ps -> is_bytes text ->
  let ops := map OInsert ps ++ [OBuild] in
  c05_ok ops text (c05_model ops text) = true.
Proof. exact judge_accepts_model. Qed.
Print Assumptions c05_judge_accepts_model.

(* ---------------------------------------------------------------------------------------------------------------
   EMISSION ORDER (list-level statements; specification side in Model/TrieOrder.v).

   find / FindAll.  [occ_before a b]: (start, end) a has the smaller end, or the same end and the smaller start (= the
   longer pattern: the fail chain reports the longest suffix first).  Model.Trie.occs is strictly sorted that way, and it
   is the only list with its elements that is. *)
From Coq Require Import Sorted.
From V Require Import Model.TrieOrder Proofs.TrieOrderFind Proofs.TrieOrderPrefix Proofs.TrieOrderTop.

Theorem c05_occs_emission_order : forall aligned ps text,
  StronglySorted occ_before (occs aligned ps text) /\
  (forall l, StronglySorted occ_before l -> (forall se, In se l <-> In se (occs aligned ps text)) -> l = occs aligned ps text).
Proof. exact occs_emission_order. Qed.
Print Assumptions c05_occs_emission_order.

(* the scope list of find IS the specification's occurrence list (as integers), element by element; FindAll's strings are
   the specification's strings in the same order *)
Theorem c05_find_all_order : forall ps text T, Forall is_bytes ps -> is_bytes text -> built ps T ->
  find T text = Ok (map scope_of (occs true ps text)) /\
  find_all T text = Ok (spec_find_all true ps text).
Proof. exact find_order. Qed.
Print Assumptions c05_find_all_order.

(* PrefixSearch.  [dfs_before x y] on rune words (values as decodeRune assigns them): x is a proper prefix of y (a node is
   reported before its descendants), or at the first position where they differ x has the LARGER rune (the last child is
   popped first). *)
Theorem c05_dfs_order_meaning : forall x y, dfs_before x y = true <->
  (exists e, e <> [] /\ y = x ++ e) \/
  (exists q c d x' y', x = q ++ c :: x' /\ y = q ++ d :: y' /\ (d < c)%Z).
Proof. exact dfs_before_iff. Qed.
Print Assumptions c05_dfs_order_meaning.

(* the executable specification list spec_prefix_ordered (insertion sort of the prefix set by pat_before p q =
   dfs_before (runes_of p) (runes_of q)) is strictly sorted, has exactly the elements of the prefix set, and is the only
   such list *)
Theorem c05_spec_prefix_ordered_meaning : forall aligned ps key, Forall is_bytes ps ->
  StronglySorted (fun p q => pat_before p q = true) (spec_prefix_ordered aligned ps key) /\
  (forall y, In y (spec_prefix_ordered aligned ps key) <-> In y (spec_prefix aligned ps key)) /\
  (forall l, StronglySorted (fun p q => pat_before p q = true) l -> (forall y, In y l <-> In y (spec_prefix aligned ps key)) ->
             l = spec_prefix_ordered aligned ps key).
Proof. exact spec_prefix_ordered_meaning. Qed.
Print Assumptions c05_spec_prefix_ordered_meaning.

(* PrefixSearch(key) returns that list, element by element: the pre-order of the subtree below the key's node with the
   children taken last-to-first *)
Theorem c05_prefix_search_order : forall ps key T, Forall is_bytes ps -> is_bytes key -> built ps T ->
  prefix_search T key = Ok (spec_prefix_ordered true ps key).
Proof. exact prefix_search_order. Qed.
Print Assumptions c05_prefix_search_order.

(* in the reading the run's judge selects: Match, FindAll and PrefixSearch of the model EQUAL the specification's answers
   as lists (c05_model_satisfies_judge gives multiset equality, which is all the property asks of an implementation) *)
Theorem c05_model_equals_ordered_spec : forall ps text T, Forall is_bytes ps -> is_bytes text -> built ps T ->
  match_ T text = Ok (spec_match (mode_of ps) ps text) /\
  find_all T text = Ok (spec_find_all (mode_of ps) ps text) /\
  prefix_search T text = Ok (spec_prefix_ordered (negb (valid_utf8 text)) ps text).
Proof. exact model_equals_ordered_spec. Qed.
Print Assumptions c05_model_equals_ordered_spec.

(* ---------------------------------------------------------------------------------------------------------------
   REBUILDS.  For EVERY operation sequence (Insert p | BuildFailureLinks in any order, from the empty trie):
   BuildFailureLinks never exhausts its fuel, and when the sequence ends with a build the table is THE table
   [built (inserted ops)]: inserting all patterns so far into the empty trie and building once.  So every theorem above
   with the premise [built ps T] speaks about the trie of every such sequence (stale fail links left by an earlier build
   are never read: Proofs/TrieBuild.v needs only a nil root link). *)
From V Require Import Proofs.TrieOrderRebuild.

Theorem c05_rebuild_is_one_shot_build : forall ops,
  exists T, run_ops empty_trie ops = Some T /\ (canonical ops = true -> built (inserted ops) T).
Proof. exact run_ops_canonical. Qed.
Print Assumptions c05_rebuild_is_one_shot_build.

(* spelled out: the five queries after any sequence that ends with a build *)
Theorem c05_queries_after_rebuilds : forall ops text T, Forall is_bytes (inserted ops) -> is_bytes text ->
  canonical ops = true -> run_ops empty_trie ops = Some T ->
  let ps := inserted ops in
  match_ T text = Ok (spec_match (mode_of ps) ps text) /\
  find T text = Ok (map scope_of (occs true ps text)) /\
  find_all T text = Ok (spec_find_all (mode_of ps) ps text) /\
  prefix_search T text = Ok (spec_prefix_ordered (negb (valid_utf8 text)) ps text) /\
  (exists l, fuzzy_search T text = Ok l /\ forall y, In y l -> In y ps /\ y <> []).
Proof. exact queries_after_rebuilds. Qed.
Print Assumptions c05_queries_after_rebuilds.

(* the run's judge (`entry 2`) answers 1 on the model's own output (`entry 0`) for EVERY decoded case, rebuilds included
   (a case whose last operation is not a build is not judged: c05_ok is true there by definition) *)
Theorem c05_judge_accepts_model_all_sequences : forall ops text, Forall is_bytes (inserted ops) -> is_bytes text ->
  c05_ok ops text (c05_model ops text) = true.
Proof. exact judge_accepts_model_ops. Qed.
Print Assumptions c05_judge_accepts_model_all_sequences.

(* ---------------------------------------------------------------------------------------------------------------
   THE BUILT STRUCTURE (the Dump observation of the run, Model/TrieDump.v).  [dump T] lists the node table in pre-order,
   children in stored order; the run compares its encoding with the same walk over the real algz.Trie (reflect/unsafe).
   For the trie of every pattern set: the dump lists every table node exactly once, and every dumped node (word w, node n)
   is the table's node for w; the root has no fail link; the fail link of a non-root node is a trie word, a proper suffix
   of w, and no longer proper suffix of w is a trie word; isEnd exactly when an inserted non-empty pattern has rune word
   w; size = byte length of w; the children are strictly ascending and are exactly the runes c with w ++ [c] a trie word. *)
From Coq Require Import Permutation.
From V Require Import Model.TrieDump Proofs.TrieDump.

Theorem c05_dump_of_built_trie : forall ps T, Forall is_bytes ps -> built ps T ->
  Permutation (dump T) T /\
  forall w n, In (w, n) (dump T) ->
    get T w = Some n /\
    (w = [] -> fail n = None) /\
    (w <> [] -> exists u, fail n = Some u /\ inT T u = true /\ is_suffix u w /\ length u < length w /\
                (forall u', is_suffix u' w -> length u' < length w -> inT T u' = true -> length u' <= length u)) /\
    (isEnd n = true <-> exists p, In p ps /\ p <> [] /\ runes_of p = w) /\
    nsize n = Z.of_nat (length (wbytes w)) /\
    StronglySorted Z.lt (kids n) /\
    (forall c, In c (kids n) <-> inT T (w ++ [c]) = true).
Proof. exact dump_built. Qed.
Print Assumptions c05_dump_of_built_trie.

(* ... and for the trie of every operation sequence that ends with a build *)
Theorem c05_dump_after_rebuilds : forall ops T, Forall is_bytes (inserted ops) -> canonical ops = true ->
  run_ops empty_trie ops = Some T ->
  let ps := inserted ops in
  Permutation (dump T) T /\
  forall w n, In (w, n) (dump T) ->
    get T w = Some n /\
    (w = [] -> fail n = None) /\
    (w <> [] -> exists u, fail n = Some u /\ inT T u = true /\ is_suffix u w /\ length u < length w /\
                (forall u', is_suffix u' w -> length u' < length w -> inT T u' = true -> length u' <= length u)) /\
    (isEnd n = true <-> exists p, In p ps /\ p <> [] /\ runes_of p = w) /\
    nsize n = Z.of_nat (length (wbytes w)) /\
    StronglySorted Z.lt (kids n) /\
    (forall c, In c (kids n) <-> inT T (w ++ [c]) = true).
Proof. exact dump_after_ops. Qed.
Print Assumptions c05_dump_after_rebuilds.
