(* C05 — property theorems (being added). *)
From Coq Require Import List ZArith.
