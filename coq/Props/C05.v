(* C05 — Trie multi-pattern queries are exact.
   Property theorems only: each is closed by [exact] of a lemma from Proofs/, with Print Assumptions beneath.
   The executable model is Model/Trie.v (a node is its word of rune values; node table; ring queue; fuelled loops);
   [inserts ps] is the table after inserting the byte strings ps into the empty trie, [build] is BuildFailureLinks.
   [lps inT w] is the longest proper suffix of w that is a trie word (the head of the proper suffixes of w, longest
   first, filtered by membership). *)
From Coq Require Import List ZArith Bool.
From V Require Proofs.TrieAbs.
From V Require Import Model.Trie Proofs.TrieTable Proofs.TrieBuild.
Notation lps := TrieAbs.lps.
Notation is_suffix := TrieAbs.is_suffix.
Import ListNotations.

(* what lps denotes *)
Theorem c05_lps_is_longest_proper_suffix : forall (inT : list Z -> bool), inT [] = true -> forall w, w <> [] ->
  inT (lps inT w) = true /\ is_suffix (lps inT w) w /\ length (lps inT w) < length w /\
  (forall u, is_suffix u w -> length u < length w -> inT u = true -> length u <= length (lps inT w)).
Proof. exact TrieAbs.lps_spec. Qed.
Print Assumptions c05_lps_is_longest_proper_suffix.

(* BuildFailureLinks (table, ring queue with growth, fuelled loops) terminates within its fuel on the trie of every
   pattern set and sets the fail link of every non-root node to its longest proper suffix that is a trie word;
   children, sizes, end flags and the node set are unchanged *)
Theorem c05_build_failure_links_correct : forall ps : list (list Z),
  let T0 := inserts ps in
  exists T', build T0 = Some T' /\
    (forall v, inT T0 v = true -> v <> [] -> fail_of T' v = Some (lps (inT T0) v)) /\
    (forall w, kids_of T' w = kids_of T0 w /\ size_of T' w = size_of T0 w /\ is_end T' w = is_end T0 w /\ inT T' w = inT T0 w) /\
    length T' = length T0.
Proof. exact build_inserts_correct. Qed.
Print Assumptions c05_build_failure_links_correct.
