(* C17 — rune-aware string helpers of strz never split a rune and match their rune-list definitions.
   Property theorems only: each is closed by [exact] of a lemma from Proofs/, with Print Assumptions beneath.
   Vocabulary (Model/Strs.v): a string is a list of bytes (Z); [chunks s] is the rune list of s as the code's scanning
   loops and range-over-string cut it (one list of bytes per rune, an invalid byte is a chunk of its own);
   [firstz]/[skipz] are firstn/skipn with a Go int argument (saturating); [Ret b] = returns b, [Panic] = the code panics,
   [Stuck] = the model's loop fuel ran out.  [bytes s] = every element is in 0..255; [valid_utf8] is Lib.Utf8's
   utf8.ValidString; [maxint] = 2^63-1, [two63] = 2^63; [zlen s <= maxint]: Go strings are shorter than 2^63 bytes. *)
From Coq Require Import List ZArith Bool.
(* the translator tie (last theorems): imported first, so that Ret / Panic / bind / zlen below are Model.Strs's *)
From V Require Import Lib.GoSem Gen.StrsCode Run.C17Code Proofs.StrsCode Proofs.StrsCodeRun.
From V Require Import Lib.Utf8 Model.Strs Run.C17 Proofs.StrsBasic Proofs.StrsMask Proofs.StrsRunes Proofs.StrsCase Proofs.StrsRun.
Import ListNotations.
Local Open Scope Z_scope.

(* Len counts runes *)
Theorem c17_len_spec : forall s, len s = Z.of_nat (length (chunks s)).
Proof. exact len_spec. Qed.
Print Assumptions c17_len_spec.

(* Sub = runes [start, start+length) (to the end for -1), for every byte string (valid or not), every start >= 0 and
   length >= -1 of the int range, up to and beyond the rune count; start+length is computed with 64-bit wrap *)
Theorem c17_sub_spec : forall s start length_, zlen s <= maxint -> 0 <= start <= maxint -> -1 <= length_ <= maxint ->
  sub s start length_ = Ret (spec_sub s start length_).
Proof. exact sub_spec. Qed.
Print Assumptions c17_sub_spec.
(* no panic for any int arguments *)
Theorem c17_sub_no_panic : forall s start length_, zlen s <= maxint -> - two63 <= start <= maxint -> - two63 <= length_ <= maxint ->
  exists b, sub s start length_ = Ret b.
Proof. exact sub_no_panic. Qed.
Print Assumptions c17_sub_no_panic.

(* Mask = first `start` runes ++ mask (once per replaced rune when it is one rune) ++ last `end` runes; unchanged when
   start+end >= rune count; every byte string and mask; all 0 <= start, end of the int range (code as repaired: F14).
   [zlen msk * zlen str <= alloc_limit] says the repeated mask can be allocated (2^48 bytes, runtime.maxAlloc). *)
Theorem c17_mask_spec : forall str msk start end_,
  zlen str <= maxint -> zlen msk * zlen str <= alloc_limit -> 0 <= start <= maxint -> 0 <= end_ <= maxint ->
  mask str msk start end_ = Ret (spec_mask str msk start end_).
Proof. exact mask_spec. Qed.
Print Assumptions c17_mask_spec.
(* arbitrary (also negative) int arguments: the only possible panic is strings.Repeat asked for more than can be allocated *)
Theorem c17_mask_no_panic : forall str msk start end_,
  zlen str <= maxint -> - two63 <= start <= maxint -> - two63 <= end_ <= maxint ->
  (let ml := wrap64 (wrap64 (rune_count_z str - start) - end_) in
   rune_count_z msk = 1 -> 1 < ml -> zlen msk * ml <= alloc_limit) ->
  exists b, mask str msk start end_ = Ret b.
Proof. exact mask_no_panic. Qed.
Print Assumptions c17_mask_no_panic.

(* SubByDisplay = the longest prefix of whole runes whose display width fits: valid UTF-8, every limit >= 0 ... *)
Theorem c17_sub_by_display_spec : forall s limit, valid_utf8 s = true -> 0 <= limit ->
  sub_by_display s limit = Ret (spec_sub_by_display s limit).
Proof. exact sub_by_display_spec. Qed.
Print Assumptions c17_sub_by_display_spec.
(* ... where [fit] really is the longest fitting prefix *)
Theorem c17_fit_longest : forall cs limit, 0 <= limit -> exists k, fit cs limit = firstn k cs /\ cwidth (firstn k cs) <= limit /\
  ((k < length cs)%nat -> limit < cwidth (firstn (S k) cs)).
Proof. exact fit_longest. Qed.
Print Assumptions c17_fit_longest.
(* any byte string, any int limit: no panic (this is F12 after its repair) *)
Theorem c17_sub_by_display_no_panic : forall s limit, exists b, sub_by_display s limit = Ret b.
Proof. exact sub_by_display_no_panic. Qed.
Print Assumptions c17_sub_by_display_no_panic.

(* Rev reverses the rune order (valid UTF-8); the model of Rev is total by construction *)
Theorem c17_rev_spec : forall s, bytes s -> valid_utf8 s = true -> rev_str s = spec_rev s.
Proof. exact rev_spec. Qed.
Print Assumptions c17_rev_spec.

(* RemoveRunes deletes exactly the runes selected by the predicate (valid UTF-8, any predicate); no panic on any byte string *)
Theorem c17_remove_runes_spec : forall p s, bytes s -> valid_utf8 s = true -> remove_runes p s = Ret (spec_remove_runes p s).
Proof. exact remove_runes_spec. Qed.
Print Assumptions c17_remove_runes_spec.
Theorem c17_remove_runes_no_panic : forall p s, exists b, remove_runes p s = Ret b.
Proof. exact remove_runes_no_panic. Qed.
Print Assumptions c17_remove_runes_no_panic.

(* results are valid UTF-8 again *)
Theorem c17_sub_valid : forall s, bytes s -> valid_utf8 s = true -> forall start length_, valid_utf8 (spec_sub s start length_) = true.
Proof. exact sub_valid. Qed.
Print Assumptions c17_sub_valid.
Theorem c17_mask_valid : forall s, bytes s -> valid_utf8 s = true -> forall msk start end_,
  bytes msk -> valid_utf8 msk = true -> valid_utf8 (spec_mask s msk start end_) = true.
Proof. exact mask_valid. Qed.
Print Assumptions c17_mask_valid.
Theorem c17_sub_by_display_valid : forall s, bytes s -> valid_utf8 s = true -> forall limit, valid_utf8 (spec_sub_by_display s limit) = true.
Proof. exact sub_by_display_valid. Qed.
Print Assumptions c17_sub_by_display_valid.
Theorem c17_rev_valid : forall s, bytes s -> valid_utf8 s = true -> valid_utf8 (spec_rev s) = true.
Proof. exact rev_valid. Qed.
Print Assumptions c17_rev_valid.
Theorem c17_remove_runes_valid : forall s, bytes s -> valid_utf8 s = true -> forall p, valid_utf8 (spec_remove_runes p s) = true.
Proof. exact remove_runes_valid. Qed.
Print Assumptions c17_remove_runes_valid.

(* the case converters never panic, on any byte string *)
Theorem c17_snake_to_camel_no_panic : forall s up, exists b, snake_to_camel s up = Ret b.
Proof. exact snake_to_camel_no_panic. Qed.
Print Assumptions c17_snake_to_camel_no_panic.
Theorem c17_camel_to_snake_no_panic : forall s, exists b, camel_to_snake s = Ret b.
Proof. exact camel_to_snake_no_panic. Qed.
Print Assumptions c17_camel_to_snake_no_panic.

(* CamelCaseToSnake(SnakeToCamelCase(x, firstUp)) = x for every identifier word (_ word)*, word = [a-z][a-z0-9]*
   ([ident], DESIGN §5 C17), both values of firstUp *)
Theorem c17_snake_camel_roundtrip : forall x up, ident x = true -> bind (snake_to_camel x up) camel_to_snake = Ret x.
Proof. exact snake_camel_roundtrip. Qed.
Print Assumptions c17_snake_camel_roundtrip.

(* UcFirst / LcFirst change at most the first byte, and only an ASCII letter (total by construction) *)
Theorem c17_uc_first_spec : forall s, uc_first s = match s with b :: t => (if lower b then b - 32 else b) :: t | [] => [] end.
Proof. exact uc_first_spec. Qed.
Print Assumptions c17_uc_first_spec.
Theorem c17_lc_first_spec : forall s, lc_first s = match s with b :: t => (if upper b then b + 32 else b) :: t | [] => [] end.
Proof. exact lc_first_spec. Qed.
Print Assumptions c17_lc_first_spec.

(* the theorems above assembled over the case decoder of Run/C17.v: on every well-formed case for which the property
   defines the output ([expected] = Some e: non-negative arguments, valid UTF-8 where needed, identifiers for the round
   trip) the model's output is e, i.e. the judge applied by the differential run accepts the model *)
Theorem c17_run_model_expected : forall op r e, case_wf op r -> expected op r = Some e -> run_model op r = e.
Proof. exact run_model_expected. Qed.
Print Assumptions c17_run_model_expected.
Theorem c17_judge_accepts_model : forall op r e, case_wf op r -> expected op r = Some e -> spec_ok op r (run_model op r) = true.
Proof. exact spec_ok_model. Qed.
Print Assumptions c17_judge_accepts_model.

(* ---------------------------------------------------------------------------------------------------------------
   The translator tie (gen/TRANSLATOR.md, area StrsCode): each function of coq/Gen/StrsCode.v — GENERATED from the current
   strz/strs.go by gen/trans*.go + gen/trans_ext17.go on every run — equals the hand-written model function the theorems
   above are about.  Conventions: a string is the list of its bytes; Go int is an unbounded Z; byte arithmetic wraps
   (wrap 8); utf8.RuneCountInString / DecodeRuneInString, range-over-string, []rune(s), string(runes) and strings.Repeat are
   the models of Lib/GoSemStd.v / Lib/GoSemStr.v over Lib/Utf8.v (the UTF-8 model of the hand-written models; Repeat:
   panics for a negative count, an int overflow of the output length, an output above runtime.maxAlloc = 2^48).
   [to_M] reads the model's result in the monad of generated code (Ret / Panic / Stuck = NoFuel).
   - Len, UcFirst, LcFirst: for EVERY list of integers;
   - SubByDisplay: for every list, every limit and EVERY fuel, against the model's loop run on the same fuel; the model's
     own fuel is S (length s) (sub_by_display_fuel (S (length s)) = sub_by_display by definition);
   - Rev: for every list and every fuel above the number of runes (S (length s) suffices);
   - Sub, Mask: for every fuel, on the domain where no int expression of the code leaves the int64 range (the hand model
     wraps start+length, l-start, l-start-end, l-end at 64 bits; the translation does not): [sub_no_wrap], [mask_no_wrap]
     say exactly that; sufficient: -2^63 <= start+length < 2^63 (Sub); len(str) <= MaxInt and 0 <= start, 0 <= end (Mask:
     the domain of c17_mask_spec). *)
Theorem c17_code_is_model :
  (forall s, g_Len s = GoSem.Ret (len s)) /\
  (forall s, g_UcFirst s = GoSem.Ret (uc_first s)) /\
  (forall s, g_LcFirst s = GoSem.Ret (lc_first s)) /\
  (forall fuel s start length_, sub_no_wrap start length_ -> g_Sub fuel s start length_ = to_M (sub_fuel fuel s start length_)) /\
  (forall s start length_, sub_fuel (S (length s)) s start length_ = sub s start length_) /\
  (forall start length_, - two63 <= start + length_ < two63 -> sub_no_wrap start length_) /\
  (forall fuel str msk start end_, mask_no_wrap str start end_ ->
     g_Mask fuel str msk start end_ = to_M (mask_fuel fuel str msk start end_)) /\
  (forall str msk start end_, mask_fuel (S (length str)) str msk start end_ = mask str msk start end_) /\
  (forall str start end_, Strs.zlen str <= maxint -> 0 <= start -> 0 <= end_ -> mask_no_wrap str start end_) /\
  (forall fuel s limit, g_SubByDisplay fuel s limit = to_M (sub_by_display_fuel fuel s limit)) /\
  (forall s limit, sub_by_display_fuel (S (length s)) s limit = sub_by_display s limit) /\
  (forall fuel s, (length (runes s) < fuel)%nat -> g_Rev fuel s = GoSem.Ret (rev_str s)) /\
  (forall s, g_Rev (S (length s)) s = GoSem.Ret (rev_str s)).
Proof.
  exact (conj code_Len (conj code_UcFirst (conj code_LcFirst (conj code_Sub_fuel (conj sub_fuel_model (conj sub_no_wrap_dom
        (conj code_Mask_fuel (conj mask_fuel_model (conj mask_no_wrap_dom (conj code_SubByDisplay_fuel
        (conj sub_by_display_fuel_model (conj code_Rev_fuel code_Rev)))))))))))).
Qed.
Print Assumptions c17_code_is_model.

(* the case interpreter of the correspondence run, ops 0 (Mask), 1 (Sub), 2 (SubByDisplay), 3 (Rev), 4 (Len), 8 (UcFirst),
   9 (LcFirst) executed through the generated functions (Run/C17Code.v), gives the output of `entry` on every case: the
   differential run of entry 0 against the compiled package is, for these ops, a run of the generated code *)
Theorem c17_entry_runs_generated_code : forall sub args, entry_code sub args = entry sub args.
Proof. exact entry_code_is_entry. Qed.
Print Assumptions c17_entry_runs_generated_code.
