(* C13 — DList and SList keep exact sequence semantics with stable node handles.
   Property theorems only: each is closed by [exact] of a lemma from Proofs/, with Print Assumptions beneath.
   Models: Model/DList.v (heap level: next / prev / list / Value stores, two lists with sentinels 0 and 1; dlist_case,
   dexec; dspec_case / sexec = the sequence specification, container/list's documented behaviour on node ids),
   Model/SList.v (slist_case, sl_exec; sspec_case / q_exec).  A specification run is None when the operation sequence
   leaves its domain: unknown handle, Init of a non-empty list, node insertion (PushFrontNode, PushBackNode,
   InsertNodeBefore/After with a mark in the list, SList.Push*Node / InsertNodeAt) of a node that is still in a list. *)
From Coq Require Import List ZArith Bool.
From V Require Import Lib.Enc Model.DList Model.SList Run.C13 Proofs.DListRel Proofs.DListRun Proofs.SListInv Proofs.SListRun Proofs.C13Entry.
Import ListNotations.

(* ---------------------------------------------------------------- DList *)
(* all operation sequences in the specification's domain — live, removed, never-inserted and foreign handles, Move*
   with every relative position, self-copies PushBackDList(l, l) / PushFrontDList(l, l), front-to-back, back-to-front
   and All traversals — from zero-value or initialised lists (z0, z1 arbitrary): no panic, no fuel exhaustion, and
   exactly the specification's results; in particular the results do not depend on z0, z1 (zero values are ready) *)
Theorem c13_dlist_refines_seq : forall z0 z1 ops outs, dspec_case ops = Some outs -> dlist_case z0 z1 ops = ROut outs.
Proof. exact dlist_refines_seq. Qed.
Print Assumptions c13_dlist_refines_seq.

(* the heap invariant R (Proofs/DListRel.v) holds in every reachable state: for both lists the next-ring from the
   sentinel is the sequence with prev its inverse (or the list is an untouched zero value), sequences duplicate-free
   and disjoint, len = length, e.list = the list that contains e and nil otherwise, nodes in no list have next = prev
   = nil, Value as in the specification *)
Theorem c13_dlist_inv : forall z0 z1 ops s', sexec dspec0 ops = Some s' ->
  exists h', dexec (heap0 z0 z1) ops = Some h' /\ R h' s'.
Proof. exact dlist_inv. Qed.
Print Assumptions c13_dlist_inv.

(* what R gives for a member e of list L between A and B *)
Theorem c13_dlist_inv_pointers : forall h s L A e B, R h s -> L < 2 -> seq_of s L = A ++ e :: B ->
  nxt h e = Some (List.hd L B) /\ prv h e = Some (List.last A L) /\ own h e = Some L /\ 2 <= e < fresh h.
Proof. exact dlist_inv_pointers. Qed.
Print Assumptions c13_dlist_inv_pointers.

(* ---------------------------------------------------------------- SList *)
(* all operation sequences in the specification's domain, all indices incl. out-of-range (Get / Remove reject, InsertAt
   clamps, Swap ignores), Front / Back / Len / Next-traversal / All consistent with the sequence *)
Theorem c13_slist_refines_seq : forall ops outs, sspec_case ops = Some outs -> slist_case ops = ROut outs.
Proof. exact slist_refines_seq. Qed.
Print Assumptions c13_slist_refines_seq.

(* RS (Proofs/SListInv.v): chain from head through exactly the ids to nil, ids duplicate-free, tail = last node,
   len = chain length, nodes not in the list have next = nil — in every reachable state *)
Theorem c13_slist_inv : forall ops q', q_exec sspec0 ops = Some q' -> exists s', sl_exec sl0 ops = Some s' /\ RS s' q'.
Proof. exact slist_inv. Qed.
Print Assumptions c13_slist_inv.

(* ---------------------------------------------------------------- the tie to what the check executes *)
Theorem c13_entry_dlist_model_eq_spec : forall z0 z1 toks,
  entry 1 (0 :: z0 :: z1 :: toks)%Z = [BADCASE] \/ entry 0 (0 :: z0 :: z1 :: toks)%Z = entry 1 (0 :: z0 :: z1 :: toks)%Z.
Proof. exact entry_dlist_model_eq_spec. Qed.
Print Assumptions c13_entry_dlist_model_eq_spec.

Theorem c13_entry_slist_model_eq_spec : forall z0 z1 toks,
  entry 1 (1 :: z0 :: z1 :: toks)%Z = [BADCASE] \/ entry 0 (1 :: z0 :: z1 :: toks)%Z = entry 1 (1 :: z0 :: z1 :: toks)%Z.
Proof. exact entry_slist_model_eq_spec. Qed.
Print Assumptions c13_entry_slist_model_eq_spec.
