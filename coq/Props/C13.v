(* C13 — DList and SList keep exact sequence semantics with stable node handles.
   Property theorems only: each is closed by [exact] of a lemma from Proofs/, with Print Assumptions beneath.
   Models: Model/DList.v (heap level: next / prev / list / Value stores, two lists with sentinels 0 and 1; dlist_case,
   dexec; dspec_case / sexec = the sequence specification, container/list's documented behaviour on node ids),
   Model/SList.v (slist_case, sl_exec; sspec_case / q_exec).  A specification run is None when the operation sequence
   leaves its domain: unknown handle, Init of a non-empty list, node insertion (PushFrontNode, PushBackNode,
   InsertNodeBefore/After with a mark in the list, SList.Push*Node / InsertNodeAt) of a node that is still in a list. *)
From Coq Require Import List ZArith Bool.
From V Require Import Lib.Enc Model.DList Model.SList Run.C13 Proofs.DListRel Proofs.DListRun Proofs.SListInv Proofs.SListRun Proofs.C13Entry.
From V Require Import Lib.GoSem Lib.GoSemHeap Gen.SListCode Proofs.SListCode.
From V Require Gen.DListCode Proofs.DListCode Proofs.DListCopyCode.
Import ListNotations.

(* ---------------------------------------------------------------- DList *)
(* all operation sequences in the specification's domain — live, removed, never-inserted and foreign handles, Move*
   with every relative position, self-copies PushBackDList(l, l) / PushFrontDList(l, l), front-to-back, back-to-front
   and All traversals — from zero-value or initialised lists (z0, z1 arbitrary): no panic, no fuel exhaustion, and
   exactly the specification's results; in particular the results do not depend on z0, z1 (zero values are ready) *)
Theorem c13_dlist_refines_seq : forall z0 z1 ops outs, dspec_case ops = Some outs -> dlist_case z0 z1 ops = ROut outs.
Proof. exact dlist_refines_seq. Qed.
Print Assumptions c13_dlist_refines_seq.

(* the heap invariant R (Proofs/DListRel.v) holds in every reachable state: for both lists the next-ring from the
   sentinel is the sequence with prev its inverse (or the list is an untouched zero value), sequences duplicate-free
   and disjoint, len = length, e.list = the list that contains e and nil otherwise, nodes in no list have next = prev
   = nil, Value as in the specification *)
Theorem c13_dlist_inv : forall z0 z1 ops s', sexec dspec0 ops = Some s' ->
  exists h', dexec (heap0 z0 z1) ops = Some h' /\ R h' s'.
Proof. exact dlist_inv. Qed.
Print Assumptions c13_dlist_inv.

(* what R gives for a member e of list L between A and B *)
Theorem c13_dlist_inv_pointers : forall h s L A e B, R h s -> L < 2 -> seq_of s L = A ++ e :: B ->
  nxt h e = Some (List.hd L B) /\ prv h e = Some (List.last A L) /\ own h e = Some L /\ 2 <= e < fresh h.
Proof. exact dlist_inv_pointers. Qed.
Print Assumptions c13_dlist_inv_pointers.

(* ---------------------------------------------------------------- SList *)
(* all operation sequences in the specification's domain, all indices incl. out-of-range (Get / Remove reject, InsertAt
   clamps, Swap ignores), Front / Back / Len / Next-traversal / All consistent with the sequence *)
Theorem c13_slist_refines_seq : forall ops outs, sspec_case ops = Some outs -> slist_case ops = ROut outs.
Proof. exact slist_refines_seq. Qed.
Print Assumptions c13_slist_refines_seq.

(* RS (Proofs/SListInv.v): chain from head through exactly the ids to nil, ids duplicate-free, tail = last node,
   len = chain length, nodes not in the list have next = nil — in every reachable state *)
Theorem c13_slist_inv : forall ops q', q_exec sspec0 ops = Some q' -> exists s', sl_exec sl0 ops = Some s' /\ RS s' q'.
Proof. exact slist_inv. Qed.
Print Assumptions c13_slist_inv.

(* ---------------------------------------------------------------- the tie to what the check executes *)
Theorem c13_entry_dlist_model_eq_spec : forall z0 z1 toks,
  entry 1 (0 :: z0 :: z1 :: toks)%Z = [BADCASE] \/ entry 0 (0 :: z0 :: z1 :: toks)%Z = entry 1 (0 :: z0 :: z1 :: toks)%Z.
Proof. exact entry_dlist_model_eq_spec. Qed.
Print Assumptions c13_entry_dlist_model_eq_spec.

Theorem c13_entry_slist_model_eq_spec : forall z0 z1 toks,
  entry 1 (1 :: z0 :: z1 :: toks)%Z = [BADCASE] \/ entry 0 (1 :: z0 :: z1 :: toks)%Z = entry 1 (1 :: z0 :: z1 :: toks)%Z.
Proof. exact entry_slist_model_eq_spec. Qed.
Print Assumptions c13_entry_slist_model_eq_spec.

(* ---------------------------------------------------------------- the model of SList is what the code says *)
(* Gen/SListCode.v is produced on every run from listz/singly_list.go by the pointer extension of the Go -> Gallina
   translator (gen/trans_ext13.go, gen/TRANSLATOR.md "Extension [ext13]"): SNode lives in a heap (Record Heap: one store
   per field + the allocation counter; a *SNode is an id, nil = None, a nil dereference = Panic), SList is the receiver
   Record, every function is state-passing over (Heap, SList), statement by statement, loops on explicit fuel.
   to_model h l: the model state with nx / sv / fr = the heap's stores and counter and hd / tl / ln = the header's fields
   (heap_of / list_of: the way back); st_res / st_unit: the state goes back through them.
   Every generated function equals the function of Model/SList.v the property theorems above are about, for ALL heaps,
   headers and arguments (well-formed lists or not).  Fuel premises, explicit: the index walks of Get / Remove /
   InsertNodeAt / InsertAt need more fuel than steps; Swap is stated for the fuel of the model's own search loop
   (S (S fr)) + 1, whenever that search does not run out (it does not on the domain: c13_slist_refines_seq).
   Node arguments: PushFrontNode(nil) panics; for a non-nil node the model's function. *)
Theorem c13_slist_code_is_model :
  (forall h e, g_SNode_Next h e = mmap (fun v => (h, v)) (h_get (SNode_next h) e)) /\
  (forall h l, g_SList_Len h l = Ret (h, (l, ln (to_model h l)))) /\
  (forall h l, g_SList_Front h l = Ret (h, (l, hd (to_model h l)))) /\
  (forall h l, g_SList_Back h l = Ret (h, (l, tl (to_model h l)))) /\
  (forall h l i, g_SList_withinRange h l i = Ret (h, (l, within (to_model h l) i))) /\
  (forall fuel h l i, (Z.to_nat i < fuel)%nat ->
     g_SList_Get fuel h l i = mmap (fun e => (h, (l, e))) (lift (get (to_model h l) i))) /\
  (forall fuel h l i, (Z.to_nat i < fuel)%nat ->
     g_SList_Remove fuel h l i = mmap st_res (lift (remove_at (to_model h l) i))) /\
  (forall h l, g_SList_RemoveFront h l = mmap st_res (lift (remove_front (to_model h l)))) /\
  (forall h l e, g_SList_PushFrontNode h l (Some e) = Ret (st_unit (push_front_node (to_model h l) e))) /\
  (forall h l, g_SList_PushFrontNode h l None = Panic) /\
  (forall h l e, g_SList_PushBackNode h l (Some e) = mmap st_unit (lift (push_back_node (to_model h l) e))) /\
  (forall fuel h l i e, (Z.to_nat (i - 1) < fuel)%nat ->
     g_SList_InsertNodeAt fuel h l i (Some e) = mmap st_unit (lift (insert_node_at (to_model h l) i e))) /\
  (forall h l v, g_SList_PushFront h l v =
     Ret (st_unit (let (s1, e) := salloc1 (to_model h l) v in push_front_node s1 e))) /\
  (forall h l v, g_SList_PushBack h l v =
     mmap st_unit (lift (let (s1, e) := salloc1 (to_model h l) v in push_back_node s1 e))) /\
  (forall fuel h l i v, (Z.to_nat (i - 1) < fuel)%nat ->
     g_SList_InsertAt fuel h l i v =
     mmap st_unit (lift (let (s1, e) := salloc1 (to_model h l) v in insert_node_at s1 i e))) /\
  (forall h l i j, swap (to_model h l) i j <> SNoFuel ->
     g_SList_Swap (S (S (S (h_fresh h)))) h l i j = sres_m (swap (to_model h l) i j)) /\
  (forall h l, heap_of (to_model h l) = h /\ list_of (to_model h l) = l) /\
  (forall s, to_model (heap_of s) (list_of s) = s).
Proof.
  exact (conj code_Next (conj code_Len (conj code_Front (conj code_Back (conj code_withinRange (conj code_Get
        (conj code_Remove (conj code_RemoveFront (conj code_PushFrontNode (conj code_PushFrontNode_nil
        (conj code_PushBackNode (conj code_InsertNodeAt (conj code_PushFront (conj code_PushBack (conj code_InsertAt
        (conj code_Swap_model (conj of_to to_of))))))))))))))))).
Qed.
Print Assumptions c13_slist_code_is_model.

(* ---------------------------------------------------------------- ... and so is the pointer core of DList *)
(* Gen/DListCode.v: listz/doubly_list.go translated on every run by the same extension; DNode and DList live in ONE heap, the
   sentinel `root` is stored inline (&l.root = the id of l — the layout of Model/DList.v).  The statement (spelled out in
   Proofs/DListCode.v: dlist_code_is_model_stmt, printed below) says, for all heaps and all non-nil list / node ids:
   Len, Init, lazyInit, Front, Back, DNode.Next / Prev, insert, insertValue, remove, move = the model's llen, init,
   lazy_init, front, back, node_next / node_prev, insert, insert_value, remove, move; Remove, PushFront, PushBack,
   InsertBefore / After, PushFrontNode / PushBackNode, InsertNodeBefore / After, MoveToFront / ToBack / Before / After = their
   guards (owned) + lazy_init + the core, as in Model.DList.step.  NOT covered here: PushBackDList /
   PushFrontDList (next theorem), NewDoubly, iter.go (closures: outside the translator's fragment).  (The statement lives in Proofs/ because Gen/DListCode.v and Gen/SListCode.v both
   define Heap / mkHeap / h_fresh and this file imports the SList names.) *)
Theorem c13_dlist_code_is_model : V.Proofs.DListCode.dlist_code_is_model_stmt.
Proof. exact V.Proofs.DListCode.dlist_code_is_model. Qed.
Print V.Proofs.DListCode.dlist_code_is_model_stmt.
Print Assumptions c13_dlist_code_is_model.

(* the counted copy loops: PushBackDList / PushFrontDList as generated (loop on explicit fuel, the count other.Len() read once
   after lazyInit and before the first insertion, e.Value / l.root.prev re-read in every iteration, e advanced by Next / Prev)
   equal the model's copy_back / copy_front from (lazy_init h L), for all heaps and list ids L, L' — L' = L included: the
   self-copy runs exactly the captured number of iterations.  Fuel premise: more fuel than copies. *)
Theorem c13_dlist_copy_code_is_model : V.Proofs.DListCopyCode.dlist_copy_code_is_model_stmt.
Proof. exact V.Proofs.DListCopyCode.dlist_copy_code_is_model. Qed.
Print V.Proofs.DListCopyCode.dlist_copy_code_is_model_stmt.
Print Assumptions c13_dlist_copy_code_is_model.
