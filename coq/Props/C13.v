(* C13 — placeholder, theorems follow *)
From Coq Require Import List ZArith.
