(* C03 — RoaringBitmap behaves as a set of uint32 with complete ascending enumeration.
   Property theorems only: each is closed by [exact] of a lemma from Proofs/, with Print Assumptions beneath.
   Model: coq/Model/Roaring.v (thresholds arr_max / conv_len / bmp_words / buf_len / key_shift from coq/Gen/Roaring.v, i.e. from
   setz/roaring_bitmap.go).  The specification is a strictly ascending list of N (s_insert / s_delete / s_mem). *)
From Coq Require Import List NArith ZArith Bool Sorted.
From V Require Import Lib.Enc Gen.Roaring Model.Bits Model.Roaring.
From V Require Import Proofs.RoaringArr Proofs.RoaringCont Proofs.RoaringTop Proofs.RoaringIter Proofs.RoaringRefine.
From V Require Run.C03.
Import ListNotations.
Local Open Scope N_scope.

(* binary search on a strictly ascending slice returns the lower bound of x *)
Theorem c03_search_lower_bound : forall v x, sortedI v ->
  let r := search v (lenN v) x in
  r <= N.of_nat (length v) /\ (forall i, (i < N.to_nat r)%nat -> nth i v 0 < x) /\
  (forall i, (N.to_nat r <= i)%nat -> (i < length v)%nat -> x <= nth i v 0).
Proof. exact search_lower_bound. Qed.
Print Assumptions c03_search_lower_bound.

(* array container: Contains is membership, Remove is deletion with the right flag *)
Theorem c03_array_contains : forall v x, StronglySorted N.lt v -> a_contains v x = s_mem x v.
Proof. exact a_contains_spec. Qed.
Print Assumptions c03_array_contains.
Theorem c03_array_remove : forall v x, StronglySorted N.lt v -> a_remove v x = (s_delete x v, s_mem x v).
Proof. exact a_remove_spec. Qed.
Print Assumptions c03_array_remove.

(* the conversion at the threshold: for ANY arr_max ascending 16-bit values and a new x, the bitmap container holds exactly
   those values and x, has bmp_words words, and the cardinality written by hand (conv_len) is the true one *)
Theorem c03_convert : forall v buf x, StronglySorted N.lt v -> Forall (fun y => y < 65536) v -> x < 65536 ->
  lenN v = arr_max -> length buf = N.to_nat buf_len -> s_mem x v = false ->
  let (b, buf') := convert v buf x in
  mlist 0 (words b) = s_insert x v /\ length (words b) = N.to_nat bmp_words /\ cached b = Z.of_nat (len (words b)) /\
  length buf' = N.to_nat buf_len.
Proof. exact convert_spec. Qed.
Print Assumptions c03_convert.

(* either container kind: Add = sorted insertion with flag "was absent" (conversion included), Remove = deletion with flag
   "was present", Contains = membership; well-formedness (ascending, 16-bit, <= arr_max values / exact cache) is kept *)
Theorem c03_container_add : forall c x buf, cwf c -> x < 65536 -> length buf = N.to_nat buf_len ->
  let '(c', ok, buf') := c_add c x buf in
  cwf c' /\ cset c' = s_insert x (cset c) /\ ok = negb (s_mem x (cset c)) /\ length buf' = N.to_nat buf_len.
Proof. exact c_add_spec. Qed.
Print Assumptions c03_container_add.
Theorem c03_container_remove : forall c x, cwf c ->
  let (c', ok) := c_remove c x in cwf c' /\ cset c' = s_delete x (cset c) /\ ok = s_mem x (cset c).
Proof. exact c_remove_spec. Qed.
Print Assumptions c03_container_remove.

(* the bitmap: Add / Remove / Contains against the set, preserving the invariant (keys ascending, containers well-formed
   and NON-EMPTY, members = the set, len = cardinality) *)
Theorem c03_add : forall r s p, Inv r s -> p < 4294967296 ->
  let (r', ok) := r_add r p in Inv r' (s_insert p s) /\ ok = negb (s_mem p s).
Proof. exact r_add_spec. Qed.
Print Assumptions c03_add.
Theorem c03_remove : forall r s p, Inv r s -> p < 4294967296 ->
  let (r', ok) := r_remove r p in Inv r' (s_delete p s) /\ ok = s_mem p s.
Proof. exact r_remove_spec. Qed.
Print Assumptions c03_remove.
Theorem c03_contains : forall r s p, Inv r s -> p < 4294967296 -> r_contains r p = s_mem p s.
Proof. exact r_contains_spec. Qed.
Print Assumptions c03_contains.

(* Iter (Next/Value with a fresh inner iterator per bucket), Range and All enumerate exactly the set, ascending, across all
   buckets and both container kinds; Range/All stop after the callback's k-th call *)
Theorem c03_iter_enumerates : forall r s, Inv r s -> r_iter r = s.
Proof. exact r_iter_spec. Qed.
Print Assumptions c03_iter_enumerates.
Theorem c03_range_all : forall r s n, Inv r s -> r_range r n = match n with O => s | _ => firstn n s end.
Proof. exact r_range_spec. Qed.
Print Assumptions c03_range_all.
(* no empty bucket stays in the map: the number of containers is the number of distinct high parts *)
Theorem c03_buckets : forall r s, Inv r s -> length (conts r) = s_buckets s.
Proof. exact buckets_spec. Qed.
Print Assumptions c03_buckets.

(* the invariant holds in every state reachable from the zero value (it is satisfiable: Inv_empty) *)
Theorem c03_invariant : forall ops, Forall op_ok ops -> Inv (r_exec r_empty ops) (s_exec [] ops).
Proof. exact roaring_invariant. Qed.
Print Assumptions c03_invariant.

(* THE PROPERTY, sequence level: for EVERY sequence of Add / Remove / Contains over values below 2^32, Len, Iter, Range, All
   (with early stop) and Buckets, starting from the zero value, the outputs of the model equal the outputs of the
   mathematical set (op_ok o: the value of an Add/Remove/Contains is a uint32) *)
Theorem c03_roaring_refines_set : forall ops, Forall op_ok ops -> r_run r_empty ops = sr_run [] ops.
Proof. exact roaring_refines_set. Qed.
Print Assumptions c03_roaring_refines_set.

(* ... and therefore on every case of the correspondence run, whatever its integers: model output (sub 0) = specification
   output (sub 1) *)
Theorem c03_entry_model_eq_spec : forall args, Run.C03.entry 0 args = Run.C03.entry 1 args.
Proof. exact entry_model_eq_spec. Qed.
Print Assumptions c03_entry_model_eq_spec.
