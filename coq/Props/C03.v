(* C03 — RoaringBitmap behaves as a set of uint32 with complete ascending enumeration.
   Property theorems only: each is closed by [exact] of a lemma from Proofs/, with Print Assumptions beneath.
   Model: coq/Model/Roaring.v (thresholds arr_max / conv_len / bmp_words / buf_len / key_shift from coq/Gen/Roaring.v, i.e. from
   setz/roaring_bitmap.go).  The specification is a strictly ascending list of N (s_insert / s_delete / s_mem). *)
From Coq Require Import List NArith ZArith Bool Sorted.
From V Require Import Lib.Enc Gen.Roaring Model.Bits Model.Roaring.
From V Require Import Proofs.RoaringArr Proofs.RoaringCont Proofs.RoaringTop Proofs.RoaringIter Proofs.RoaringRefine.
From V Require Run.C03.
From V Require Import Lib.GoSem Proofs.RoaringCodeFacts Gen.RoaringCode Proofs.RoaringCode.   (* last: m_get / m_set are GoSem's *)
Import ListNotations.
Local Open Scope N_scope.

(* binary search on a strictly ascending slice returns the lower bound of x *)
Theorem c03_search_lower_bound : forall v x, sortedI v ->
  let r := search v (lenN v) x in
  r <= N.of_nat (length v) /\ (forall i, (i < N.to_nat r)%nat -> nth i v 0 < x) /\
  (forall i, (N.to_nat r <= i)%nat -> (i < length v)%nat -> x <= nth i v 0).
Proof. exact search_lower_bound. Qed.
Print Assumptions c03_search_lower_bound.

(* array container: Contains is membership, Remove is deletion with the right flag *)
Theorem c03_array_contains : forall v x, StronglySorted N.lt v -> a_contains v x = s_mem x v.
Proof. exact a_contains_spec. Qed.
Print Assumptions c03_array_contains.
Theorem c03_array_remove : forall v x, StronglySorted N.lt v -> a_remove v x = (s_delete x v, s_mem x v).
Proof. exact a_remove_spec. Qed.
Print Assumptions c03_array_remove.

(* the conversion at the threshold: for ANY arr_max ascending 16-bit values and a new x, the bitmap container holds exactly
   those values and x, has bmp_words words, and the cardinality written by hand (conv_len) is the true one *)
Theorem c03_convert : forall v buf x, StronglySorted N.lt v -> Forall (fun y => y < 65536) v -> x < 65536 ->
  lenN v = arr_max -> length buf = N.to_nat buf_len -> s_mem x v = false ->
  let (b, buf') := convert v buf x in
  mlist 0 (words b) = s_insert x v /\ length (words b) = N.to_nat bmp_words /\ cached b = Z.of_nat (len (words b)) /\
  length buf' = N.to_nat buf_len.
Proof. exact convert_spec. Qed.
Print Assumptions c03_convert.

(* either container kind: Add = sorted insertion with flag "was absent" (conversion included), Remove = deletion with flag
   "was present", Contains = membership; well-formedness (ascending, 16-bit, <= arr_max values / exact cache) is kept *)
Theorem c03_container_add : forall c x buf, cwf c -> x < 65536 -> length buf = N.to_nat buf_len ->
  let '(c', ok, buf') := c_add c x buf in
  cwf c' /\ cset c' = s_insert x (cset c) /\ ok = negb (s_mem x (cset c)) /\ length buf' = N.to_nat buf_len.
Proof. exact c_add_spec. Qed.
Print Assumptions c03_container_add.
Theorem c03_container_remove : forall c x, cwf c ->
  let (c', ok) := c_remove c x in cwf c' /\ cset c' = s_delete x (cset c) /\ ok = s_mem x (cset c).
Proof. exact c_remove_spec. Qed.
Print Assumptions c03_container_remove.

(* the bitmap: Add / Remove / Contains against the set, preserving the invariant (keys ascending, containers well-formed
   and NON-EMPTY, members = the set, len = cardinality) *)
Theorem c03_add : forall r s p, Inv r s -> p < 4294967296 ->
  let (r', ok) := r_add r p in Inv r' (s_insert p s) /\ ok = negb (s_mem p s).
Proof. exact r_add_spec. Qed.
Print Assumptions c03_add.
Theorem c03_remove : forall r s p, Inv r s -> p < 4294967296 ->
  let (r', ok) := r_remove r p in Inv r' (s_delete p s) /\ ok = s_mem p s.
Proof. exact r_remove_spec. Qed.
Print Assumptions c03_remove.
Theorem c03_contains : forall r s p, Inv r s -> p < 4294967296 -> r_contains r p = s_mem p s.
Proof. exact r_contains_spec. Qed.
Print Assumptions c03_contains.

(* Iter (Next/Value with a fresh inner iterator per bucket), Range and All enumerate exactly the set, ascending, across all
   buckets and both container kinds; Range/All stop after the callback's k-th call *)
Theorem c03_iter_enumerates : forall r s, Inv r s -> r_iter r = s.
Proof. exact r_iter_spec. Qed.
Print Assumptions c03_iter_enumerates.
Theorem c03_range_all : forall r s n, Inv r s -> r_range r n = match n with O => s | _ => firstn n s end.
Proof. exact r_range_spec. Qed.
Print Assumptions c03_range_all.
(* no empty bucket stays in the map: the number of containers is the number of distinct high parts *)
Theorem c03_buckets : forall r s, Inv r s -> length (conts r) = s_buckets s.
Proof. exact buckets_spec. Qed.
Print Assumptions c03_buckets.

(* the invariant holds in every state reachable from the zero value (it is satisfiable: Inv_empty) *)
Theorem c03_invariant : forall ops, Forall op_ok ops -> Inv (r_exec r_empty ops) (s_exec [] ops).
Proof. exact roaring_invariant. Qed.
Print Assumptions c03_invariant.

(* THE PROPERTY, sequence level: for EVERY sequence of Add / Remove / Contains over values below 2^32, Len, Iter, Range, All
   (with early stop) and Buckets, starting from the zero value, the outputs of the model equal the outputs of the
   mathematical set (op_ok o: the value of an Add/Remove/Contains is a uint32) *)
Theorem c03_roaring_refines_set : forall ops, Forall op_ok ops -> r_run r_empty ops = sr_run [] ops.
Proof. exact roaring_refines_set. Qed.
Print Assumptions c03_roaring_refines_set.

(* ... and therefore on every case of the correspondence run, whatever its integers: model output (sub 0) = specification
   output (sub 1) *)
Theorem c03_entry_model_eq_spec : forall args, Run.C03.entry 0 args = Run.C03.entry 1 args.
Proof. exact entry_model_eq_spec. Qed.
Print Assumptions c03_entry_model_eq_spec.

(* ---------------------------------------------------------------- the model is the code: the containers, translated *)
(* Gen/RoaringCode.v is produced on every run by the Go -> Gallina translator (gen/trans*.go, gen/roaring_code.go) from the CURRENT
   setz/roaring_bitmap.go and setz/bits.go: search, arrayContainer.{Contains, Remove, Add, Len, Type}, arrayContainerIter.{Next,
   Value}, bitmapContainer.{Add, Remove, Contains, Len, Type, setZero}, bitmapContainerIter.{Next, Value} and what they run on:
   Bitmap.{Add, Remove, Contains, add}, Bits.{Add, Remove, Len}, BitmapIter.{Next, Value}.  Each generated function equals the
   function of the hand model it is named after, for ALL model values (the generated code computes on Z and checked slices, the
   model on N and total lists: zl = map Z.of_N, of_arr / of_bm / of_bits / of_cont / of_aiter / of_iter are the total, injective
   conversions from model values to generated Records; Ret = normal completion, Panic = the Go code panics).
   Premises, all of them facts the Go types guarantee or fuel bounds:
     len_ok v      len(values) < 2^63 (a Go int): uint(low+high) does not wrap;
     words_ok set  the words are uint64 (the model's N is unbounded): w & ^(1<<bit) clears the bit;
     u16           the elements / buf entries / x are uint16: the conversion indexes a 1024-word bitmap with them (the private
                   Bitmap.add does not grow: code_Bitmap_add states the panic beyond the last word);
     fuel          length < fuel for search, 32 < fuel for setZero (32 rounds), length buf < fuel for the conversion,
                   65 < fuel and the remaining words < fuel for the iterator; the loops are equal to the model for every such fuel.
   arrayContainer.Add: the container returned, the changed flag and the scratch buffer are c_add's; the receiver afterwards is
   the new array (array branches) or the untouched old one (conversion).  The conversion reads the array's memory through
   unsafe.Pointer: the translation makes those 1024 words a PARAMETER (mem) and the theorem holds for every content of it,
   because setZero - proved here, for the loop in the source - clears all bmp_words words before the values are added.
   Iterators: n = i + 1 for the array iterator; Value panics outside 1 <= n <= len, which the statement says; an exhausted
   bitmap iterator stops in end_iter.  BitmapIter.Value is stated with the uint wrap the code has (wrap 64).
   Of RoaringBitmap.Add / Remove / Contains themselves only the leading declarations  high := uint16(num >> 16); low := uint16(num)
   are translated (g_…_head): they are the model's hi / lo for every num; what follows goes through listz.SkipList and is not translated. *)
Theorem c03_code_is_model :
  (forall fuel v x, len_ok v -> (length v < fuel)%nat ->
     g_search fuel (zl v) (Z.of_N x) = Ret (Z.of_N (search v (lenN v) x))) /\
  (forall fuel v x, len_ok v -> (length v < fuel)%nat ->
     g_search fuel (zl v) (Z.of_N x) = Ret (Z.of_N (search_loop fuel v x 0 (lenN v)))) /\
  (forall fuel v x, len_ok v -> (length v < fuel)%nat ->
     g_arrayContainer_Contains fuel (of_arr v) (Z.of_N x) = Ret (a_contains v x)) /\
  (forall fuel v x, len_ok v -> (length v < fuel)%nat ->
     g_arrayContainer_Remove fuel (of_arr v) (Z.of_N x) = Ret (of_arr (fst (a_remove v x)), snd (a_remove v x))) /\
  (forall fuel v x buf mem,
     len_ok v -> (length v < fuel)%nat -> (32 < fuel)%nat -> (length buf < fuel)%nat ->
     Forall u16 v -> Forall u16 buf -> u16 x -> length mem = N.to_nat bmp_words ->
     g_arrayContainer_Add fuel (of_arr v) (Z.of_N x) (zl buf) (zl mem) =
     Ret (let '(c', ok, buf') := c_add (Arr v) x buf in
          (of_arr (match c' with Arr v' => v' | Bmp _ => v end), (zl buf', (of_cont c', ok))))) /\
  (forall v, g_arrayContainer_Len (of_arr v) = Ret (c_len (Arr v))) /\
  (forall ac, g_arrayContainer_Type ac = Ret 1%Z) /\
  (forall v n, g_arrayContainerIter_Next (of_aiter v n) =
     Ret (match inner_next (Arr v) (IArr n) with Some (IArr n') => (of_aiter v n', true) | _ => (of_aiter v n, false) end)) /\
  (forall v n, g_arrayContainerIter_Value (of_aiter v n) =
     if (1 <=? n) && (n <=? lenN v) then Ret (Z.of_N (inner_value (Arr v) (IArr n))) else Panic) /\
  (forall set num, g_Bitmap_Contains (of_bm set) (Z.of_N num) = Ret (contains set num)) /\
  (forall set num, g_Bitmap_Add (of_bm set) (Z.of_N num) = Ret (of_bm (fst (add set num)), snd (add set num))) /\
  (forall set num, words_ok set ->
     g_Bitmap_Remove (of_bm set) (Z.of_N num) = Ret (of_bm (fst (remove set num)), snd (remove set num))) /\
  (forall set num, g_Bitmap_add (of_bm set) (Z.of_N num) =
     if (widx num <? length set)%nat then Ret (of_bm (set_bit set num)) else Panic) /\
  (forall b num, g_Bits_Add (of_bits b) (Z.of_N num) = Ret (of_bits (fst (b_add b num)), snd (b_add b num))) /\
  (forall b num, words_ok (words b) ->
     g_Bits_Remove (of_bits b) (Z.of_N num) = Ret (of_bits (fst (b_remove b num)), snd (b_remove b num))) /\
  (forall b, g_Bits_Len (of_bits b) = Ret (cached b)) /\
  (forall b x buf, g_bitmapContainer_Add (of_bits b) (Z.of_N x) (zl buf) =
     Ret (let '(c', ok, _) := c_add (Bmp b) x buf in (of_bits (fst (b_add b x)), (of_cont c', ok)))) /\
  (forall b x, words_ok (words b) -> g_bitmapContainer_Remove (of_bits b) (Z.of_N x) =
     Ret (let (c', ok) := c_remove (Bmp b) x in (of_bits (fst (b_remove b x)), ok))) /\
  (forall b x, g_bitmapContainer_Contains (of_bits b) (Z.of_N x) = Ret (c_contains (Bmp b) x)) /\
  (forall b, g_bitmapContainer_Len (of_bits b) = Ret (c_len (Bmp b))) /\
  (forall b, g_bitmapContainer_Type b = Ret 2%Z) /\
  (forall fuel b, length (words b) = N.to_nat bmp_words -> (32 < fuel)%nat ->
     g_bitmapContainer_setZero fuel (of_bits b) =
     Ret (of_bits {| words := repeat 0 (N.to_nat bmp_words); cached := cached b |})) /\
  (forall fuel set it, (65 < fuel)%nat -> (length set - wi it < fuel)%nat ->
     g_BitmapIter_Next fuel (of_iter set it) =
     Ret (match bnext set it with Some it' => (of_iter set it', true) | None => (of_iter set (end_iter set it), false) end)) /\
  (forall set it, g_BitmapIter_Value (of_iter set it) = Ret (wrap 64 (Z.of_N (value it)))) /\
  (forall fuel b it, (65 < fuel)%nat -> (length (words b) - wi it < fuel)%nat ->
     g_bitmapContainerIter_Next fuel (of_iter (words b) it) =
     Ret (match inner_next (Bmp b) (IBmp it) with
          | Some (IBmp it') => (of_iter (words b) it', true)
          | _ => (of_iter (words b) (end_iter (words b) it), false)
          end)) /\
  (forall b it, g_bitmapContainerIter_Value (of_iter (words b) it) = Ret (Z.of_N (inner_value (Bmp b) (IBmp it)))) /\
  (forall num, g_RoaringBitmap_Add_head (Z.of_N num) = Ret (Z.of_N (hi num), Z.of_N (lo num))) /\
  (forall num, g_RoaringBitmap_Remove_head (Z.of_N num) = Ret (Z.of_N (hi num), Z.of_N (lo num))) /\
  (forall num, g_RoaringBitmap_Contains_head (Z.of_N num) = Ret (Z.of_N (hi num), Z.of_N (lo num))).
Proof.
  exact (conj code_search (conj code_search_fuel (conj code_arrayContainer_Contains (conj code_arrayContainer_Remove
        (conj code_arrayContainer_Add (conj code_arrayContainer_Len (conj code_arrayContainer_Type
        (conj code_arrayContainerIter_Next (conj code_arrayContainerIter_Value (conj code_Bitmap_Contains (conj code_Bitmap_Add
        (conj code_Bitmap_Remove (conj code_Bitmap_add (conj code_Bits_Add (conj code_Bits_Remove (conj code_Bits_Len
        (conj code_bitmapContainer_Add (conj code_bitmapContainer_Remove (conj code_bitmapContainer_Contains
        (conj code_bitmapContainer_Len (conj code_bitmapContainer_Type (conj code_setZero (conj code_BitmapIter_Next
        (conj code_BitmapIter_Value (conj code_bitmapContainerIter_Next (conj code_bitmapContainerIter_Value
        (conj code_Add_head (conj code_Remove_head code_Contains_head)))))))))))))))))))))))))))).
Qed.
Print Assumptions c03_code_is_model.
