From V Require Import Model.Roaring.
